import EdpVerif.Lemmas.ElixirLists
import EdpVerif.Lemmas.SortedInsert
/-!
C20: the `Asc` shape (keys of a `BTreeMap` / elements of a `BTreeSet` in strictly ascending order) holds of every
collection the library can build, by C11's order laws (`Lemmas/OrderTrans.lean`, `Lemmas/SortedInsert.lean`); and
inserting entries with pairwise different keys only permutes them (no order law needed).
-/
namespace Edp.Ex
open Edp Edp.Term

theorem asc_iff_sorted (m : List (Term × Term)) : Asc (m.map (·.1)) ↔ keysSorted m := by
  unfold Asc keysSorted
  rw [List.pairwise_map]
  constructor <;> intro h <;> refine List.Pairwise.imp ?_ h <;> intro a b hab
  · exact (cmp_gt_iff b.1 a.1).mp hab
  · exact (cmp_gt_iff b.1 a.1).mpr hab

/-- a set is a map with unit values -/
def unitKV (l : List Term) : List (Term × Term) := l.map fun e => (e, Term.nil)

theorem unitKV_keys (l : List Term) : (unitKV l).map (·.1) = l := by
  unfold unitKV; rw [List.map_map]; exact List.map_id' l

theorem setInsert_eq (l : List Term) (t : Term) : setInsert l t = (mapInsert (unitKV l) t .nil).map (·.1) := by
  induction l with
  | nil => rfl
  | cons a r ih =>
    simp only [unitKV, List.map_cons, setInsert, mapInsert]
    cases Term.cmp t a with
    | lt => have := unitKV_keys r; unfold unitKV at this; simp [this]
    | eq => have := unitKV_keys r; unfold unitKV at this; simp [this]
    | gt =>
      simp only [List.map_cons]
      rw [ih]; rfl

theorem setInsert_mem (l : List Term) (t x : Term) (h : x ∈ setInsert l t) : x ∈ l ∨ x = t := by
  induction l with
  | nil => simp [setInsert] at h; exact .inr h
  | cons a r ih =>
    simp only [setInsert] at h
    cases hc : Term.cmp t a <;> simp only [hc] at h
    · rcases List.mem_cons.mp h with rfl | h
      · exact .inr rfl
      · exact .inl h
    · exact .inl h
    · rcases List.mem_cons.mp h with rfl | h
      · exact .inl (by simp)
      · rcases ih h with h1 | h1
        · exact .inl (List.mem_cons_of_mem _ h1)
        · exact .inr h1

/-- `BTreeSet::insert` keeps the elements strictly ascending (C11: transitivity) -/
theorem setInsert_asc (l : List Term) (t : Term) (ht : WFo t) (hl : ∀ x ∈ l, WFo x) (ha : Asc l) : Asc (setInsert l t) := by
  have hk : keysSorted (unitKV l) := (asc_iff_sorted _).mp (by rw [unitKV_keys]; exact ha)
  have hw : ∀ p ∈ unitKV l, WFo p.1 := by
    intro p hp
    simp only [unitKV, List.mem_map] at hp
    obtain ⟨e, he, rfl⟩ := hp
    exact hl e he
  have := mapInsert_sorted (unitKV l) t .nil ht hw hk
  rw [setInsert_eq]
  exact (asc_iff_sorted _).mpr this

theorem foldl_setInsert_wf (l acc : List Term) (hl : ∀ x ∈ l, WFo x) (hacc : ∀ x ∈ acc, WFo x) :
    ∀ x ∈ l.foldl setInsert acc, WFo x := by
  induction l generalizing acc with
  | nil => exact hacc
  | cons a r ih =>
    simp only [List.foldl_cons]
    apply ih _ (fun x hx => hl x (List.mem_cons_of_mem _ hx))
    intro x hx
    rcases setInsert_mem acc a x hx with h | h
    · exact hacc x h
    · subst h; exact hl _ (by simp)

/-- any sequence of inserts into an ascending set leaves it ascending -/
theorem foldl_setInsert_sorted (l acc : List Term) (hl : ∀ x ∈ l, WFo x) (hacc : ∀ x ∈ acc, WFo x) (ha : Asc acc) :
    Asc (l.foldl setInsert acc) := by
  induction l generalizing acc with
  | nil => exact ha
  | cons a r ih =>
    simp only [List.foldl_cons]
    apply ih _ (fun x hx => hl x (List.mem_cons_of_mem _ hx))
    · intro x hx
      rcases setInsert_mem acc a x hx with h | h
      · exact hacc x h
      · subst h; exact hl _ (by simp)
    · exact setInsert_asc acc a (hl a (by simp)) hacc ha

theorem setRemove_sublist (l : List Term) (t : Term) : (setRemove l t).Sublist l := by
  induction l with
  | nil => exact List.Sublist.refl _
  | cons a r ih =>
    simp only [setRemove]
    cases Term.cmp t a with
    | lt => exact List.Sublist.refl _
    | eq => exact List.sublist_cons_self a r
    | gt => exact List.Sublist.cons_cons a ih

theorem asc_sublist {l l' : List Term} (h : l'.Sublist l) (ha : Asc l) : Asc l' := List.Pairwise.sublist h ha

/-- the keys of any map built by inserts are ascending (`C11_sorted_build`, restated for the accumulator form) -/
theorem foldl_mapInsert_sorted {α : Type} (kf vf : α → Term) (l : List α) (acc : List (Term × Term))
    (hl : ∀ e ∈ l, WFo (kf e)) (hacc : ∀ p ∈ acc, WFo p.1) (hs : keysSorted acc) :
    keysSorted (l.foldl (fun m e => mapInsert m (kf e) (vf e)) acc) ∧
      ∀ p ∈ l.foldl (fun m e => mapInsert m (kf e) (vf e)) acc, WFo p.1 := by
  induction l generalizing acc with
  | nil => exact ⟨hs, hacc⟩
  | cons a r ih =>
    simp only [List.foldl_cons]
    exact ih _ (fun e he => hl e (List.mem_cons_of_mem _ he))
      (mapInsert_wf acc _ _ (hl a (by simp)) hacc) (mapInsert_sorted acc _ _ (hl a (by simp)) hacc hs)

/-! ### inserting a key that is not yet there only permutes (no order law needed) -/

theorem mapInsert_perm (m : List (Term × Term)) (k v : Term) (h : ∀ p ∈ m, Term.cmp k p.1 ≠ .eq) :
    (mapInsert m k v).Perm ((k, v) :: m) := by
  induction m with
  | nil => exact List.Perm.refl _
  | cons p r ih =>
    obtain ⟨k', v'⟩ := p
    simp only [mapInsert]
    cases hc : Term.cmp k k' with
    | lt => exact List.Perm.refl _
    | eq => exact absurd hc (h (k', v') (by simp))
    | gt =>
      simp only
      exact (List.Perm.cons _ (ih (fun q hq => h q (List.mem_cons_of_mem _ hq)))).trans (List.Perm.swap _ _ _)

theorem foldl_mapInsert_perm (l acc : List (Term × Term))
    (hd : l.Pairwise (fun a b => Term.cmp a.1 b.1 ≠ .eq))
    (hx : ∀ p ∈ acc, ∀ q ∈ l, Term.cmp q.1 p.1 ≠ .eq) :
    (l.foldl (fun m kv => mapInsert m kv.1 kv.2) acc).Perm (acc ++ l) := by
  induction l generalizing acc with
  | nil => simp
  | cons a r ih =>
    rw [List.pairwise_cons] at hd
    simp only [List.foldl_cons]
    have h1 : (mapInsert acc a.1 a.2).Perm (a :: acc) := mapInsert_perm acc a.1 a.2 (fun p hp => hx p hp a (by simp))
    have h2 := ih (mapInsert acc a.1 a.2) hd.2 (by
      intro p hp q hq
      have : p ∈ a :: acc := h1.subset hp
      rcases List.mem_cons.mp this with rfl | hp'
      · intro he
        have := hd.1 q hq
        rw [cmp_swap] at this
        rw [he] at this
        exact this rfl
      · exact hx p hp' q (List.mem_cons_of_mem _ hq))
    refine h2.trans ?_
    refine (List.Perm.append_right r h1).trans ?_
    simp only [List.cons_append]
    exact (List.perm_middle (a := a) (l₁ := acc) (l₂ := r)).symm

/-! ### the inner map of a map set, and its wire image -/

theorem mapInsert_unitKV (l : List Term) (t : Term) : mapInsert (unitKV l) t .nil = unitKV (setInsert l t) := by
  induction l with
  | nil => rfl
  | cons a r ih =>
    simp only [unitKV, List.map_cons, setInsert, mapInsert]
    cases Term.cmp t a with
    | lt => rfl
    | eq => rfl
    | gt =>
      simp only [List.map_cons]
      unfold unitKV at ih
      rw [ih]

theorem wireNormKV_unit (l acc : List Term) :
    wireNormKV (l.map fun e => (e, Term.list [])) (unitKV acc) = unitKV ((l.map wireNorm).foldl setInsert acc) := by
  induction l generalizing acc with
  | nil => rfl
  | cons a r ih =>
    simp only [List.map_cons, wireNormKV, List.foldl_cons]
    have : wireNorm (Term.list []) = Term.nil := by simp [wireNorm]
    rw [this, mapInsert_unitKV]
    exact ih _

theorem isNilAtom_wireNorm (t : Term) : isNilAtom (wireNorm t) = isNilAtom t := by
  cases t with
  | int i => simp only [wireNorm, wireInt]; split <;> simp [isNilAtom, atomName]
  | list l => cases l <;> simp [wireNorm, isNilAtom, atomName]
  | ilist l tl => simp only [wireNorm]; split <;> simp [isNilAtom, atomName]
  | _ => simp [wireNorm, isNilAtom, atomName]

end Edp.Ex
