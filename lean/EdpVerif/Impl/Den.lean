import EdpVerif.Impl.Cmp
import EdpVerif.Spec.Value
/- The Erlang value a term denotes (`den`), the bridge between `Impl` and `Spec`. -/
namespace Edp

def cps (a : Bytes) : List Nat := (utf8Decode a).getD []

def bigVal (neg : Bool) (d : Bytes) : Int := if neg then -(magVal d : Int) else magVal d

namespace Term

mutual
def den : Term → Value
  | .atom n => .atom (cps n)
  | .int i => .int i
  | .float b => .float b
  | .pid p => .pid (cps p.node) p.id p.serial p.creation
  | .port n i c _ => .port (cps n) i c
  | .ref n c ids _ => .ref (cps n) c ids
  | .bin b => Value.mkBits b 8
  | .bits b n => Value.mkBits b n
  | .str s => Value.mkBits s 8
  | .list l => Value.mkList (denL l) .nil
  | .ilist l t => Value.mkList (denL l) (den t)
  | .map kvs => .map (denKV kvs)
  | .tuple l => .tuple (denL l)
  | .big neg d => .int (bigVal neg d)
  | .xfun m f a => .xfun (cps m) (cps f) a
  | .ifun a u i nf m oi ou p fr =>
    .ifun a u i nf (cps m) oi ou (.pid (cps p.node) p.id p.serial p.creation) (denL fr)
  | .nil => .nil
def denL : List Term → List Value
  | [] => []
  | t :: ts => den t :: denL ts
def denKV : List (Term × Term) → List (Value × Value)
  | [] => []
  | (k, v) :: r => (den k, den v) :: denKV r
end

end Term
end Edp
