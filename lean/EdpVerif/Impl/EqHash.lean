import EdpVerif.Impl.Cmp
/-
Model of `PartialEq for OwnedTerm` (derived, term.rs:32; the identifier structs compare their identifying fields and
ignore `local_ext_bytes`, types.rs) and of `impl Hash for OwnedTerm` (term.rs): `hashBytes t` is the exact byte
stream `t.hash(&mut h)` feeds to the hasher (every `Hasher::write*` call, concatenated; `usize`/`isize` are 8 bytes,
little endian).  Tied to the code by a recording `Hasher` in harness/src/c11.rs.
-/
namespace Edp

/-- `f64 == f64` on bit patterns: NaN equals nothing, `0.0 == -0.0` -/
def floatEq (a b : Nat) : Bool :=
  !(f64 a).isNaN && !(f64 b).isNaN &&
    (((f64 a).isZero && (f64 b).isZero) ||
      ((f64 a).neg == (f64 b).neg && (f64 a).exp == (f64 b).exp && (f64 a).frac == (f64 b).frac))

def pidEq (p q : PidF) : Bool := p.node == q.node && p.id == q.id && p.serial == q.serial && p.creation == q.creation

namespace Term
mutual
/-- `a == b` -/
def eqv : Term → Term → Bool
  | .atom a, .atom b => a == b
  | .int a, .int b => a == b
  | .float a, .float b => floatEq a b
  | .pid p, .pid q => pidEq p q
  | .port n i c _, .port n2 i2 c2 _ => n == n2 && i == i2 && c == c2
  | .ref n c ids _, .ref n2 c2 ids2 _ => n == n2 && c == c2 && ids == ids2
  | .bin a, .bin b => a == b
  | .bits a n, .bits b m => a == b && n == m
  | .str a, .str b => a == b
  | .list a, .list b => eqvL a b
  | .ilist a t, .ilist b u => eqvL a b && eqv t u
  | .map a, .map b => eqvKV a b
  | .tuple a, .tuple b => eqvL a b
  | .big n d, .big n2 d2 => n == n2 && d == d2
  | .xfun m f a, .xfun m2 f2 a2 => m == m2 && f == f2 && a == a2
  | .ifun a u i nf m oi ou p fr, .ifun a2 u2 i2 nf2 m2 oi2 ou2 p2 fr2 =>
    a == a2 && u == u2 && i == i2 && nf == nf2 && m == m2 && oi == oi2 && ou == ou2 && pidEq p p2 && eqvL fr fr2
  | .nil, .nil => true
  | _, _ => false
/-- `Vec<OwnedTerm> == Vec<OwnedTerm>` -/
def eqvL : List Term → List Term → Bool
  | [], [] => true
  | x :: xs, y :: ys => eqv x y && eqvL xs ys
  | _, _ => false
/-- `BTreeMap == BTreeMap`: same length, entries pairwise `==` in iteration order -/
def eqvKV : List (Term × Term) → List (Term × Term) → Bool
  | [], [] => true
  | (k, v) :: r, (k2, v2) :: r2 => eqv k k2 && eqv v v2 && eqvKV r r2
  | _, _ => false
end
end Term

/-- `k` little-endian bytes of `n` -/
def leB : Nat → Nat → Bytes
  | 0, _ => []
  | k + 1, n => UInt8.ofNat (n % 256) :: leB k (n / 256)

/-- `usize`/`isize`/`u64` -/
def hU64 (n : Nat) : Bytes := leB 8 n
def hU32 (n : Nat) : Bytes := leB 4 n
/-- `str::hash`: the bytes, then `0xff` -/
def hStr (s : Bytes) : Bytes := s ++ [255]
/-- `[u8]::hash`: length prefix, then the bytes -/
def hVecU8 (b : Bytes) : Bytes := hU64 b.length ++ b
def hPid (p : PidF) : Bytes := hStr p.node ++ hU32 p.id ++ hU32 p.serial ++ hU32 p.creation

namespace Term
mutual
def hashBytes : Term → Bytes
  | .atom a => hU64 0 ++ hStr a
  | .int i => hU64 1 ++ hU64 (i % 18446744073709551616).toNat
  | .float b => hU64 2 ++ hU64 (if (f64 b).isZero then 0 else b)
  | .pid p => hU64 3 ++ hPid p
  | .port n i c _ => hU64 4 ++ hStr n ++ hU64 i ++ hU32 c
  | .ref n c ids _ => hU64 5 ++ hStr n ++ hU32 c ++ hU64 ids.length ++ ids.flatMap hU32
  | .bin b => hU64 6 ++ hVecU8 b
  | .bits b n => hU64 7 ++ hVecU8 b ++ [UInt8.ofNat n]
  | .str s => hU64 8 ++ hStr s
  | .list l => hU64 9 ++ hU64 l.length ++ hashL l
  | .ilist l t => hU64 10 ++ hU64 l.length ++ hashL l ++ hashBytes t
  | .map kvs => hU64 11 ++ hU64 kvs.length ++ hashKV kvs
  | .tuple l => hU64 12 ++ hU64 l.length ++ hashL l
  | .big neg d => hU64 13 ++ hU64 (if neg then 1 else 0) ++ hVecU8 d
  | .xfun m f a => hU64 14 ++ hStr m ++ hStr f ++ [UInt8.ofNat a]
  | .ifun a u i nf m oi ou p fr =>
    hU64 15 ++ [UInt8.ofNat a] ++ hVecU8 u ++ hU32 i ++ hU32 nf ++ hStr m ++ hU32 oi ++ hU32 ou ++ hPid p ++ hashL fr
  | .nil => hU64 16
def hashL : List Term → Bytes
  | [] => []
  | t :: ts => hashBytes t ++ hashL ts
def hashKV : List (Term × Term) → Bytes
  | [] => []
  | (k, v) :: r => hashBytes k ++ hashBytes v ++ hashKV r
end
end Term
end Edp
