import EdpVerif.Impl.Framing
import EdpVerif.Lemmas.Framing
/-
C05 — framing is invariant under how the transport splits the byte stream.
Property theorems only; the model is EdpVerif/Impl/Framing.lean, helper lemmas are in EdpVerif/Lemmas/Framing.lean.

Vocabulary: a read script `evs : List Ev` says what every successive `poll_read` of the transport does; `Clean evs`
means it only returns `Pending` or a non-empty read (a live connection); `payload evs` is the byte stream it delivers;
an exhausted script is end of stream. `readAll cap mode evs` calls `read_framed` until its first error and lists every
result; `recvAll cap evs` does the same with the second copy of the loop (`receive_message_from_read_half`).
-/
namespace Edp.Props.C05
open Edp Edp.Framing

/-! ### the writer -/

/-- the streaming writer puts the one-shot frame on the wire, through every sink behaviour (partial acceptance,
`Pending`, failure): what the sink accepted is always a prefix of `frame_message`'s bytes, all of them followed by
exactly one flush on success, strictly fewer and no flush on failure; and a sink that never fails or accepts zero
bytes makes it succeed. -/
theorem C05_writer_eq_oneshot (mode : Mode) (msg : Bytes) (s : List WEv) :
    (writeFramed mode msg s).chunks.flatten <+: frame mode msg ∧
    ((writeFramed mode msg s).res = .ok () →
      (writeFramed mode msg s).chunks.flatten = frame mode msg ∧ (writeFramed mode msg s).flushes = 1) ∧
    (∀ e, (writeFramed mode msg s).res = .error e →
      (writeFramed mode msg s).chunks.flatten.length < (frame mode msg).length ∧ (writeFramed mode msg s).flushes = 0) ∧
    (GoodSink s → (writeFramed mode msg s).res = .ok ()) := by
  obtain ⟨a1, a2, a3⟩ := writeAll_spec s (beN mode.prefixSize msg.length)
  obtain ⟨b1, b2, b3⟩ := writeAll_spec (writeAll (beN mode.prefixSize msg.length) s).rest msg
  cases h1 : (writeAll (beN mode.prefixSize msg.length) s).res with
  | error e =>
    have hw : writeFramed mode msg s = ⟨.error e, (writeAll (beN mode.prefixSize msg.length) s).chunks, 0⟩ := by
      simp only [writeFramed, h1]
    rw [hw]
    simp only [frame]
    have := a3 e h1
    refine ⟨?_, by simp, ?_, ?_⟩
    · obtain ⟨u, hu⟩ := a1
      exact ⟨u ++ msg, by rw [← List.append_assoc, hu]⟩
    · intro e' _
      refine ⟨by rw [List.length_append]; omega, by first | rfl | trivial⟩
    · intro hg
      have := (writeAll_good s (beN mode.prefixSize msg.length) hg).1
      rw [h1] at this
      simp at this
  | ok u =>
    cases u
    have e1 := a2 h1
    cases h2 : (writeAll msg (writeAll (beN mode.prefixSize msg.length) s).rest).res with
    | error e =>
      have hw : writeFramed mode msg s = ⟨.error e, (writeAll (beN mode.prefixSize msg.length) s).chunks ++
          (writeAll msg (writeAll (beN mode.prefixSize msg.length) s).rest).chunks, 0⟩ := by
        simp only [writeFramed, h1, h2]
      rw [hw]
      simp only [frame]
      have := b3 e h2
      refine ⟨?_, by simp, ?_, ?_⟩
      · rw [List.flatten_append, e1]
        obtain ⟨u, hu⟩ := b1
        exact ⟨u, by rw [List.append_assoc, hu]⟩
      · intro e' _
        refine ⟨?_, by first | rfl | trivial⟩
        rw [List.flatten_append, e1, List.length_append, List.length_append]; omega
      · intro hg
        have := (writeAll_good _ msg (writeAll_good s (beN mode.prefixSize msg.length) hg).2).1
        rw [h2] at this
        simp at this
    | ok u =>
      cases u
      have hw : writeFramed mode msg s = ⟨.ok (), (writeAll (beN mode.prefixSize msg.length) s).chunks ++
          (writeAll msg (writeAll (beN mode.prefixSize msg.length) s).rest).chunks, 1⟩ := by
        simp only [writeFramed, h1, h2]
      rw [hw]
      simp only [frame]
      have e2 := b2 h2
      refine ⟨?_, ?_, by simp, by simp⟩
      · rw [List.flatten_append, e1, e2]; exact List.prefix_refl _
      · intro _
        exact ⟨by rw [List.flatten_append, e1, e2], by first | rfl | trivial⟩

example : GoodSink [.accept 1, .pending, .accept 3] := by simp [GoodSink]
example : (writeFramed .handshake [7, 8] [.accept 1, .pending, .accept 3]).chunks = [[0], [2], [7, 8]] := by decide
example : (writeFramed .distribution [7, 8] [.accept 3, .accept 0]).chunks = [[0, 0, 0]] := by decide

/-! ### the reader: split invariance -/

/-- **Split invariance.** For every list of messages that fit the length prefix and the cap, and every clean script
whose byte stream is the concatenation of their frames — however it is cut into reads, with `Pending` anywhere —
`read_framed` returns exactly the messages, in order, and then reports end of stream. -/
theorem C05_split_invariance (mode : Mode) (msgs : List Bytes)
    (h : ∀ m ∈ msgs, fits mode m ∧ m.length ≤ framingCap) (evs : List Ev) (hc : Clean evs)
    (hp : payload evs = (msgs.map (frame mode)).flatten) :
    readAll framingCap mode evs = msgs.map .ok ++ [.error .eof] := by
  have := readAll_clean framingCap mode [] msgs evs h hc hp
  rw [List.append_nil, readAll_nil] at this
  exact this

example : readAll framingCap .handshake [.chunk [0], .pending, .chunk [1, 7, 0], .chunk [0]]
    = [.ok [7], .ok []] ++ [.error .eof] :=
  C05_split_invariance .handshake [[7], []] (by decide) _ (by simp [Clean]) (by decide)

/-- the same in compositional form: whatever follows the frames in the script (more data, end of stream, a failure) is
seen by the reads that follow, untouched -/
theorem C05_split_invariance_then (mode : Mode) (msgs : List Bytes)
    (h : ∀ m ∈ msgs, fits mode m ∧ m.length ≤ framingCap) (c tail : List Ev) (hc : Clean c)
    (hp : payload c = (msgs.map (frame mode)).flatten) :
    readAll framingCap mode (c ++ tail) = msgs.map .ok ++ readAll framingCap mode tail :=
  readAll_clean framingCap mode tail msgs c h hc hp

example : readAll framingCap .distribution ([.chunk [0, 0], .chunk [0, 1, 9]] ++ [.fail])
    = [.ok [9]] ++ readAll framingCap .distribution [.fail] :=
  C05_split_invariance_then .distribution [[9]] (by decide) _ _ (by simp [Clean]) (by decide)

/-- two transports that deliver the same frames give the same results, whatever their segmentation -/
theorem C05_chunking_irrelevant (mode : Mode) (msgs : List Bytes)
    (h : ∀ m ∈ msgs, fits mode m ∧ m.length ≤ framingCap) (evs₁ evs₂ : List Ev) (hc₁ : Clean evs₁) (hc₂ : Clean evs₂)
    (hp₁ : payload evs₁ = (msgs.map (frame mode)).flatten) (hp₂ : payload evs₂ = (msgs.map (frame mode)).flatten) :
    readAll framingCap mode evs₁ = readAll framingCap mode evs₂ := by
  rw [C05_split_invariance mode msgs h evs₁ hc₁ hp₁, C05_split_invariance mode msgs h evs₂ hc₂ hp₂]

example : readAll framingCap .handshake [.chunk [0, 1, 5]] = readAll framingCap .handshake [.chunk [0], .pending, .chunk [1], .chunk [5]] :=
  C05_chunking_irrelevant .handshake [[5]] (by decide) _ _ (by simp [Clean]) (by simp [Clean]) (by decide) (by decide)

/-- **Never a short message (all scripts).** On every script whatsoever — end of stream, failures and empty reads
anywhere — a message returned by `read_framed` is exactly the next frame of the delivered stream: the declared length
is its length, it fits, it is within the cap, and the script that is left delivers exactly the bytes after the frame. -/
theorem C05_ok_is_exact_frame (mode : Mode) (evs : List Ev) (m : Bytes)
    (h : (readFramed framingCap mode evs).res = .ok m) :
    payload evs = frame mode m ++ payload (readFramed framingCap mode evs).rest ∧ fits mode m ∧
      m.length ≤ framingCap := by
  obtain ⟨h1, h2, h3, _⟩ := readFramed_ok framingCap mode evs m h
  exact ⟨h1, h2, h3⟩

example : (readFramed framingCap .handshake [.chunk [0], .chunk [2, 4], .pending, .chunk [4, 9]]).res = .ok [4, 4] := by rfl

/-- a zero length is a tick: an empty message, nothing allocated, the rest of the stream untouched -/
theorem C05_tick (mode : Mode) (c : List Ev) (rest : Bytes) (tail : List Ev) (hc : Clean c)
    (hp : payload c = frame mode [] ++ rest) :
    ∃ c', Clean c' ∧ payload c' = rest ∧ readFramed framingCap mode (c ++ tail) = ⟨.ok [], c' ++ tail, 0⟩ := by
  obtain ⟨c', k1, k2, _, k4⟩ := readFramed_clean framingCap mode c [] rest tail hc hp
    (by unfold fits; exact Nat.pow_pos (by omega)) (by simp)
  exact ⟨c', k1, k2, k4⟩

example : payload [.chunk [0, 0, 0], .pending, .chunk [0, 5]] = frame .distribution [] ++ [5] := by decide

/-- a declared length above the cap is refused as soon as the length bytes are in, whatever their chunking, and no body
buffer is requested (`allocRequested = 0`) -/
theorem C05_cap (c : List Ev) (len : Nat) (rest : Bytes) (tail : List Ev) (hc : Clean c)
    (hp : payload c = beN 4 len ++ rest) (hl : len < 2 ^ 32) (hcap : framingCap < len) :
    ∃ c', Clean c' ∧ payload c' = rest ∧
      readFramed framingCap .distribution (c ++ tail) = ⟨.error (.tooLarge len), c' ++ tail, 0⟩ :=
  readFramed_clean_overcap framingCap .distribution c len rest tail hc hp (by simpa [Mode.prefixSize] using hl) hcap

example : payload [.chunk [16, 0], .pending, .chunk [0, 1, 3]] = beN 4 (framingCap + 1) ++ [3] := by decide

/-- on every script, in both modes: the body buffer requested is never larger than the cap -/
theorem C05_alloc_bounded (mode : Mode) (evs : List Ev) :
    (readFramed framingCap mode evs).allocRequested ≤ framingCap :=
  readFramed_alloc_le framingCap mode evs

/-- **End of stream inside a frame is an error, never a short message**: a clean script that delivers a strict
prefix of a frame and then ends (script exhausted, or an explicit 0-byte read followed by anything) -/
theorem C05_eof_inside (mode : Mode) (c : List Ev) (m missing : Bytes) (tail : List Ev) (hc : Clean c)
    (hp : payload c ++ missing = frame mode m) (hmiss : missing ≠ []) (hf : fits mode m) (hcap : m.length ≤ framingCap)
    (ht : tail = [] ∨ ∃ t, tail = .eof :: t) :
    (readFramed framingCap mode (c ++ tail)).res = .error .eof :=
  readFramed_clean_short framingCap mode c m missing tail hc hp hmiss hf hcap ht

example : payload [.chunk [0], .pending, .chunk [3, 1]] ++ [2, 3] = frame .handshake [1, 2, 3] := by decide

/-- why the property is about messages that fit: `data.len() as u16` wraps, so a 65536-byte message in handshake mode is
framed with length 0 and reads back as a tick (followed by its bytes misread as frames) -/
theorem C05_unfit_length_wraps (msg : Bytes) (hl : msg.length = 65536) (c : List Ev) (hc : Clean c)
    (hp : payload c = frame .handshake msg) :
    ¬ fits .handshake msg ∧ (readFramed framingCap .handshake c).res = .ok [] := by
  refine ⟨by unfold fits; rw [hl]; decide, ?_⟩
  have hfr : frame .handshake msg = frame .handshake [] ++ msg := by
    unfold frame
    rw [hl, beN_mod]
    rfl
  obtain ⟨c', _, _, k3⟩ := C05_tick .handshake c msg [] hc (by rw [hp, hfr])
  rw [List.append_nil] at k3
  rw [k3]

example : (List.replicate 65536 (0 : UInt8)).length = 65536 := List.length_replicate ..

/-! ### delays longer than the read timeout -/

/-- **The property fails for delays that outlast the read timeout.** `FramedTransport::read` wraps `read_framed` in
`tokio::time::timeout`; when it fires inside a frame the bytes already consumed are dropped with the future, and
`Error::Timeout` is classified as recoverable. A caller that calls again is out of step with the stream: for the
single message `[0, 1, 7]` delivered as `[0, 3]`, a stall, `[0, 1, 7]`, the retry returns the message `[7]`, which
was never sent. -/
theorem C05_not_delay_invariant :
    ∃ (msg : Bytes) (evs : List Ev), fits .handshake msg ∧ msg.length ≤ framingCap ∧
      payload evs = frame .handshake msg ∧ (∀ e ∈ evs, e ≠ .eof ∧ e ≠ .fail ∧ e ≠ .chunk []) ∧
      readRetry framingCap .handshake evs = [.error .timeout, .ok [7], .error .eof] ∧ [7] ≠ msg :=
  ⟨[0, 1, 7], [.chunk [0, 3], .stall, .chunk [0, 1, 7]], by decide, by decide, by decide, by decide, by rfl, by decide⟩

/-- what remains true: as long as no read stalls past the timeout (guard: `Clean evs`, which excludes `stall`), the
retrying caller sees exactly the messages and then end of stream -/
theorem C05_delay_partial (mode : Mode) (msgs : List Bytes)
    (h : ∀ m ∈ msgs, fits mode m ∧ m.length ≤ framingCap) (evs : List Ev) (hc : Clean evs)
    (hp : payload evs = (msgs.map (frame mode)).flatten) :
    readRetry framingCap mode evs = msgs.map .ok ++ [.error .eof] := by
  have key := C05_split_invariance mode msgs h evs hc hp
  unfold readRetry
  unfold readAll at key
  rw [iterRetryF_eq _ _ _ ?_, key]
  rw [key]
  intro x hx
  rcases List.mem_append.mp hx with h1 | h1
  · obtain ⟨m, _, hm⟩ := List.mem_map.mp h1
    rw [← hm]; simp
  · simp at h1; rw [h1]; simp

example : Clean [.chunk [0], .pending, .chunk [1, 5]] ∧
    payload [.chunk [0], .pending, .chunk [1, 5]] = ([[5]].map (frame .handshake)).flatten := by
  refine ⟨by simp [Clean], by decide⟩

/-! ### the second copy of the read loop (`Connection::receive_message_from_read_half`, cap 64 MiB) -/

/-- split invariance of the second copy: ticks are skipped, every other body is handed on, in order, whatever the
segmentation; then end of stream is reported -/
theorem C05_rh_split_invariance (bodies : List Bytes)
    (h : ∀ m ∈ bodies, fits .distribution m ∧ m.length ≤ connCap) (evs : List Ev) (hc : Clean evs)
    (hp : payload evs = (bodies.map (frame .distribution)).flatten) :
    recvAll connCap evs = (bodies.filter (· ≠ [])).map .ok ++ [.error .eof] := by
  have := recvAll_clean connCap [] bodies evs h hc hp
  rw [List.append_nil, recvAll_nil] at this
  exact this

example : recvAll connCap [.chunk [0, 0, 0], .chunk [0, 0], .pending, .chunk [0, 0, 1, 112]]
    = ([[], [112]].filter (· ≠ [])).map .ok ++ [.error .eof] :=
  C05_rh_split_invariance [[], [112]] (by decide) _ (by simp [Clean]) (by decide)

/-- compositional form -/
theorem C05_rh_split_invariance_then (bodies : List Bytes)
    (h : ∀ m ∈ bodies, fits .distribution m ∧ m.length ≤ connCap) (c tail : List Ev) (hc : Clean c)
    (hp : payload c = (bodies.map (frame .distribution)).flatten) :
    recvAll connCap (c ++ tail) = (bodies.filter (· ≠ [])).map .ok ++ recvAll connCap tail :=
  recvAll_clean connCap tail bodies c h hc hp

example : payload [.chunk [0, 0, 0], .chunk [0, 0], .pending, .chunk [0, 0, 1, 112]]
    = ([[], [112]].map (frame .distribution)).flatten := by decide

/-- on every script: a body returned by the second copy is a complete, non-empty frame of the stream that follows some
number of ticks; never a short one; and the script left over delivers exactly what follows -/
theorem C05_rh_ok_is_exact_frame (evs : List Ev) (m : Bytes) (h : (recvBody connCap evs).res = .ok m) :
    m ≠ [] ∧ m.length ≤ connCap ∧
    ∃ j, payload evs = (List.replicate j (frame .distribution [])).flatten ++ frame .distribution m
      ++ payload (recvBody connCap evs).rest := by
  obtain ⟨_, h2, h3, _, _, h6⟩ := recvBodyF_ok connCap _ evs m h
  exact ⟨h2, h3, h6⟩

example : (recvBody connCap [.chunk [0, 0, 0, 0, 0, 0], .chunk [0, 2, 112, 1]]).res = .ok [112, 1] := by rfl

/-- over the (smaller) cap of the second copy: refused before the body buffer is requested -/
theorem C05_rh_cap (c : List Ev) (len : Nat) (rest : Bytes) (tail : List Ev) (hc : Clean c)
    (hp : payload c = beN 4 len ++ rest) (hl : len < 2 ^ 32) (hcap : connCap < len) :
    ∃ c', Clean c' ∧ payload c' = rest ∧
      recvBody connCap (c ++ tail) = ⟨.error (.tooLarge len), c' ++ tail, 0⟩ :=
  recvBody_clean_overcap connCap c len rest tail hc hp (by simpa using hl) hcap

example : payload [.chunk [4], .chunk [0, 0, 1]] = beN 4 (connCap + 1) ++ [] := by decide

/-- on every script: the second copy never requests a body buffer above its cap -/
theorem C05_rh_alloc_bounded (evs : List Ev) : (recvBody connCap evs).allocRequested ≤ connCap :=
  recvBodyF_alloc_le connCap _ evs

/-- the two copies disagree about what is too large: a length between the caps is read by `read_framed` and refused by
`receive_message_from_read_half` -/
theorem C05_caps_differ : connCap < framingCap := by decide

end Edp.Props.C05
