import EdpVerif.Drv.Common
namespace Edp.Drv

/-- driver requests of property C15 (stub: nothing handled yet) -/
def handleC15 : List String → Option String
  | _ => none

end Edp.Drv
