import EdpVerif.Impl.Recv
import EdpVerif.Spec.Peer
import EdpVerif.Lemmas.Codec
import EdpVerif.Lemmas.Control
import EdpVerif.Lemmas.Frag
import EdpVerif.Lemmas.DecNoPanic
/-! Helper lemmas and vocabulary for C06 (the receive path, `Impl/Recv.lean`). -/
namespace Edp.Recv
open Edp Edp.Spec.Peer

/-! ### vocabulary of the theorems -/

/-- the term decoder reads the bytes `bs` as the term `t` under atom cache `c` at nesting depth `d`, wherever they stand:
whatever follows them is handed back, any sufficient fuel will do. This is what C01/C03 establish for the output of an
encoder; C06 takes it as the meaning of "`bs` are the bytes of `t`". -/
def ReadsAt (x : Ext) (c : Cache) (d : Nat) (bs : Bytes) (t : Term) : Prop :=
  ∀ (r : Bytes) (fuel : Nat), bs.length + r.length < fuel → dec x { cache := c } fuel d (bs ++ r) = .ok (t, r)

abbrev Reads (x : Ext) (c : Cache) (bs : Bytes) (t : Term) : Prop := ReadsAt x c 0 bs t

/-- a message as the peer means it: the control tuple `ct` (bytes `cb`), which the library presents as `msg`, and
optionally a payload term `p` (bytes `pb`) -/
structure Sent where
  cb : Bytes
  ct : Term
  msg : Control.Msg
  pay : Option (Bytes × Term)

def Sent.wire (m : Sent) : Wire := { ctl := m.cb, pay := m.pay.map (·.1) }

/-- what the receiving API has to return for it -/
def Sent.expected (m : Sent) : Res := .ok m.msg (m.pay.map (·.2))

/-- the bytes are the terms' bytes under cache `c`, and the control tuple is the control message -/
structure Sent.Conforms (x : Ext) (tbl : Control.Table) (c : Cache) (m : Sent) : Prop where
  ctl : Reads x c m.cb m.ct
  pay : ∀ pb p, m.pay = some (pb, p) → Reads x c pb p
  parse : Control.parse tbl m.ct = .ok m.msg

/-- the term decoder never reaches its panic site (`&rest[consumed..]` after inflating); see `noDecPanic_of_inflate` -/
def NoDecPanic (x : Ext) : Prop := ∀ (cfg : DecCfg) (fuel d : Nat) (bs : Bytes), dec x cfg fuel d bs ≠ .error .panic

/-- the result of a frame does not depend on the connection's state -/
def SelfContained (x : Ext) (tbl : Control.Table) (f : Bytes) : Prop :=
  ∀ s s' : St, (recv x tbl s f).2 = (recv x tbl s' f).2

/-! ### ticks, `cutPanic` -/

theorem recv_tick (x : Ext) (tbl : Control.Table) (s : St) : recv x tbl s [] = (s, none) := rfl

theorem cutPanic_map_expected (l : List Sent) : cutPanic (l.map Sent.expected) = l.map Sent.expected := by
  induction l with
  | nil => rfl
  | cons m ms ih => simp [Sent.expected, cutPanic, ih]

theorem outs_append (x : Ext) (tbl : Control.Table) (a b : List Bytes) : ∀ s,
    outs x tbl s (a ++ b) = outs x tbl s a ++ outs x tbl (after x tbl s a) b := by
  induction a with
  | nil => intro s; simp [outs, after]
  | cons f fs ih => intro s; simp [outs, after, ih]

/-! ### pass-through -/

theorem decodeTrailing_reads (x : Ext) (bs r : Bytes) (t : Term) (h : Reads x [] bs t) :
    decodeTrailing x (131 :: (bs ++ r)) = .ok (t, r) := by
  have := h r (fuelFor x (131 :: (bs ++ r))) (by simp [fuelFor]; omega)
  simp only [decodeTrailing]
  simpa using this

theorem recv_passThrough (x : Ext) (tbl : Control.Table) (s : St) (m : Sent) (h : m.Conforms x tbl []) :
    recv x tbl s (Spec.Peer.passThrough m.wire) = (s, some m.expected) := by
  obtain ⟨hc, hp, hparse⟩ := h
  cases hpay : m.pay with
  | none =>
    have e := decodeTrailing_reads x m.cb [] m.ct hc
    simp only [List.append_nil] at e
    simp [Spec.Peer.passThrough, recv, Sent.wire, hpay, passThroughBody, e, finish, hparse, Sent.expected]
  | some pp =>
    obtain ⟨pb, p⟩ := pp
    have e := decodeTrailing_reads x m.cb (131 :: pb) m.ct hc
    have e2 := decodeTrailing_reads x pb [] p (hp pb p hpay)
    simp only [List.append_nil] at e2
    simp [Spec.Peer.passThrough, recv, Sent.wire, hpay, passThroughBody, e, e2, finish, hparse, Sent.expected]

/-! ### ticks anywhere -/

theorem isTick_nil : isTick ([] : Bytes) = true := rfl
theorem isTick_cons (a : UInt8) (r : Bytes) : isTick (a :: r) = false := rfl

theorem outs_ticks (x : Ext) (tbl : Control.Table) (fs : List Bytes) : ∀ s,
    (outs x tbl s fs).filterMap id = (outs x tbl s (fs.filter (fun f => !isTick f))).filterMap id := by
  induction fs with
  | nil => intro s; rfl
  | cons f fs ih =>
    intro s
    cases f with
    | nil =>
      rw [List.filter_cons]
      simp only [isTick_nil, Bool.not_true, Bool.false_eq_true, ↓reduceIte, outs, recv_tick]
      rw [List.filterMap_cons]
      exact ih s
    | cons a r =>
      rw [List.filter_cons]
      simp only [isTick_cons, Bool.not_false, ↓reduceIte, outs]
      rw [List.filterMap_cons, List.filterMap_cons, ih]

theorem recvAll_ticks (x : Ext) (tbl : Control.Table) (s : St) (fs : List Bytes) :
    recvAll x tbl s fs = recvAll x tbl s (fs.filter (fun f => !isTick f)) := by
  simp only [recvAll, outs_ticks x tbl fs s]

theorem recvRH_tick (x : Ext) (tbl : Control.Table) : recvRH x tbl [] = none := rfl

theorem recvAllRH_ticks (x : Ext) (tbl : Control.Table) (fs : List Bytes) :
    recvAllRH x tbl fs = recvAllRH x tbl (fs.filter (fun f => !isTick f)) := by
  simp only [recvAllRH]
  congr 1
  induction fs with
  | nil => rfl
  | cons f fs ih =>
    cases f with
    | nil =>
      rw [List.filter_cons]
      simp only [isTick_nil, Bool.not_true, Bool.false_eq_true, ↓reduceIte]
      rw [List.filterMap_cons, recvRH_tick]
      exact ih
    | cons a r =>
      rw [List.filter_cons]
      simp only [isTick_cons, Bool.not_false, ↓reduceIte]
      rw [List.filterMap_cons, List.filterMap_cons, ih]

/-! ### histories of pass-through messages -/

theorem outs_passThrough (x : Ext) (tbl : Control.Table) (s : St) (msgs : List Sent) (h : ∀ m ∈ msgs, m.Conforms x tbl []) :
    outs x tbl s (msgs.map fun m => Spec.Peer.passThrough m.wire) = msgs.map fun m => some m.expected := by
  induction msgs with
  | nil => rfl
  | cons m ms ih =>
    have hm := recv_passThrough x tbl s m (h m (by simp))
    simp only [List.map_cons, outs, hm]
    rw [ih (fun m' hm' => h m' (by simp [hm']))]

theorem recvRH_passThrough (x : Ext) (tbl : Control.Table) (m : Sent) (h : m.Conforms x tbl []) :
    recvRH x tbl (Spec.Peer.passThrough m.wire) = some m.expected := by
  obtain ⟨hc, hp, hparse⟩ := h
  cases hpay : m.pay with
  | none =>
    have e := decodeTrailing_reads x m.cb [] m.ct hc
    simp only [List.append_nil] at e
    simp [Spec.Peer.passThrough, recvRH, Sent.wire, hpay, e, hparse, Sent.expected]
  | some pp =>
    obtain ⟨pb, p⟩ := pp
    have e := decodeTrailing_reads x m.cb (131 :: pb) m.ct hc
    have e2 := decodeTrailing_reads x pb [] p (hp pb p hpay)
    simp only [List.append_nil] at e2
    simp [Spec.Peer.passThrough, recvRH, Sent.wire, hpay, e, e2, hparse, Sent.expected]

theorem filterMap_some_map {α β : Type} (f : α → β) (l : List α) : (l.map fun a => some (f a)).filterMap id = l.map f := by
  induction l with
  | nil => rfl
  | cons a l ih => simp [ih]

theorem filterMap_recvRH_passThrough (x : Ext) (tbl : Control.Table) (msgs : List Sent) (h : ∀ m ∈ msgs, m.Conforms x tbl []) :
    (msgs.map fun m => Spec.Peer.passThrough m.wire).filterMap (recvRH x tbl) = msgs.map Sent.expected := by
  induction msgs with
  | nil => rfl
  | cons m ms ih =>
    simp only [List.map_cons, List.filterMap_cons, recvRH_passThrough x tbl m (h m (by simp))]
    rw [ih (fun m' hm' => h m' (by simp [hm']))]

/-! ### frames whose result does not depend on the state; isolation -/

theorem recv_112 (x : Ext) (tbl : Control.Table) (s : St) (r : Bytes) :
    recv x tbl s (112 :: r) = (s, some (passThroughBody x tbl r)) := by
  cases r with
  | nil => simp [recv]
  | cons b rest => simp [recv]

theorem selfContained_tick (x : Ext) (tbl : Control.Table) : SelfContained x tbl [] := fun _ _ => rfl

theorem selfContained_112 (x : Ext) (tbl : Control.Table) (r : Bytes) : SelfContained x tbl (112 :: r) := by
  intro s s'; simp [recv_112]

/-- what later self-contained frames return does not depend on the state they start from -/
theorem outs_selfContained (x : Ext) (tbl : Control.Table) (g : List Bytes) (h : ∀ f ∈ g, SelfContained x tbl f) :
    ∀ s s' : St, outs x tbl s g = outs x tbl s' g := by
  induction g with
  | nil => intro s s'; rfl
  | cons f fs ih =>
    intro s s'
    simp only [outs]
    rw [h f (by simp) s s', ih (fun f' hf' => h f' (by simp [hf'])) (recv x tbl s f).1 (recv x tbl s' f).1]

theorem outs_insert (x : Ext) (tbl : Control.Table) (s : St) (g1 g2 : List Bytes) (junk : Bytes)
    (h2 : ∀ f ∈ g2, SelfContained x tbl f) :
    outs x tbl s (g1 ++ junk :: g2) =
      outs x tbl s g1 ++ (recv x tbl (after x tbl s g1) junk).2 :: outs x tbl (after x tbl s g1) g2 := by
  rw [outs_append]
  simp only [outs]
  rw [outs_selfContained x tbl g2 h2 (recv x tbl (after x tbl s g1) junk).1 (after x tbl s g1)]

/-! ### no panic -/

theorem rdU_ne_panic (k : Nat) (bs : Bytes) : rdU k bs ≠ .error .panic := by
  unfold rdU; split <;> simp

theorem takeE_ne_panic (k : Nat) (bs : Bytes) : takeE k bs ≠ .error .panic := by
  unfold takeE; split <;> simp

theorem rdU_err {k : Nat} {bs : Bytes} {e : DErr} (h : rdU k bs = .error e) : e = .err := by
  unfold rdU at h; split at h <;> simp at h; exact h.symm

theorem takeE_err {k : Nat} {bs : Bytes} {e : DErr} (h : takeE k bs = .error e) : e = .err := by
  unfold takeE at h; split at h <;> simp at h; exact h.symm

theorem resOfDErr_ne_panic {e : DErr} (h : e ≠ .panic) : resOfDErr e ≠ .panic := by
  cases e <;> simp_all [resOfDErr]

theorem resOfDErr_panic_iff {e : DErr} : resOfDErr e = .panic ↔ e = .panic := by
  cases e <;> simp [resOfDErr]

theorem finish_ne_panic {tbl : Control.Table} (htbl : Control.TableOK tbl) (ct : Term) (p : Option Term) :
    finish tbl ct p ≠ .panic := by
  have := Control.no_panic htbl ct
  unfold finish
  split <;> simp_all

theorem decode_ne_panic {x : Ext} (hx : NoDecPanic x) (data : Bytes) : decode x data ≠ .error .panic := by
  unfold decode decodeWith
  split
  · simp
  · split
    · simp
    · split
      · rename_i e he; intro h; simp at h; exact hx _ _ _ _ (h ▸ he)
      · simp
      · simp

theorem decodeTrailing_ne_panic {x : Ext} (hx : NoDecPanic x) (data : Bytes) : decodeTrailing x data ≠ .error .panic := by
  unfold decodeTrailing
  split
  · simp
  · split
    · simp
    · exact hx _ _ _ _

theorem refsLoop_ne_panic (flags : Bytes) (long : Bool) : ∀ (k i : Nat) (c : Cache) (bs : Bytes),
    (refsLoop flags long k i c bs).2 ≠ .error .panic := by
  intro k
  induction k with
  | zero => intro i c bs; simp [refsLoop]
  | succ k ih =>
    intro i c bs
    unfold refsLoop
    split
    · rename_i e he; simp; intro h; exact rdU_ne_panic _ _ (h ▸ he)
    · split
      · split
        · rename_i e he; simp; intro h; exact rdU_ne_panic _ _ (h ▸ he)
        · split
          · rename_i e he; simp; intro h; exact takeE_ne_panic _ _ (h ▸ he)
          · split
            · exact ih _ _ _
            · simp
      · exact ih _ _ _

theorem parseDistHeader_ne_panic (c : Cache) (bs : Bytes) : (parseDistHeader c bs).2 ≠ .error .panic := by
  unfold parseDistHeader
  split
  · rename_i e he; simp; intro h; exact rdU_ne_panic _ _ (h ▸ he)
  · split
    · simp
    · split
      · rename_i e he; simp; intro h; exact takeE_ne_panic _ _ (h ▸ he)
      · exact refsLoop_ne_panic _ _ _ _ _ _

theorem firstTerm_ne_panic {x : Ext} (hx : NoDecPanic x) (fuel : Nat) (c : Cache) (tag : UInt8) (r1 : Bytes) :
    (firstTerm x fuel c tag r1).2 ≠ .error .panic := by
  unfold firstTerm
  split
  · have hp := parseDistHeader_ne_panic c r1
    split
    · rename_i c1 e he; rw [he] at hp; simpa using hp
    · exact hx _ _ _ _
  · exact hx _ _ _ _

theorem secondTerm_ne_panic {x : Ext} (hx : NoDecPanic x) (fuel : Nat) (c1 : Cache) (first : DRes)
    (h : first ≠ .error .panic) : secondTerm x fuel c1 first ≠ .error .panic := by
  unfold secondTerm
  split
  · rename_i e; intro h'; simp at h'; exact h (by rw [h'])
  · simp
  · split
    · rename_i e he; intro h'; simp at h'; exact hx _ _ _ _ (h' ▸ he)
    · simp
    · simp

theorem decodeWithAtomCache_ne_panic {x : Ext} (hx : NoDecPanic x) (c : Cache) (data : Bytes) :
    (decodeWithAtomCache x c data).2 ≠ .error .panic := by
  unfold decodeWithAtomCache
  split
  · simp
  · split
    · simp
    · split
      · simp
      · exact secondTerm_ne_panic hx _ _ _ (firstTerm_ne_panic hx _ _ _ _)

theorem decodeFragmentHeader_err {data : Bytes} {e : DErr} (h : decodeFragmentHeader data = .error e) : e = .err := by
  unfold decodeFragmentHeader at h
  split at h
  · split at h
    · simp at h; exact h.symm
    · split at h
      · simp at h; exact h.symm
      · split at h
        · rename_i e1 h1; simp at h; subst h; exact rdU_err h1
        · split at h
          · rename_i e1 h1; simp at h; subst h; exact rdU_err h1
          · split at h
            · rename_i e1 h1; simp at h; subst h; exact rdU_err h1
            · simp at h
  · simp at h; exact h.symm

theorem decodeFragmentCont_err {data : Bytes} {e : DErr} (h : decodeFragmentCont data = .error e) : e = .err := by
  unfold decodeFragmentCont at h
  split at h
  · split at h
    · simp at h; exact h.symm
    · split at h
      · simp at h; exact h.symm
      · split at h
        · rename_i e1 h1; simp at h; subst h; exact rdU_err h1
        · split at h
          · rename_i e1 h1; simp at h; subst h; exact rdU_err h1
          · simp at h
  · simp at h; exact h.symm

theorem finishE_ne_panic {tbl : Control.Table} (htbl : Control.TableOK tbl) (r : Except DErr (Term × Option Term))
    (h : r ≠ .error .panic) : finishE tbl r ≠ .panic := by
  unfold finishE
  split
  · rename_i e; exact resOfDErr_ne_panic (fun he => h (by rw [he]))
  · exact finish_ne_panic htbl _ _

theorem plainTerm_ne_panic {x : Ext} (hx : NoDecPanic x) (data : Bytes) : plainTerm x data ≠ .error .panic := by
  have hd := decode_ne_panic hx data
  unfold plainTerm
  split
  · rename_i e he; intro h; simp at h; subst h; exact hd he
  · simp

theorem decodeCompleteFragment_ne_panic {x : Ext} (hx : NoDecPanic x) {tbl : Control.Table} (htbl : Control.TableOK tbl)
    (c : Cache) (data : Bytes) : (decodeCompleteFragment x tbl c data).2 ≠ .panic := by
  unfold decodeCompleteFragment
  split
  · split
    · exact finishE_ne_panic htbl _ (decodeWithAtomCache_ne_panic hx c _)
    · exact finishE_ne_panic htbl _ (plainTerm_ne_panic hx _)
  · exact finishE_ne_panic htbl _ (plainTerm_ne_panic hx _)

theorem passThroughBody_ne_panic {x : Ext} (hx : NoDecPanic x) {tbl : Control.Table} (htbl : Control.TableOK tbl)
    (r : Bytes) : passThroughBody x tbl r ≠ .panic := by
  unfold passThroughBody
  split
  · rename_i e he; have := decodeTrailing_ne_panic hx r; rw [he] at this; exact resOfDErr_ne_panic (by simpa using this)
  · exact finish_ne_panic htbl _ _
  · rename_i ct remaining _ _
    split
    · rename_i e he; have := decodeTrailing_ne_panic hx remaining; rw [he] at this; exact resOfDErr_ne_panic (by simpa using this)
    · exact finish_ne_panic htbl _ _
    · simp

theorem deliver_ne_panic {x : Ext} (hx : NoDecPanic x) {tbl : Control.Table} (htbl : Control.TableOK tbl) (s : St)
    (r : Frag.Assembler × Option Bytes) : (deliver x tbl s r).2 ≠ some .panic := by
  unfold deliver
  split
  · simpa using decodeCompleteFragment_ne_panic hx htbl _ _
  · simp

theorem recv_ne_panic {x : Ext} (hx : NoDecPanic x) {tbl : Control.Table} (htbl : Control.TableOK tbl) (s : St) (data : Bytes) :
    (recv x tbl s data).2 ≠ some .panic := by
  unfold recv
  split
  · simp
  · split
    · simpa using passThroughBody_ne_panic hx htbl []
    · simp
  · split
    · unfold recvFragHeader
      split
      · rename_i e he; have := decodeFragmentHeader_err he; subst this; simp [resOfDErr]
      · split
        · simp
        · exact deliver_ne_panic hx htbl _ _
    · split
      · unfold recvFragCont
        split
        · rename_i e he; have := decodeFragmentCont_err he; subst this; simp [resOfDErr]
        · split
          · simp
          · exact deliver_ne_panic hx htbl _ _
      · split
        · simpa using passThroughBody_ne_panic hx htbl _
        · split
          · unfold recvHeader
            simpa using finishE_ne_panic htbl _ (decodeWithAtomCache_ne_panic hx s.cache _)
          · simp

theorem recvRH_ne_panic {x : Ext} (hx : NoDecPanic x) {tbl : Control.Table} (htbl : Control.TableOK tbl) (data : Bytes) :
    recvRH x tbl data ≠ some .panic := by
  unfold recvRH
  split
  · simp
  · split
    · simp
    · split
      · rename_i e he; intro h; simp [resOfDErr_panic_iff] at h; subst h; exact decodeTrailing_ne_panic hx _ he
      · split
        · simp
        · rename_i hp; exact absurd hp (Control.no_panic htbl _)
        · split
          · simp
          · split
            · rename_i e he; intro h; simp [resOfDErr_panic_iff] at h; subst h; exact decodeTrailing_ne_panic hx _ he
            · simp
            · simp

/-- the contract of the inflater (`flate2`'s `total_in` never exceeds the input) is all `NoDecPanic` needs -/
theorem noDecPanic_of_inflate (x : Ext) (hx : ∀ z out n, x.inflate z = some (out, n) → n ≤ z.length) : NoDecPanic x :=
  fun cfg fuel d bs => dec_never_panics x hx cfg fuel d bs

/-! ### a message sent as ONE fragment -/

theorem rdU_one (b : UInt8) (r : Bytes) : rdU 1 (b :: r) = .ok (b.toNat, r) := by
  simp [rdU, rdN]

theorem decodeFragmentHeader_ok (seq fid : Nat) (nb : UInt8) (rest : Bytes) (hs : seq < 2 ^ 64) (hf : fid < 2 ^ 64) :
    decodeFragmentHeader (131 :: 69 :: (be64 seq ++ be64 fid ++ nb :: rest)) = .ok ((seq, fid, nb.toNat), rest) := by
  simp only [decodeFragmentHeader, List.append_assoc]
  rw [rdU_be64 seq _ (by simpa using hs)]
  simp only
  rw [rdU_be64 fid _ (by simpa using hf)]
  simp [rdU_one]

theorem decodeFragmentCont_ok (seq fid : Nat) (rest : Bytes) (hs : seq < 2 ^ 64) (hf : fid < 2 ^ 64) :
    decodeFragmentCont (131 :: 70 :: (be64 seq ++ be64 fid ++ rest)) = .ok ((seq, fid), rest) := by
  simp only [decodeFragmentCont, List.append_assoc]
  rw [rdU_be64 seq _ (by simpa using hs)]
  simp only
  rw [rdU_be64 fid _ (by simpa using hf)]
  simp

theorem startFragment_single (a : Frag.Assembler) (seq : Nat) (data : Bytes) (h0 : Frag.lookup seq a.pending = none) :
    a.startFragment 0 seq 1 none data = (a, some data) := by
  simp [Frag.Assembler.startFragment, h0, Frag.MAX_FRAGMENT_COUNT, Frag.FragMsg.new, Frag.MAX_FRAGMENTS_VEC,
    Frag.FragMsg.addFragment, Frag.FragMsg.place, Frag.FragMsg.isComplete, Frag.FragMsg.reassemble]

theorem decodeCompleteFragment_header (x : Ext) (tbl : Control.Table) (c : Cache) (r : Bytes) :
    decodeCompleteFragment x tbl c (131 :: 68 :: r) =
      ((decodeWithAtomCache x c (131 :: 68 :: r)).1, finishE tbl (decodeWithAtomCache x c (131 :: 68 :: r)).2) := by
  simp [decodeCompleteFragment]

theorem recv_header_frame (x : Ext) (tbl : Control.Table) (s : St) (r : Bytes) :
    recv x tbl s (131 :: 68 :: r) = recvHeader x tbl s (131 :: 68 :: r) := by
  simp [recv]

/-- a message in one fragment is handled exactly like the same message without fragmentation -/
theorem recv_single_fragment (x : Ext) (tbl : Control.Table) (s : St) (seq : Nat) (nb : UInt8) (rest : Bytes)
    (hs : seq < 2 ^ 64) (h0 : Frag.lookup seq s.asm.pending = none) :
    recv x tbl s (131 :: 69 :: (be64 seq ++ be64 1 ++ nb :: rest)) = recv x tbl s (131 :: 68 :: nb :: rest) := by
  rw [recv_header_frame]
  have e1 : recv x tbl s (131 :: 69 :: (be64 seq ++ be64 1 ++ nb :: rest)) =
      recvFragHeader x tbl s (131 :: 69 :: (be64 seq ++ be64 1 ++ nb :: rest)) := by simp [recv]
  rw [e1, recvFragHeader, decodeFragmentHeader_ok seq 1 nb rest hs (by omega)]
  simp only [Nat.one_ne_zero, ↓reduceIte, UInt8.ofNat_toNat]
  rw [startFragment_single _ _ _ h0]
  simp only [deliver, recvHeader, decodeCompleteFragment_header]

/-! ### the distribution header of a positional sender -/

/-- the cache after the header's references were inserted one after the other, starting at index `i` -/
def insAtoms : Nat → List Bytes → Cache → Cache
  | _, [], c => c
  | i, a :: as, c => insAtoms (i + 1) as ((i, a) :: c)

/-- the cache holds the header's atoms at their positions -/
def Holds (c : Cache) (atoms : List Bytes) : Prop := ∀ i, i < atoms.length → c.lookup i = atoms[i]?

theorem lookup_insAtoms : ∀ (as : List Bytes) (i : Nat) (c : Cache) (j : Nat),
    (insAtoms i as c).lookup j = if i ≤ j ∧ j < i + as.length then as[j - i]? else c.lookup j := by
  intro as
  induction as with
  | nil => intro i c j; simp [insAtoms]; omega
  | cons a as ih =>
    intro i c j
    simp only [insAtoms, ih, List.length_cons]
    by_cases h1 : i + 1 ≤ j ∧ j < i + 1 + as.length
    · have h2 : i ≤ j ∧ j < i + (as.length + 1) := by omega
      simp only [h1, h2, and_self, ↓reduceIte]
      have : j - i = (j - (i + 1)) + 1 := by omega
      rw [this, List.getElem?_cons_succ]
    · simp only [h1, ↓reduceIte]
      by_cases h3 : j = i
      · subst h3
        simp [List.lookup]
      · have h2 : ¬ (i ≤ j ∧ j < i + (as.length + 1)) := by omega
        simp only [h2, ↓reduceIte, List.lookup]
        have : (j == i) = false := by simpa using h3
        simp [this]

theorem holds_insAtoms (atoms : List Bytes) (c : Cache) : Holds (insAtoms 0 atoms c) atoms := by
  intro i hi
  rw [lookup_insAtoms]
  simp [hi]

/-- the references of a positional sender from position `i` on -/
def posFrom (segs : List Nat) : Nat → List Bytes → List Ref
  | _, [] => []
  | i, a :: as => { seg := segs.getD i 0, idx := i, text := some a } :: posFrom segs (i + 1) as

theorem mapIdx_posFrom (segs : List Nat) : ∀ (atoms : List Bytes) (i : Nat),
    atoms.mapIdx (fun j a => ({ seg := segs.getD (j + i) 0, idx := j + i, text := some a } : Ref)) = posFrom segs i atoms := by
  intro atoms
  induction atoms with
  | nil => intro i; rfl
  | cons a as ih =>
    intro i
    rw [List.mapIdx_cons]
    simp only [posFrom, Nat.zero_add]
    congr 1
    have := ih (i + 1)
    rw [← this]
    congr 1
    funext j b
    have : j + 1 + i = j + (i + 1) := by omega
    rw [this]

theorem positional_eq (segs : List Nat) (atoms : List Bytes) : positional segs atoms = posFrom segs 0 atoms := by
  have := mapIdx_posFrom segs atoms 0
  simpa [positional] using this

theorem posFrom_length (segs : List Nat) : ∀ (atoms : List Bytes) (i : Nat), (posFrom segs i atoms).length = atoms.length := by
  intro atoms
  induction atoms with
  | nil => intro i; rfl
  | cons a as ih => intro i; simp [posFrom, ih]

theorem packNibbles_length : ∀ (l : List Nat), (packNibbles l).length = (l.length + 1) / 2 := by
  intro l
  induction l using packNibbles.induct with
  | case1 => rfl
  | case2 a => simp [packNibbles]
  | case3 a b r ih => simp [packNibbles, ih]; omega

theorem flagNibble_pack : ∀ (l : List Nat) (i : Nat), i < l.length → flagNibble (packNibbles l) i = l[i]! % 16 := by
  intro l
  induction l using packNibbles.induct with
  | case1 => intro i hi; simp at hi
  | case2 a =>
    intro i hi
    have : i = 0 := by simpa using hi
    subst this
    simp [flagNibble, packNibbles]
  | case3 a b r ih =>
    intro i hi
    have hlt : a % 16 + 16 * (b % 16) < 256 := by omega
    match i with
    | 0 =>
      simp [flagNibble, packNibbles]
    | 1 =>
      simp [flagNibble, packNibbles]
      omega
    | k + 2 =>
      have := ih k (by simpa using hi)
      simp only [flagNibble, packNibbles] at this ⊢
      have e1 : (k + 2) / 2 = k / 2 + 1 := by omega
      have e2 : (k + 2) % 2 = k % 2 := by omega
      rw [e1, e2]
      simpa using this

theorem posFrom_nibble (segs : List Nat) : ∀ (as : List Bytes) (i : Nat), ∀ r ∈ posFrom segs i as, 8 ≤ r.nibble ∧ r.nibble < 16 := by
  intro as
  induction as with
  | nil => intro i r hr; simp [posFrom] at hr
  | cons a as ih =>
    intro i r hr
    simp only [posFrom, List.mem_cons] at hr
    rcases hr with rfl | hr
    · simp [Ref.nibble]; omega
    · exact ih _ r hr

theorem refsLoop_posFrom (flags : Bytes) (long : Bool) (segs : List Nat) (body : Bytes) :
    ∀ (as : List Bytes) (i : Nat) (c : Cache),
      i + as.length ≤ 256 →
      (∀ j, i ≤ j → j < i + as.length → 8 ≤ flagNibble flags j) →
      (∀ a ∈ as, validUtf8 a = true) → (∀ a ∈ as, a.length < (if long then 65536 else 256)) →
      refsLoop flags long as.length i c (((posFrom segs i as).map (Ref.bytes long)).flatten ++ body) =
        (insAtoms i as c, .ok body) := by
  intro as
  induction as with
  | nil => intro i c _ _ _ _; simp [refsLoop, posFrom, insAtoms]
  | cons a as ih =>
    intro i c hn hfl hutf hlen
    have hi : i < 256 := by simp at hn; omega
    have hnib : 8 ≤ flagNibble flags i := hfl i (Nat.le_refl _) (by simp)
    have hu : validUtf8 a = true := hutf a (by simp)
    have hl := hlen a (by simp)
    have ih' := ih (i + 1) ((i, a) :: c) (by simp at hn; omega)
      (fun j h1 h2 => hfl j (by omega) (by simp; omega))
      (fun b hb => hutf b (by simp [hb])) (fun b hb => hlen b (by simp [hb]))
    simp only [posFrom, List.map_cons, List.flatten_cons, Ref.bytes, List.length_cons, List.cons_append, List.append_assoc]
    rw [refsLoop, rdU_byte i _ hi]
    simp only [hnib, ↓reduceIte]
    cases long with
    | false =>
      simp only [Bool.false_eq_true, ↓reduceIte] at hl ⊢
      rw [rdU_be8 a.length _ hl]
      simp only [takeE_append, hu, ↓reduceIte]
      simpa [insAtoms] using ih'
    | true =>
      simp only [↓reduceIte] at hl ⊢
      rw [rdU_be16 a.length _ hl]
      simp only [takeE_append, hu, ↓reduceIte]
      simpa [insAtoms] using ih'

theorem parseDistHeader_positional (c : Cache) (segs : List Nat) (atoms : List Bytes) (long : Bool) (body : Bytes)
    (hn : atoms.length ≤ 255) (hutf : ∀ a ∈ atoms, validUtf8 a = true)
    (hlen : ∀ a ∈ atoms, a.length < (if long then 65536 else 256)) :
    parseDistHeader c (headerBytes (positional segs atoms) long ++ body) = (insAtoms 0 atoms c, .ok body) := by
  rw [positional_eq]
  cases hat : atoms with
  | nil => simp [headerBytes, posFrom, parseDistHeader, rdU_one, insAtoms]
  | cons a0 as0 =>
    rw [← hat]
    have hpos : 0 < atoms.length := by rw [hat]; simp
    have hne : (posFrom segs 0 atoms).isEmpty = false := by rw [hat]; simp [posFrom]
    have hlenP := posFrom_length segs atoms 0
    simp only [headerBytes, hne, Bool.false_eq_true, ↓reduceIte, hlenP, List.cons_append, List.append_assoc]
    -- the nibble list
    let nibs := (posFrom segs 0 atoms).map Ref.nibble ++ [if long then 1 else 0]
    have hnl : nibs.length = atoms.length + 1 := by simp [nibs, hlenP]
    have hfl : (packNibbles nibs).length = atoms.length / 2 + 1 := by rw [packNibbles_length, hnl]; omega
    rw [parseDistHeader, rdU_byte atoms.length _ (by omega)]
    have hn0 : ¬ atoms.length = 0 := by omega
    simp only [hn0, ↓reduceIte]
    rw [takeE_of_length _ (packNibbles nibs) _ hfl]
    simp only
    have hlast : flagNibble (packNibbles nibs) atoms.length = (if long then 1 else 0) := by
      rw [flagNibble_pack nibs atoms.length (by omega)]
      have : nibs[atoms.length]! = (if long then 1 else 0) := by
        simp [nibs, hlenP]
      rw [this]; cases long <;> simp
    have hlong : (decide (if atoms.length % 2 = 0 then ((packNibbles nibs).getD (atoms.length / 2) 0).toNat % 2 = 1
        else ((packNibbles nibs).getD (atoms.length / 2) 0).toNat / 16 % 2 = 1)) = long := by
      simp only [flagNibble] at hlast
      by_cases hp : atoms.length % 2 = 0
      · simp only [hp, ↓reduceIte] at hlast ⊢
        cases long <;> simp at hlast ⊢ <;> omega
      · simp only [hp, ↓reduceIte] at hlast ⊢
        cases long <;> simp at hlast ⊢ <;> omega
    rw [hlong]
    have hge : ∀ j, 0 ≤ j → j < 0 + atoms.length → 8 ≤ flagNibble (packNibbles nibs) j := by
      intro j _ hj
      rw [flagNibble_pack nibs j (by omega)]
      have hj' : j < ((posFrom segs 0 atoms).map Ref.nibble).length := by simp [hlenP]; omega
      have e : nibs[j]! = ((posFrom segs 0 atoms).map Ref.nibble)[j] := by
        simp only [nibs]
        rw [getElem!_pos _ j (by simp [hlenP]; omega), List.getElem_append_left hj']
      have hm := posFrom_nibble segs atoms 0 ((posFrom segs 0 atoms)[j]'(by simpa using hj')) (List.getElem_mem _)
      rw [e, List.getElem_map]
      omega
    exact refsLoop_posFrom (packNibbles nibs) long segs body atoms 0 c (by omega) hge hutf hlen

/-- a message sent under the distribution header of a positional sender -/
structure HSent where
  m : Sent
  atoms : List Bytes
  segs : List Nat
  long : Bool

def HSent.header (h : HSent) : Bytes := headerBytes (positional h.segs h.atoms) h.long

/-- `131, 68, header, control [, payload]` -/
def HSent.frame (h : HSent) : Bytes := withHeader h.header h.m.wire

/-- at most 255 references, UTF-8 texts that fit their length field, and the terms' bytes read as the terms under every
cache that holds the header's atoms at their positions -/
structure HSent.Conforms (x : Ext) (tbl : Control.Table) (h : HSent) : Prop where
  count : h.atoms.length ≤ 255
  utf8 : ∀ a ∈ h.atoms, validUtf8 a = true
  lens : ∀ a ∈ h.atoms, a.length < (if h.long then 65536 else 256)
  terms : ∀ c, Holds c h.atoms → h.m.Conforms x tbl c

theorem reads_nonempty {x : Ext} {c : Cache} {bs : Bytes} {t : Term} (h : Reads x c bs t) : bs ≠ [] := by
  intro e
  subst e
  have := h [] 1 (by simp)
  simp [dec] at this

theorem decodeWithAtomCache_header (x : Ext) (tbl : Control.Table) (c : Cache) (h : HSent) (hc : h.Conforms x tbl) :
    decodeWithAtomCache x c h.frame = (insAtoms 0 h.atoms c, .ok (h.m.ct, h.m.pay.map (·.2))) := by
  obtain ⟨hn, hu, hl, ht⟩ := hc
  obtain ⟨hctl, hpay, _⟩ := ht _ (holds_insAtoms h.atoms c)
  have hp := parseDistHeader_positional c h.segs h.atoms h.long h.m.wire.terms hn hu hl
  simp only [HSent.frame, withHeader, HSent.header, decodeWithAtomCache]
  simp only [bne_self_eq_false, Bool.false_eq_true, ↓reduceIte, firstTerm, hp]
  cases hpy : h.m.pay with
  | none =>
    have e : h.m.wire.terms = h.m.cb := by simp [Wire.terms, Sent.wire, hpy]
    have := hctl [] (fuelFor x (131 :: 68 :: (headerBytes (positional h.segs h.atoms) h.long ++ h.m.wire.terms)))
      (by simp [fuelFor, e]; omega)
    simp only [List.append_nil] at this
    simp only [e] at this ⊢
    simp [this, secondTerm]
  | some pp =>
    obtain ⟨pb, p⟩ := pp
    have hrp := hpay pb p hpy
    have hne := reads_nonempty hrp
    have e : h.m.wire.terms = h.m.cb ++ pb := by simp [Wire.terms, Sent.wire, hpy]
    have h1 := hctl pb (fuelFor x (131 :: 68 :: (headerBytes (positional h.segs h.atoms) h.long ++ h.m.wire.terms)))
      (by simp [fuelFor, e]; omega)
    have h2 := hrp [] (fuelFor x (131 :: 68 :: (headerBytes (positional h.segs h.atoms) h.long ++ h.m.wire.terms)))
      (by simp [fuelFor, e]; omega)
    simp only [List.append_nil] at h2
    simp only [e] at h1 h2 ⊢
    cases pb with
    | nil => exact absurd rfl hne
    | cons b rest => simp [h1, secondTerm, h2]

theorem recv_header (x : Ext) (tbl : Control.Table) (s : St) (h : HSent) (hc : h.Conforms x tbl) :
    recv x tbl s h.frame = ({ cache := insAtoms 0 h.atoms s.cache, asm := s.asm }, some h.m.expected) := by
  have hd := decodeWithAtomCache_header x tbl s.cache h hc
  have hparse := (hc.terms _ (holds_insAtoms h.atoms s.cache)).parse
  have e : h.frame = 131 :: 68 :: (h.header ++ h.m.wire.terms) := rfl
  rw [e, recv_header_frame, ← e, recvHeader, hd]
  simp [finishE, finish, hparse, Sent.expected]

theorem outs_header (x : Ext) (tbl : Control.Table) (hs : List HSent) (hc : ∀ h ∈ hs, h.Conforms x tbl) : ∀ s : St,
    outs x tbl s (hs.map HSent.frame) = hs.map fun h => some h.m.expected := by
  induction hs with
  | nil => intro s; rfl
  | cons h hs ih =>
    intro s
    simp only [List.map_cons, outs, recv_header x tbl s h (hc h (by simp))]
    rw [ih (fun h' hh' => hc h' (by simp [hh']))]

theorem selfContained_header (x : Ext) (tbl : Control.Table) (h : HSent) (hc : h.Conforms x tbl) : SelfContained x tbl h.frame := by
  intro s s'
  rw [recv_header x tbl s h hc, recv_header x tbl s' h hc]

/-! ### what a frame can do to the state -/

/-- the sequence id a fragment frame names (`131, 69 | 70, seq:u64, …`) -/
def fragSeq (data : Bytes) : Option Nat :=
  match data with
  | a :: b :: r =>
    if a = 131 ∧ (b = 69 ∨ b = 70) then
      match rdU 8 r with
      | .ok (q, _) => some q
      | .error _ => none
    else none
  | _ => none

theorem refsLoop_cache (flags : Bytes) (long : Bool) : ∀ (k i : Nat) (c : Cache) (bs : Bytes),
    c <:+ (refsLoop flags long k i c bs).1 := by
  intro k
  induction k with
  | zero => intro i c bs; simp [refsLoop]
  | succ k ih =>
    intro i c bs
    unfold refsLoop
    split
    · exact List.suffix_refl _
    · split
      · split
        · exact List.suffix_refl _
        · split
          · exact List.suffix_refl _
          · split
            · exact (List.suffix_cons _ _).trans (ih _ _ _)
            · exact List.suffix_refl _
      · exact ih _ _ _

theorem parseDistHeader_cache (c : Cache) (bs : Bytes) : c <:+ (parseDistHeader c bs).1 := by
  unfold parseDistHeader
  split
  · exact List.suffix_refl _
  · split
    · exact List.suffix_refl _
    · split
      · exact List.suffix_refl _
      · exact refsLoop_cache _ _ _ _ _ _

theorem decodeWithAtomCache_cache (x : Ext) (c : Cache) (data : Bytes) : c <:+ (decodeWithAtomCache x c data).1 := by
  unfold decodeWithAtomCache
  split
  · exact List.suffix_refl _
  · split
    · exact List.suffix_refl _
    · split
      · exact List.suffix_refl _
      · rename_i tag r1
        simp only [firstTerm]
        split
        · have h := parseDistHeader_cache c r1
          split
          · rename_i c1 e he; rw [he] at h; exact h
          · rename_i c1 body he; rw [he] at h; exact h
        · exact List.suffix_refl _

theorem decodeCompleteFragment_cache (x : Ext) (tbl : Control.Table) (c : Cache) (data : Bytes) :
    c <:+ (decodeCompleteFragment x tbl c data).1 := by
  unfold decodeCompleteFragment
  split
  · split
    · exact decodeWithAtomCache_cache x c _
    · exact List.suffix_refl _
  · exact List.suffix_refl _

theorem deliver_cache (x : Ext) (tbl : Control.Table) (s : St) (r : Frag.Assembler × Option Bytes) :
    s.cache <:+ (deliver x tbl s r).1.cache := by
  unfold deliver
  split
  · exact decodeCompleteFragment_cache x tbl s.cache _
  · exact List.suffix_refl _

/-- the atom cache only ever gains entries, whatever the frame -/
theorem recv_cache (x : Ext) (tbl : Control.Table) (s : St) (data : Bytes) :
    s.cache <:+ (recv x tbl s data).1.cache := by
  unfold recv
  split
  · exact List.suffix_refl _
  · split <;> exact List.suffix_refl _
  · split
    · unfold recvFragHeader
      split
      · exact List.suffix_refl _
      · split
        · exact List.suffix_refl _
        · exact deliver_cache _ _ _ _
    · split
      · unfold recvFragCont
        split
        · exact List.suffix_refl _
        · split
          · exact List.suffix_refl _
          · exact deliver_cache _ _ _ _
      · split
        · exact List.suffix_refl _
        · split
          · exact decodeWithAtomCache_cache x s.cache _
          · exact List.suffix_refl _

theorem deliver_asm (x : Ext) (tbl : Control.Table) (s : St) (r : Frag.Assembler × Option Bytes) :
    (deliver x tbl s r).1.asm = r.1 := by
  unfold deliver
  split <;> rfl

theorem decodeFragmentHeader_seq {a b : UInt8} {r : Bytes} {seq fid n : Nat} {rem : Bytes}
    (h : decodeFragmentHeader (a :: b :: r) = .ok ((seq, fid, n), rem)) : ∃ r1, rdU 8 r = .ok (seq, r1) := by
  simp only [decodeFragmentHeader] at h
  split at h
  · simp at h
  · split at h
    · simp at h
    · split at h
      · simp at h
      · rename_i q r1 hq
        split at h
        · simp at h
        · split at h
          · simp at h
          · simp at h
            exact ⟨r1, by rw [hq, h.1.1]⟩

theorem decodeFragmentCont_seq {a b : UInt8} {r : Bytes} {seq fid : Nat} {rem : Bytes}
    (h : decodeFragmentCont (a :: b :: r) = .ok ((seq, fid), rem)) : ∃ r1, rdU 8 r = .ok (seq, r1) := by
  simp only [decodeFragmentCont] at h
  split at h
  · simp at h
  · split at h
    · simp at h
    · split at h
      · simp at h
      · rename_i q r1 hq
        split at h
        · simp at h
        · simp at h
          exact ⟨r1, by rw [hq, h.1.1]⟩

/-- a frame touches no entry of the fragment assembler but that of the sequence id it names -/
theorem recv_asm_other (x : Ext) (tbl : Control.Table) (s : St) (data : Bytes) (q : Nat) (hq : fragSeq data ≠ some q) :
    Frag.lookup q (recv x tbl s data).1.asm.pending = Frag.lookup q s.asm.pending := by
  unfold recv
  split
  · rfl
  · split <;> rfl
  · rename_i a b rest
    split
    · rename_i hab
      unfold recvFragHeader
      split
      · rfl
      · rename_i seq fid n rem hd
        split
        · rfl
        · obtain ⟨r1, hr⟩ := decodeFragmentHeader_seq hd
          have hne : seq ≠ q := by
            intro e; apply hq; simp [fragSeq, hab.1, hab.2, hr, e]
          rw [deliver_asm]
          exact Frag.step_other s.asm (.start 0 seq fid none _) q seq rfl hne
    · split
      · rename_i hab
        unfold recvFragCont
        split
        · rfl
        · rename_i seq fid rem hd
          split
          · rfl
          · obtain ⟨r1, hr⟩ := decodeFragmentCont_seq hd
            have hne : seq ≠ q := by
              intro e; apply hq; simp [fragSeq, hab.1, hab.2, hr, e]
            rw [deliver_asm]
            exact Frag.step_other s.asm (.add 0 seq fid _) q seq rfl hne
      · split
        · rfl
        · split <;> rfl

/-! ### bytes that read as terms (instances of `ReadsAt`; the general statement for encoder output is C01/C03) -/

theorem readsAt_nil (x : Ext) (c : Cache) (d : Nat) (hd : d ≤ MAX_NESTING_DEPTH) : ReadsAt x c d [106] .nil := by
  intro r fuel hf
  obtain ⟨f, rfl⟩ : ∃ f, fuel = f + 1 := ⟨fuel - 1, by omega⟩
  have hd' : ¬ d > MAX_NESTING_DEPTH := by omega
  rw [List.singleton_append, dec.eq_3]
  simp [hd', ownedOnlyTags]

theorem readsAt_small_int (x : Ext) (c : Cache) (d : Nat) (hd : d ≤ MAX_NESTING_DEPTH) (v : UInt8) :
    ReadsAt x c d [97, v] (.int v.toNat) := by
  intro r fuel hf
  obtain ⟨f, rfl⟩ : ∃ f, fuel = f + 1 := ⟨fuel - 1, by omega⟩
  have hd' : ¬ d > MAX_NESTING_DEPTH := by omega
  rw [List.cons_append, dec.eq_3]
  simp [hd', ownedOnlyTags, rdU_one]

/-- an atom cache reference reads as the atom the cache holds -/
theorem readsAt_cache_ref (x : Ext) (c : Cache) (d : Nat) (hd : d ≤ MAX_NESTING_DEPTH) (i : UInt8) (a : Bytes)
    (h : c.lookup i.toNat = some a) : ReadsAt x c d [82, i] (.atom a) := by
  intro r fuel hf
  obtain ⟨f, rfl⟩ : ∃ f, fuel = f + 1 := ⟨fuel - 1, by omega⟩
  have hd' : ¬ d > MAX_NESTING_DEPTH := by omega
  rw [List.cons_append, dec.eq_3]
  simp [hd', ownedOnlyTags, rdU_one, h]

theorem readsAt_nonempty {x : Ext} {c : Cache} {d : Nat} {bs : Bytes} {t : Term} (h : ReadsAt x c d bs t) : bs ≠ [] := by
  intro e
  subst e
  have := h [] 1 (by simp)
  simp [dec] at this

/-- element bytes that read as the elements, one after the other -/
inductive ReadsAll (x : Ext) (c : Cache) (d : Nat) : List Bytes → List Term → Prop where
  | nil : ReadsAll x c d [] []
  | cons {bs : Bytes} {t : Term} {bss : List Bytes} {ts : List Term} :
      ReadsAt x c d bs t → ReadsAll x c d bss ts → ReadsAll x c d (bs :: bss) (t :: ts)

theorem readsAll_length {x : Ext} {c : Cache} {d : Nat} {bss : List Bytes} {ts : List Term} (h : ReadsAll x c d bss ts) :
    bss.length = ts.length ∧ bss.length ≤ bss.flatten.length := by
  induction h with
  | nil => simp
  | cons h1 _ ih =>
    have := readsAt_nonempty h1
    have : 0 < (‹Bytes›).length := List.length_pos_iff.mpr this
    simp only [List.length_cons, List.flatten_cons, List.length_append]; omega

theorem decN_readsAll {x : Ext} {c : Cache} {d : Nat} {bss : List Bytes} {ts : List Term} (h : ReadsAll x c d bss ts) :
    ∀ (r : Bytes) (fuel : Nat), bss.flatten.length + r.length + 1 < fuel →
      decN x { cache := c } fuel d bss.length (bss.flatten ++ r) = .ok (ts, r) := by
  induction h with
  | nil => intro r fuel _; cases fuel <;> simp [decN]
  | cons h1 hrest ih =>
    rename_i bs t bss ts
    intro r fuel hf
    obtain ⟨f, rfl⟩ : ∃ f, fuel = f + 1 := ⟨fuel - 1, by omega⟩
    have hne := readsAt_nonempty h1
    have hpos : 0 < bs.length := List.length_pos_iff.mpr hne
    simp only [List.length_cons, List.flatten_cons, List.append_assoc, decN]
    simp only [List.flatten_cons, List.length_append] at hf
    rw [h1 (bss.flatten ++ r) f (by simp only [List.length_append]; omega)]
    simp only
    rw [ih r f (by omega)]

/-- a small tuple of elements that read as terms reads as the tuple -/
theorem readsAt_tuple (x : Ext) (c : Cache) (d : Nat) (hd : d ≤ MAX_NESTING_DEPTH) (bss : List Bytes) (ts : List Term)
    (h : ReadsAll x c (d + 1) bss ts) (hn : bss.length < 256) :
    ReadsAt x c d (104 :: UInt8.ofNat bss.length :: bss.flatten) (.tuple ts) := by
  intro r fuel hf
  obtain ⟨f, rfl⟩ : ∃ f, fuel = f + 1 := ⟨fuel - 1, by omega⟩
  have hd' : ¬ d > MAX_NESTING_DEPTH := by omega
  rw [List.cons_append, dec.eq_3]
  simp only [List.length_cons] at hf
  have := decN_readsAll h r f (by omega)
  simp [hd', ownedOnlyTags, rdU_byte _ _ hn, this]

/-! ### a message in two fragments whose second piece is empty -/

theorem two_fragments_asm (a : Frag.Assembler) (seq : Nat) (first : Bytes) (h0 : Frag.lookup seq a.pending = none) :
    (a.startFragment 0 seq 2 none first).2 = none ∧
    ((a.startFragment 0 seq 2 none first).1.addFragment 0 seq 1 []).2 = some first := by
  simp [Frag.Assembler.startFragment, Frag.Assembler.addFragment, h0, Frag.MAX_FRAGMENT_COUNT, Frag.FragMsg.new,
    Frag.MAX_FRAGMENTS_VEC, Frag.FragMsg.addFragment, Frag.FragMsg.place, Frag.FragMsg.isComplete,
    Frag.FragMsg.reassemble, Frag.lookup_insertKey_self, List.replicate]

theorem deliver_none (x : Ext) (tbl : Control.Table) (s : St) (r : Frag.Assembler × Option Bytes) (h : r.2 = none) :
    deliver x tbl s r = ({ cache := s.cache, asm := r.1 }, none) := by
  obtain ⟨a, o⟩ := r
  simp only at h
  subst h
  rfl

theorem deliver_some (x : Ext) (tbl : Control.Table) (s : St) (r : Frag.Assembler × Option Bytes) (d : Bytes) (h : r.2 = some d) :
    deliver x tbl s r = ({ cache := (decodeCompleteFragment x tbl s.cache d).1, asm := r.1 },
      some (decodeCompleteFragment x tbl s.cache d).2) := by
  obtain ⟨a, o⟩ := r
  simp only at h
  subst h
  rfl

/-- two fragments, the second one empty: nothing at the first frame, and at the second exactly what the unfragmented
message gives (result and atom cache) -/
theorem recv_two_fragments (x : Ext) (tbl : Control.Table) (s : St) (seq : Nat) (nb : UInt8) (rest : Bytes)
    (hs : seq < 2 ^ 64) (h0 : Frag.lookup seq s.asm.pending = none) :
    (recv x tbl s (131 :: 69 :: (be64 seq ++ be64 2 ++ nb :: rest))).2 = none ∧
    (recv x tbl (recv x tbl s (131 :: 69 :: (be64 seq ++ be64 2 ++ nb :: rest))).1 (fragCont seq 1 [])).2 =
      (recv x tbl s (131 :: 68 :: nb :: rest)).2 ∧
    (recv x tbl (recv x tbl s (131 :: 69 :: (be64 seq ++ be64 2 ++ nb :: rest))).1 (fragCont seq 1 [])).1.cache =
      (recv x tbl s (131 :: 68 :: nb :: rest)).1.cache := by
  obtain ⟨ha, hb⟩ := two_fragments_asm s.asm seq (131 :: 68 :: nb :: rest) h0
  have e1 : recv x tbl s (131 :: 69 :: (be64 seq ++ be64 2 ++ nb :: rest)) =
      ({ cache := s.cache, asm := (s.asm.startFragment 0 seq 2 none (131 :: 68 :: nb :: rest)).1 }, none) := by
    have : recv x tbl s (131 :: 69 :: (be64 seq ++ be64 2 ++ nb :: rest)) =
        recvFragHeader x tbl s (131 :: 69 :: (be64 seq ++ be64 2 ++ nb :: rest)) := by simp [recv]
    rw [this, recvFragHeader, decodeFragmentHeader_ok seq 2 nb rest hs (by omega)]
    have h20 : ¬ (2 : Nat) = 0 := by omega
    simp only [h20, ↓reduceIte, UInt8.ofNat_toNat]
    exact deliver_none x tbl s _ ha
  have e2 : ∀ s1 : St, recv x tbl s1 (fragCont seq 1 []) = deliver x tbl s1 (s1.asm.addFragment 0 seq 1 []) := by
    intro s1
    have : recv x tbl s1 (fragCont seq 1 []) = recvFragCont x tbl s1 (fragCont seq 1 []) := by simp [recv, fragCont]
    rw [this, recvFragCont]
    have := decodeFragmentCont_ok seq 1 [] hs (by omega)
    simp only [fragCont]
    rw [this]
    simp
  rw [e1, e2, deliver_some x tbl _ _ _ hb, recv_header_frame, recvHeader, decodeCompleteFragment_header]
  exact ⟨rfl, rfl, rfl⟩

end Edp.Recv
