import EdpVerif.Lemmas.SerdeWire
/-
C15 — serde round trip returns the original Rust value, also across the wire.
Property theorems only; helper lemmas live in EdpVerif/Lemmas/Serde*.lean.

`ser`/`de` model `erltf_serde::{to_term, from_term}`, `toBytes`/`fromBytes` model `to_bytes`/`from_bytes` through the
encoder/decoder models (Impl/Encode.lean, Impl/Decode.lean).  `hasTy v ty`: `v` is a value of the Rust type `ty`;
`Ty.wf` / `Val.plain`: the shapes the property quantifies over (Spec/Serde.lean).
-/
namespace Edp.Props.C15
open Edp Edp.Serde Edp.Spec.Serde

/-- In memory: every value of every distinguishable type of the universe comes back unchanged (all integer widths over
their whole range, `u64` above `i64::MAX`, every non-NaN `f32`, every `char`, arbitrarily nested containers, structs,
Elixir structs, all four enum variant shapes). -/
theorem C15_mem (ty : Ty) (v : Val) (ht : hasTy v ty = true) (hd : distinguishable v ty = true) :
    de ty (ser v) = .ok v := by
  simp only [distinguishable, Bool.and_eq_true] at hd
  exact de_ser ty v ht hd.1 hd.2

example : hasTy (.tuple [.int .u64 18446744073709551615, .some (.char 128512)]) (.tuple [.int .u64, .option .char]) = true ∧
    distinguishable (.tuple [.int .u64 18446744073709551615, .some (.char 128512)]) (.tuple [.int .u64, .option .char]) = true := by
  decide

/-- In memory nothing is silently altered: whatever `from_term` returns for `to_term v` is `v`. -/
theorem C15_no_silent_change (ty : Ty) (v v' : Val) (ht : hasTy v ty = true) (hd : distinguishable v ty = true)
    (h : de ty (ser v) = .ok v') : v' = v := by
  rw [C15_mem ty v ht hd] at h
  exact (Except.ok.inj h).symm

example : de (.int .i64) (ser (.int .i64 1099511627776)) = .ok (.int .i64 1099511627776) := by rfl

/-- The exclusions are needed: a directly nested `Option` is not distinguishable (`Some(None)` reads back as `None`). -/
theorem C15_nested_option_not_distinguishable :
    ∃ ty v, hasTy v ty = true ∧ de ty (ser v) = .ok .none ∧ v = .some .none :=
  ⟨.option (.option .bool), .some .none, by decide, by rfl, rfl⟩

/-! ### across the wire

`wireT t` is the closed form of `erltf::decode (erltf::encode t)` on the terms the serialiser builds (integers outside the
i32 range come back as big integers, `OwnedTerm::String` as a binary, `List([])` as `Nil`, maps re-inserted).  It is tied
to the encoder/decoder models and to the real code on every generated case (driver request `c15wire`; notes/C15.md,
trusted assumptions). -/

/-- Across the wire, full strength: every value of every distinguishable type comes back unchanged — all integer widths
over their whole range (read back from either integer representation), every `char`, floats, strings, options,
containers, structs, Elixir structs, all variant shapes.  `distinguishableW` excludes only what the property excludes
(nested `Option`, `Option<()>`-like payloads, f32 NaN) and fixes the canonical listing of map entries (in memory and on
the wire form of the keys). -/
theorem C15_wire (ty : Ty) (v : Val) (ht : hasTy v ty = true) (hd : distinguishableW v ty = true) :
    de ty (wireT (ser v)) = .ok v := by
  simp only [distinguishableW, distinguishable, Val.plainW, Bool.and_eq_true] at hd
  exact deW ty v ht hd.1.1 hd.1.2 hd.2

example : hasTy (.struct [97] [([120], .int .i64 1099511627776), ([121], .seq [.char 128512]), ([122], .map [(.int .i64 (-4294967296), .unit)])])
      (.struct [97] [([120], .int .i64), ([121], .seq .char), ([122], .map (.int .i64) .unit)]) = true ∧
    distinguishableW (.struct [97] [([120], .int .i64 1099511627776), ([121], .seq [.char 128512]), ([122], .map [(.int .i64 (-4294967296), .unit)])])
      (.struct [97] [([120], .int .i64), ([121], .seq .char), ([122], .map (.int .i64) .unit)]) = true := by decide

/-- When every map key is wire-stable (strings, bytes, bool, integers within i32, `u64` above `i64::MAX` …) the in-memory
guard alone suffices: exactly the hypotheses of `C15_mem`. -/
theorem C15_wire_stable_keys (ty : Ty) (v : Val) (ht : hasTy v ty = true) (hd : distinguishable v ty = true)
    (hk : keysStable v = true) : de ty (wireT (ser v)) = .ok v := by
  apply C15_wire ty v ht
  simp only [distinguishableW, Bool.and_eq_true]
  refine ⟨hd, ?_⟩
  simp only [distinguishable, Bool.and_eq_true] at hd
  simp only [Val.plainW, plain_stable v hk]
  exact hd.2

example : keysStable (.tuple [.int .i64 (-9223372036854775808), .char 97, .map [(.string [97], .int .u32 3000000000)]]) = true ∧
    distinguishable (.tuple [.int .i64 (-9223372036854775808), .char 97, .map [(.string [97], .int .u32 3000000000)]])
      (.tuple [.int .i64, .char, .map .string (.int .u32)]) = true := by decide

/-- Across the wire nothing is silently altered. -/
theorem C15_wire_no_silent_change (ty : Ty) (v v' : Val) (ht : hasTy v ty = true) (hd : distinguishableW v ty = true)
    (h : de ty (wireT (ser v)) = .ok v') : v' = v := by
  rw [C15_wire ty v ht hd] at h
  exact (Except.ok.inj h).symm

example : de (.int .i64) (wireT (ser (.int .i64 1099511627776))) = .ok (.int .i64 1099511627776) := by rfl

/-- Every integer type over its whole range, in whichever representation the wire gives it. -/
theorem C15_wire_int_full_range (k : IntTy) (i : Int) (h : k.inRange i = true) :
    de (.int k) (wireT (ser (.int k i))) = .ok (.int k i) := by
  simp only [ser, de]
  exact deInt_wire k i h

example : IntTy.u64.inRange 18446744073709551615 = true ∧ IntTy.i64.inRange (-9223372036854775808) = true := by decide

/-- Every `char`. -/
theorem C15_wire_char (c : Nat) (h : isScalar c = true) : de .char (wireT (ser (.char c))) = .ok (.char c) := by
  simp [ser, wireT, de, deChar, utf8_one c h]

example : isScalar 1114111 = true := by decide

end Edp.Props.C15
