//! C13: the zero-copy decoder agrees with the owned decoder.
//!
//! Per input: both decoders run; each twin is tied to its own model (`dec` / `decb`); the zero-copy decoder's result
//! WITH its error context (byte offset, path) is tied to the context model (`c13ctx`); the Spec's layout recogniser
//! judges clause 2 (`c13modern`); the harness itself judges clause 1 (same term), clause 3 (offset within the
//! input) and that `to_owned` changes nothing in the canonical text of the tree it converts.
use crate::canon::{hex, hexarg, pid_text, term_text};
use crate::oracle::oracle_for;
use crate::tgen::{gen_term, Cfg};
use crate::Ctx;
use erltf::errors::DecodeError;
use erltf::types::Sign;
use erltf::BorrowedTerm;

pub fn owned(b: &[u8]) -> (String, Option<erltf::OwnedTerm>) {
    crate::c01::dec_result(b)
}

fn loc(l: &Option<bytes::Bytes>) -> String {
    match l {
        None => "-".to_string(),
        Some(b) => format!("={}", hex(b)),
    }
}

fn put_list(l: &[BorrowedTerm<'_>], s: &mut String) {
    for (i, e) in l.iter().enumerate() {
        if i > 0 {
            s.push(',');
        }
        put(e, s);
    }
}

/// the canonical text of canon.rs, written from the zero-copy tree itself (no `to_owned` on the way, except for
/// the free variables of a fun, which the zero-copy tree stores owned)
pub fn put(t: &BorrowedTerm<'_>, s: &mut String) {
    match t {
        BorrowedTerm::Atom(a) => {
            s.push('A');
            s.push_str(&hex(a.as_bytes()));
        }
        BorrowedTerm::Integer(i) => s.push_str(&format!("I{}", i)),
        BorrowedTerm::Float(f) => s.push_str(&format!("F{:016x}", f.to_bits())),
        BorrowedTerm::Pid(p) => s.push_str(&pid_text(p)),
        BorrowedTerm::Port(p) => s.push_str(&format!("O({},{},{},{})", hex(p.node.as_str().as_bytes()), p.id, p.creation, loc(&p.local_ext_bytes))),
        BorrowedTerm::Reference(r) => s.push_str(&format!(
            "R({},{},{},{})",
            hex(r.node.as_str().as_bytes()),
            r.creation,
            r.ids.iter().map(|x| x.to_string()).collect::<Vec<_>>().join("."),
            loc(&r.local_ext_bytes)
        )),
        BorrowedTerm::Binary(b) => {
            s.push('B');
            s.push_str(&hex(b));
        }
        BorrowedTerm::BitBinary { bytes, bits } => s.push_str(&format!("K{}:{}", bits, hex(bytes))),
        BorrowedTerm::String(x) => {
            s.push('S');
            s.push_str(&hex(x.as_bytes()));
        }
        BorrowedTerm::List(l) => {
            s.push_str("L[");
            put_list(l, s);
            s.push(']');
        }
        BorrowedTerm::ImproperList { elements, tail } => {
            s.push_str("J[");
            put_list(elements, s);
            s.push('|');
            put(tail, s);
            s.push(']');
        }
        BorrowedTerm::Map(m) => {
            s.push_str("D[");
            let mut first = true;
            for (k, v) in m.iter() {
                if !first {
                    s.push(',');
                }
                first = false;
                put(k, s);
                s.push(',');
                put(v, s);
            }
            s.push(']');
        }
        BorrowedTerm::Tuple(l) => {
            s.push_str("U[");
            put_list(l, s);
            s.push(']');
        }
        BorrowedTerm::BigInt(b) => {
            s.push('G');
            s.push(if b.sign == Sign::Negative { '-' } else { '+' });
            s.push_str(&hex(&b.digits));
        }
        BorrowedTerm::ExternalFun(f) => s.push_str(&format!("X({},{},{})", hex(f.module.as_str().as_bytes()), hex(f.function.as_str().as_bytes()), f.arity)),
        BorrowedTerm::InternalFun(f) => {
            s.push_str(&format!(
                "Y({},{},{},{},{},{},{},{},[",
                f.arity,
                hex(&f.uniq),
                f.index,
                f.num_free,
                hex(f.module.as_str().as_bytes()),
                f.old_index,
                f.old_uniq,
                pid_text(&f.pid)
            ));
            for (i, e) in f.free_vars.iter().enumerate() {
                if i > 0 {
                    s.push(',');
                }
                s.push_str(&term_text(e));
            }
            s.push_str("])");
        }
        BorrowedTerm::Nil => s.push('N'),
    }
}

/// one letter per `Cow` of the tree in pre-order: `b` borrowed from the input, `o` owned by the tree
pub fn flags(t: &BorrowedTerm<'_>, s: &mut String) {
    use std::borrow::Cow;
    fn one(s: &mut String, borrowed: bool) {
        s.push(if borrowed { 'b' } else { 'o' });
    }
    match t {
        BorrowedTerm::Atom(a) => one(s, matches!(a, Cow::Borrowed(_))),
        BorrowedTerm::String(a) => one(s, matches!(a, Cow::Borrowed(_))),
        BorrowedTerm::Binary(b) => one(s, matches!(b, Cow::Borrowed(_))),
        BorrowedTerm::BitBinary { bytes, .. } => one(s, matches!(bytes, Cow::Borrowed(_))),
        BorrowedTerm::List(l) | BorrowedTerm::Tuple(l) => l.iter().for_each(|e| flags(e, s)),
        BorrowedTerm::ImproperList { elements, tail } => {
            elements.iter().for_each(|e| flags(e, s));
            flags(tail, s);
        }
        BorrowedTerm::Map(m) => m.iter().for_each(|(k, v)| {
            flags(k, s);
            flags(v, s);
        }),
        _ => {}
    }
}

/// `<structural text> <flags>` of a zero-copy tree (the argument form of the `c10own` / `c10isb` requests)
pub fn tree_arg(t: &BorrowedTerm<'_>) -> String {
    let (mut a, mut f) = (String::new(), String::new());
    put(t, &mut a);
    flags(t, &mut f);
    if f.is_empty() {
        f.push('-');
    }
    format!("{} {}", a, f)
}

pub struct Borrowed {
    /// `<structural text> <flags>` of the tree and what `is_borrowed` says about it
    pub tree: Option<(String, bool)>,
    /// `ok <term>` / `err` / `trailing <n>` / `panic` (the form of the `decb` tie)
    pub plain: String,
    /// the same with the context: `err <offset> <hex of display_path>` / `trailing <n> <offset> <path>`
    pub ctx: String,
    pub term: Option<erltf::OwnedTerm>,
    /// canonical text written from the zero-copy tree before conversion
    pub raw_text: Option<String>,
    pub offset: Option<usize>,
}

/// the former interface (used by c02.rs): plain result, converted term, reported offset
pub fn borrowed(b: &[u8]) -> (String, Option<erltf::OwnedTerm>, Option<usize>) {
    let r = borrowed_full(b);
    (r.plain, r.term, r.offset)
}

pub fn borrowed_full(b: &[u8]) -> Borrowed {
    let r = std::panic::catch_unwind(|| {
        erltf::decode_borrowed(b).map(|t| {
            let mut s = String::new();
            put(&t, &mut s);
            // the conversion back (`From<&OwnedTerm>`) and forth once more must be the identity as well
            let o = t.to_owned();
            let back = BorrowedTerm::from(&o).to_owned();
            (o, s, back, (tree_arg(&t), t.is_borrowed()))
        })
    });
    match r {
        Ok(Ok((t, s, back, tree))) => {
            let txt = term_text(&t);
            // `==` on terms is IEEE on floats: a term holding a NaN is not equal to itself, so `==` is asked only otherwise
            #[allow(clippy::eq_op)]
            let reflexive = t == t;
            let stable = (back == t || !reflexive) && term_text(&back) == txt;
            Borrowed {
                tree: Some(tree),
                plain: format!("ok {}", txt),
                ctx: format!("ok {}", txt),
                term: Some(t),
                raw_text: Some(if stable { s } else { format!("{} (from/to_owned changed it)", s) }),
                offset: None,
            }
        }
        Ok(Err(e)) => {
            let off = e.context.byte_offset;
            let path = hex(e.context.display_path().as_bytes());
            match e.error {
                DecodeError::TrailingData(n) => Borrowed {
                    tree: None,
                    plain: format!("trailing {}", n),
                    ctx: format!("trailing {} {} {}", n, off, path),
                    term: None,
                    raw_text: None,
                    offset: Some(off),
                },
                _ => Borrowed { tree: None, plain: "err".to_string(), ctx: format!("err {} {}", off, path), term: None, raw_text: None, offset: Some(off) },
            }
        }
        Err(_) => Borrowed { tree: None, plain: "panic".to_string(), ctx: "panic".to_string(), term: None, raw_text: None, offset: None },
    }
}

pub fn one(ctx: &mut Ctx, tag: &str, b: &[u8], modern: bool) {
    let Some(orc) = oracle_for(b) else {
        ctx.count("skipped_oracle_too_large");
        return;
    };
    let (o, ot) = owned(b);
    let bw = borrowed_full(b);
    ctx.count(&format!("class_{}", tag));
    ctx.tie(tag, &format!("dec {} {}", hexarg(b), orc), &o);
    ctx.tie(tag, &format!("decb {} {}", hexarg(b), orc), &bw.plain);
    ctx.tie(tag, &format!("c13ctx {} {}", hexarg(b), orc), &bw.ctx);
    ctx.count(if ot.is_some() { "owned_ok" } else { "owned_err" });
    ctx.count(if bw.term.is_some() { "borrowed_ok" } else { "borrowed_err" });
    if o == "panic" || bw.plain == "panic" {
        ctx.fail("c13-panic", &format!("{} owned={} borrowed={}", hex(b), o, bw.plain));
    }
    // clause 3: the reported offset lies within the input
    if let Some(off) = bw.offset {
        ctx.count(if off == b.len() { "offset_at_end" } else if off == 0 { "offset_zero" } else { "offset_inside" });
        if off > b.len() {
            ctx.fail("c13-offset-outside-input", &format!("{} offset={} len={}", hex(b), off, b.len()));
        }
    }
    // clause 3, what more is true: the offset is where a term starts (judged by the Spec's walk over the layout)
    if let Some(off) = bw.offset {
        let kind = if bw.plain.starts_with("trailing") { "trailing" } else { "err" };
        ctx.prop("c13-offset-not-a-term-start", &format!("c13start {} {} {}", hexarg(b), kind, off), "ok");
    }
    // clause 1: same term; and `to_owned` is the identity on the canonical text
    if let Some(bt) = &bw.term {
        match &ot {
            #[allow(clippy::eq_op)]
            Some(ot) if (ot == bt || ot != ot) && term_text(ot) == term_text(bt) => {}
            _ => ctx.fail("c13-borrowed-differs", &format!("{} owned={} borrowed={}", hex(b), o, bw.plain)),
        }
        if bw.raw_text.as_deref() != Some(&term_text(bt)) {
            ctx.fail(
                "c13-to-owned-differs",
                &format!("{} zero-copy-tree={} converted={}", hex(b), bw.raw_text.clone().unwrap_or_default(), term_text(bt)),
            );
        }
    }
    // the conversion itself, tied to its model (Impl/Convert.lean): `to_owned` and `is_borrowed` of the tree the zero-copy
    // decoder built — its structural text and the ownership flag of every `Cow` are the request, the converted term the answer
    if let (Some((tree, isb)), Some(bt)) = (&bw.tree, &bw.term) {
        if b.len() <= 1500 {
            ctx.tie(tag, &format!("c10own {}", tree), &term_text(bt));
            ctx.tie(tag, &format!("c10isb {}", tree), if *isb { "true" } else { "false" });
            // judged independently of the model: the tree borrows exactly when one of its `Cow`s is borrowed
            ctx.prop("c13-is-borrowed-wrong", &format!("c10cow {} {}", tree.rsplit(' ').next().unwrap_or("-"), isb), "ok");
            ctx.count(if *isb { "tree_borrows" } else { "tree_owns_everything" });
            if tree.contains('o') {
                ctx.count("tree_with_owned_cow");
            }
        }
    }
    // clause 2: judged by the Spec's recogniser of the modern layout
    let ok = |x: bool| if x { "ok" } else { "err" };
    ctx.prop("c13-borrowed-rejects-modern", &format!("c13modern {} {} {}", hexarg(b), ok(ot.is_some()), ok(bw.term.is_some())), "ok");
    if modern {
        // the guard is not vacuous: what the encoder writes for these terms is modern-only
        ctx.tie(tag, &format!("c13shape {}", hexarg(b)), "modern");
    }
    if ot.is_some() && bw.term.is_none() {
        ctx.count("owned_only_accept");
    }
}

/// wide, shallow terms: hundreds of siblings of each kind under one parent (anything that is counted per decoded
/// sub-term rather than per nesting level shows up here and nowhere else)
fn wide(ctx: &mut Ctx) {
    use erltf::types::Atom;
    use erltf::OwnedTerm as T;
    let leaves: Vec<(&str, T)> = vec![
        ("nil", T::Nil),
        ("empty-list", T::List(vec![])),
        ("row", T::List(vec![T::Atom(Atom::new("a"))])),
        ("int", T::Integer(7)),
        ("atom", T::Atom(Atom::new("ok"))),
        ("tuple0", T::Tuple(vec![])),
        ("pair", T::Tuple(vec![T::Nil, T::Nil])),
        ("bin", T::Binary(vec![1, 2])),
        ("str", T::List(vec![T::Integer(104), T::Integer(105)])),
        ("map0", T::Map(Default::default())),
        ("kw", T::List(vec![T::Tuple(vec![T::Atom(Atom::new("k")), T::List(vec![])])])),
    ];
    let counts: &[usize] = if ctx.thorough { &[1, 2, 127, 128, 254, 255, 256, 257, 258, 300, 511, 512, 513, 1000, 5000] } else { &[128, 255, 256, 257, 300, 600] };
    for (name, leaf) in &leaves {
        for &n in counts {
            let items: Vec<T> = (0..n).map(|_| leaf.clone()).collect();
            let shapes: Vec<T> = vec![
                T::List(items.clone()),
                T::Tuple(items.clone()),
                T::Map((0..n).map(|i| (T::Integer(i as i64), leaf.clone())).collect()),
                T::Tuple(vec![T::List(items.clone()), T::Atom(Atom::new("after")), T::List(vec![leaf.clone()])]),
                T::ImproperList { elements: items, tail: Box::new(T::Atom(Atom::new("t"))) },
            ];
            for t in shapes {
                let Ok(b) = erltf::encode(&t) else { continue };
                ctx.count(&format!("wide_{}", name));
                one(ctx, "wide", &b, true);
            }
        }
    }
}

fn be32(n: u32) -> [u8; 4] {
    n.to_be_bytes()
}

/// `levels` containers of one kind around `core`, innermost last; the nesting limit (256) is met at the top of the
/// range, in every position that adds a level: tuple element, list element, list tail, map key, map value, free variable,
/// and the positions that add a level without a path segment (node of a pid, module of an export)
fn nest(kind: u8, levels: usize, core: &[u8]) -> Vec<u8> {
    let mut pre: Vec<u8> = vec![131];
    let mut post: Vec<Vec<u8>> = vec![];
    for _ in 0..levels {
        match kind {
            0 => pre.extend_from_slice(&[104, 1]),
            1 => {
                pre.extend_from_slice(&[108, 0, 0, 0, 1]);
                post.push(vec![106]);
            }
            2 => pre.extend_from_slice(&[108, 0, 0, 0, 0]), // the tail position
            3 => {
                pre.extend_from_slice(&[116, 0, 0, 0, 1]);
                post.push(vec![97, 1]); // nested in the key, value behind it
            }
            4 => pre.extend_from_slice(&[116, 0, 0, 0, 1, 119, 1, b'k']), // nested in the value
            5 => pre.extend_from_slice(&[105, 0, 0, 0, 2, 97, 0]), // second element of a large tuple
            _ => {
                // free variable of a fun
                pre.push(112);
                pre.extend_from_slice(&be32(0));
                pre.push(0);
                pre.extend_from_slice(&[7u8; 16]);
                pre.extend_from_slice(&be32(1));
                pre.extend_from_slice(&be32(1));
                pre.extend_from_slice(&[119, 1, b'm', 97, 1, 97, 2]);
                pre.extend_from_slice(&[88, 119, 1, b'n', 0, 0, 0, 1, 0, 0, 0, 2, 0, 0, 0, 3]);
            }
        }
    }
    pre.extend_from_slice(core);
    for p in post.iter().rev() {
        pre.extend_from_slice(p);
    }
    pre
}

fn depth_limit(ctx: &mut Ctx) {
    let cores: Vec<(&str, Vec<u8>)> = vec![
        ("nil", vec![106]),
        ("int", vec![97, 9]),
        ("pid", vec![88, 119, 1, b'n', 0, 0, 0, 1, 0, 0, 0, 2, 0, 0, 0, 3]),
        ("export", vec![113, 119, 1, b'm', 119, 1, b'f', 97, 2]),
        ("ref", vec![90, 0, 1, 119, 1, b'n', 0, 0, 0, 1, 0, 0, 0, 7]),
        ("badtag", vec![0]),
        ("cut", vec![]),
        ("legacy-atom", vec![115, 1, b'a']),
    ];
    let levels: &[usize] = if ctx.thorough { &[1, 2, 200, 253, 254, 255, 256, 257, 258, 259, 300] } else { &[2, 254, 255, 256, 257, 258] };
    for kind in 0..7u8 {
        for &l in levels {
            for (name, core) in &cores {
                // a fun carries ~57 bytes per level: the three levels around the limit and three cores are enough
                if kind == 6 && (!(255..=257).contains(&l) || !["nil", "badtag", "cut"].contains(name)) {
                    continue;
                }
                let b = nest(kind, l, core);
                ctx.count(&format!("depth_kind{}_{}", kind, name));
                one(ctx, "depth", &b, false);
            }
        }
    }
}

/// announced counts above the limits, above the bytes left, and at the boundaries
fn counts(ctx: &mut Ctx) {
    let mut v: Vec<Vec<u8>> = vec![];
    for tag in [105u8, 108, 116, 109, 77, 111] {
        for n in [0u32, 1, 2, 255, 65536, 1_000_000, 1_000_001, 10_000_000, 10_000_001, 100_000_000, 100_000_001, 0x7fff_ffff, 0xffff_ffff] {
            for tailn in [0usize, 1, 3, 9] {
                let mut b = vec![131, tag];
                b.extend_from_slice(&be32(n));
                if tag == 77 {
                    b.push(8);
                }
                if tag == 111 {
                    b.push(0);
                }
                for i in 0..tailn {
                    b.extend_from_slice(if tag == 109 || tag == 77 || tag == 111 { &[1] } else if i % 2 == 0 { &[106] } else { &[97] });
                }
                v.push(b);
            }
        }
    }
    // BIT_BINARY bit counts; atoms, strings, references, small bignums with lengths above what is left
    for bits in [0u8, 1, 7, 8, 9, 255] {
        v.push(vec![131, 77, 0, 0, 0, 0, bits]);
        v.push(vec![131, 77, 0, 0, 0, 1, bits, 0x80]);
    }
    for tag in [118u8, 100, 107] {
        for n in [0u16, 1, 2, 255, 256, 65535] {
            let mut b = vec![131, tag];
            b.extend_from_slice(&n.to_be_bytes());
            b.extend_from_slice(b"ab");
            v.push(b);
        }
    }
    for n in [0u8, 1, 2, 3, 255] {
        v.push(vec![131, 119, n, b'a', b'b']);
        v.push(vec![131, 110, n, 0, 1, 2]);
        v.push(vec![131, 104, n, 106, 106]);
        // a reference announcing n words with two present
        let mut b = vec![131, 90, 0, n, 119, 1, b'n', 0, 0, 0, 1];
        b.extend_from_slice(&[0, 0, 0, 1, 0, 0, 0, 2]);
        v.push(b);
    }
    // a fun announcing more free variables than it carries
    for nf in [0u32, 1, 2, 3, 0xffff_ffff] {
        let mut b = vec![131, 112];
        b.extend_from_slice(&be32(0));
        b.push(1);
        b.extend_from_slice(&[0u8; 16]);
        b.extend_from_slice(&be32(5));
        b.extend_from_slice(&be32(nf));
        b.extend_from_slice(&[119, 1, b'm', 97, 1, 97, 2, 88, 119, 1, b'n', 0, 0, 0, 1, 0, 0, 0, 2, 0, 0, 0, 3]);
        b.extend_from_slice(&[97, 1, 97, 2]);
        v.push(b);
    }
    for b in v {
        one(ctx, "count", &b, false);
    }
}

/// maps whose value fails behind each kind of key (the path shows the key as text), keys that repeat, and
/// sub-terms of the wrong kind where an atom / integer / pid is required
fn contexts(ctx: &mut Ctx) {
    let keys: Vec<Vec<u8>> = vec![
        vec![119, 2, b'o', b'k'],
        vec![119, 0],
        vec![118, 0, 3, 0xe6, 0x97, 0xa5],
        vec![100, 0, 2, 0xe9, b'x'],
        vec![119, 3, b'a', b' ', b'b'],
        vec![97, 7],
        vec![98, 0xff, 0xff, 0xff, 0xfe],
        vec![110, 1, 1, 5],
        vec![70, 0x3f, 0xf0, 0, 0, 0, 0, 0, 0],
        vec![109, 0, 0, 0, 1, b'k'],
        vec![104, 1, 97, 1],
        vec![106],
    ];
    let bad_values: Vec<Vec<u8>> = vec![vec![], vec![0], vec![115, 1, b'a'], vec![97], vec![104, 2, 97, 1], vec![108, 0, 0, 0, 1, 97, 1, 200], vec![97, 1, 9]];
    for k in &keys {
        for bv in &bad_values {
            let mut b = vec![131, 116, 0, 0, 0, 2, 97, 1, 97, 2];
            b.extend_from_slice(k);
            b.extend_from_slice(bv);
            one(ctx, "mapctx", &b, false);
            // the same one level down, behind a list element and in a tuple
            let mut c = vec![131, 104, 2, 106, 108, 0, 0, 0, 2, 106, 116, 0, 0, 0, 1];
            c.extend_from_slice(k);
            c.extend_from_slice(bv);
            one(ctx, "mapctx", &c, false);
        }
        // the key repeated: the later value wins in both decoders
        let mut d = vec![131, 116, 0, 0, 0, 3];
        for val in [1u8, 2, 3] {
            d.extend_from_slice(k);
            d.extend_from_slice(&[97, val]);
        }
        one(ctx, "mapdup", &d, false);
    }
    // numerically equal keys of different types, in both orders
    for (a, b2) in [(vec![97u8, 1], vec![70u8, 0x3f, 0xf0, 0, 0, 0, 0, 0, 0]), (vec![97, 1], vec![110, 1, 0, 1]), (vec![98, 0, 0, 0, 1], vec![97, 1])] {
        for swap in [false, true] {
            let (p, q) = if swap { (&b2, &a) } else { (&a, &b2) };
            let mut d = vec![131, 116, 0, 0, 0, 2];
            d.extend_from_slice(p);
            d.extend_from_slice(&[97, 10]);
            d.extend_from_slice(q);
            d.extend_from_slice(&[97, 20]);
            one(ctx, "mapdup", &d, false);
        }
    }
    // wrong kinds where a specific one is required
    let wrong: Vec<Vec<u8>> = vec![vec![97, 1], vec![106], vec![104, 0], vec![109, 0, 0, 0, 0], vec![115, 1, b'n'], vec![82, 0], vec![]];
    for w in &wrong {
        for head in [vec![88u8], vec![120], vec![89], vec![90, 0, 1], vec![113], vec![113, 119, 1, b'm']] {
            let mut b = vec![131, 104, 2, 97, 5];
            b.extend_from_slice(&head);
            b.extend_from_slice(w);
            b.extend_from_slice(&[0, 0, 0, 1, 0, 0, 0, 2, 0, 0, 0, 3]);
            one(ctx, "wrongkind", &b, false);
        }
    }
    // export arity and fun indices out of range / of the wrong kind
    for a in [vec![97u8, 0], vec![97, 255], vec![98, 0, 0, 1, 0], vec![98, 0xff, 0xff, 0xff, 0xff], vec![110, 1, 0, 3], vec![106]] {
        let mut b = vec![131, 113, 119, 1, b'm', 119, 1, b'f'];
        b.extend_from_slice(&a);
        one(ctx, "wrongkind", &b, false);
        for slot in 0..2 {
            let mut f = vec![131, 112];
            f.extend_from_slice(&be32(0));
            f.push(1);
            f.extend_from_slice(&[0u8; 16]);
            f.extend_from_slice(&be32(5));
            f.extend_from_slice(&be32(1));
            f.extend_from_slice(&[119, 1, b'm']);
            if slot == 0 {
                f.extend_from_slice(&a);
                f.extend_from_slice(&[97, 2]);
            } else {
                f.extend_from_slice(&[97, 2]);
                f.extend_from_slice(&a);
            }
            f.extend_from_slice(&[88, 119, 1, b'n', 0, 0, 0, 1, 0, 0, 0, 2, 0, 0, 0, 3]);
            f.extend_from_slice(&[104, 1, 0]);
            one(ctx, "wrongkind", &f, false);
        }
    }
    // the version byte and the empty input
    // NaN and infinities: accepted by both; `==` on the terms is not reflexive there
    for bits in [0x7ff8_0000_0000_0001u64, 0x7fff_ffff_ffff_ffff, 0x7ff0_0000_0000_0000, 0xfff0_0000_0000_0000] {
        let mut b = vec![131, 104, 2, 70];
        b.extend_from_slice(&bits.to_be_bytes());
        b.extend_from_slice(&[116, 0, 0, 0, 1, 70]);
        b.extend_from_slice(&bits.to_be_bytes());
        b.extend_from_slice(&[97, 1]);
        one(ctx, "nan", &b, false);
    }
    for b in [vec![], vec![131], vec![130, 106], vec![0], vec![131, 106, 0], vec![131, 106, 106, 106], vec![131, 131, 106]] {
        one(ctx, "top", &b, false);
    }
    // who owns the text: an ATOM_EXT name is borrowed from the input when it is ASCII and owned by the tree (transcoded to
    // UTF-8) otherwise; UTF-8 atoms, binaries and bit-strings are always borrowed — alone and under every container
    for name in [&b"abc"[..], &[0xe9, b'x'][..], &[0xff][..], &[][..], &[b'a', 0x80, b'b'][..]] {
        let mut a = vec![100u8, 0, name.len() as u8];
        a.extend_from_slice(name);
        let mut shapes: Vec<Vec<u8>> = vec![a.clone()];
        let mut t = vec![104u8, 3];
        t.extend_from_slice(&a);
        t.extend_from_slice(&[109, 0, 0, 0, 1, 7, 119, 1, b'u']);
        shapes.push(t);
        let mut l = vec![108u8, 0, 0, 0, 2, 77, 0, 0, 0, 1, 3, 0xe0];
        l.extend_from_slice(&a);
        l.extend_from_slice(&a);
        shapes.push(l);
        let mut m = vec![116u8, 0, 0, 0, 2];
        m.extend_from_slice(&a);
        m.extend_from_slice(&[97, 1, 97, 2]);
        m.extend_from_slice(&a);
        shapes.push(m);
        for sh in shapes {
            let mut b = vec![131u8];
            b.extend_from_slice(&sh);
            one(ctx, "cow", &b, false);
        }
    }
}

pub fn run(ctx: &mut Ctx) {
    wide(ctx);
    depth_limit(ctx);
    counts(ctx);
    contexts(ctx);
    let n = ctx.n(300, 6000);
    let cfg = Cfg { local_ids: false, huge: false, ..Cfg::default() };
    let mut pool: Vec<Vec<u8>> = vec![];
    for _ in 0..n {
        let t = gen_term(&mut ctx.rng, &cfg, 0);
        let Ok(b) = erltf::encode(&t) else { continue };
        one(ctx, "modern", &b, true);
        // trailing bytes behind a complete term
        if ctx.rng.chance(1, 4) {
            let mut tb = b.clone();
            let extra = 1 + ctx.rng.below(3) as usize;
            tb.extend(ctx.rng.bytes(extra));
            one(ctx, "trailing", &tb, false);
        }
        // truncation at every offset (short encodings) or at a few offsets
        if b.len() <= 64 {
            for k in 0..b.len() {
                one(ctx, "trunc", &b[..k], false);
            }
        } else {
            for _ in 0..4 {
                let k = ctx.rng.below(b.len() as u64) as usize;
                one(ctx, "trunc", &b[..k], false);
            }
        }
        // a tag the zero-copy decoder does not know, at every position (short encodings) or at a few
        let positions: Vec<usize> = if b.len() <= 40 {
            (1..b.len()).collect()
        } else if b.len() <= 1500 {
            (0..2).map(|_| 1 + ctx.rng.below(b.len() as u64 - 1) as usize).collect()
        } else {
            vec![]
        };
        for i in positions {
            let mut m = b.clone();
            m[i] = *ctx.rng.pick(&[0u8, 255, 68, 69, 115, 80, 101, 102, 103, 114, 121, 82, 99, 100]);
            one(ctx, "badtag", &m, false);
        }
        // mutations
        if b.len() <= 400 {
            for _ in 0..2 {
                let mut m = b.clone();
                let flips = 1 + ctx.rng.below(3);
                for _ in 0..flips {
                    let i = ctx.rng.below(m.len() as u64) as usize;
                    match ctx.rng.below(3) {
                        0 => m[i] ^= 1 << ctx.rng.below(8),
                        1 => m[i] = ctx.rng.next() as u8,
                        _ => m[i] = *ctx.rng.pick(&[0u8, 1, 255, 97, 104, 106, 108, 116, 119, 131, 70, 77, 80, 82, 88, 89, 90, 99, 100, 115, 120, 121]),
                    }
                }
                one(ctx, "mut", &m, false);
            }
            pool.push(b);
        }
        // the same term in another admissible encoding: legacy tags, text floats, LOCAL_EXT wrappers, compression
        // (the owned decoder accepts them; the zero-copy decoder stops at the first tag it does not know)
        let mut alt = vec![131u8];
        let mut stats = vec![];
        crate::c03::alt(&mut alt, &t, &mut ctx.rng, &mut stats);
        one(ctx, "alt", &alt, false);
    }
    // legacy (Latin-1) atom tags in front of both decoders: ASCII, a lone high byte, and high bytes that happen to be
    // well-formed UTF-8 (each byte is still one Latin-1 character: the zero-copy decoder must not borrow them as text;
    // seeded change S95), bare and as the node of a pid inside a tuple
    for raw in [&b"abc"[..], &[0xe9], &[0xc3, 0xa9], &[b'n', b'a', 0xc3, 0xaf, b'v', b'e'], &[0xe2, 0x82, 0xac], &[0xf0, 0x9f, 0x98, 0x80],
                &[0xc2, 0x80], &[0xc3], &[0xff, 0xfe], &[b'x', 0xc3, 0xa9, 0xe9]] {
        for tag in [100u8, 115] {
            let mut a = vec![tag];
            if tag == 100 {
                a.extend_from_slice(&(raw.len() as u16).to_be_bytes());
            } else {
                a.push(raw.len() as u8);
            }
            a.extend_from_slice(raw);
            let mut bare = vec![131u8];
            bare.extend_from_slice(&a);
            one(ctx, "latin1", &bare, false);
            let mut t = vec![131u8, 104, 2];
            t.extend_from_slice(&a);
            t.push(88);
            t.extend_from_slice(&a);
            t.extend_from_slice(&[0, 0, 0, 1, 0, 0, 0, 2, 0, 0, 0, 3]);
            one(ctx, "latin1", &t, false);
            ctx.count("latin1_atom_forms");
        }
    }
    // splices of two valid encodings
    for _ in 0..n / 2 {
        if pool.len() < 2 {
            break;
        }
        let a = ctx.rng.pick(&pool).clone();
        let b = ctx.rng.pick(&pool).clone();
        let i = ctx.rng.below(a.len() as u64) as usize;
        let j = 1 + ctx.rng.below(b.len() as u64 - 1) as usize;
        let mut s = a[..i].to_vec();
        s.extend_from_slice(&b[j..]);
        one(ctx, "splice", &s, false);
    }
    // arbitrary bytes behind the version byte
    for _ in 0..n {
        let len = ctx.rng.below(24) as usize;
        let mut b = vec![131u8];
        b.extend(ctx.rng.bytes(len));
        one(ctx, "random", &b, false);
    }
}
