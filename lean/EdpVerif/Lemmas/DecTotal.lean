import EdpVerif.Impl.Decode
/-! The term decoder's model never reaches a panic site, provided the inflater reports no more input consumed than it
was given (the contract of flate2's `total_in`). -/
namespace Edp

theorem rdU_np (k : Nat) (bs : Bytes) : rdU k bs ≠ .error .panic := by
  unfold rdU; split <;> simp

theorem takeE_np (n : Nat) (bs : Bytes) : takeE n bs ≠ .error .panic := by
  unfold takeE; split <;> simp

theorem decAtomBody_np (k : Nat) (bs : Bytes) : decAtomBody k bs ≠ .error .panic := by
  unfold decAtomBody
  split
  · rename_i e h; intro hp; simp only [Except.error.injEq] at hp; subst hp; exact rdU_np _ _ h
  · split
    · simp
    · split
      · rename_i e h; intro hp; simp only [Except.error.injEq] at hp; subst hp; exact takeE_np _ _ h
      · split <;> simp

theorem decLatin1Body_np (k : Nat) (bs : Bytes) : decLatin1Body k bs ≠ .error .panic := by
  unfold decLatin1Body
  split
  · rename_i e h; intro hp; simp only [Except.error.injEq] at hp; subst hp; exact rdU_np _ _ h
  · split
    · simp
    · split
      · rename_i e h; intro hp; simp only [Except.error.injEq] at hp; subst hp; exact takeE_np _ _ h
      · simp

theorem decBig_np (k : Nat) (bs : Bytes) : decBig k bs ≠ .error .panic := by
  unfold decBig
  split
  · rename_i e h; intro hp; simp only [Except.error.injEq] at hp; subst hp; exact rdU_np _ _ h
  · split
    · rename_i e h; intro hp; simp only [Except.error.injEq] at hp; subst hp; exact rdU_np _ _ h
    · split
      · rename_i e h; intro hp; simp only [Except.error.injEq] at hp; subst hp; exact takeE_np _ _ h
      · simp

theorem rdWords_np (n : Nat) (bs : Bytes) : rdWords n bs ≠ .error .panic := by
  induction n generalizing bs with
  | zero => simp [rdWords]
  | succ n ih =>
    unfold rdWords
    split
    · rename_i e h; intro hp; simp only [Except.error.injEq] at hp; subst hp; exact rdU_np _ _ h
    · split
      · rename_i e h; intro hp; simp only [Except.error.injEq] at hp; subst hp; exact ih _ h
      · simp

set_option hygiene false in
macro "pstep" : tactic => `(tactic| (
  split at h <;> (first
    | (simp at h; done)
    | (rename_i heq; simp only [Except.error.injEq] at h; subst h; first
        | exact absurd heq (ih1 _ _)
        | exact absurd heq (ih2 _ _ _)
        | exact absurd heq (ih3 _ _ _ _)
        | exact absurd heq (rdU_np _ _)
        | exact absurd heq (takeE_np _ _)
        | exact absurd heq (rdWords_np _ _))
    | skip)))

set_option maxHeartbeats 4000000 in
theorem dec_no_panic (x : Ext) (cfg : DecCfg) (hx : ∀ z out n, x.inflate z = some (out, n) → n ≤ z.length) :
    ∀ (fuel : Nat),
    (∀ d bs, dec x cfg fuel d bs ≠ .error .panic) ∧
    (∀ d n bs, decN x cfg fuel d n bs ≠ .error .panic) ∧
    (∀ d n bs m, decKV x cfg fuel d n bs m ≠ .error .panic) := by
  intro fuel
  induction fuel with
  | zero =>
    refine ⟨?_, ?_, ?_⟩
    · intro d bs; simp [dec]
    · intro d n bs; cases n <;> simp [decN]
    · intro d n bs m; cases n <;> simp [decKV]
  | succ f ih =>
    obtain ⟨ih1, ih2, ih3⟩ := ih
    refine ⟨?_, ?_, ?_⟩
    · intro d bs h
      cases bs with
      | nil => simp [dec] at h
      | cons t bs =>
        simp only [dec] at h
        by_cases hd : d > MAX_NESTING_DEPTH
        · simp [hd] at h
        · simp only [hd, ↓reduceIte] at h
          split at h
          · simp at h
          · split at h
            all_goals (repeat pstep)
            all_goals (first
              | exact absurd h (decLatin1Body_np _ _)
              | exact absurd h (decAtomBody_np _ _)
              | exact absurd h (decBig_np _ _)
              | (simp at h; done)
              | (have hinf : ∃ z out n, x.inflate z = some (out, n) ∧ n > z.length := ⟨_, _, _, ‹x.inflate _ = some (_, _)›, ‹_ > _›⟩
                 obtain ⟨z, out, n, h1, h2⟩ := hinf
                 have := hx _ _ _ h1; omega))
    · intro d n bs h
      cases n with
      | zero => simp [decN] at h
      | succ n =>
        simp only [decN] at h
        repeat pstep
    · intro d n bs m h
      cases n with
      | zero => simp [decKV] at h
      | succ n =>
        simp only [decKV] at h
        repeat pstep
        exact absurd h (ih3 _ _ _ _)

end Edp
