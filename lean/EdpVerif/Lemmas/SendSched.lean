import EdpVerif.Lemmas.Send
/-!
C07, concurrency: the invariant of the lock/write semantics (`Send.step`) that holds after every schedule.
-/
namespace Edp.Send
open Edp Edp.Spec Edp.Spec.Wire

def flat (prog : Nat → List (List Bytes)) (acq : List (Nat × Nat)) : Bytes := (acq.map (frameOf prog)).flatten

/-- number of operations task `u` has acquired the lock for -/
def started (st : St) (u : Nat) : Nat := (st.ts u).next + (if (st.ts u).rem.isSome then 1 else 0)

structure Inv (prog : Nat → List (List Bytes)) (st : St) : Prop where
  /-- only the lock holder is inside an operation -/
  excl : ∀ u, (st.ts u).rem.isSome = true → st.lock = some u
  /-- with the lock free, the wire is the whole frames of the acquired operations in acquisition order -/
  free : st.lock = none → st.wire = flat prog st.acq
  /-- with the lock held, it is that for all but the last acquisition, followed by the writes the holder has done -/
  held : ∀ t, st.lock = some t → ∃ acq' pre rem full,
    st.acq = acq' ++ [(t, (st.ts t).next)] ∧ (st.ts t).rem = some rem ∧ (prog t)[(st.ts t).next]? = some full ∧
    full = pre ++ rem ∧ st.wire = flat prog acq' ++ pre.flatten
  /-- each task's operations were acquired in issue order, without gaps -/
  order : ∀ u, ((st.acq.filter (fun p => p.1 = u)).map (·.2)) = List.range (started st u)
  /-- every acquisition is of an operation the program has -/
  valid : ∀ p ∈ st.acq, ((prog p.1)[p.2]?).isSome = true

theorem inv_init (prog : Nat → List (List Bytes)) : Inv prog St.init := by
  refine ⟨?_, ?_, ?_, ?_, ?_⟩
  · intro u h; simp [St.init] at h
  · intro _; simp [St.init, flat]
  · intro t h; simp [St.init] at h
  · intro u; simp [St.init, started]
  · intro p h; simp [St.init] at h

theorem flat_append (prog : Nat → List (List Bytes)) (a b : List (Nat × Nat)) :
    flat prog (a ++ b) = flat prog a ++ flat prog b := by
  simp [flat]

theorem flat_single (prog : Nat → List (List Bytes)) (t i : Nat) (full : List Bytes) (h : (prog t)[i]? = some full) :
    flat prog [(t, i)] = full.flatten := by
  simp [flat, frameOf, h]

theorem inv_step (prog : Nat → List (List Bytes)) (st st' : St) (t : Nat) (hi : Inv prog st)
    (hs : step prog st t = some st') : Inv prog st' := by
  unfold step at hs
  cases hrem : (st.ts t).rem with
  | none =>
    simp only [hrem] at hs
    cases hp : (prog t)[(st.ts t).next]? with
    | none => simp [hp] at hs
    | some ws =>
      simp only [hp] at hs
      cases hl : st.lock with
      | some h => simp [hl] at hs
      | none =>
        simp only [hl] at hs
        have e : st' = { st with lock := some t, ts := upd st.ts t { next := (st.ts t).next, rem := some ws },
                                 acq := st.acq ++ [(t, (st.ts t).next)] } := by
          injection hs with hs; exact hs.symm
        subst e
        refine ⟨?_, ?_, ?_, ?_, ?_⟩
        · intro u hu
          by_cases hut : u = t
          · subst hut; rfl
          · simp only [upd, hut, ↓reduceIte] at hu
            have := hi.excl u hu
            rw [hl] at this; cases this
        · intro h; cases h
        · intro t' ht'
          have : t' = t := by injection ht' with h; exact h.symm
          subst this
          refine ⟨st.acq, [], ws, ws, ?_, ?_, ?_, by simp, ?_⟩
          · simp [upd]
          · simp [upd]
          · simpa [upd] using hp
          · simp [hi.free hl]
        · intro u
          by_cases hut : u = t
          · subst hut
            have := hi.order u
            simp only [started, hrem, Option.isSome_none, Bool.false_eq_true, ↓reduceIte, Nat.add_zero] at this
            simp [started, upd, List.filter_append, this, List.range_succ]
          · have := hi.order u
            simp only [started] at this ⊢
            simp only [upd, hut, ↓reduceIte]
            rw [List.filter_append]
            have hne : ¬ (t = u) := fun h => hut h.symm
            simp [hne, this]
        · intro p hp'
          simp only [List.mem_append, List.mem_singleton] at hp'
          rcases hp' with h | h
          · exact hi.valid p h
          · subst h; simp [hp]
  | some rem =>
    have hlock := hi.excl t (by simp [hrem])
    obtain ⟨acq', pre, rem', full, hacq, hrem', hfull, hsplit, hwire⟩ := hi.held t hlock
    have hr : rem' = rem := by rw [hrem] at hrem'; injection hrem' with h; exact h.symm
    subst hr
    cases rem' with
    | nil =>
      simp only [hrem] at hs
      have e : st' = { st with lock := none, ts := upd st.ts t { next := (st.ts t).next + 1, rem := none } } := by
        injection hs with hs; exact hs.symm
      subst e
      refine ⟨?_, ?_, ?_, ?_, ?_⟩
      · intro u hu
        by_cases hut : u = t
        · subst hut; simp [upd] at hu
        · simp only [upd, hut, ↓reduceIte] at hu
          have := hi.excl u hu
          rw [hlock] at this
          injection this with h; exact absurd h.symm hut
      · intro _
        simp only
        rw [hwire, hacq, flat_append, flat_single prog t _ full hfull, hsplit]
        simp
      · intro t' ht'; cases ht'
      · intro u
        by_cases hut : u = t
        · subst hut
          have := hi.order u
          simp only [started, hrem, Option.isSome_some, ↓reduceIte] at this
          simp [started, upd, this]
        · have := hi.order u
          simp only [started] at this ⊢
          simp only [upd, hut, ↓reduceIte]
          exact this
      · exact hi.valid
    | cons w ws =>
      simp only [hrem] at hs
      have e : st' = { st with wire := st.wire ++ w, ts := upd st.ts t { next := (st.ts t).next, rem := some ws } } := by
        injection hs with hs; exact hs.symm
      subst e
      refine ⟨?_, ?_, ?_, ?_, ?_⟩
      · intro u hu
        by_cases hut : u = t
        · subst hut; exact hlock
        · simp only [upd, hut, ↓reduceIte] at hu
          exact hi.excl u hu
      · intro h; simp only at h; rw [hlock] at h; cases h
      · intro t' ht'
        simp only at ht'
        have : t' = t := by rw [hlock] at ht'; injection ht' with h; exact h.symm
        subst this
        refine ⟨acq', pre ++ [w], ws, full, ?_, ?_, ?_, ?_, ?_⟩
        · simpa [upd] using hacq
        · simp [upd]
        · simpa [upd] using hfull
        · simp [hsplit]
        · simp [hwire]
      · intro u
        by_cases hut : u = t
        · subst hut
          have := hi.order u
          simp only [started, hrem, Option.isSome_some, ↓reduceIte] at this
          simp [started, upd, this]
        · have := hi.order u
          simp only [started] at this ⊢
          simp only [upd, hut, ↓reduceIte]
          exact this
      · exact hi.valid

/-- the invariant holds after every schedule -/
theorem inv_run (prog : Nat → List (List Bytes)) (σ : List Nat) : ∀ st, Inv prog st → Inv prog (run prog st σ) := by
  induction σ with
  | nil => intro st h; exact h
  | cons t σ ih =>
    intro st h
    simp only [run, List.foldl_cons]
    cases hs : step prog st t with
    | none => simpa [run] using ih st h
    | some st' => simpa [run] using ih st' (inv_step prog st st' t h hs)

theorem readFrames_flat (prog : Nat → List (List Bytes)) (item : Nat × Nat → Item) :
    ∀ (acq : List (Nat × Nat)),
    (∀ p ∈ acq, ∃ body, frameOf prog p = be32 body.length ++ body ∧ body.length < 4294967296 ∧ body ≠ [] ∧
        ∀ cache, readBody .passThrough cache body = some (item p, cache)) →
    ∀ cache, readFramesFrom .passThrough cache (flat prog acq) = some (acq.map item) := by
  intro acq
  induction acq with
  | nil => intro _ cache; simp [flat, readFrames_nil]
  | cons p acq ih =>
    intro h cache
    obtain ⟨body, hf, hl, hne, hrb⟩ := h p (by simp)
    have e : flat prog (p :: acq) = be32 body.length ++ body ++ flat prog acq := by
      simp [flat, hf]
    rw [e, readFrames_cons .passThrough cache body _ hl hne _ cache (hrb cache),
      ih (fun q hq => h q (by simp [hq])) cache]
    simp


/-- the writes of an operation (nothing when it fails) -/
def writesOf (r : Except Err (List Bytes)) : List Bytes :=
  match r with
  | .ok ws => ws
  | .error _ => []


/-! ### material for the non-vacuity examples of Props/C07.lean -/

def pA : PidF := { node := [97, 64, 104], id := 1, serial := 2, creation := 3 }
def pB : PidF := { node := [98, 64, 104], id := 4294967295, serial := 0, creation := 7 }
def rA : RefF := { node := [97, 64, 104], creation := 3, ids := [1, 2, 3] }
def ptConn : Conn := { state := .connected, neg := some 0, stream := true }
def hdrConn : Conn := { state := .connected, neg := some 0x2000, stream := true }

theorem pidOk_plain (p : PidF) (hu : validUtf8 p.node = true) (h1 : p.id < 4294967296) (h2 : p.serial < 4294967296)
    (h3 : p.creation < 4294967296) (hl : p.loc = none) : PidOk p :=
  ⟨hu, h1, h2, h3, fun l h => by rw [hl] at h; cases h⟩

theorem pA_ok : PidOk pA := pidOk_plain pA (by decide) (by decide) (by decide) (by decide) rfl
theorem pB_ok : PidOk pB := pidOk_plain pB (by decide) (by decide) (by decide) (by decide) rfl
theorem rA_ok : RefOk rA := ⟨by decide, by decide, by decide, fun l h => by cases h⟩


end Edp.Send
