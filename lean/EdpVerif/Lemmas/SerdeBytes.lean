import EdpVerif.Lemmas.SerdeWire
import EdpVerif.Lemmas.RoundTrip
import EdpVerif.Lemmas.EncErr
/-!
C15: the link between the closed form `Serde.wireT` and the codec models.

`Edp.wire` is the wire form for which the codec round trip `decode (encode t) = wire t` is proved (Lemmas/RoundTrip.lean,
`dec_enc`); on the serialiser's term fragment within the decoder's limits (`Spec.Serde.wireFits`) the two closed forms are
the same function, the fragment is well-formed in the codec's sense, and so `from_bytes (to_bytes v)` is
`de ty (wireT (ser v))`.
-/
namespace Edp.SerdeBytes
open Edp

theorem foldl_insert (l : List (Term × Term)) : ∀ m : List (Term × Term),
    l.foldl (fun m kv => mapInsert m kv.1 kv.2) m = Edp.insertAll m l := by
  induction l with
  | nil => intro m; simp [Edp.insertAll]
  | cons kv r ih => intro m; obtain ⟨k, v⟩ := kv; simp [Edp.insertAll, ih]

theorem insertAll_eq (l : List (Term × Term)) : Serde.insertAll l = Edp.insertAll [] l := by
  unfold Serde.insertAll; exact foldl_insert l []

mutual
/-- on the serialiser's fragment the two closed forms of `decode ∘ encode` agree -/
theorem wire_eq : ∀ t : Term, Spec.Serde.wireFits t = true → Edp.wire t = Serde.wireT t
  | .atom _, _ => by simp [Edp.wire, Serde.wireT]
  | .int i, _ => by
    simp only [Edp.wire, Serde.wireT, Serde.inI32, Serde.intDigits]
    by_cases h : -2147483648 ≤ i ∧ i ≤ 2147483647
    · simp [h]
    · have : ¬ ((-2147483648 ≤ i) ∧ (i ≤ 2147483647)) := h
      simp [h]
  | .float _, _ => by simp [Edp.wire, Serde.wireT]
  | .bin _, _ => by simp [Edp.wire, Serde.wireT]
  | .str _, _ => by simp [Edp.wire, Serde.wireT]
  | .big _ _, _ => by simp [Edp.wire, Serde.wireT]
  | .nil, _ => by simp [Edp.wire, Serde.wireT]
  | .list l, h => by
    simp only [Spec.Serde.wireFits, Bool.and_eq_true] at h
    cases l with
    | nil => simp [Edp.wire, Serde.wireT]
    | cons a r => simp [Edp.wire, Serde.wireT, wireL_eq (a :: r) h.2]
  | .tuple l, h => by
    simp only [Spec.Serde.wireFits, Bool.and_eq_true] at h
    simp [Edp.wire, Serde.wireT, wireL_eq l h.2]
  | .map kvs, h => by
    simp only [Spec.Serde.wireFits, Bool.and_eq_true] at h
    simp [Edp.wire, Serde.wireT, wireKV_eq kvs h.2, insertAll_eq]
  | .pid _, h => by simp [Spec.Serde.wireFits] at h
  | .port _ _ _ _, h => by simp [Spec.Serde.wireFits] at h
  | .ref _ _ _ _, h => by simp [Spec.Serde.wireFits] at h
  | .bits _ _, h => by simp [Spec.Serde.wireFits] at h
  | .ilist _ _, h => by simp [Spec.Serde.wireFits] at h
  | .xfun _ _ _, h => by simp [Spec.Serde.wireFits] at h
  | .ifun _ _ _ _ _ _ _ _ _, h => by simp [Spec.Serde.wireFits] at h
theorem wireL_eq : ∀ l : List Term, Spec.Serde.wireFitsL l = true → Edp.wireL l = Serde.wireL l
  | [], _ => by simp [Edp.wireL, Serde.wireL]
  | t :: ts, h => by
    simp only [Spec.Serde.wireFitsL, Bool.and_eq_true] at h
    simp [Edp.wireL, Serde.wireL, wire_eq t h.1, wireL_eq ts h.2]
theorem wireKV_eq : ∀ l : List (Term × Term), Spec.Serde.wireFitsKV l = true → Edp.wireKV l = Serde.wireKV l
  | [], _ => by simp [Edp.wireKV, Serde.wireKV]
  | (k, v) :: r, h => by
    simp only [Spec.Serde.wireFitsKV, Bool.and_eq_true] at h
    simp [Edp.wireKV, Serde.wireKV, wire_eq k h.1.1, wire_eq v h.1.2, wireKV_eq r h.2]
end

mutual
/-- the fragment within the decoder's limits is well-formed for the codec round trip -/
theorem wfT_of_fits : ∀ t : Term, Spec.Serde.wireFits t = true → Edp.wfT t = true
  | .atom _, h => by simp only [Spec.Serde.wireFits, Bool.and_eq_true] at h; simp [Edp.wfT, h.1]
  | .int i, h => by
    simp only [Spec.Serde.wireFits, Bool.and_eq_true, Serde.i64Min, Serde.i64Max] at h
    have h1 := of_decide_eq_true h.1
    have h2 := of_decide_eq_true h.2
    simp only [Edp.wfT, decide_eq_true_eq]; exact ⟨h1, h2⟩
  | .float _, h => by
    simp only [Spec.Serde.wireFits, decide_eq_true_eq] at h
    simp only [Edp.wfT, decide_eq_true_eq]; omega
  | .bin _, h => by simpa [Spec.Serde.wireFits, Edp.wfT] using h
  | .str _, h => by simpa [Spec.Serde.wireFits, Edp.wfT] using h
  | .big _ d, h => by
    simp only [Spec.Serde.wireFits, decide_eq_true_eq] at h
    simp only [Edp.wfT, decide_eq_true_eq]; omega
  | .nil, _ => by simp [Edp.wfT]
  | .list l, h => by
    simp only [Spec.Serde.wireFits, Bool.and_eq_true] at h
    simp only [Edp.wfT, Bool.and_eq_true]; exact ⟨h.1, wfL_of_fits l h.2⟩
  | .tuple l, h => by
    simp only [Spec.Serde.wireFits, Bool.and_eq_true] at h
    simp only [Edp.wfT, Bool.and_eq_true]; exact ⟨h.1, wfL_of_fits l h.2⟩
  | .map kvs, h => by
    simp only [Spec.Serde.wireFits, Bool.and_eq_true] at h
    simp only [Edp.wfT, Bool.and_eq_true]; exact ⟨h.1, wfKV_of_fits kvs h.2⟩
  | .pid _, h => by simp [Spec.Serde.wireFits] at h
  | .port _ _ _ _, h => by simp [Spec.Serde.wireFits] at h
  | .ref _ _ _ _, h => by simp [Spec.Serde.wireFits] at h
  | .bits _ _, h => by simp [Spec.Serde.wireFits] at h
  | .ilist _ _, h => by simp [Spec.Serde.wireFits] at h
  | .xfun _ _ _, h => by simp [Spec.Serde.wireFits] at h
  | .ifun _ _ _ _ _ _ _ _ _, h => by simp [Spec.Serde.wireFits] at h
theorem wfL_of_fits : ∀ l : List Term, Spec.Serde.wireFitsL l = true → Edp.wfL l = true
  | [], _ => by simp [Edp.wfL]
  | t :: ts, h => by
    simp only [Spec.Serde.wireFitsL, Bool.and_eq_true] at h
    simp only [Edp.wfL, Bool.and_eq_true]; exact ⟨wfT_of_fits t h.1, wfL_of_fits ts h.2⟩
theorem wfKV_of_fits : ∀ l : List (Term × Term), Spec.Serde.wireFitsKV l = true → Edp.wfKV l = true
  | [], _ => by simp [Edp.wfKV]
  | (k, v) :: r, h => by
    simp only [Spec.Serde.wireFitsKV, Bool.and_eq_true] at h
    simp only [Edp.wfKV, Bool.and_eq_true]; exact ⟨⟨wfT_of_fits k h.1.1, wfT_of_fits v h.1.2⟩, wfKV_of_fits r h.2⟩
end

mutual
/-- within the decoder's limits no encoder limit is exceeded -/
theorem not_over_of_fits (e : EncErr) : ∀ t : Term, Spec.Serde.wireFits t = true → over e t = false
  | .atom a, h => by
    simp [Spec.Serde.wireFits] at h
    simp only [over, atomOver, u16max]
    have := h.2
    simp; intro _; omega
  | .int _, _ => by simp [over]
  | .float _, _ => by simp [over]
  | .bin b, h => by
    simp only [Spec.Serde.wireFits] at h
    have h1 := of_decide_eq_true h
    simp only [MAX_BINARY_SIZE] at h1
    simp only [over]; simp; intro _; omega
  | .str b, h => by
    simp only [Spec.Serde.wireFits] at h
    have h1 := of_decide_eq_true h
    simp only [MAX_BINARY_SIZE] at h1
    simp only [over]; simp; intro _; omega
  | .big _ _, _ => by simp [over]
  | .nil, _ => by simp [over]
  | .list l, h => by
    simp only [Spec.Serde.wireFits, Bool.and_eq_true] at h
    have h1 := of_decide_eq_true h.1
    simp only [MAX_LIST_SIZE] at h1
    simp only [over, notOverL_of_fits e l h.2, Bool.or_false]; simp; intro _; omega
  | .tuple l, h => by
    simp only [Spec.Serde.wireFits, Bool.and_eq_true] at h
    have h1 := of_decide_eq_true h.1
    simp only [MAX_TUPLE_SIZE] at h1
    simp only [over, notOverL_of_fits e l h.2, Bool.or_false]; simp; intro _; omega
  | .map kvs, h => by
    simp only [Spec.Serde.wireFits, Bool.and_eq_true] at h
    have h1 := of_decide_eq_true h.1
    simp only [MAX_MAP_SIZE] at h1
    simp only [over, notOverKV_of_fits e kvs h.2, Bool.or_false]; simp; intro _; omega
  | .pid _, h => by simp [Spec.Serde.wireFits] at h
  | .port _ _ _ _, h => by simp [Spec.Serde.wireFits] at h
  | .ref _ _ _ _, h => by simp [Spec.Serde.wireFits] at h
  | .bits _ _, h => by simp [Spec.Serde.wireFits] at h
  | .ilist _ _, h => by simp [Spec.Serde.wireFits] at h
  | .xfun _ _ _, h => by simp [Spec.Serde.wireFits] at h
  | .ifun _ _ _ _ _ _ _ _ _, h => by simp [Spec.Serde.wireFits] at h
theorem notOverL_of_fits (e : EncErr) : ∀ l : List Term, Spec.Serde.wireFitsL l = true → overL e l = false
  | [], _ => by simp [overL]
  | t :: ts, h => by
    simp only [Spec.Serde.wireFitsL, Bool.and_eq_true] at h
    simp [overL, not_over_of_fits e t h.1, notOverL_of_fits e ts h.2]
theorem notOverKV_of_fits (e : EncErr) : ∀ l : List (Term × Term), Spec.Serde.wireFitsKV l = true → overKV e l = false
  | [], _ => by simp [overKV]
  | (k, v) :: r, h => by
    simp only [Spec.Serde.wireFitsKV, Bool.and_eq_true] at h
    simp [overKV, not_over_of_fits e k h.1.1, not_over_of_fits e v h.1.2, notOverKV_of_fits e r h.2]
end

mutual
theorem dep_eq : ∀ t : Term, Spec.Serde.wireFits t = true → dep t = Spec.Serde.nesting t
  | .atom _, _ => by simp [dep, Spec.Serde.nesting]
  | .int _, _ => by simp [dep, Spec.Serde.nesting]
  | .float _, _ => by simp [dep, Spec.Serde.nesting]
  | .bin _, _ => by simp [dep, Spec.Serde.nesting]
  | .str _, _ => by simp [dep, Spec.Serde.nesting]
  | .big _ _, _ => by simp [dep, Spec.Serde.nesting]
  | .nil, _ => by simp [dep, Spec.Serde.nesting]
  | .list l, h => by
    simp only [Spec.Serde.wireFits, Bool.and_eq_true] at h
    simp [dep, Spec.Serde.nesting, depL_eq l h.2]
  | .tuple l, h => by
    simp only [Spec.Serde.wireFits, Bool.and_eq_true] at h
    simp [dep, Spec.Serde.nesting, depL_eq l h.2]
  | .map kvs, h => by
    simp only [Spec.Serde.wireFits, Bool.and_eq_true] at h
    simp [dep, Spec.Serde.nesting, depKV_eq kvs h.2]
  | .pid _, h => by simp [Spec.Serde.wireFits] at h
  | .port _ _ _ _, h => by simp [Spec.Serde.wireFits] at h
  | .ref _ _ _ _, h => by simp [Spec.Serde.wireFits] at h
  | .bits _ _, h => by simp [Spec.Serde.wireFits] at h
  | .ilist _ _, h => by simp [Spec.Serde.wireFits] at h
  | .xfun _ _ _, h => by simp [Spec.Serde.wireFits] at h
  | .ifun _ _ _ _ _ _ _ _ _, h => by simp [Spec.Serde.wireFits] at h
theorem depL_eq : ∀ l : List Term, Spec.Serde.wireFitsL l = true → depL l = Spec.Serde.nestingL l
  | [], _ => by simp [depL, Spec.Serde.nestingL]
  | t :: ts, h => by
    simp only [Spec.Serde.wireFitsL, Bool.and_eq_true] at h
    simp [depL, Spec.Serde.nestingL, dep_eq t h.1, depL_eq ts h.2]
theorem depKV_eq : ∀ l : List (Term × Term), Spec.Serde.wireFitsKV l = true → depKV l = Spec.Serde.nestingKV l
  | [], _ => by simp [depKV, Spec.Serde.nestingKV]
  | (k, v) :: r, h => by
    simp only [Spec.Serde.wireFitsKV, Bool.and_eq_true] at h
    simp [depKV, Spec.Serde.nestingKV, dep_eq k h.1.1, dep_eq v h.1.2, depKV_eq r h.2]
end

/-- the codec round trip (Lemmas/RoundTrip.lean) on the serialiser's fragment, in terms of `Serde.wireT` -/
theorem decode_encode (x : Ext) (t : Term) (bs : Bytes) (hf : Spec.Serde.wireFits t = true)
    (hd : dep t ≤ MAX_NESTING_DEPTH) (he : encode t = .ok bs) : decode x bs = .ok (Serde.wireT t) := by
  have hw := wfT_of_fits t hf
  rw [← wire_eq t hf]
  unfold encode at he
  cases h : enc [] t with
  | error e => simp [h] at he
  | ok b =>
    simp [h] at he; subst he
    have hl := tsz_le_length [] t b hw h
    have := dec_enc x {} [] (cfgFor_nil _) (by simp) t b [] (b.length + 1 + x.extra) 0 hw (by omega) h (by omega)
    simp only [List.append_nil] at this
    simp [decode, decodeWith, this]

/-- within the limits `to_bytes` succeeds -/
theorem encode_ok (t : Term) (hf : Spec.Serde.wireFits t = true) : ∃ bs, encode t = .ok bs := by
  cases h1 : encode t with
  | ok b => exact ⟨b, rfl⟩
  | error e =>
    unfold encode at h1
    cases h2 : enc [] t with
    | ok b => simp [h2] at h1
    | error e' =>
      have := enc_err [] t e' h2
      rw [not_over_of_fits e' t hf] at this; cases this

end Edp.SerdeBytes
