import EdpVerif.Impl.NodeIds
import EdpVerif.Lemmas.PidAlloc
namespace Edp.Impl.NodeIds
open Edp.Impl

/-- both holders of the creation agree -/
def Sync (s : NSt) : Prop := s.alloc.creation = s.creation

theorem alloc_creation (a : PidAlloc.Sh) : (PidAlloc.alloc a).2.creation = a.creation := by
  by_cases h0 : a.poisoned = true <;> by_cases h1 : a.nextId + 1 ≥ PidAlloc.U32 <;>
    by_cases h2 : a.nextId ≥ PidAlloc.MAXP <;> by_cases h3 : a.nextSerial + 1 ≥ PidAlloc.U64 <;>
    simp [PidAlloc.alloc, h0, h1, h2, h3]

theorem alloc_pid_creation (a : PidAlloc.Sh) (p : PidAlloc.Pid) (h : (PidAlloc.alloc a).1 = .ok p) :
    p.creation = a.creation := by
  by_cases h0 : a.poisoned = true <;> by_cases h1 : a.nextId + 1 ≥ PidAlloc.U32 <;>
    by_cases h2 : a.nextId ≥ PidAlloc.MAXP <;> by_cases h3 : a.nextSerial + 1 ≥ PidAlloc.U64 <;>
    simp [PidAlloc.alloc, h0, h1, h2, h3] at h <;> subst h <;> rfl

theorem step_sync (s : NSt) (op : Op) (h : Sync s) : Sync (step s op).2 := by
  cases op with
  | start e =>
    simp only [step]
    split
    · exact h
    · cases e <;> simp_all [Sync, PidAlloc.Sh.setCreation]
  | spawn =>
    simp only [step]
    split
    · exact h
    · simpa [Sync, alloc_creation] using h
  | allocate => simpa [step, Sync, alloc_creation] using h
  | makeRef => simpa [step, Sync] using h
  | unlink => simpa [step, Sync] using h

/-- the creation an identifier made by this call carries, if the call makes one -/
def Out.creation? : Out → Option Nat
  | .pid (.ok p) => some p.creation
  | .ref r => some r.creation
  | _ => none

theorem step_out_creation (s : NSt) (op : Op) (h : Sync s) (c : Nat) (hc : (step s op).1.creation? = some c) :
    c = s.creation := by
  cases op with
  | start e =>
    simp only [step] at hc
    split at hc
    · simp [Out.creation?] at hc
    · cases e <;> simp [Out.creation?] at hc
  | spawn =>
    simp only [step] at hc
    split at hc
    · simp [Out.creation?] at hc
    · cases hr : (PidAlloc.alloc s.alloc).1 with
      | ok p =>
        simp only [hr, Out.creation?, Option.some.injEq] at hc
        rw [← hc, alloc_pid_creation s.alloc p hr]; exact h
      | err => simp [hr, Out.creation?] at hc
      | panic => simp [hr, Out.creation?] at hc
  | allocate =>
    simp only [step] at hc
    cases hr : (PidAlloc.alloc s.alloc).1 with
    | ok p =>
      simp only [hr, Out.creation?, Option.some.injEq] at hc
      rw [← hc, alloc_pid_creation s.alloc p hr]; exact h
    | err => simp [hr, Out.creation?] at hc
    | panic => simp [hr, Out.creation?] at hc
  | makeRef => simp only [step, Out.creation?, Option.some.injEq] at hc; exact hc.symm
  | unlink => simp [step, Out.creation?] at hc

/-- the creation of the state after a step is the creation in force after that call -/
theorem step_inForce (s : NSt) (op : Op) (r : List Op) :
    inForce s.started s.creation (op :: r) = inForce (step s op).2.started (step s op).2.creation r := by
  cases op with
  | start e =>
    simp only [step, inForce]
    split
    · rename_i hs; simp [hs]
    · cases e <;> simp
  | spawn =>
    simp only [step, inForce]
    split <;> rfl
  | allocate => rfl
  | makeRef => rfl
  | unlink => rfl

/-- a history of calls keeps the two holders of the creation in step, and the state's creation is the one in force -/
theorem run_inv (pre : List Op) : ∀ (s : NSt), Sync s →
    Sync (run s pre).2 ∧ (run s pre).2.creation = inForce s.started s.creation pre := by
  induction pre with
  | nil => intro s h; exact ⟨h, rfl⟩
  | cons op r ih =>
    intro s h
    have e : (run s (op :: r)).2 = (run (step s op).2 r).2 := rfl
    rw [e, step_inForce]
    exact ih _ (step_sync s op h)

theorem inForce_started (c : Nat) (r : List Op) : inForce true c r = c := by
  induction r with
  | nil => rfl
  | cons op r ih => cases op <;> simp [inForce, ih]

end Edp.Impl.NodeIds

namespace Edp.Impl.PidAlloc

theorem alloc_keeps_creation (a : Sh) : (alloc a).2.creation = a.creation := NodeIds.alloc_creation a

theorem getLast?_cons_getD (c x : Nat) (l : List Nat) : ((c :: l).getLast?).getD x = (l.getLast?).getD c := by
  cases l with
  | nil => rfl
  | cons a t => simp [List.getLast?_cons_cons, List.getLast?_eq_some_getLast (l := a :: t) (by simp)]

theorem foldl_state_creation (pre : List Op) : ∀ (acc : List Res × Sh),
    (pre.foldl seqStep acc).2.creation = ((Op.creations pre).getLast?).getD acc.2.creation := by
  induction pre with
  | nil => intro acc; rfl
  | cons op r ih =>
    intro acc
    simp only [List.foldl_cons]
    rw [ih]
    cases op with
    | alloc => simp [seqStep, Op.creations, alloc_keeps_creation]
    | setCreation c => simp only [seqStep, Op.creations, Sh.setCreation, getLast?_cons_getD]

/-- sequential histories of `allocate` and `set_creation`: the allocator's creation is the one stored last -/
theorem seqRun_state_creation (s0 : Sh) (pre : List Op) :
    (seqRun s0 pre).2.creation = ((Op.creations pre).getLast?).getD s0.creation :=
  foldl_state_creation pre ([], s0)

end Edp.Impl.PidAlloc

namespace Edp.Impl.PidAlloc

theorem seqState_setCreation (s : Sh) (c : Nat) (i : Nat) :
    seqState (s.setCreation c) i = (seqState s i).setCreation c := by
  induction i with
  | zero => rfl
  | succ i ih => simp only [seqState, ih, alloc_setC, mapC]

/-- changing the creation never changes which numbers are handed out -/
theorem seqAlloc_setCreation_key (s : Sh) (c : Nat) (i : Nat) :
    (seqAlloc (s.setCreation c) i).key = (seqAlloc s i).key := by
  simp only [seqAlloc, seqState_setCreation, alloc_setC, mapC, key_setC]

/-- the (id, serial) pairs of a row of allocations are pairwise distinct inside the window -/
theorem seq_keys_nodup (s0 : Sh) (n : Nat) (hn : n ≤ MAXP * U32) :
    (((List.range n).map (fun i => (seqAlloc s0 i).key)).filterMap id).Nodup := by
  rw [List.filterMap_map]
  rw [List.Nodup, List.pairwise_filterMap]
  have hr : (List.range n).Pairwise (· < ·) := List.pairwise_lt_range
  refine List.Pairwise.imp_of_mem ?_ hr
  intro i j hi hj hij b hb b' hb'
  simp only [Function.comp, id] at hb hb'
  have hj' : j < n := List.mem_range.mp hj
  cases hp : seqAlloc s0 i with
  | ok p =>
    cases hq : seqAlloc s0 j with
    | ok q =>
      rw [hp] at hb; rw [hq] at hb'
      simp only [Res.key, Option.some.injEq] at hb hb'
      rw [← hb, ← hb']
      exact seqAlloc_key_ne_any s0 i j hij (by omega) p q hp hq
    | err => rw [hq] at hb'; cases hb'
    | panic => rw [hq] at hb'; cases hb'
  | err => rw [hp] at hb; cases hb
  | panic => rw [hp] at hb; cases hb

end Edp.Impl.PidAlloc

namespace Edp.Impl.NodeIds
open Edp.Impl

/-- the (id, serial) of every `allocate()` a history performs, in order (`none` for a call that failed) -/
def pidKeys : List Out → List (Option (Nat × Nat))
  | [] => []
  | .pid r :: l => r.key :: pidKeys l
  | _ :: l => pidKeys l

/-- **the numbers a node hands out do not depend on `start`**: the allocations of any history are those of one plain row
of allocations from the allocator's initial counters — `start` changes the creation and nothing else -/
theorem run_pidKeys (ops : List Op) : ∀ (s : NSt),
    pidKeys (run s ops).1 = (List.range (pidKeys (run s ops).1).length).map (fun i => (PidAlloc.seqAlloc s.alloc i).key) := by
  induction ops with
  | nil => intro s; rfl
  | cons op r ih =>
    intro s
    have e : (run s (op :: r)).1 = (step s op).1 :: (run (step s op).2 r).1 := rfl
    have hall : ∀ (a : PidAlloc.Sh) (s1 : NSt), s1.alloc = (PidAlloc.alloc a).2 → s.alloc = a →
        pidKeys (Out.pid (PidAlloc.alloc a).1 :: (run s1 r).1) =
          (List.range (pidKeys (Out.pid (PidAlloc.alloc a).1 :: (run s1 r).1)).length).map
            (fun i => (PidAlloc.seqAlloc s.alloc i).key) := by
      intro a s1 h1 h0
      simp only [pidKeys, List.length_cons, List.range_succ_eq_map, List.map_cons, List.map_map]
      rw [ih s1, h1, h0]
      congr 1
      simp only [List.length_map, List.length_range]
      apply List.map_congr_left
      intro i _
      simp only [Function.comp, PidAlloc.seqAlloc_shift]
    have hkeep : ∀ (o : Out) (s1 : NSt), (∀ r', o ≠ .pid r') →
        (∀ i, (PidAlloc.seqAlloc s1.alloc i).key = (PidAlloc.seqAlloc s.alloc i).key) →
        pidKeys (o :: (run s1 r).1) =
          (List.range (pidKeys (o :: (run s1 r).1)).length).map (fun i => (PidAlloc.seqAlloc s.alloc i).key) := by
      intro o s1 ho hk
      have : pidKeys (o :: (run s1 r).1) = pidKeys (run s1 r).1 := by
        cases o with
        | pid r' => exact absurd rfl (ho r')
        | _ => rfl
      rw [this, ih s1]
      simp only [List.length_map, List.length_range]
      exact List.map_congr_left (fun i _ => hk i)
    rw [e]
    cases op with
    | start ep =>
      simp only [step]
      split
      · exact hkeep _ _ (by intro r' h; cases h) (fun _ => rfl)
      · cases ep with
        | none => exact hkeep _ _ (by intro r' h; cases h) (fun _ => rfl)
        | some c => exact hkeep _ _ (by intro r' h; cases h) (fun i => PidAlloc.seqAlloc_setCreation_key s.alloc c i)
    | spawn =>
      simp only [step]
      split
      · exact hkeep _ _ (by intro r' h; cases h) (fun _ => rfl)
      · exact hall s.alloc _ rfl rfl
    | allocate => exact hall s.alloc _ rfl rfl
    | makeRef => exact hkeep _ _ (by intro r' h; cases h) (fun _ => rfl)
    | unlink => exact hkeep _ _ (by intro r' h; cases h) (fun _ => rfl)

end Edp.Impl.NodeIds
