#!/usr/bin/env python3
"""Confirms a seeded change independently of its author.
usage: tools/confirm_seed.py <out_dir with patch.diff + demo_test.rs> <crate> [demo file name] [--cfg]
(--cfg: the demonstration alone is built with RUSTFLAGS='--cfg edp_rs_verif' and run with --test-threads=1, for demos that
stand up a fake EPMD through the cfg-guarded port override; the existing tests always run with the guard off)
In a fresh scratch worktree of /repo: existing tests of <crate> and the demo, without and with the patch.
Prints a one-line verdict; removes the worktree and its build output afterwards."""
import os, re, shutil, subprocess, sys
args = [a for a in sys.argv[1:] if a != "--cfg"]
use_cfg = "--cfg" in sys.argv
out, crate = args[0], args[1]
demo_name = args[2] if len(args) > 2 else "demo_seed.rs"
wt = "/tmp/mut/confirm-" + os.path.basename(out.rstrip("/"))
subprocess.run(["git", "-C", "/repo", "worktree", "remove", "--force", wt], capture_output=True)
subprocess.run(["git", "-C", "/repo", "worktree", "add", "--detach", wt, "HEAD"], check=True, capture_output=True)
env = dict(os.environ, CARGO_NET_OFFLINE="true", CARGO_TARGET_DIR=wt + "/target")
env.pop("RUSTFLAGS", None)
EXTRA_CRATES = os.environ.get("SEED_EXTRA_CRATES", "").split()
def tests(extra):
    e = env
    if extra and use_cfg:
        e = dict(env, RUSTFLAGS="--cfg edp_rs_verif", CARGO_TARGET_DIR=wt + "/target-cfg")
        extra = extra + ["--", "--test-threads=1"]
    pk = ["-p", crate]
    if not extra:
        for c in EXTRA_CRATES:   # crates the change touches besides the one the demo lives in: their existing tests too
            pk += ["-p", c]
    p = subprocess.run(["cargo", "test"] + pk + ["--offline", "--no-fail-fast"] + extra, cwd=wt, env=e,
                       stdout=subprocess.PIPE, stderr=subprocess.STDOUT, text=True)
    res = re.findall(r"test result: (\w+)\. (\d+) passed; (\d+) failed", p.stdout)
    errs = len(re.findall(r"^error\[E\d+\]|^error: could not compile", p.stdout, re.M))
    return sum(int(a[1]) for a in res), sum(int(a[2]) for a in res), errs, p.stdout
try:
    demo_dst = os.path.join(wt, "crates", crate, "tests", demo_name)
    b_pass, b_fail, b_err, _ = tests([])
    shutil.copy(os.path.join(out, "demo_test.rs"), demo_dst)
    d0 = tests(["--test", demo_name[:-3]])
    os.remove(demo_dst)
    r = subprocess.run(["git", "apply", os.path.join(out, "patch.diff")], cwd=wt, capture_output=True, text=True)
    if r.returncode:
        print("PATCH DOES NOT APPLY:", r.stderr[:300]); sys.exit(1)
    a_pass, a_fail, a_err, _ = tests([])
    shutil.copy(os.path.join(out, "demo_test.rs"), demo_dst)
    d1 = tests(["--test", demo_name[:-3]])
    ok = (b_pass, b_fail) == (a_pass, a_fail) and a_err == 0 and d0[1] == 0 and d0[0] > 0 and d0[2] == 0 and d1[1] > 0
    print(f"{'CONFIRMED' if ok else 'NOT CONFIRMED'}: existing {crate} tests before {b_pass}p/{b_fail}f after {a_pass}p/{a_fail}f build-errors {a_err}; "
          f"demo without change {d0[0]}p/{d0[1]}f, with change {d1[0]}p/{d1[1]}f")
    if not ok and d1[2]:
        print(d1[3][-1500:])
    sys.exit(0 if ok else 1)
finally:
    subprocess.run(["git", "-C", "/repo", "worktree", "remove", "--force", wt], capture_output=True)
    shutil.rmtree(wt, ignore_errors=True)
