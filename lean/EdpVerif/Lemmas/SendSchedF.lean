import EdpVerif.Lemmas.SendAll
/-!
C07, concurrency WITH operations that stop in the middle of their frame: any number of tasks, each issuing operations
through one `Arc<Mutex<Connection>>`, every operation with a fate (`Fate.whole` / `Fate.cut i k`), any schedule.

`stepF` is `Send.step` plus the connection's `closed` flag: an operation acquired on a closed connection fails at the gate
and writes nothing; an operation that was cut writes the prefix of its frame that its fate allows and, when it returns
(the `FrameWrite` guard is dropped before the mutex guard), leaves the connection closed.

`seqRun` is the reference: the same operations executed ONE AFTER THE OTHER in the order in which the lock was acquired
for them.  `invF_run` shows that every schedule refines it.
-/
namespace Edp.Send
open Edp

/-- one operation of a task: its writes on an open connection, and its fate -/
structure TOp where
  ws : List Bytes
  fate : Fate

/-- the writes that actually reach the socket -/
def TOp.eff (op : TOp) : List Bytes :=
  match op.fate with
  | .whole => op.ws
  | .cut i k => op.ws.take i ++ [((op.ws[i]?).getD []).take k]

def TOp.isCut (op : TOp) : Bool :=
  match op.fate with
  | .whole => false
  | .cut _ _ => true

theorem TOp.eff_flatten_cut (ws : List Bytes) (i k : Nat) : (TOp.eff ⟨ws, .cut i k⟩).flatten = cutBytes ws i k := by
  simp [TOp.eff, cutBytes]

structure StF where
  wire : Bytes
  lock : Option Nat
  closed : Bool
  ts : Nat → TSt
  acq : List (Nat × Nat)

def StF.init : StF := { wire := [], lock := none, closed := false, ts := fun _ => { next := 0, rem := none }, acq := [] }

def stepF (prog : Nat → List TOp) (st : StF) (t : Nat) : Option StF :=
  match (st.ts t).rem with
  | none =>
    match (prog t)[(st.ts t).next]? with
    | none => none
    | some op =>
      match st.lock with
      | some _ => none
      | none =>
        some { st with lock := some t,
                       ts := upd st.ts t { next := (st.ts t).next, rem := some (if st.closed then [] else op.eff) },
                       acq := st.acq ++ [(t, (st.ts t).next)] }
  | some [] =>
    some { st with lock := none,
                   closed := st.closed || (match (prog t)[(st.ts t).next]? with | some op => op.isCut | none => false),
                   ts := upd st.ts t { next := (st.ts t).next + 1, rem := none } }
  | some (w :: ws) => some { st with wire := st.wire ++ w, ts := upd st.ts t { next := (st.ts t).next, rem := some ws } }

def runF (prog : Nat → List TOp) (st : StF) (σ : List Nat) : StF :=
  σ.foldl (fun st t => (stepF prog st t).getD st) st

/-! ### the sequential reference -/

def seqStep (prog : Nat → List TOp) (s : Bytes × Bool) (p : Nat × Nat) : Bytes × Bool :=
  match (prog p.1)[p.2]? with
  | none => s
  | some op => if s.2 then s else (s.1 ++ op.eff.flatten, op.isCut)

def seqFrom (prog : Nat → List TOp) (s : Bytes × Bool) (acq : List (Nat × Nat)) : Bytes × Bool :=
  acq.foldl (seqStep prog) s

/-- the bytes on the stream and whether the connection is closed after the operations `acq` ran one after the other -/
def seqRun (prog : Nat → List TOp) (acq : List (Nat × Nat)) : Bytes × Bool := seqFrom prog ([], false) acq

theorem seqRun_snoc (prog : Nat → List TOp) (acq : List (Nat × Nat)) (p : Nat × Nat) :
    seqRun prog (acq ++ [p]) = seqStep prog (seqRun prog acq) p := by
  simp [seqRun, seqFrom, List.foldl_append]

theorem seqStep_closed (prog : Nat → List TOp) (s : Bytes × Bool) (p : Nat × Nat) (h : s.2 = true) :
    seqStep prog s p = s := by
  unfold seqStep
  cases (prog p.1)[p.2]? with
  | none => rfl
  | some op => simp [h]

theorem seqFrom_closed (prog : Nat → List TOp) (acq : List (Nat × Nat)) : ∀ (s : Bytes × Bool), s.2 = true →
    seqFrom prog s acq = s := by
  induction acq with
  | nil => intro s _; rfl
  | cons p ps ih =>
    intro s h
    simp only [seqFrom, List.foldl_cons]
    rw [seqStep_closed prog s p h]
    exact ih s h

/-- once closed, further operations change nothing -/
theorem seqRun_append_closed (prog : Nat → List TOp) (a b : List (Nat × Nat)) (h : (seqRun prog a).2 = true) :
    seqRun prog (a ++ b) = seqRun prog a := by
  have : seqRun prog (a ++ b) = seqFrom prog (seqRun prog a) b := by simp [seqRun, seqFrom, List.foldl_append]
  rw [this]
  exact seqFrom_closed prog b _ h

/-- the whole frame of an operation -/
def fullOf (prog : Nat → List TOp) (p : Nat × Nat) : Bytes := (((prog p.1)[p.2]?).map (fun op => op.ws.flatten)).getD []

def cutAt (prog : Nat → List TOp) (p : Nat × Nat) : Bool := (((prog p.1)[p.2]?).map TOp.isCut).getD false

theorem eff_of_not_cut (op : TOp) (h : op.isCut = false) : op.eff = op.ws := by
  unfold TOp.isCut at h
  unfold TOp.eff
  cases hf : op.fate with
  | whole => rfl
  | cut i k => simp [hf] at h

/-- shape of a sequential run from an open connection: either no operation was cut and the stream is all the whole
frames, or the stream is the whole frames of the operations before the FIRST cut one followed by what that one wrote,
and nothing of the operations after it -/
theorem seqFrom_shape (prog : Nat → List TOp) : ∀ (acq : List (Nat × Nat)) (w : Bytes),
    (seqFrom prog (w, false) acq = (w ++ (acq.map (fullOf prog)).flatten, false) ∧ ∀ p ∈ acq, cutAt prog p = false) ∨
    (∃ a p b op, acq = a ++ p :: b ∧ (prog p.1)[p.2]? = some op ∧ op.isCut = true ∧ (∀ q ∈ a, cutAt prog q = false) ∧
      seqFrom prog (w, false) acq = (w ++ (a.map (fullOf prog)).flatten ++ op.eff.flatten, true)) := by
  intro acq
  induction acq with
  | nil => intro w; exact Or.inl ⟨by simp [seqFrom], by simp⟩
  | cons p ps ih =>
    intro w
    cases hp : (prog p.1)[p.2]? with
    | none =>
      have hstep : seqStep prog (w, false) p = (w, false) := by simp [seqStep, hp]
      have hfull : fullOf prog p = [] := by simp [fullOf, hp]
      have hcut : cutAt prog p = false := by simp [cutAt, hp]
      rcases ih w with ⟨h1, h2⟩ | ⟨a, q, b, op, hacq, hq, hc, ha, hs⟩
      · refine Or.inl ⟨?_, ?_⟩
        · simp only [seqFrom, List.foldl_cons, hstep] at h1 ⊢
          simpa [hfull] using h1
        · intro r hr
          simp only [List.mem_cons] at hr
          rcases hr with rfl | hr
          · exact hcut
          · exact h2 r hr
      · refine Or.inr ⟨p :: a, q, b, op, by simp [hacq], hq, hc, ?_, ?_⟩
        · intro r hr
          simp only [List.mem_cons] at hr
          rcases hr with rfl | hr
          · exact hcut
          · exact ha r hr
        · simp only [seqFrom, List.foldl_cons, hstep] at hs ⊢
          simpa [hfull] using hs
    | some op =>
      cases hc : op.isCut with
      | true =>
        refine Or.inr ⟨[], p, ps, op, rfl, hp, hc, by simp, ?_⟩
        have hstep : seqStep prog (w, false) p = (w ++ op.eff.flatten, true) := by simp [seqStep, hp, hc]
        simp only [seqFrom, List.foldl_cons, hstep]
        have := seqFrom_closed prog ps (w ++ op.eff.flatten, true) rfl
        simpa [seqFrom] using this
      | false =>
        have hstep : seqStep prog (w, false) p = (w ++ op.ws.flatten, false) := by
          simp [seqStep, hp, hc, eff_of_not_cut op hc]
        have hfull : fullOf prog p = op.ws.flatten := by simp [fullOf, hp]
        have hcut : cutAt prog p = false := by simp [cutAt, hp, hc]
        rcases ih (w ++ op.ws.flatten) with ⟨h1, h2⟩ | ⟨a, q, b, op', hacq, hq, hc', ha, hs⟩
        · refine Or.inl ⟨?_, ?_⟩
          · simp only [seqFrom, List.foldl_cons, hstep] at h1 ⊢
            simpa [hfull] using h1
          · intro r hr
            simp only [List.mem_cons] at hr
            rcases hr with rfl | hr
            · exact hcut
            · exact h2 r hr
        · refine Or.inr ⟨p :: a, q, b, op', by simp [hacq], hq, hc', ?_, ?_⟩
          · intro r hr
            simp only [List.mem_cons] at hr
            rcases hr with rfl | hr
            · exact hcut
            · exact ha r hr
          · simp only [seqFrom, List.foldl_cons, hstep] at hs ⊢
            simpa [hfull] using hs

/-! ### every schedule refines the sequential run -/

structure InvF (prog : Nat → List TOp) (st : StF) : Prop where
  excl : ∀ u, (st.ts u).rem.isSome = true → st.lock = some u
  free : st.lock = none → (st.wire, st.closed) = seqRun prog st.acq
  held : ∀ t, st.lock = some t → ∃ acq' pre rem op,
    st.acq = acq' ++ [(t, (st.ts t).next)] ∧ (st.ts t).rem = some rem ∧ (prog t)[(st.ts t).next]? = some op ∧
    (if st.closed then [] else op.eff) = pre ++ rem ∧ st.wire = (seqRun prog acq').1 ++ pre.flatten ∧
    st.closed = (seqRun prog acq').2

theorem invF_init (prog : Nat → List TOp) : InvF prog StF.init := by
  refine ⟨?_, ?_, ?_⟩
  · intro u h; simp [StF.init] at h
  · intro _; simp [StF.init, seqRun, seqFrom]
  · intro t h; simp [StF.init] at h

theorem invF_step (prog : Nat → List TOp) (st st' : StF) (t : Nat) (hi : InvF prog st)
    (hs : stepF prog st t = some st') : InvF prog st' := by
  unfold stepF at hs
  cases hrem : (st.ts t).rem with
  | none =>
    simp only [hrem] at hs
    cases hp : (prog t)[(st.ts t).next]? with
    | none => simp [hp] at hs
    | some op =>
      simp only [hp] at hs
      cases hl : st.lock with
      | some h => simp [hl] at hs
      | none =>
        simp only [hl] at hs
        have e : st' = { st with lock := some t, ts := upd st.ts t { next := (st.ts t).next, rem := some (if st.closed then [] else op.eff) }, acq := st.acq ++ [(t, (st.ts t).next)] } := by
          injection hs with hs; exact hs.symm
        subst e
        have hfree := hi.free hl
        refine ⟨?_, ?_, ?_⟩
        · intro u hu
          by_cases hut : u = t
          · subst hut; rfl
          · simp only [upd, hut, ↓reduceIte] at hu
            have := hi.excl u hu
            rw [hl] at this; cases this
        · intro h; cases h
        · intro t' ht'
          have : t' = t := by injection ht' with h; exact h.symm
          subst this
          refine ⟨st.acq, [], (if st.closed then [] else op.eff), op, ?_, ?_, ?_, by simp, ?_, ?_⟩
          · simp [upd]
          · simp [upd]
          · simpa [upd] using hp
          · simp only [List.flatten_nil, List.append_nil]
            exact congrArg Prod.fst hfree
          · exact congrArg Prod.snd hfree
  | some rem =>
    have hlock := hi.excl t (by simp [hrem])
    obtain ⟨acq', pre, rem', op, hacq, hrem', hop, hsplit, hwire, hclosed⟩ := hi.held t hlock
    have hr : rem' = rem := by rw [hrem] at hrem'; injection hrem' with h; exact h.symm
    subst hr
    cases rem' with
    | nil =>
      simp only [hrem] at hs
      have e : st' = { st with lock := none, closed := st.closed || (match (prog t)[(st.ts t).next]? with | some op => op.isCut | none => false), ts := upd st.ts t { next := (st.ts t).next + 1, rem := none } } := by
        injection hs with hs; exact hs.symm
      subst e
      refine ⟨?_, ?_, ?_⟩
      · intro u hu
        by_cases hut : u = t
        · subst hut; simp [upd] at hu
        · simp only [upd, hut, ↓reduceIte] at hu
          have := hi.excl u hu
          rw [hlock] at this
          injection this with h; exact absurd h.symm hut
      · intro _
        simp only [hop]
        rw [hacq, seqRun_snoc]
        simp only [seqStep, hop]
        cases hc : st.closed with
        | true =>
          have h2 : (seqRun prog acq').2 = true := by rw [← hclosed]; exact hc
          simp only [hc, ↓reduceIte, List.append_nil] at hsplit
          have hpre : pre = [] := by simpa using hsplit.symm
          subst hpre
          simp only [h2, ↓reduceIte, Bool.true_or]
          rw [hwire]
          simp only [List.flatten_nil, List.append_nil]
          exact Prod.ext rfl h2.symm
        | false =>
          have h2 : (seqRun prog acq').2 = false := by rw [← hclosed]; exact hc
          simp only [hc, Bool.false_eq_true, ↓reduceIte, List.append_nil] at hsplit
          simp only [h2, Bool.false_eq_true, ↓reduceIte, Bool.false_or]
          rw [hwire, hsplit]
      · intro t' ht'; cases ht'
    | cons w ws =>
      simp only [hrem] at hs
      have e : st' = { st with wire := st.wire ++ w, ts := upd st.ts t { next := (st.ts t).next, rem := some ws } } := by
        injection hs with hs; exact hs.symm
      subst e
      refine ⟨?_, ?_, ?_⟩
      · intro u hu
        by_cases hut : u = t
        · subst hut; exact hlock
        · simp only [upd, hut, ↓reduceIte] at hu
          exact hi.excl u hu
      · intro h; simp only at h; rw [hlock] at h; cases h
      · intro t' ht'
        simp only at ht'
        have : t' = t := by rw [hlock] at ht'; injection ht' with h; exact h.symm
        subst this
        refine ⟨acq', pre ++ [w], ws, op, ?_, ?_, ?_, ?_, ?_, ?_⟩
        · simpa [upd] using hacq
        · simp [upd]
        · simpa [upd] using hop
        · simp [hsplit]
        · simp [hwire]
        · exact hclosed

/-- the invariant holds after every schedule -/
theorem invF_run (prog : Nat → List TOp) (σ : List Nat) : ∀ st, InvF prog st → InvF prog (runF prog st σ) := by
  induction σ with
  | nil => intro st h; exact h
  | cons t σ ih =>
    intro st h
    simp only [runF, List.foldl_cons]
    cases hs : stepF prog st t with
    | none => simpa [runF] using ih st h
    | some st' => simpa [runF] using ih st' (invF_step prog st st' t h hs)

/-- a step only appends to the acquisition list -/
theorem stepF_acq (prog : Nat → List TOp) (st st' : StF) (t : Nat) (hs : stepF prog st t = some st') :
    ∃ more, st'.acq = st.acq ++ more := by
  unfold stepF at hs
  cases hrem : (st.ts t).rem with
  | none =>
    simp only [hrem] at hs
    cases hp : (prog t)[(st.ts t).next]? with
    | none => simp [hp] at hs
    | some op =>
      simp only [hp] at hs
      cases hl : st.lock with
      | some h => simp [hl] at hs
      | none =>
        simp only [hl] at hs
        injection hs with hs
        subst hs
        exact ⟨_, rfl⟩
  | some rem =>
    cases rem with
    | nil =>
      simp only [hrem] at hs
      injection hs with hs
      subst hs
      exact ⟨[], by simp⟩
    | cons w ws =>
      simp only [hrem] at hs
      injection hs with hs
      subst hs
      exact ⟨[], by simp⟩

theorem runF_acq (prog : Nat → List TOp) (σ : List Nat) : ∀ st, ∃ more, (runF prog st σ).acq = st.acq ++ more := by
  induction σ with
  | nil => intro st; exact ⟨[], by simp [runF]⟩
  | cons t σ ih =>
    intro st
    simp only [runF, List.foldl_cons]
    cases hs : stepF prog st t with
    | none => simpa [runF] using ih st
    | some st' =>
      obtain ⟨m1, h1⟩ := stepF_acq prog st st' t hs
      obtain ⟨m2, h2⟩ := ih st'
      refine ⟨m1 ++ m2, ?_⟩
      simp only [Option.getD_some]
      have : (List.foldl (fun st t => (stepF prog st t).getD st) st' σ).acq = st'.acq ++ m2 := by simpa [runF] using h2
      rw [this, h1]
      simp

theorem runF_append (prog : Nat → List TOp) (st : StF) (σ1 σ2 : List Nat) :
    runF prog st (σ1 ++ σ2) = runF prog (runF prog st σ1) σ2 := by
  simp [runF, List.foldl_append]

end Edp.Send
