import EdpVerif.Lemmas.SerdeWire
/-
C15 — serde round trip returns the original Rust value, also across the wire.
Property theorems only; helper lemmas live in EdpVerif/Lemmas/Serde*.lean.

`ser`/`de` model `erltf_serde::{to_term, from_term}`, `toBytes`/`fromBytes` model `to_bytes`/`from_bytes` through the
encoder/decoder models (Impl/Encode.lean, Impl/Decode.lean).  `hasTy v ty`: `v` is a value of the Rust type `ty`;
`Ty.wf` / `Val.plain`: the shapes the property quantifies over (Spec/Serde.lean).
-/
namespace Edp.Props.C15
open Edp Edp.Serde Edp.Spec.Serde

/-- In memory: every value of every distinguishable type of the universe comes back unchanged (all integer widths over
their whole range, `u64` above `i64::MAX`, every non-NaN `f32`, every `char`, arbitrarily nested containers, structs,
Elixir structs, all four enum variant shapes). -/
theorem C15_mem (ty : Ty) (v : Val) (ht : hasTy v ty = true) (hd : distinguishable v ty = true) :
    de ty (ser v) = .ok v := by
  simp only [distinguishable, Bool.and_eq_true] at hd
  exact de_ser ty v ht hd.1 hd.2

example : hasTy (.tuple [.int .u64 18446744073709551615, .some (.char 128512)]) (.tuple [.int .u64, .option .char]) = true ∧
    distinguishable (.tuple [.int .u64 18446744073709551615, .some (.char 128512)]) (.tuple [.int .u64, .option .char]) = true := by
  decide

/-- In memory nothing is silently altered: whatever `from_term` returns for `to_term v` is `v`. -/
theorem C15_no_silent_change (ty : Ty) (v v' : Val) (ht : hasTy v ty = true) (hd : distinguishable v ty = true)
    (h : de ty (ser v) = .ok v') : v' = v := by
  rw [C15_mem ty v ht hd] at h
  exact (Except.ok.inj h).symm

example : de (.int .i64) (ser (.int .i64 1099511627776)) = .ok (.int .i64 1099511627776) := by rfl

/-- The exclusions are needed: a directly nested `Option` is not distinguishable (`Some(None)` reads back as `None`). -/
theorem C15_nested_option_not_distinguishable :
    ∃ ty v, hasTy v ty = true ∧ de ty (ser v) = .ok .none ∧ v = .some .none :=
  ⟨.option (.option .bool), .some .none, by decide, by rfl, rfl⟩

/-! ### across the wire

`wireT t` is the closed form of `erltf::decode (erltf::encode t)` on the terms the serialiser builds (wide integers come
back as big integers, `OwnedTerm::String` as a binary, `List([])` as `Nil`, maps re-inserted).  It is tied to the
encoder/decoder models and to the real code on every generated case (driver request `c15wire`; see notes/C15.md,
trusted assumptions); the witnesses below go through the encoder/decoder models themselves. -/

/-- the guard of the wire theorem: distinguishable in memory and after the wire, and within what the current code carries -/
def wireOK (v : Val) (ty : Ty) : Bool :=
  distinguishable v ty && Val.plainW v && wireSafe v

/-- Across the wire, partial: with no `char` and every non-`u64` integer within the i32 range (`wireSafe`), the value
comes back unchanged — `u64` over its whole range, floats, strings, options, containers, structs, Elixir structs, enums. -/
theorem C15_wire_partial (ty : Ty) (v : Val) (ht : hasTy v ty = true) (hg : wireOK v ty = true) :
    de ty (wireT (ser v)) = .ok v := by
  simp only [wireOK, distinguishable, Val.plainW, Bool.and_eq_true] at hg
  exact deW ty v ht hg.1.1.1 hg.1.1.2 hg.1.2 hg.2

example : hasTy (.struct [97] [([120], .int .u64 1099511627776), ([121], .seq [.string [104, 105]])])
      (.struct [97] [([120], .int .u64), ([121], .seq .string)]) = true ∧
    wireOK (.struct [97] [([120], .int .u64 1099511627776), ([121], .seq [.string [104, 105]])])
      (.struct [97] [([120], .int .u64), ([121], .seq .string)]) = true := by decide

/-- The full-strength wire statement is FALSE for the current code: `from_bytes::<i64>(to_bytes(2^40))` is an error
(through the encoder and decoder models, no closed form involved). -/
theorem C15_not_wire_i64 :
    ∃ (v : Val) (b : Bytes), hasTy v (.int .i64) = true ∧ distinguishable v (.int .i64) = true ∧
      toBytes v = .ok b ∧ fromBytes Ext.none (.int .i64) b = .error .err :=
  ⟨.int .i64 1099511627776, [131, 110, 6, 0, 0, 0, 0, 0, 0, 1], by decide, by decide, by rfl, by rfl⟩

/-- … for `u32` 3 000 000 000 … -/
theorem C15_not_wire_u32 :
    ∃ (v : Val) (b : Bytes), hasTy v (.int .u32) = true ∧ distinguishable v (.int .u32) = true ∧
      toBytes v = .ok b ∧ fromBytes Ext.none (.int .u32) b = .error .err :=
  ⟨.int .u32 3000000000, [131, 110, 4, 0, 0, 94, 208, 178], by decide, by decide, by rfl, by rfl⟩

/-- … and for `char`. -/
theorem C15_not_wire_char :
    ∃ (v : Val) (b : Bytes), hasTy v .char = true ∧ distinguishable v .char = true ∧
      toBytes v = .ok b ∧ fromBytes Ext.none .char b = .error .err :=
  ⟨.char 97, [131, 109, 0, 0, 0, 1, 97], by decide, by decide, by rfl, by rfl⟩

/-- Not only the witnesses: EVERY integer of a type other than `u64` outside the i32 range fails across the wire
(it comes back as a big integer, which only `deserialize_u64` accepts) — an error, not a changed value. -/
theorem C15_wire_wide_int_always_fails (k : IntTy) (i : Int) (hk : k ≠ .u64) (hi : inI32 i = false) :
    de (.int k) (wireT (ser (.int k i))) = .error .err := by
  have h1 : ¬(k = .u64 ∧ i > i64Max) := fun h => hk h.1
  simp [ser, serInt, h1, wireT, hi, de, deInt, hk]

example : (IntTy.i64 ≠ IntTy.u64) ∧ inI32 (-2147483649) = false := by decide

/-- … and every `char` does (`OwnedTerm::String` is written as a binary, which `deserialize_char` rejects). -/
theorem C15_wire_char_always_fails (c : Nat) : de .char (wireT (ser (.char c))) = .error .err := by
  simp [ser, wireT, de, deChar]

/-- `u64` survives over its whole range (the one integer deserialiser that reads big integers). -/
theorem C15_wire_u64_full_range (i : Int) (h : IntTy.u64.inRange i = true) :
    de (.int .u64) (wireT (ser (.int .u64 i))) = .ok (.int .u64 i) := by
  simp only [ser, de]
  exact deInt_wire .u64 i h (by simp)

example : IntTy.u64.inRange 18446744073709551615 = true := by decide

end Edp.Props.C15
