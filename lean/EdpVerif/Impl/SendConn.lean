import EdpVerif.Impl.Send
import EdpVerif.Generated.MiscC07
/-!
C07, second part of the send-side model: a `Connection` as a STATE that a sequence of operations acts on, with operations
that stop in the middle of their frame, and the node-level wrappers of crates/edp_node/src/node.rs.

* `Fate`      — how the writes of one operation end.  `whole`: every write completes.  `cut i k`: the operation ends during
                write number `i` (0-based) after `k` of its bytes reached the socket — an I/O error, the timeout that
                distribution-header mode puts around its `write_all`, or the future being dropped at an await point (a
                caller's `tokio::time::timeout` around `Node::send`).  The fate is a PARAMETER: the model does not decide
                when the transport fails, it says what the connection does when it does.
* `sendOpF`   — one operation on a connection, with its fate: the new connection, the bytes that reached the socket, the
                outcome.  `FrameWrite` (connection.rs) closes the transport and resets the handshake state unless the frame
                was completed, so after a cut the connection is `closed` and every later operation fails at the gate.
* `runOps`    — a sequence of operations on ONE connection (the state threads through).
* `NodeOp`, `nodeOp` — `Node::{send, link, unlink, monitor, demonitor}` for a remote target: table lookup, what is taken
                from the node's counters BEFORE the lock, the one `Connection` call under the lock
                (shape regenerated: `Gen.C07_NODE_OPS`).
-/
namespace Edp.Send
open Edp Edp.Control
open Edp.Impl.Handshake (ConnState)

/-- how the writes of one operation end -/
inductive Fate where
  | whole
  | cut (i k : Nat)
  deriving Repr, DecidableEq

/-- what the caller of an operation sees -/
inductive Outcome where
  | ok
  /-- an error decided before the first write -/
  | err (e : Err)
  /-- failed, timed out or dropped after the writes began -/
  | cut
  deriving Repr, DecidableEq

/-- `FrameWrite::drop` without `complete()`: `transport.close()` and `handshake.disconnect()` (which also forgets the
negotiated flags) -/
def Conn.closed (_c : Conn) : Conn := { state := .disconnected, neg := none, stream := false }

/-- the bytes that reach the socket when the writes `ws` are cut during write `i` after `k` bytes -/
def cutBytes (ws : List Bytes) (i k : Nat) : Bytes := (ws.take i).flatten ++ ((ws[i]?).getD []).take k

/-- one operation with its fate.  Errors decided before `FrameWrite::begin` (state gate, encoder, frame length) leave the
connection as it is; `frame.stream()?` failing is already inside the guard -/
def sendOpF (c : Conn) (order : List Bytes) (op : Op) (fate : Fate) : Conn × Bytes × Outcome :=
  match sendOp c order op with
  | .error .noStream => (c.closed, [], .err .noStream)
  | .error e => (c, [], .err e)
  | .ok ws =>
    match fate with
    | .whole => (c, ws.flatten, .ok)
    | .cut i k => (c.closed, cutBytes ws i k, .cut)

/-- one call: the operation, the atom order its header would use, its fate -/
structure Call where
  order : List Bytes
  op : Op
  fate : Fate
  deriving Repr

/-- a sequence of operations on one connection: everything that reached the socket, and the outcomes -/
def runOps : Conn → List Call → Bytes × List Outcome
  | _, [] => ([], [])
  | c, x :: xs =>
    let r := sendOpF c x.order x.op x.fate
    let rest := runOps r.1 xs
    (r.2.1 ++ rest.1, r.2.2 :: rest.2)

/-- the frames a peer must read: one per operation that returned `Ok`, in order -/
def itemsOf : List Call → List Outcome → List Spec.Wire.Item
  | x :: xs, .ok :: os => Spec.Wire.itemFor x.op.den :: itemsOf xs os
  | _ :: xs, _ :: os => itemsOf xs os
  | _, _ => []

/-! ### node.rs: the remote branch of the node-level operations -/

inductive NodeOp where
  | send (to : PidF) (msg : Term)
  | link (frm to : PidF)
  | unlink (frm to : PidF)
  | monitor (frm to : PidF)
  | demonitor (frm to : PidF) (r : RefF)
  deriving Repr

/-- what a node operation takes from the node's shared counters before it asks for the connection lock: the `from` pid of a
send (`pid_allocator.allocate()`), the unlink id (`reference_counter.fetch_add(1) + 1`), the reference of a monitor
(`make_reference()`) -/
structure Drawn where
  pid : PidF
  counter : Nat
  ref : RefF

/-- the `Connection` operation a node operation performs under the lock -/
def NodeOp.connOp (d : Drawn) : NodeOp → Op
  | .send to m => .send d.pid to m
  | .link f t => .link f t
  | .unlink f t => .unlink f t (nodeUnlinkId d.counter)
  | .monitor f t => .monitor f t d.ref
  | .demonitor f t r => .demonitor f t r

/-- the name of the node-level function (key into `Gen.C07_NODE_OPS`) -/
def NodeOp.fn : NodeOp → String
  | .send .. => "send_remote"
  | .link .. => "link"
  | .unlink .. => "unlink"
  | .monitor .. => "monitor"
  | .demonitor .. => "demonitor"

/-- the `Connection` method each node-level function calls under the lock -/
def NodeOp.method : NodeOp → String
  | .send .. => "send_message"
  | .link .. => "link"
  | .unlink .. => "unlink"
  | .monitor .. => "monitor"
  | .demonitor .. => "demonitor"

inductive NodeOutcome where
  /-- `Error::NodeNotConnected`: no entry in the connection table; no lock taken, nothing written -/
  | notConnected
  | conn (o : Outcome)
  deriving Repr, DecidableEq

/-- a node-level operation whose target is on another node: `connection_handle(node)`; `None` → `NodeNotConnected`;
otherwise `lock().await`, the one `Connection` call, unlock (the guard is dropped on return, on `?` and on cancellation) -/
def nodeOp (table : Option Conn) (order : List Bytes) (d : Drawn) (op : NodeOp) (fate : Fate) :
    Option Conn × Bytes × NodeOutcome :=
  match table with
  | none => (none, [], .notConnected)
  | some c =>
    let r := sendOpF c order (op.connOp d) fate
    (some r.1, r.2.1, .conn r.2.2)

end Edp.Send
