import EdpVerif.Drv.Common
namespace Edp.Drv

/-- driver requests of property C14 (stub: nothing handled yet) -/
def handleC14 : List String → Option String
  | _ => none

end Edp.Drv
