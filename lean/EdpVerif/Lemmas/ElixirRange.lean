import EdpVerif.Impl.Elixir
import EdpVerif.Spec.Elixir
/-! Helper lemmas for C20: ranges (integer arithmetic with a variable step). -/
namespace Edp.Ex
open Edp

/-! ### the Spec's own consistency: `mem` is membership in `elems`, `count` is its length -/

theorem spec_mem_up (f l s v : Int) (hs : 0 < s) :
    (f ≤ v ∧ v ≤ l ∧ (v - f) % s = 0) ↔ ∃ i : Nat, i < ((l - f) / s + 1).toNat ∧ f + (i : Int) * s = v := by
  constructor
  · rintro ⟨h1, h2, h3⟩
    have hq0 : 0 ≤ (v - f) / s := Int.ediv_nonneg (by omega) (by omega)
    have hqs : (v - f) / s * s = v - f := Int.ediv_mul_cancel (Int.dvd_of_emod_eq_zero h3)
    have hqle : (v - f) / s ≤ (l - f) / s := Int.ediv_le_ediv hs (by omega)
    refine ⟨((v - f) / s).toNat, ?_, ?_⟩
    · rw [Int.lt_toNat, Int.toNat_of_nonneg hq0]; omega
    · rw [Int.toNat_of_nonneg hq0, hqs]; omega
  · rintro ⟨i, hi, hv⟩
    rw [Int.lt_toNat] at hi
    have hi0 : (0 : Int) ≤ i := Int.natCast_nonneg i
    have h1 : (i : Int) * s ≤ (l - f) / s * s := Int.mul_le_mul_of_nonneg_right (by omega) (by omega)
    have h2 : (l - f) / s * s ≤ l - f := Int.ediv_mul_le _ (by omega)
    have h3 : 0 ≤ (i : Int) * s := Int.mul_nonneg hi0 (by omega)
    have h4 : v - f = (i : Int) * s := by omega
    refine ⟨by omega, by omega, ?_⟩
    rw [h4]; exact Int.mul_emod_left _ _

theorem spec_mem_down (f l s v : Int) (hs : s < 0) :
    (l ≤ v ∧ v ≤ f ∧ (f - v) % (-s) = 0) ↔ ∃ i : Nat, i < ((f - l) / (-s) + 1).toNat ∧ f + (i : Int) * s = v := by
  have h := spec_mem_up (-f) (-l) (-s) (-v) (by omega)
  have e1 : -v - -f = f - v := by omega
  have e2 : -l - -f = f - l := by omega
  rw [e1, e2] at h
  constructor
  · rintro ⟨h1, h2, h3⟩
    obtain ⟨i, hi, hv⟩ := h.mp ⟨by omega, by omega, h3⟩
    refine ⟨i, hi, ?_⟩
    rw [Int.mul_neg] at hv; omega
  · rintro ⟨i, hi, hv⟩
    obtain ⟨h1, h2, h3⟩ := h.mpr ⟨i, hi, by rw [Int.mul_neg]; omega⟩
    exact ⟨by omega, by omega, h3⟩

theorem spec_length (f l s : Int) : (Spec.Range.elems f l s).length = Spec.Range.count f l s := by
  simp [Spec.Range.elems]

theorem spec_mem_iff (f l s v : Int) : Spec.Range.mem f l s v = true ↔ v ∈ Spec.Range.elems f l s := by
  unfold Spec.Range.mem Spec.Range.elems Spec.Range.count
  simp only [List.mem_map, List.mem_range]
  by_cases hs : 0 < s
  · simp only [hs, gt_iff_lt, if_true]
    by_cases hfl : l < f
    · simp only [hfl, if_true]
      constructor
      · intro h; simp at h; omega
      · rintro ⟨i, hi, _⟩; omega
    · simp only [hfl, if_false, decide_eq_true_eq]
      exact spec_mem_up f l s v hs
  · by_cases hs' : s < 0
    · simp only [hs, hs', gt_iff_lt, if_true, if_false]
      by_cases hfl : f < l
      · simp only [hfl, if_true]
        constructor
        · intro h; simp at h; omega
        · rintro ⟨i, hi, _⟩; omega
      · simp only [hfl, if_false, decide_eq_true_eq]
        exact spec_mem_down f l s v hs'
    · simp only [hs, hs', gt_iff_lt, if_false]
      constructor
      · intro h; simp at h
      · rintro ⟨i, hi, _⟩; omega

/-! ### the guard of the `_partial` theorems -/

/-- the range's own arithmetic stays inside `i64`: `last - first` and its absolute value, `-step`, the element
count, and the iterator never has to saturate onto `last` -/
def Range.Safe (r : Range) : Prop :=
  r.isEmpty = true ∨
    (-I64_MAX ≤ r.last - r.first ∧ r.last - r.first ≤ I64_MAX ∧ I64_MIN < r.step ∧
     (Spec.Range.count r.first r.last r.step : Int) ≤ I64_MAX ∧
     (0 < r.step → r.last < I64_MAX ∨ (r.last - r.first) % r.step = 0) ∧
     (r.step < 0 → I64_MIN < r.last ∨ (r.first - r.last) % (-r.step) = 0))

instance (r : Range) : Decidable r.Safe := by unfold Range.Safe; infer_instance

theorem ck_ok {x : Int} (h1 : I64_MIN ≤ x) (h2 : x ≤ I64_MAX) : ck x = .ok x := by
  simp [ck, InI64, h1, h2]

theorem isEmpty_false_iff (r : Range) :
    r.isEmpty = false ↔ (0 < r.step ∧ r.first ≤ r.last) ∨ (r.step < 0 ∧ r.last ≤ r.first) := by
  unfold Range.isEmpty
  by_cases h1 : 0 < r.step
  · simp [h1]; omega
  · by_cases h2 : r.step < 0
    · simp [h1, h2]
    · simp [h1, h2]

theorem count_up {f l s : Int} (hs : 0 < s) (hfl : f ≤ l) :
    Spec.Range.count f l s = ((l - f) / s + 1).toNat := by
  unfold Spec.Range.count
  simp [hs]; omega

theorem count_down {f l s : Int} (hs : s < 0) (hfl : l ≤ f) :
    Spec.Range.count f l s = ((f - l) / (-s) + 1).toNat := by
  unfold Spec.Range.count
  have : ¬ 0 < s := by omega
  simp [hs, this]; omega

/-- `len` under the guard is the Spec's count -/
theorem len_safe (r : Range) (hs : r.Safe) : r.len = .ok (Spec.Range.count r.first r.last r.step) := by
  unfold Range.len
  cases he : r.isEmpty with
  | true =>
    simp only [if_true]
    unfold Range.isEmpty at he
    unfold Spec.Range.count
    by_cases h1 : 0 < r.step
    · simp [h1] at he; simp [h1, he]
    · by_cases h2 : r.step < 0
      · simp [h1, h2] at he; simp [h1, h2, he]
      · simp [h1, h2]
  | false =>
    simp only [Bool.false_eq_true, if_false]
    rcases hs with hs | ⟨hd1, hd2, hst, hc, -, -⟩
    · rw [he] at hs; cases hs
    rcases (isEmpty_false_iff r).mp he with ⟨hp, hfl⟩ | ⟨hn, hfl⟩
    · -- ascending
      have hq : 0 ≤ (r.last - r.first) / r.step := Int.ediv_nonneg (by omega) (by omega)
      rw [count_up hp hfl, Int.toNat_of_nonneg (by omega)] at hc
      rw [ck_ok (by unfold I64_MIN; unfold I64_MAX at hd1; omega) hd2]
      simp only [absCk]
      have e1 : ¬ r.last - r.first = I64_MIN := by unfold I64_MIN; omega
      have e2 : ¬ r.step = I64_MIN := by omega
      have e3 : ¬ r.last - r.first < 0 := by omega
      have e4 : ¬ r.step < 0 := by omega
      have e5 : ¬ r.step = 0 := by omega
      simp only [e1, e2, e3, e4, e5, if_false]
      rw [Int.tdiv_eq_ediv_of_nonneg (by omega), ck_ok (by unfold I64_MIN; omega) hc, count_up hp hfl]
    · -- descending
      have hq : 0 ≤ (r.first - r.last) / (-r.step) := Int.ediv_nonneg (by omega) (by omega)
      rw [count_down hn hfl, Int.toNat_of_nonneg (by omega)] at hc
      rw [ck_ok (by unfold I64_MIN; unfold I64_MAX at hd1; omega) hd2]
      simp only [absCk]
      have e1 : ¬ r.last - r.first = I64_MIN := by unfold I64_MIN; unfold I64_MAX at hd1; omega
      have e2 : ¬ r.step = I64_MIN := by omega
      have e4 : r.step < 0 := hn
      have e5 : ¬ -r.step = 0 := by omega
      simp only [e1, e2, e4, e5, if_false, if_true]
      have e6 : (if r.last - r.first < 0 then -(r.last - r.first) else r.last - r.first) = r.first - r.last := by
        split <;> omega
      rw [e6, Int.tdiv_eq_ediv_of_nonneg (by omega), ck_ok (by unfold I64_MIN; omega) hc, count_down hn hfl]

theorem beq_zero_eq_decide (x : Int) : (x == 0) = decide (x = 0) := by
  by_cases h : x = 0 <;> simp [h]

/-- `contains` under the guard is the Spec's membership, for every `i64` value -/
theorem contains_safe (r : Range) (hw : r.WF) (hs : r.Safe) (v : Int) (hv : InI64 v) :
    r.contains v = .ok (Spec.Range.mem r.first r.last r.step v) := by
  obtain ⟨⟨hf1, hf2⟩, ⟨hl1, hl2⟩, ⟨hs1, hs2⟩⟩ := hw
  obtain ⟨hv1, hv2⟩ := hv
  unfold Range.contains Spec.Range.mem
  cases he : r.isEmpty with
  | true =>
    simp only [if_true]
    unfold Range.isEmpty at he
    by_cases h1 : 0 < r.step
    · simp [h1] at he; simp [h1]; omega
    · by_cases h2 : r.step < 0
      · simp [h1, h2] at he; simp [h1, h2]; omega
      · simp [h1, h2]
  | false =>
    simp only [Bool.false_eq_true, if_false]
    rcases hs with hs | ⟨hd1, hd2, hst, -, -, -⟩
    · rw [he] at hs; cases hs
    rcases (isEmpty_false_iff r).mp he with ⟨hp, hfl⟩ | ⟨hn, hfl⟩
    · simp only [gt_iff_lt, hp, if_true, ge_iff_le]
      by_cases hb : r.first ≤ v ∧ v ≤ r.last
      · simp only [hb, and_self, if_true]
        rw [ck_ok (by unfold I64_MIN; omega) (by omega)]
        simp only [Int.tmod_eq_emod_of_nonneg (show 0 ≤ v - r.first by omega)]
        simp [beq_zero_eq_decide]
      · simp only [hb, if_false]
        simp; intro h1 h2; exact absurd ⟨h1, h2⟩ hb
    · have hp : ¬ 0 < r.step := by omega
      simp only [gt_iff_lt, hp, hn, if_true, if_false, ge_iff_le]
      by_cases hb : v ≤ r.first ∧ r.last ≤ v
      · simp only [hb, and_self, if_true]
        rw [ck_ok (by unfold I64_MIN; omega) (by unfold I64_MAX at *; omega)]
        simp only []
        rw [ck_ok (by unfold I64_MIN; unfold I64_MAX at hs2; omega) (by unfold I64_MAX; unfold I64_MIN at hst; omega)]
        simp only [Int.tmod_eq_emod_of_nonneg (show 0 ≤ r.first - v by omega)]
        simp [beq_zero_eq_decide]
      · simp only [hb, if_false]
        simp; intro h1 h2; exact absurd ⟨h2, h1⟩ hb

/-- `size_hint` of the fresh iterator under the guard is the Spec's count -/
theorem sizeHint_safe (r : Range) (hw : r.WF) (hs : r.Safe) :
    r.sizeHint r.iter = .ok (Spec.Range.count r.first r.last r.step) := by
  obtain ⟨⟨hf1, hf2⟩, ⟨hl1, hl2⟩, ⟨hs1, hs2⟩⟩ := hw
  unfold Range.sizeHint Range.iter
  cases he : r.isEmpty with
  | true =>
    simp only [Bool.false_or, if_true]
    unfold Range.isEmpty at he
    unfold Spec.Range.count
    by_cases h1 : 0 < r.step
    · simp [h1] at he; simp [h1, he]
    · by_cases h2 : r.step < 0
      · simp [h1, h2] at he; simp [h1, h2, he]
      · simp [h1, h2]
  | false =>
    simp only [Bool.or_self, Bool.false_eq_true, if_false]
    rcases hs with hs | ⟨hd1, hd2, hst, hc, -, -⟩
    · rw [he] at hs; cases hs
    rcases (isEmpty_false_iff r).mp he with ⟨hp, hfl⟩ | ⟨hn, hfl⟩
    · have hq : 0 ≤ (r.last - r.first) / r.step := Int.ediv_nonneg (by omega) (by omega)
      rw [count_up hp hfl, Int.toNat_of_nonneg (by omega)] at hc
      have e1 : ¬ r.first > r.last := by omega
      simp only [gt_iff_lt, hp, if_true, e1, if_false]
      rw [ck_ok (by unfold I64_MIN; omega) hd2]
      simp only []
      rw [Int.tdiv_eq_ediv_of_nonneg (by omega), ck_ok (by unfold I64_MIN; omega) hc, count_up hp hfl]
    · have hq : 0 ≤ (r.first - r.last) / (-r.step) := Int.ediv_nonneg (by omega) (by omega)
      rw [count_down hn hfl, Int.toNat_of_nonneg (by omega)] at hc
      have hp : ¬ 0 < r.step := by omega
      have e1 : ¬ r.first < r.last := by omega
      simp only [gt_iff_lt, hp, if_false, e1]
      rw [ck_ok (by unfold I64_MIN; omega) (by unfold I64_MAX at *; omega)]
      simp only []
      rw [ck_ok (by unfold I64_MIN; unfold I64_MAX at hs2; omega) (by unfold I64_MAX; unfold I64_MIN at hst; omega)]
      have e5 : ¬ -r.step = 0 := by omega
      simp only [e5, if_false]
      rw [Int.tdiv_eq_ediv_of_nonneg (by omega), ck_ok (by unfold I64_MIN; omega) hc, count_down hn hfl]

/-! ### the iteration -/

theorem natCast_succ_mul (n : Nat) (s : Int) : ((n + 1 : Nat) : Int) * s = (n : Int) * s + s := by
  rw [Int.natCast_add, Int.add_mul]; simp

/-- ascending iteration from `cur` with `n+1` elements left; the saturating add is harmless when the last
element is hit exactly or `last` is not `i64::MAX` -/
theorem collect_up (r : Range) (hp : 0 < r.step) (he : r.isEmpty = false) (hl : r.last ≤ I64_MAX) :
    ∀ (n : Nat) (cur : Int) (fuel : Nat), I64_MIN ≤ cur →
      cur + (n : Int) * r.step ≤ r.last → r.last < cur + (n : Int) * r.step + r.step →
      (r.last < I64_MAX ∨ r.last = cur + (n : Int) * r.step) → n + 2 ≤ fuel →
      r.collect fuel ⟨cur, false⟩ = (List.range (n + 1)).map (fun i : Nat => cur + (i : Int) * r.step) := by
  intro n
  induction n with
  | zero =>
    intro cur fuel hc h1 h2 hg hf
    obtain ⟨m, rfl⟩ : ∃ m, fuel = m + 2 := ⟨fuel - 2, by omega⟩
    simp only [Int.natCast_zero, Int.zero_mul, Int.add_zero] at h1 h2 hg
    by_cases hcl : cur = r.last
    · have e1 : ¬ cur > r.last := by omega
      simp [Range.collect, Range.next, he, hp, e1, hcl]
    · have e1 : ¬ cur > r.last := by omega
      have e2 : satAdd cur r.step > r.last := by
        unfold satAdd
        split
        · rcases hg with hg | hg <;> omega
        · split
          · unfold I64_MIN at *; omega
          · omega
      simp [Range.collect, Range.next, he, hp, e1, hcl, e2]
  | succ n ih =>
    intro cur fuel hc h1 h2 hg hf
    obtain ⟨m, rfl⟩ : ∃ m, fuel = m + 1 := ⟨fuel - 1, by omega⟩
    rw [natCast_succ_mul] at h1 h2 hg
    have hn0 : 0 ≤ (n : Int) * r.step := Int.mul_nonneg (Int.natCast_nonneg n) (by omega)
    have e1 : ¬ cur > r.last := by omega
    have e2 : ¬ cur = r.last := by omega
    have e3 : satAdd cur r.step = cur + r.step := by
      unfold satAdd
      have : ¬ cur + r.step > I64_MAX := by omega
      have : ¬ cur + r.step < I64_MIN := by omega
      simp [*]
    have ih' := ih (cur + r.step) m (by omega) (by omega) (by omega) (by omega) (by omega)
    rw [List.range_succ_eq_map, List.map_cons, List.map_map]
    simp only [Range.collect, Range.next, he, hp, e1, e2, e3, Bool.or_self, Bool.false_eq_true, if_false, if_true, gt_iff_lt]
    rw [ih']
    simp only [Int.natCast_zero, Int.zero_mul, Int.add_zero, List.cons.injEq, true_and]
    apply List.map_congr_left
    intro i _
    simp only [Function.comp, Nat.succ_eq_add_one]
    rw [natCast_succ_mul]; omega

/-- descending iteration, the mirror image of `collect_up` -/
theorem collect_down (r : Range) (hn : r.step < 0) (he : r.isEmpty = false) (hl : I64_MIN ≤ r.last) :
    ∀ (n : Nat) (cur : Int) (fuel : Nat), cur ≤ I64_MAX →
      r.last ≤ cur + (n : Int) * r.step → cur + (n : Int) * r.step + r.step < r.last →
      (I64_MIN < r.last ∨ r.last = cur + (n : Int) * r.step) → n + 2 ≤ fuel →
      r.collect fuel ⟨cur, false⟩ = (List.range (n + 1)).map (fun i : Nat => cur + (i : Int) * r.step) := by
  have hp : ¬ r.step > 0 := by omega
  intro n
  induction n with
  | zero =>
    intro cur fuel hc h1 h2 hg hf
    obtain ⟨m, rfl⟩ : ∃ m, fuel = m + 2 := ⟨fuel - 2, by omega⟩
    simp only [Int.natCast_zero, Int.zero_mul, Int.add_zero] at h1 h2 hg
    by_cases hcl : cur = r.last
    · simp [Range.collect, Range.next, he, hp, hcl]
    · have e1 : ¬ cur < r.last := by omega
      have e2 : satAdd cur r.step < r.last := by
        unfold satAdd
        split
        · unfold I64_MAX at *; omega
        · split
          · rcases hg with hg | hg <;> omega
          · omega
      simp [Range.collect, Range.next, he, hp, e1, hcl, e2]
  | succ n ih =>
    intro cur fuel hc h1 h2 hg hf
    obtain ⟨m, rfl⟩ : ∃ m, fuel = m + 1 := ⟨fuel - 1, by omega⟩
    rw [natCast_succ_mul] at h1 h2 hg
    have hn0 : (n : Int) * r.step ≤ 0 := by
      have := Int.mul_nonneg (Int.natCast_nonneg n) (show 0 ≤ -r.step by omega)
      rw [Int.mul_neg] at this; omega
    have e1 : ¬ cur < r.last := by omega
    have e2 : ¬ cur = r.last := by omega
    have e3 : satAdd cur r.step = cur + r.step := by
      unfold satAdd
      have : ¬ cur + r.step > I64_MAX := by omega
      have : ¬ cur + r.step < I64_MIN := by omega
      simp [*]
    have ih' := ih (cur + r.step) m (by omega) (by omega) (by omega) (by omega) (by omega)
    rw [List.range_succ_eq_map, List.map_cons, List.map_map]
    simp only [Range.collect, Range.next, he, hp, e1, e2, e3, Bool.or_self, Bool.false_eq_true, if_false, if_true]
    rw [ih']
    simp only [Int.natCast_zero, Int.zero_mul, Int.add_zero, List.cons.injEq, true_and]
    apply List.map_congr_left
    intro i _
    simp only [Function.comp, Nat.succ_eq_add_one]
    rw [natCast_succ_mul]; omega

/-- under the guard the iteration is the Spec's element list, whatever fuel (at least `r.fuel`) is given -/
theorem collect_safe (r : Range) (hw : r.WF) (hs : r.Safe) (fuel : Nat) (hf : r.fuel ≤ fuel) :
    r.collect fuel r.iter = Spec.Range.elems r.first r.last r.step := by
  obtain ⟨⟨hf1, hf2⟩, ⟨hl1, hl2⟩, ⟨hs1, hs2⟩⟩ := hw
  unfold Spec.Range.elems
  cases he : r.isEmpty with
  | true =>
    have hc : Spec.Range.count r.first r.last r.step = 0 := by
      unfold Range.isEmpty at he
      unfold Spec.Range.count
      by_cases h1 : 0 < r.step
      · simp [h1] at he; simp [h1, he]
      · by_cases h2 : r.step < 0
        · simp [h1, h2] at he; simp [h1, h2, he]
        · simp [h1, h2]
    rw [hc]
    unfold Range.fuel at hf
    obtain ⟨m, rfl⟩ : ∃ m, fuel = m + 1 := ⟨fuel - 1, by omega⟩
    simp [Range.collect, Range.next, he]
  | false =>
    rcases hs with hs | ⟨hd1, hd2, hst, hc, hgu, hgd⟩
    · rw [he] at hs; cases hs
    unfold Range.fuel at hf
    unfold Range.iter
    rcases (isEmpty_false_iff r).mp he with ⟨hp, hfl⟩ | ⟨hn, hfl⟩
    · have hq : 0 ≤ (r.last - r.first) / r.step := Int.ediv_nonneg (by omega) (by omega)
      have hlo : (r.last - r.first) / r.step * r.step ≤ r.last - r.first := Int.ediv_mul_le _ (by omega)
      have hhi : r.last - r.first < ((r.last - r.first) / r.step + 1) * r.step := Int.lt_ediv_add_one_mul_self _ hp
      rw [Int.add_mul, Int.one_mul] at hhi
      have hqn : (((r.last - r.first) / r.step).toNat : Int) = (r.last - r.first) / r.step := Int.toNat_of_nonneg hq
      have hqs : (r.last - r.first) / r.step * 1 ≤ (r.last - r.first) / r.step * r.step :=
        Int.mul_le_mul_of_nonneg_left (by omega) hq
      rw [count_up hp hfl]
      have hcnt : ((r.last - r.first) / r.step + 1).toNat = ((r.last - r.first) / r.step).toNat + 1 := by omega
      rw [hcnt]
      apply collect_up r hp he hl2 _ _ _ hf1
      · rw [hqn]; omega
      · rw [hqn]; omega
      · rcases hgu hp with h | h
        · exact Or.inl h
        · right
          have := Int.ediv_mul_add_emod (r.last - r.first) r.step
          rw [hqn]; omega
      · omega
    · have hq : 0 ≤ (r.first - r.last) / (-r.step) := Int.ediv_nonneg (by omega) (by omega)
      have hlo : (r.first - r.last) / (-r.step) * (-r.step) ≤ r.first - r.last := Int.ediv_mul_le _ (by omega)
      have hhi : r.first - r.last < ((r.first - r.last) / (-r.step) + 1) * (-r.step) :=
        Int.lt_ediv_add_one_mul_self _ (by omega)
      rw [Int.add_mul, Int.one_mul, Int.mul_neg] at hhi
      rw [Int.mul_neg] at hlo
      have hqn : (((r.first - r.last) / (-r.step)).toNat : Int) = (r.first - r.last) / (-r.step) := Int.toNat_of_nonneg hq
      have hqs : (r.first - r.last) / (-r.step) * 1 ≤ (r.first - r.last) / (-r.step) * (-r.step) :=
        Int.mul_le_mul_of_nonneg_left (by omega) hq
      rw [Int.mul_neg] at hqs
      rw [count_down hn hfl]
      have hcnt : ((r.first - r.last) / (-r.step) + 1).toNat = ((r.first - r.last) / (-r.step)).toNat + 1 := by omega
      rw [hcnt]
      apply collect_down r hn he hl1 _ _ _ hf2
      · rw [hqn]; omega
      · rw [hqn]; omega
      · rcases hgd hn with h | h
        · exact Or.inl h
        · right
          have := Int.ediv_mul_add_emod (r.first - r.last) (-r.step)
          rw [Int.mul_neg] at this
          rw [hqn]; omega
      · omega

/-! ### the iteration always ends, guard or no guard: more fuel than `mu` changes nothing -/

/-- an upper bound on the number of `next` calls until `None` -/
def mu (r : Range) (it : It) : Nat :=
  if it.done || r.isEmpty then 1
  else if r.step > 0 then (if it.cur > r.last then 1 else (r.last - it.cur).toNat + 2)
  else (if it.cur < r.last then 1 else (it.cur - r.last).toNat + 2)

theorem satAdd_bounds (a b : Int) : I64_MIN ≤ satAdd a b ∧ satAdd a b ≤ I64_MAX := by
  unfold satAdd I64_MIN I64_MAX
  split
  · omega
  · split <;> omega

theorem collect_stable (r : Range) (hl : InI64 r.last) :
    ∀ (n : Nat) (it : It) (f1 f2 : Nat), InI64 it.cur → mu r it ≤ n → n ≤ f1 → n ≤ f2 →
      r.collect f1 it = r.collect f2 it := by
  obtain ⟨hl1, hl2⟩ := hl
  intro n
  induction n with
  | zero =>
    intro it f1 f2 _ hm
    unfold mu at hm
    split at hm
    · omega
    · split at hm <;> split at hm <;> omega
  | succ n ih =>
    intro it f1 f2 hc hm h1 h2
    obtain ⟨a, rfl⟩ : ∃ a, f1 = a + 1 := ⟨f1 - 1, by omega⟩
    obtain ⟨b, rfl⟩ : ∃ b, f2 = b + 1 := ⟨f2 - 1, by omega⟩
    obtain ⟨cur, done⟩ := it
    obtain ⟨hc1, hc2⟩ := hc
    simp only at hc1 hc2
    unfold mu at hm
    simp only [Range.collect, Range.next]
    by_cases hde : (done || r.isEmpty) = true
    · simp [hde]
    · simp only [hde, Bool.false_eq_true, if_false] at hm ⊢
      have hd : done = false := by cases done <;> simp_all
      have he : r.isEmpty = false := by cases h : r.isEmpty <;> simp_all
      subst hd
      by_cases hp : r.step > 0
      · simp only [hp, if_true] at hm ⊢
        by_cases h3 : cur > r.last
        · simp [h3]
        · simp only [h3, if_false] at hm ⊢
          by_cases h4 : cur = r.last
          · simp only [h4, if_true]
            congr 1
            apply ih ⟨r.last, true⟩ a b ⟨hl1, hl2⟩ _ (by omega) (by omega)
            simp [mu]; omega
          · simp only [h4, if_false]
            congr 1
            have hb := satAdd_bounds cur r.step
            apply ih ⟨satAdd cur r.step, false⟩ a b hb _ (by omega) (by omega)
            have hgt : satAdd cur r.step > cur := by
              unfold satAdd; split
              · omega
              · split
                · unfold I64_MIN at *; omega
                · omega
            unfold mu
            simp only [he, Bool.or_self, Bool.false_eq_true, if_false, hp, if_true]
            split <;> omega
      · have hn : r.step < 0 := by
          rcases (isEmpty_false_iff r).mp he with ⟨h, _⟩ | ⟨h, _⟩ <;> omega
        simp only [hp, if_false] at hm ⊢
        by_cases h3 : cur < r.last
        · simp [h3]
        · simp only [h3, if_false] at hm ⊢
          by_cases h4 : cur = r.last
          · simp only [h4, if_true]
            congr 1
            apply ih ⟨r.last, true⟩ a b ⟨hl1, hl2⟩ _ (by omega) (by omega)
            simp [mu]; omega
          · simp only [h4, if_false]
            congr 1
            have hb := satAdd_bounds cur r.step
            apply ih ⟨satAdd cur r.step, false⟩ a b hb _ (by omega) (by omega)
            have hgt : satAdd cur r.step < cur := by
              unfold satAdd; split
              · unfold I64_MAX at *; omega
              · split <;> omega
            unfold mu
            simp only [he, Bool.or_self, Bool.false_eq_true, if_false, hp]
            split <;> omega

theorem mu_iter_le_fuel (r : Range) : mu r r.iter ≤ r.fuel := by
  unfold mu Range.iter Range.fuel
  simp only [Bool.false_or]
  cases he : r.isEmpty with
  | true => simp
  | false =>
    simp only [Bool.false_eq_true, if_false]
    rcases (isEmpty_false_iff r).mp he with ⟨hp, hfl⟩ | ⟨hn, hfl⟩
    · have : ¬ r.first > r.last := by omega
      simp only [gt_iff_lt, hp, if_true, this, if_false]; omega
    · have h1 : ¬ r.step > 0 := by omega
      have h2 : ¬ r.first < r.last := by omega
      simp only [h1, h2, if_false]; omega

end Edp.Ex
