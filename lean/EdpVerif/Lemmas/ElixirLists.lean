import EdpVerif.Impl.Elixir
/-! Helper lemmas for C20: inserting keys in ascending order appends (ordered maps and sets as lists). -/
namespace Edp.Ex
open Edp

/-- every element is greater (under the model of Rust's `Ord`) than all elements before it: the shape of a
`BTreeSet`/`BTreeMap` key sequence -/
def Asc (l : List Term) : Prop := l.Pairwise (fun a b => Term.cmp b a = .gt)

theorem setInsert_append (acc : List Term) (e : Term) (h : ∀ x ∈ acc, Term.cmp e x = .gt) :
    setInsert acc e = acc ++ [e] := by
  induction acc with
  | nil => rfl
  | cons a t ih =>
    have h1 : Term.cmp e a = .gt := h a (by simp)
    simp only [setInsert, h1, List.cons_append]
    rw [ih (fun x hx => h x (by simp [hx]))]

theorem mapInsert_append (acc : List (Term × Term)) (k v : Term) (h : ∀ p ∈ acc, Term.cmp k p.1 = .gt) :
    mapInsert acc k v = acc ++ [(k, v)] := by
  induction acc with
  | nil => rfl
  | cons a t ih =>
    obtain ⟨k', v'⟩ := a
    have h1 : Term.cmp k k' = .gt := h (k', v') (by simp)
    simp only [mapInsert, h1, List.cons_append]
    rw [ih (fun x hx => h x (by simp [hx]))]

theorem foldl_setInsert_asc (l acc : List Term) (hl : Asc l) (h2 : ∀ x ∈ acc, ∀ y ∈ l, Term.cmp y x = .gt) :
    l.foldl setInsert acc = acc ++ l := by
  induction l generalizing acc with
  | nil => simp
  | cons a t ih =>
    unfold Asc at hl
    rw [List.pairwise_cons] at hl
    simp only [List.foldl_cons]
    rw [setInsert_append acc a (fun x hx => h2 x hx a (by simp))]
    rw [ih (acc ++ [a]) hl.2]
    · simp
    · intro x hx y hy
      rw [List.mem_append] at hx
      rcases hx with hx | hx
      · exact h2 x hx y (by simp [hy])
      · simp only [List.mem_singleton] at hx
        subst hx
        exact hl.1 y hy

theorem foldl_mapInsert_asc {α : Type} (kf vf : α → Term) (l : List α) (acc : List (Term × Term))
    (hl : Asc (l.map kf)) (h2 : ∀ p ∈ acc, ∀ y ∈ l, Term.cmp (kf y) p.1 = .gt) :
    l.foldl (fun m e => mapInsert m (kf e) (vf e)) acc = acc ++ l.map (fun e => (kf e, vf e)) := by
  induction l generalizing acc with
  | nil => simp
  | cons a t ih =>
    unfold Asc at hl
    rw [List.map_cons, List.pairwise_cons] at hl
    simp only [List.foldl_cons]
    rw [mapInsert_append acc (kf a) (vf a) (fun p hp => h2 p hp a (by simp))]
    rw [ih (acc ++ [(kf a, vf a)]) hl.2]
    · simp
    · intro p hp y hy
      rw [List.mem_append] at hp
      rcases hp with hp | hp
      · exact h2 p hp y (by simp [hy])
      · simp only [List.mem_singleton] at hp
        subst hp
        exact hl.1 (kf y) (List.mem_map_of_mem hy)

end Edp.Ex
