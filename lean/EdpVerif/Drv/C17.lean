import EdpVerif.Drv.Common
import EdpVerif.Impl.Rpc
import EdpVerif.Spec.Rpc
import EdpVerif.Impl.RpcTerm
/-! Driver requests of property C17 (remote calls).

* `c17trace <creation> <pids> <events>` — trace validation. `<events>` is the step trace recorded by the yield hook while
  the real `Node` ran (comma separated, fields separated by dots; the last field of most events is
  `Node::pending_rpc_count()` sampled at that point):

      sp.<id>.<ser>.<cre>            `Node::spawn` returned this pid (a local process exists)
      bi.<i>.<n>  ai.<i>.<n>  bl.<i>.<n>  as.<i>.<n>  to.<i>.<n>
                                     call i reached rpc:before_insert / after_insert / before_lock / after_send / timed_out
      ret.<i>.<result>.<n>           call i returned (`reply:<tag>`, `timeout`, `cancelled`, `noconn`, `senderr`)
      dr.<i>.<n>                     the future of call i was dropped
      pm.<node>.<id>.<ser>.<cre>.<tag>   the peer wrote a SEND to that pid (node 0 = our name) with body tag
      pp.<id>.<ser>.<cre>.<tag>      the same, addressed to the local process
      rt.<y>.<n>                     the receiver reached route:before_pending_remove (and yields y times there)
      pc                             the peer closed the socket
      fin.<n>                        everything is over

  Every observed step must be enabled in the model (`Impl/Rpc.lean`, the same `step` the theorems are about), the table
  size must agree at every point, the reply pids must be the ones the model's allocator gives. Steps the hooks do not see
  are placed by the rules below; the one step whose moment is not determined by the trace — the receiver's
  `remove` + `send` after its yields — is fired as late as the observations allow.
  `<pids>`: the reply pid the peer saw per call (`-` if it saw none). Result: `ok out=<results> fin=<n> proc=<tags>`.

      rs                             the harness saw that the receiver task had taken the connection out of the table
      px                             the peer wrote something `route_message` ignores (no payload, `to_pid` not a pid)
      st.<c>                         `Node::start` returned; EPMD assigned creation c (calls before it carry creation 1)

* `c17mt …` — the same for a trace recorded on a multi-thread runtime: the events are in the order in which the tasks
  logged them; each step happened between its task's previous event and the event that reports it, so the sizes
  sampled at the points are not compared (only the final one), everything else is.
* `c17wtrace …` / `c17wmt …` — the calls went through `rpc_call_with_timeout`: results are `reply:<tag>` (the unwrapped
  value), `badshape` (`into_rex_response` refused the reply; the harness's malformed replies carry tags ending in 7).
* `c17spec <kinds> <order> <ending> <results> <fin> <procSent> <procGot>` — the Spec's judgement of a scenario
  (`c17wspec`: of wrapped calls).
* `c17rex <term>` — `OwnedTerm::into_rex_response`; `c17wrap <ok|err> <term|class>` — what `rpc_call_with_timeout`
  makes of the raw result.
* `c17req <pid> <module> <function> <args>` — the frame `rpc_call_raw_with_timeout` writes (after the length prefix);
  `c17erl <name> <pid> <params>` — the same for an `erlang_*` call.
-/
namespace Edp.Drv
namespace C17
open Edp.Impl
open Edp.Impl.Rpc
open Edp.Impl.PidAlloc (Pid Sh)

def nat (s : String) : Except String Nat :=
  match s.toNat? with
  | some n => .ok n
  | none => .error ("bad-nat " ++ s)

/-- replay state: the model state, the peer's messages not yet taken by the receiver (`true` = addressed to the
local process), whether the receiver still owes its `remove` + `send` -/
structure R where
  s : St
  q : List (Bool × Msg) := []
  owed : Bool := false
  sizes : Bool := true

def fire (r : R) (e : Step) : Except String R :=
  match step r.s e with
  | some s' => .ok { r with s := s' }
  | none => .error s!"step not enabled: {repr e}"

def fireAll (r : R) : List Step → Except String R
  | [] => .ok r
  | e :: es => do fireAll (← fire r e) es

/-- the receiver's owed `pending_rpcs.remove` and `sender.send` -/
def payDebt (r : R) : Except String R :=
  if r.owed then do
    let r1 ← fire r (.rRemove 0)
    let r2 ← match r1.s.recv 0 with
      | .holding _ _ _ => fire r1 (.rSend 0)
      | _ => pure r1
    pure { r2 with owed := false }
  else .ok r

/-- the lock is wanted by call `i`: a holder that already passed `rpc:after_send` has released it by now -/
def freeLock (r : R) (i : Nat) : Except String R :=
  match r.s.lock 0 with
  | some j => if j ≠ i ∧ (r.s.callers j).pc = .sent then fire r (.unlock j) else .ok r
  | none => .ok r

def unlockSelf (r : R) (i : Nat) : Except String R :=
  if (r.s.callers i).pc = .sent then fire r (.unlock i) else .ok r

def outText : Option Outcome → String
  | some (.reply _ b) => s!"reply:{b}"
  | some .timeout => "timeout"
  | some .cancelled => "cancelled"
  | some .noConn => "noconn"
  | some .sendErr => "senderr"
  | some .allocFail => "panic"
  | some .dropped => "dropped"
  | none => "running"

def pidOf (a b c : String) : Except String Pid := do pure ⟨← nat a, ← nat b, ← nat c⟩

/-- the steps of call `i` that lead up to an observed point (everything between two points runs without a yield, so
it is placed right before the point) -/
def callerSteps (r : R) (ev : List String) (pids : List String) : Except String (R × Nat) :=
  match ev with
  | ["bi", i, n] => do
    let i ← nat i
    let r ← fire r (.begin i)
    let c := r.s.callers i
    if c.pc ≠ .allocated then throw "allocate failed in the model"
    let seen := pids.getD i "-"
    if seen ≠ "-" ∧ seen ≠ keyText c.key then
      throw s!"reply pid: model {keyText c.key}, peer saw {seen}"
    pure (r, ← nat n)
  | ["ai", i, n] => do pure (← fire r (.insert (← nat i)), ← nat n)
  | ["bl", i, n] => do pure (← fire r (.lookup (← nat i) (some 0)), ← nat n)
  | ["as", i, n] => do
    let i ← nat i
    let r ← freeLock r i
    pure (← fireAll r [.lock i, .send i true], ← nat n)
  | ["to", i, n] => do
    let i ← nat i
    let r ← unlockSelf r i
    pure (← fire r (.timeout i), ← nat n)
  | ["dr", i, n] => do pure (← fire r (.drop (← nat i)), ← nat n)
  | ["ret", i, o, n] => do
    let i ← nat i
    let r ←
      if o.startsWith "reply:" ∨ o == "badshape" then do
        let r ← unlockSelf r i
        let r ← fire r (.recvReply i)
        match (r.s.callers i).pc with
        | .exiting (.reply _ b) =>
          if o ≠ "badshape" ∧ s!"reply:{b}" ≠ o then throw s!"call {i} returned {o}, the model's channel holds reply:{b}"
          fire r (.finish i)
        | _ => throw "no reply"
      else if o == "timeout" then fireAll r [.timeoutRemove i, .finish i]
      else if o == "noconn" then fireAll r [.lookup i none, .finish i]
      else if o == "senderr" then do
        let r ← freeLock r i
        fireAll r [.lock i, .send i false, .finish i]
      else if o == "cancelled" then do
        let r ← unlockSelf r i
        fireAll r [.recvClosed i, .finish i]
      else throw s!"call {i} returned {o}"
    pure (r, ← nat n)
  | _ => throw "bad event"

/-- the receiver takes the next message of the peer that needs routing; messages for the local process that come
before it are delivered on the way (they have no yield point) -/
def takeNextFrom (r : R) : List (Bool × Msg) → Except String R
  | [] => throw "the receiver routes a message the peer did not send"
  | (toProc, msg) :: rest => do
    let before := r.s.procLog.length
    let r ← fire { r with q := rest } (.rStart 0 msg)
    let delivered := r.s.procLog.length > before
    if toProc then
      if ¬ delivered then throw "a message for the local process was not given to it"
      takeNextFrom r rest
    else
      if delivered then throw "a message that is not for the local process was given to it"
      pure { r with owed := true }

def takeNext (r : R) : Except String R := takeNextFrom r r.q

/-- messages for the local process at the head of the queue (no yield point marks them) -/
def drainProcFrom (r : R) : List (Bool × Msg) → Except String R
  | (true, msg) :: rest => do
    let before := r.s.procLog.length
    let r ← fire { r with q := rest } (.rStart 0 msg)
    if r.s.procLog.length ≤ before then throw "a message for the local process was not given to it"
    drainProcFrom r rest
  | _ => .ok r

def drainProc (r : R) : Except String R := drainProcFrom r r.q

def event (r : R) (pids : List String) (e : String) : Except String R :=
  let ev := e.splitOn "."
  match ev with
  | ["sp", a, b, c] => do
    let p ← pidOf a b c
    let r ← fire r .spawnProc
    if r.s.procs.head? ≠ some p then throw "spawned pid differs from the model's"
    pure r
  | ["pm", nd, a, b, c, t] => do
    pure { r with q := r.q ++ [(false, { node := ← nat nd, pid := ← pidOf a b c, body := ← nat t })] }
  | ["pp", a, b, c, t] => do
    pure { r with q := r.q ++ [(true, { node := 0, pid := ← pidOf a b c, body := ← nat t })] }
  | ["pc"] => .ok r
  | ["px"] => .ok r
  | ["st", c] => do fire r (.start (← nat c))
  | ["rs"] => do
    -- the receiver left its loop and removed the connection: whatever it owed is done, it stops
    let r ← payDebt r
    let r ← drainProc r
    fire r (.rStop 0)
  | ["rt", _, n] => do
    -- the receiver is sequential: what it owed from the previous message is done
    let r ← payDebt r
    let r ← takeNext r
    if r.sizes ∧ r.s.pending.length ≠ (← nat n) then throw s!"table size {r.s.pending.length} in the model, {n} observed"
    pure r
  | ["fin", n] => do
    let r ← payDebt r
    let r ← if r.s.recv 0 = .stopped then pure r else drainProc r
    -- what the peer wrote but the receiver never took (the socket was closed first) was never received
    if r.s.pending.length ≠ (← nat n) then throw s!"table size {r.s.pending.length} in the model, {n} observed"
    pure r
  | _ =>
    -- a point of a call: first with the receiver's debt still open, then with the debt paid before the call's steps
    let late : Except String R := do
      let (r1, n) ← callerSteps r ev pids
      if r1.sizes ∧ r1.s.pending.length ≠ n then throw s!"table size {r1.s.pending.length} in the model, {n} observed"
      pure r1
    match late with
    | .ok r1 => .ok r1
    | .error why =>
      if r.owed then do
        let r0 ← payDebt r
        let (r1, n) ← callerSteps r0 ev pids
        if r1.sizes ∧ r1.s.pending.length ≠ n then throw s!"table size {r1.s.pending.length} in the model, {n} observed"
        pure r1
      else .error why

def replay (r : R) (pids : List String) : List String → Nat → Except String R
  | [], _ => .ok r
  | e :: es, k =>
    match event r pids e with
    | .ok r' => replay r' pids es (k + 1)
    | .error why => .error s!"reject {k} {e} {why}"

def listOf (s : String) : List String := if s == "-" then [] else s.splitOn ","

/-- the harness's malformed replies carry tags that end in 7; every other reply is `{rex, tag}` -/
def unwrapTag (b : Nat) : Option Nat := if b % 10 = 7 then none else some b

def wrapText : Option Outcome → String
  | some o => match wrapOutcome unwrapTag o with
    | .value _ v => s!"reply:{v}"
    | .badShape _ => "badshape"
    | .err e => outText (some e)
  | none => "running"

def trace (sizes wrapped : Bool) (creation pids events : String) : String :=
  match nat creation with
  | .error e => "bad-op " ++ e
  | .ok c =>
    let pids := pids.splitOn ","
    match replay { s := St.init { nextId := 1, nextSerial := 0, creation := c, poisoned := false } 0, sizes := sizes } pids
        (events.splitOn ",") 0 with
    | .error why => why.replace "\n" " "
    | .ok r =>
      let outs := (List.range pids.length).map fun i => (if wrapped then wrapText else outText) (r.s.callers i).out
      let proc := r.s.procLog.map fun (_, m) => match r.s.inbox[m]? with
        | some msg => toString msg.body
        | none => "?"
      s!"ok out={";".intercalate outs} fin={r.s.pending.length} proc={if proc.isEmpty then "-" else ",".intercalate proc}"

def spec (wrapped : Bool) (kinds outs fin sent got : String) : String :=
  let ks := (listOf kinds).map Spec.Rpc.Kind.ofCode
  if ks.any Option.isNone then "bad-op kind" else
  let ks := ks.filterMap id
  let os := (outs.splitOn ";").map Spec.Rpc.Out.ofText
  let nats := fun (s : String) => (listOf s).map String.toNat!
  match Spec.Rpc.judge wrapped ks os fin.toNat! (nats sent) (nats got) with
  | none => "ok"
  | some why => why

end C17

def C17.runE (r : Except String String) : String :=
  match r with
  | .ok s => s
  | .error e => "bad-op " ++ e


/-- the independent reading of a request frame (after the length prefix): pass-through marker, control term, payload
term (`Spec.parseTop`), compared as values with what the `rex` protocol wants for this call -/
def C17.reqSpec (frame : Bytes) (pid : Term) (m f : Bytes) (args : List Term) : String :=
  let a := fun (s : String) => Term.atom (s.toList.map fun c => UInt8.ofNat c.toNat)
  match frame with
  | 112 :: rest =>
    match Spec.parseTop {} rest with
    | some (ctl, rest2) =>
      match Spec.parseTop {} rest2 with
      | some (pl, []) =>
        if ctl != (Term.tuple [.int 6, pid, .atom [], a "rex"]).den then "FAIL the control message is not {6, FromPid, '', rex}"
        else if pl != (Term.tuple [pid, .tuple [a "call", .atom m, .atom f, .list args, a "user"]]).den then
          "FAIL the payload is not {FromPid, {call, Module, Function, Args, user}} for this call"
        else "ok"
      | some (_, _) => "FAIL bytes after the payload"
      | none => "FAIL the payload is not a term"
    | none => "FAIL the control message is not a term"
  | _ => "FAIL not a pass-through frame"

def C17.textParam (t : Term) : Spec.Rpc.Param Term :=
  match t with
  | .bin b =>
    match String.fromUTF8? (ByteArray.mk b.toArray) with
    | some s => .text b (s.toList.map Char.toNat)
    | none => .other t
  | _ => .other t

/-- driver requests of property C17 -/
def handleC17 : List String → Option String
  | ["c17trace", creation, pids, events] => some (C17.trace true false creation pids events)
  | ["c17mt", creation, pids, events] => some (C17.trace false false creation pids events)
  | ["c17wtrace", creation, pids, events] => some (C17.trace true true creation pids events)
  | ["c17wmt", creation, pids, events] => some (C17.trace false true creation pids events)
  | ["c17spec", kinds, _order, _ending, outs, fin, sent, got] => some (C17.spec false kinds outs fin sent got)
  | ["c17wspec", kinds, _order, _ending, outs, fin, sent, got] => some (C17.spec true kinds outs fin sent got)
  | ["c17rex", t] => some <| C17.runE do
    let t ← getTerm t
    match Impl.RpcTerm.intoRexResponse t with
    | some v => pure ("ok " ++ v.text)
    | none => pure "err"
  | ["c17wrap", "ok", t] => some <| C17.runE do
    let t ← getTerm t
    match Impl.RpcTerm.wrapResult (.reply t) with
    | .reply v => pure ("ok " ++ v.text)
    | .err e => pure ("err:" ++ e)
  | ["c17rawbody", t] => some <| C17.runE do
    let t ← getTerm t
    pure ("ok " ++ t.text)
  | ["c17wrap", "err", e] => some <|
    match Impl.RpcTerm.wrapResult (.err e) with
    | .reply v => "ok " ++ v.text
    | .err e => "err:" ++ e
  | ["c17req", pid, m, f, args] => some <| C17.runE do
    let p ← getTerm pid
    let m ← getHex m
    let f ← getHex f
    let a ← getTerm args
    match p, a with
    | .pid p, .list a =>
      match Impl.RpcTerm.requestFrame p m f a with
      | .ok b => pure (hexOf (b.drop 4))
      | .error _ => pure "err"
    | _, _ => throw "c17req wants a pid and a list"
  | ["c17reqspec", frame, pid, m, f, args] => some <| C17.runE do
    let b ← getHex frame
    let p ← getTerm pid
    let m ← getHex m
    let f ← getHex f
    match ← getTerm args with
    | .list a => pure (C17.reqSpec b p m f a)
    | _ => throw "c17reqspec wants a list"
  | ["c17erlspec", frame, name, pid, params] => some <| C17.runE do
    let b ← getHex frame
    let p ← getTerm pid
    match ← getTerm params with
    | .list ps =>
      match Spec.Rpc.erlangCall Term.atom (fun cs => Term.list (cs.map fun c => Term.int (Int.ofNat c))) name (ps.map C17.textParam) with
      | some (f, args) =>
        pure (C17.reqSpec b p ("erlang".toList.map fun c => UInt8.ofNat c.toNat) (f.toList.map fun c => UInt8.ofNat c.toNat) args)
      | none => pure "FAIL no such BIF"
    | _ => throw "c17erlspec wants a list"
  | ["c17erl", name, pid, params] => some <| C17.runE do
    let p ← getTerm pid
    let a ← getTerm params
    match p, a with
    | .pid p, .list a =>
      match Impl.RpcTerm.erlangTarget name, Impl.RpcTerm.erlangArgs name a with
      | some (m, f), some args =>
        match Impl.RpcTerm.requestFrame p m f args with
        | .ok b => pure (hexOf (b.drop 4))
        | .error _ => pure "err"
      | _, _ => pure "no-such-call"
    | _, _ => throw "c17erl wants a pid and a list"
  | _ => none

end Edp.Drv
