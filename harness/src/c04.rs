//! C04: handshake state machine and message codecs (in-process part).
//!
//! Drives the REAL `HandshakeStateMachine` with op sequences (pinned corpus, exhaustive small enumeration, seeded
//! random walks) and the real message structs with valid and damaged bytes.
//!   T c04run / c04x : model-vs-code, one observation per call (`<out>@<state>#<negotiated>`)
//!   P c04chk        : the Spec oracle over the observed trace (connected only after the cookie proof, reply digest,
//!                     flag intersection, layouts, bad input never connects, no panic)
//! The clock-derived challenge (`digest::generate_challenge`) is never predicted: it is read back from the bytes
//! `prepare_challenge_reply` returns and given to the model as the input of that `handle_challenge` op. Since the
//! state machine judges an ack only after the reply was emitted, a challenge that was never read back is one nothing
//! observable depended on (the model gets 0 for it); an ack letter played before the reply carries a placeholder.
use crate::canon::{hex, hexarg};
use crate::Ctx;
use edp_client::digest;
use edp_client::errors::Error;
use edp_client::flags::DistributionFlags;
use edp_client::handshake::{Challenge, ChallengeAck, ChallengeReply, SendName, Status, StatusMessage};
use edp_client::state_machine::HandshakeStateMachine;
use std::panic::{catch_unwind, AssertUnwindSafe};

#[derive(Clone, Debug)]
pub struct Cfg {
    name: String,
    cookie: String,
    flags: u64,
    creation: u32,
}

impl Cfg {
    fn text(&self) -> String {
        format!("{} {} {} {}", hexarg(self.name.as_bytes()), hexarg(self.cookie.as_bytes()), self.flags, self.creation)
    }
}

/// one real API call
#[derive(Clone, Debug)]
enum Op {
    B,
    N,
    S(Vec<u8>),
    C,
    H(Vec<u8>),
    R,
    A(Vec<u8>),
    D,
}

fn eclass(e: &Error) -> &'static str {
    match e {
        Error::InvalidStateTransition { .. } | Error::InvalidStateMessage(_) | Error::InvalidState { .. } => "e-state",
        Error::NodeNameTooLong { .. } => "e-name",
        Error::InvalidHandshakeMessage(_) => "e-malformed",
        Error::ConnectionRefused { .. } => "e-refused",
        Error::AuthenticationFailed => "e-auth",
        _ => "e-other",
    }
}

const STATE_NAMES: [&str; 9] = [
    "disconnected", "connecting", "sending_name", "awaiting_status", "awaiting_challenge",
    "sending_challenge_reply", "awaiting_challenge_ack", "connected", "failed",
];

fn fnv32(b: &[u8]) -> u32 {
    let mut h: u32 = 2166136261;
    for x in b {
        h ^= *x as u32;
        h = h.wrapping_mul(16777619);
    }
    h
}

/// the real machine plus the record of what was called and observed
struct Run {
    cfg: Cfg,
    m: HandshakeStateMachine,
    toks: Vec<String>,
    /// the same calls in the compact notation of the exhaustive stream (symbolic where the letter was symbolic)
    ctoks: Vec<String>,
    outs: Vec<(String, Option<Vec<u8>>)>,
    states: Vec<String>,
    negs: Vec<String>,
    /// index of the token of the last successful handle_challenge whose challenge has not been read yet
    pending: Option<usize>,
    /// what the harness knows (only to build interesting arguments)
    our: Option<u32>,
    their: Option<u32>,
    prev_our: Option<u32>,
    panics: u64,
}

impl Run {
    fn new(cfg: &Cfg) -> Run {
        let m = HandshakeStateMachine::new(
            cfg.name.clone(),
            "peer@localhost".to_string(),
            cfg.cookie.clone(),
            DistributionFlags::new(cfg.flags),
            cfg.creation,
        );
        Run {
            cfg: cfg.clone(),
            m,
            toks: vec![],
            ctoks: vec![],
            outs: vec![],
            states: vec![],
            negs: vec![],
            pending: None,
            our: None,
            their: None,
            prev_our: None,
            panics: 0,
        }
    }

    fn record(&mut self, tok: String, out: (String, Option<Vec<u8>>), sym: Option<String>) {
        let c = match sym {
            // a symbolic H token carries the same challenge placeholder as the explicit one
            Some(c) if tok.starts_with("H:") => format!("{}:{}", c, tok.rsplit(':').next().unwrap_or("0")),
            Some(c) => c,
            None => tok.clone(),
        };
        self.ctoks.push(c);
        self.toks.push(tok);
        self.outs.push(out);
        self.states.push(self.m.state().as_str().to_string());
        self.negs.push(match self.m.negotiated_flags() {
            None => "-".to_string(),
            Some(f) => f.as_u64().to_string(),
        });
    }

    fn unit(&mut self, r: std::thread::Result<Result<(), Error>>) -> (String, Option<Vec<u8>>) {
        match r {
            Ok(Ok(())) => ("ok".to_string(), None),
            Ok(Err(e)) => (eclass(&e).to_string(), None),
            Err(_) => {
                self.panics += 1;
                ("panic".to_string(), None)
            }
        }
    }

    fn bytes(&mut self, r: std::thread::Result<Result<Vec<u8>, Error>>) -> (String, Option<Vec<u8>>) {
        match r {
            Ok(Ok(b)) => ("ok".to_string(), Some(b)),
            Ok(Err(e)) => (eclass(&e).to_string(), None),
            Err(_) => {
                self.panics += 1;
                ("panic".to_string(), None)
            }
        }
    }

    fn fill(&mut self, i: usize, v: &str) {
        self.toks[i] = self.toks[i].replace("?", v);
        self.ctoks[i] = self.ctoks[i].replace("?", v);
    }

    /// a challenge that was never read back: nothing observable depended on it (an ack is only judged after the reply
    /// was emitted, and the reply shows the challenge), so any value will do for the model
    fn settle(&mut self) {
        if let Some(i) = self.pending {
            self.fill(i, "0");
            self.pending = None;
        }
    }

    /// the current challenge of ours, if the reply has shown it
    fn learn_our(&mut self) -> Option<u32> {
        self.our
    }

    fn exec(&mut self, op: &Op) {
        self.exec_as(op, None)
    }

    /// perform one call; `sym` is its notation in the compact stream when the arguments are one of the fixed letters
    fn exec_as(&mut self, op: &Op, sym: Option<String>) {
        match op {
            Op::B => {
                let r = catch_unwind(AssertUnwindSafe(|| self.m.begin_connect()));
                let o = self.unit(r);
                self.record("B".into(), o, sym);
            }
            Op::N => {
                let r = catch_unwind(AssertUnwindSafe(|| self.m.prepare_send_name()));
                let o = self.bytes(r);
                self.record("N".into(), o, sym);
            }
            Op::S(b) => {
                let r = catch_unwind(AssertUnwindSafe(|| self.m.handle_status(b)));
                let o = self.unit(r);
                self.record(format!("S:{}", hexarg(b)), o, sym);
            }
            Op::C => {
                let r = catch_unwind(AssertUnwindSafe(|| self.m.prepare_complement()));
                let o = self.bytes(r);
                self.record("C".into(), o, sym);
            }
            Op::H(b) => {
                let r = catch_unwind(AssertUnwindSafe(|| self.m.handle_challenge(b)));
                let o = self.unit(r);
                let ok = o.0 == "ok";
                self.record(format!("H:{}:{}", hexarg(b), if ok { "?" } else { "0" }), o, sym);
                if ok {
                    if let Some(i) = self.pending {
                        // overwritten unread, and nothing observable depended on it: any value will do
                        self.fill(i, "0");
                    }
                    self.pending = Some(self.toks.len() - 1);
                    if self.our.is_some() {
                        self.prev_our = self.our;
                    }
                    self.our = None;
                    // the peer challenge as the harness put it into the message (only used to build arguments)
                    self.their = if b.len() >= 13 { Some(u32::from_be_bytes([b[9], b[10], b[11], b[12]])) } else { None };
                }
            }
            Op::R => {
                let r = catch_unwind(AssertUnwindSafe(|| self.m.prepare_challenge_reply()));
                let o = self.bytes(r);
                if let Some(bs) = &o.1 {
                    if bs.len() >= 7 {
                        let c = u32::from_be_bytes([bs[3], bs[4], bs[5], bs[6]]);
                        self.our = Some(c);
                        if let Some(i) = self.pending {
                            self.fill(i, &c.to_string());
                            self.pending = None;
                        }
                    }
                }
                self.record("R".into(), o, sym);
            }
            Op::A(b) => {
                let r = catch_unwind(AssertUnwindSafe(|| self.m.handle_challenge_ack(b)));
                let o = self.unit(r);
                self.record(format!("A:{}", hexarg(b)), o, sym);
            }
            Op::D => {
                self.settle();
                let r = catch_unwind(AssertUnwindSafe(|| self.m.disconnect()));
                let o = match r {
                    Ok(()) => ("ok".to_string(), None),
                    Err(_) => {
                        self.panics += 1;
                        ("panic".to_string(), None)
                    }
                };
                self.record("D".into(), o, sym);
                if self.our.is_some() {
                    self.prev_our = self.our;
                }
                self.our = None;
                self.their = None;
            }
        }
    }

    fn finish(&mut self) {
        self.settle();
    }

    fn obs(&self, i: usize, compact: bool) -> String {
        let (cls, b) = &self.outs[i];
        if !compact {
            let out = match b {
                None => cls.clone(),
                Some(b) => format!("ok:{}", hex(b)),
            };
            return format!("{}@{}#{}", out, self.states[i], self.negs[i]);
        }
        // compact: k | k:<fnv32 of the bytes> | e-class, state index, negotiated flags in hex
        let out = match b {
            None => if cls == "ok" { "k".to_string() } else { cls.clone() },
            Some(b) => format!("k:{:08x}", fnv32(b)),
        };
        let st = STATE_NAMES.iter().position(|n| *n == self.states[i]).map(|p| p.to_string()).unwrap_or_else(|| "?".to_string());
        let neg = match self.negs[i].parse::<u64>() {
            Ok(v) => format!("{:x}", v),
            Err(_) => "-".to_string(),
        };
        format!("{}@{}#{}", out, st, neg)
    }

    fn emit(&mut self, ctx: &mut Ctx, tag: &str, compact: bool, with_spec: bool) {
        self.finish();
        let n = self.toks.len();
        let req = if compact {
            format!("c04x {} {}", self.cfg.text(), self.ctoks.join(" "))
        } else {
            format!("c04run {} {}", self.cfg.text(), self.toks.join(" "))
        };
        let res: Vec<String> = (0..n).map(|i| self.obs(i, compact)).collect();
        ctx.tie(tag, req.trim_end(), &res.join(" "));
        if with_spec {
            let chk: Vec<String> = (0..n).map(|i| format!("{}>{}", self.toks[i], self.obs(i, false))).collect();
            ctx.prop(tag, format!("c04chk {} {}", self.cfg.text(), chk.join(" ")).trim_end(), "ok");
        }
        ctx.add("ops_run", n as u64);
        if self.panics > 0 {
            ctx.fail(tag, &format!("panic in {} call(s): {} {}", self.panics, self.cfg.text(), self.toks.join(" ")));
        }
        for s in &self.states {
            ctx.count(&format!("state_{}", s));
        }
        for (c, _) in &self.outs {
            ctx.count(&format!("result_{}", c));
        }
        if self.states.iter().any(|s| s == "connected") {
            ctx.count("sequences_reaching_connected");
        }
    }
}

/* ---------- argument builders (the peer's messages, built by hand, not by the codec under test) ---------- */

fn challenge_msg(flags: u64, chal: u32, creation: u32, name: &[u8]) -> Vec<u8> {
    let mut v = vec![b'N'];
    v.extend_from_slice(&flags.to_be_bytes());
    v.extend_from_slice(&chal.to_be_bytes());
    v.extend_from_slice(&creation.to_be_bytes());
    v.extend_from_slice(&(name.len() as u16).to_be_bytes());
    v.extend_from_slice(name);
    v
}

fn status_msg(text: &[u8]) -> Vec<u8> {
    let mut v = vec![b's'];
    v.extend_from_slice(text);
    v
}

/// a peer that knows `cookie` answering challenge `c` (the digest comes from the code under test; the model
/// recomputes it with its own MD5, so a wrong digest function shows as a disagreement)
fn ack_msg(c: u32, cookie: &str) -> Vec<u8> {
    let mut v = vec![b'a'];
    v.extend_from_slice(&digest::compute_digest(c, cookie));
    v
}

/// symbolic letters: arguments are chosen when the letter is executed (they may depend on what was observed)
#[derive(Clone, Copy, Debug, PartialEq)]
enum Sym {
    B,
    N,
    SOk,
    SNok,
    C,
    HValid,
    HTrunc,
    R,
    AValid,
    AWrong,
    ATheir,
    APrev,
    ATrunc,
    D,
}

const ALPHABET: [Sym; 14] = [
    Sym::B, Sym::N, Sym::SOk, Sym::SNok, Sym::C, Sym::HValid, Sym::HTrunc, Sym::R,
    Sym::AValid, Sym::AWrong, Sym::ATheir, Sym::APrev, Sym::ATrunc, Sym::D,
];

const PEER_FLAGS: u64 = 0x0000_000d_07df_7fbd;
const PEER_CHAL: u32 = 0x0102_0304;

fn exec_sym(run: &mut Run, s: Sym) {
    let cookie = run.cfg.cookie.clone();
    match s {
        Sym::B => run.exec(&Op::B),
        Sym::N => run.exec(&Op::N),
        Sym::SOk => run.exec_as(&Op::S(status_msg(b"ok")), Some("So".into())),
        Sym::SNok => run.exec_as(&Op::S(status_msg(b"nok")), Some("Sn".into())),
        Sym::C => run.exec(&Op::C),
        Sym::HValid => run.exec_as(&Op::H(challenge_msg(PEER_FLAGS, PEER_CHAL, 3, b"p@h")), Some("Hv".into())),
        Sym::HTrunc => {
            let mut m = challenge_msg(PEER_FLAGS, PEER_CHAL, 3, b"p@h");
            m.truncate(18);
            run.exec_as(&Op::H(m), Some("Ht".into()))
        }
        Sym::R => run.exec(&Op::R),
        Sym::AValid => {
            let c = run.learn_our().unwrap_or(12345);
            run.exec_as(&Op::A(ack_msg(c, &cookie)), Some(format!("Av:{}", c)))
        }
        Sym::AWrong => {
            let c = run.learn_our().unwrap_or(12345);
            let mut m = ack_msg(c, &cookie);
            m[16] ^= 0x01;
            run.exec_as(&Op::A(m), Some(format!("Aw:{}", c)))
        }
        Sym::ATheir => {
            let c = run.their.unwrap_or(PEER_CHAL);
            run.exec_as(&Op::A(ack_msg(c, &cookie)), Some(format!("Av:{}", c)))
        }
        Sym::APrev => {
            let c = run.prev_our.unwrap_or(777);
            run.exec_as(&Op::A(ack_msg(c, &cookie)), Some(format!("Av:{}", c)))
        }
        Sym::ATrunc => {
            let c = run.learn_our().unwrap_or(12345);
            let mut m = ack_msg(c, &cookie);
            m.truncate(16);
            run.exec_as(&Op::A(m), Some(format!("At:{}", c)))
        }
        Sym::D => run.exec(&Op::D),
    }
}

fn small_cfg() -> Cfg {
    Cfg { name: "n@h".into(), cookie: "ck".into(), flags: DistributionFlags::DEFAULT.as_u64(), creation: 7 }
}

/* ---------- pinned corpus ---------- */

fn corpus(ctx: &mut Ctx) {
    let cfg = Cfg { name: "rust@localhost".into(), cookie: "secret".into(), flags: DistributionFlags::DEFAULT.as_u64(), creation: 1 };
    use Sym::*;
    let seqs: Vec<(&str, Vec<Sym>)> = vec![
        // the handshake as connection.rs performs it
        ("complete", vec![B, N, SOk, C, HValid, R, AValid]),
        // complete handshake, disconnect, then the ack of the previous challenge
        ("stale-ack-after-disconnect", vec![B, N, SOk, C, HValid, R, AValid, D, APrev, B, N, SOk, C, APrev]),
        // ack before any challenge
        ("ack-before-challenge", vec![B, N, SOk, C, AValid, APrev, ATheir]),
        // two challenges, then an ack for the first
        ("ack-for-first-of-two", vec![B, N, SOk, C, HValid, R, HValid, R, APrev, AValid]),
        // an ack that is right for the peer's challenge instead of ours
        ("ack-for-their-challenge", vec![B, N, SOk, C, HValid, R, ATheir, AWrong, ATrunc]),
        // reuse after disconnect, second handshake succeeds
        ("reuse", vec![B, N, SOk, C, HValid, R, AValid, D, B, N, SOk, C, HValid, R, AValid, B]),
        // refusal
        ("refused", vec![B, N, SNok, C, HTrunc, R, AValid]),
        // calls on a connected machine: all refused, the connection stays
        ("calls-while-connected", vec![B, N, SOk, C, HValid, R, AValid, N, AValid, HValid, AValid, R, AValid, HTrunc, AValid, B, SNok, C]),
        // former finding kf-c04-connected-out-of-order: the cookie proof without begin_connect / name / status
        ("former-kf-out-of-order", vec![HValid, R, HTrunc, AValid]),
        ("former-kf-out-of-order-minimal", vec![HValid, AValid]),
        // former finding kf-c04-connected-after-refusal: the rest of a correct handshake after a refusal status
        ("former-kf-after-refusal", vec![B, N, SNok, C, HValid, R, AValid]),
        ("after-refusal-retry-status", vec![B, N, SNok, SOk, C, HValid, R, AValid]),
        // failure is final for every kind of bad peer input, and disconnect leads on
        ("after-bad-challenge", vec![B, N, SOk, C, HTrunc, HValid, R, AValid, D, B, N, SOk, C, HValid, R, AValid]),
        ("after-bad-digest", vec![B, N, SOk, C, HValid, R, AWrong, AValid, R, AValid]),
        ("after-truncated-ack", vec![B, N, SOk, C, HValid, R, ATrunc, AValid]),
        // every step made twice: the repeat is refused and harmless
        ("every-step-twice", vec![B, B, N, N, SOk, SOk, C, C, HValid, HValid, R, R, AValid, AValid]),
        // one step skipped each
        ("skip-begin", vec![N, SOk, C, HValid, R, AValid]),
        ("skip-name", vec![B, SOk, C, HValid, R, AValid]),
        ("skip-status", vec![B, N, C, HValid, R, AValid]),
        ("skip-challenge", vec![B, N, SOk, C, R, AValid]),
        ("skip-reply", vec![B, N, SOk, C, HValid, AValid]),
    ];
    for (tag, seq) in seqs {
        let mut run = Run::new(&cfg);
        for s in &seq {
            exec_sym(&mut run, *s);
        }
        run.finish();
        // the former witnesses and the skipped-step sequences must not end Connected
        let must_not_connect = tag.starts_with("former-kf") || tag.starts_with("skip-") || tag.starts_with("after-refusal")
            || tag == "after-bad-digest" || tag == "after-truncated-ack";
        if must_not_connect && run.states.iter().any(|s| s == "connected") {
            ctx.fail(&format!("corpus-{}", tag), &format!("Connected outside the protocol order or after a failure: {} {} => {}", cfg.text(), run.toks.join(" "), run.states.join(",")));
        }
        if (tag == "complete" || tag == "every-step-twice") && run.states.last().map(|s| s.as_str()) != Some("connected") {
            ctx.fail(&format!("corpus-{}", tag), &format!("a correct handshake did not end Connected: {} {} => {}", cfg.text(), run.toks.join(" "), run.states.join(",")));
        }
        run.emit(ctx, &format!("corpus-{}", tag), false, true);
        ctx.count("corpus_sequences");
    }
    // a peer challenge equal to the challenge this side generated (reflection): read ours, disconnect, and send it back
    // as the peer's challenge is not possible (ours is fresh per call), so the nearest pinned case is their == previous ours
    let mut run = Run::new(&cfg);
    for s in [B, N, SOk, C, HValid, R] {
        exec_sym(&mut run, s);
    }
    if let Some(c) = run.our {
        run.exec(&Op::H(challenge_msg(PEER_FLAGS, c, 3, b"p@h")));
        exec_sym(&mut run, R);
        exec_sym(&mut run, ATheir);
        exec_sym(&mut run, AValid);
    }
    run.emit(ctx, "corpus-their-equals-previous-ours", false, true);
    ctx.count("corpus_sequences");
}

/* ---------- exhaustive: every sequence over the 14-letter alphabet up to a length ---------- */

fn exhaustive(ctx: &mut Ctx) {
    let cfg = small_cfg();
    let k = ALPHABET.len();
    use Sym::*;
    // from a fresh machine, and from every state of the protocol order (reached by the calls that lead there), plus the
    // two dead ends: every continuation over the 14 letters up to a length
    let prefixes: Vec<(&str, Vec<Sym>, usize, usize, usize, usize)> = vec![
        // (name, prefix, max_len quick, max_len thorough, oracle up to quick, oracle up to thorough)
        ("fresh", vec![], 4, 5, 3, 4),
        ("connecting", vec![B], 3, 4, 2, 3),
        ("awaiting_status", vec![B, N], 3, 4, 2, 3),
        ("awaiting_challenge", vec![B, N, SOk], 3, 4, 2, 3),
        ("sending_reply", vec![B, N, SOk, HValid], 3, 4, 2, 3),
        ("awaiting_ack", vec![B, N, SOk, HValid, R], 3, 4, 2, 3),
        ("connected", vec![B, N, SOk, HValid, R, AValid], 3, 4, 2, 3),
        ("failed-refused", vec![B, N, SNok], 3, 4, 2, 3),
        ("failed-bad-digest", vec![B, N, SOk, HValid, R, AWrong], 3, 4, 2, 3),
    ];
    for (name, prefix, lq, lt, sq, st) in prefixes {
        let max_len = ctx.n(lq, lt);
        let spec_len = ctx.n(sq, st);
        for len in 1..=max_len {
            let total = k.pow(len as u32);
            for idx in 0..total {
                let mut run = Run::new(&cfg);
                for s in &prefix {
                    exec_sym(&mut run, *s);
                }
                let mut x = idx;
                for _ in 0..len {
                    exec_sym(&mut run, ALPHABET[x % k]);
                    x /= k;
                }
                run.emit(ctx, "exh", true, len <= spec_len);
                ctx.count("exhaustive_sequences");
                ctx.count(&format!("exhaustive_from_{}", name));
            }
            ctx.add("exhaustive", 1);
        }
    }
}

/* ---------- seeded random walks ---------- */

fn gen_name(ctx: &mut Ctx) -> String {
    let len_class = ctx.rng.below(40);
    let target = match len_class {
        0 => 1,
        1 => 254,
        2 => 255,
        3 => 256,
        4 => 300 + ctx.rng.below(400) as usize,
        _ => 3 + ctx.rng.below(30) as usize,
    };
    let multi = ctx.rng.chance(1, 4);
    let mut s = String::new();
    let alphabet: [&str; 6] = ["a", "Z", "@", "é", "中", "😀"];
    while s.len() < target {
        let c = if multi { *ctx.rng.pick(&alphabet) } else { *ctx.rng.pick(&alphabet[..3]) };
        if s.len() + c.len() > target {
            s.push('x');
        } else {
            s.push_str(c);
        }
    }
    s
}

fn gen_cookie(ctx: &mut Ctx) -> String {
    match ctx.rng.below(8) {
        0 => String::new(),
        1 if ctx.rng.chance(1, 4) => "x".repeat(300),
        2 => "пароль-é中😀".to_string(),
        3 => "0".to_string(),
        4 => "12345".to_string(),
        _ => {
            let n = 1 + ctx.rng.below(24) as usize;
            (0..n).map(|_| (b'A' + ctx.rng.below(26) as u8) as char).collect()
        }
    }
}

fn gen_flags(ctx: &mut Ctx) -> u64 {
    match ctx.rng.below(9) {
        0 => 0,
        1 => u64::MAX,
        2 => DistributionFlags::DEFAULT.as_u64(),
        3 => DistributionFlags::DEFAULT_HIDDEN.as_u64(),
        4 => DistributionFlags::MANDATORY_OTP26.as_u64(),
        5 => ctx.rng.next() & 0xffff_ffff,
        6 => ctx.rng.next() & 0xffff_ffff_0000_0000,
        7 => 1u64 << ctx.rng.below(64),
        _ => ctx.rng.next(),
    }
}

fn gen_u32(ctx: &mut Ctx) -> u32 {
    match ctx.rng.below(8) {
        0 => 0,
        1 => 1,
        2 => u32::MAX,
        3 => 0x8000_0000,
        4 => 9,
        5 => 10,
        6 => 999_999_999,
        _ => ctx.rng.next() as u32,
    }
}

fn gen_status(ctx: &mut Ctx) -> Vec<u8> {
    let texts: [&[u8]; 12] = [
        b"ok", b"ok_simultaneous", b"nok", b"not_allowed", b"alive", b"named:abc", b"", b"OK", b"ok ", b"okk", b"\xff\xfe", b"o",
    ];
    let t = *ctx.rng.pick(&texts);
    match ctx.rng.below(12) {
        0 => vec![],
        1 => {
            let mut v = status_msg(t);
            v[0] = b'S';
            v
        }
        2 => {
            // the (wrong) form StatusMessage::encode produces, without the length
            vec![b's', 0, ctx.rng.below(5) as u8]
        }
        _ => status_msg(t),
    }
}

/// A digest that is wrong in a structured way: the right one XORed with a mask that repeats with period 1, 2, 4 or 8 bytes
/// (the differences cancel in any comparison that folds halves, words or bytes together), with the halves swapped,
/// reversed, rotated, or with one byte / one bit changed. Never equal to `d`.
fn near_miss_digest(ctx: &mut Ctx, d: &[u8]) -> Vec<u8> {
    let mut out = d.to_vec();
    match ctx.rng.below(8) {
        k @ 0..=3 => {
            let p = 1usize << k;
            let mut mask = ctx.rng.bytes(p);
            if mask.iter().all(|b| *b == 0) {
                mask[0] = 0x5a;
            }
            ctx.count(&format!("near_miss_digest_period_{}", p));
            for (i, b) in out.iter_mut().enumerate() {
                *b ^= mask[i % p];
            }
        }
        4 => {
            // the same change in exactly two bytes, eight apart
            let i = ctx.rng.below(8) as usize;
            let m = 1 + ctx.rng.below(255) as u8;
            out[i] ^= m;
            out[i + 8] ^= m;
            ctx.count("near_miss_digest_two_bytes_8_apart");
        }
        5 => {
            out.rotate_left(8);
            ctx.count("near_miss_digest_halves_swapped");
        }
        6 => {
            out.reverse();
            ctx.count("near_miss_digest_reversed");
        }
        _ => {
            let i = ctx.rng.below(16) as usize;
            out[i] ^= 1 << ctx.rng.below(8);
            ctx.count("near_miss_digest_one_bit");
        }
    }
    if out == d {
        out[15] ^= 1;
    }
    out
}

fn damage(ctx: &mut Ctx, mut m: Vec<u8>) -> Vec<u8> {
    match ctx.rng.below(7) {
        0 => {
            let n = ctx.rng.below(m.len() as u64 + 1) as usize;
            m.truncate(n);
        }
        1 => {
            if !m.is_empty() {
                m[0] = *ctx.rng.pick(&[b'n', b'N', b'a', b'r', b's', b'c', 0u8, 255u8]);
            }
        }
        2 => {
            if !m.is_empty() {
                let i = ctx.rng.below(m.len() as u64) as usize;
                m[i] ^= 1 << ctx.rng.below(8);
            }
        }
        3 => {
            let n = 1 + ctx.rng.below(5) as usize;
            m.extend(ctx.rng.bytes(n));
        }
        4 => {
            let n = ctx.rng.below(40) as usize;
            m = ctx.rng.bytes(n);
        }
        5 => {
            m.clear();
        }
        _ => {
            if m.len() > 1 {
                m.truncate(m.len() - 1);
            }
        }
    }
    m
}

fn gen_challenge_bytes(ctx: &mut Ctx) -> Vec<u8> {
    let flags = gen_flags(ctx);
    let chal = gen_u32(ctx);
    let creation = gen_u32(ctx);
    let name: Vec<u8> = match ctx.rng.below(24) {
        0 | 1 => vec![],
        2 | 3 | 4 => "é中@😀".as_bytes().to_vec(),
        5 | 6 => vec![b'a', 0xff, b'b'], // not UTF-8
        7 | 8 => vec![0xe4, 0xb8],       // truncated UTF-8 sequence
        9 => vec![b'q'; 255 + ctx.rng.below(3) as usize],
        _ => b"peer@host".to_vec(),
    };
    let mut m = challenge_msg(flags, chal, creation, &name);
    match ctx.rng.below(10) {
        0 => {
            // declared name length larger than what follows
            let l = m.len();
            let declared = (name.len() as u16).wrapping_add(1 + ctx.rng.below(3) as u16);
            let at = 17;
            if l >= 19 {
                m[at] = (declared >> 8) as u8;
                m[at + 1] = declared as u8;
            }
            m
        }
        1 => {
            // declared name length smaller: the rest is ignored
            if !name.is_empty() {
                let declared = (name.len() - 1) as u16;
                m[17] = (declared >> 8) as u8;
                m[18] = declared as u8;
            }
            m
        }
        2 | 3 => damage(ctx, m),
        4 => {
            // old-style 'n' challenge: version flags:u32 challenge name
            let mut v = vec![b'n', 0, 5];
            v.extend_from_slice(&(flags as u32).to_be_bytes());
            v.extend_from_slice(&chal.to_be_bytes());
            v.extend_from_slice(&name);
            v
        }
        _ => m,
    }
}

fn random_walk(ctx: &mut Ctx) {
    let cfg = Cfg { name: gen_name(ctx), cookie: gen_cookie(ctx), flags: gen_flags(ctx), creation: gen_u32(ctx) };
    ctx.count(if cfg.name.len() > 255 { "cfg_name_over_255" } else { "cfg_name_le_255" });
    ctx.count(if cfg.cookie.is_empty() { "cfg_cookie_empty" } else if cfg.cookie.is_ascii() { "cfg_cookie_ascii" } else { "cfg_cookie_non_ascii" });
    let mut run = Run::new(&cfg);
    let len = 1 + ctx.rng.below(16) as usize;
    // state-aware: mostly the call the protocol expects in the state the REAL machine shows, so that walks get deep
    // (connected, failure after the reply, reuse after disconnect); deviations at every depth
    let disciplined = ctx.rng.below(3);
    while run.toks.len() < len {
        let follow = match disciplined {
            0 => ctx.rng.chance(9, 10),
            1 => ctx.rng.chance(3, 4),
            _ => ctx.rng.chance(1, 3),
        };
        let sym = if follow {
            match run.m.state().as_str() {
                "disconnected" => Sym::B,
                "connecting" => Sym::N,
                "awaiting_status" => Sym::SOk,
                "awaiting_challenge" => if ctx.rng.chance(1, 3) { Sym::C } else { Sym::HValid },
                "sending_challenge_reply" => Sym::R,
                "awaiting_challenge_ack" => Sym::AValid,
                "connected" => if ctx.rng.chance(1, 2) { Sym::D } else { *ctx.rng.pick(&ALPHABET) },
                _ => if ctx.rng.chance(1, 2) { Sym::D } else { *ctx.rng.pick(&ALPHABET) },
            }
        } else {
            *ctx.rng.pick(&ALPHABET)
        };
        match sym {
            Sym::SOk if follow => {
                let b = status_msg(if ctx.rng.chance(1, 6) { b"ok_simultaneous" } else { b"ok" });
                run.exec(&Op::S(b));
            }
            Sym::HValid if follow => {
                // well-formed with varied fields (or, rarely, whatever the generator gives)
                let b = if ctx.rng.chance(1, 8) { gen_challenge_bytes(ctx) } else {
                    let name: &[u8] = *ctx.rng.pick(&[b"peer@host" as &[u8], b"", "é中@😀".as_bytes()]);
                    challenge_msg(gen_flags(ctx), gen_u32(ctx), gen_u32(ctx), name)
                };
                run.exec(&Op::H(b));
            }
            Sym::AValid if follow => {
                let c = run.learn_our().unwrap_or(gen_u32(ctx));
                let m = if ctx.rng.chance(1, 8) { damage(ctx, ack_msg(c, &cfg.cookie)) } else if ctx.rng.chance(1, 8) {
                    // trailing bytes after the digest are ignored
                    let mut m = ack_msg(c, &cfg.cookie);
                    m.extend(ctx.rng.bytes(3));
                    m
                } else { ack_msg(c, &cfg.cookie) };
                run.exec(&Op::A(m));
            }
            Sym::SOk | Sym::SNok => {
                let b = if ctx.rng.chance(1, 2) { status_msg(if sym == Sym::SOk { b"ok" } else { b"not_allowed" }) } else { gen_status(ctx) };
                run.exec(&Op::S(b));
            }
            Sym::HValid | Sym::HTrunc => {
                let b = gen_challenge_bytes(ctx);
                run.exec(&Op::H(b));
            }
            Sym::AValid if ctx.rng.chance(1, 4) => {
                // a damaged form of the right ack
                let c = run.learn_our().unwrap_or(gen_u32(ctx));
                let m = damage(ctx, ack_msg(c, &cfg.cookie));
                run.exec(&Op::A(m));
            }
            Sym::AWrong | Sym::AValid if ctx.rng.chance(1, 3) => {
                // the right ack with its digest wrong in a structured way
                let c = run.learn_our().unwrap_or(1);
                let m = ack_msg(c, &cfg.cookie);
                let k = m.len() - 16;
                let forged = near_miss_digest(ctx, &m[k..]);
                let mut m2 = m[..k].to_vec();
                m2.extend_from_slice(&forged);
                run.exec(&Op::A(m2));
            }
            Sym::AWrong if ctx.rng.chance(1, 2) => {
                // the right challenge with another cookie
                let c = run.learn_our().unwrap_or(1);
                run.exec(&Op::A(ack_msg(c, &format!("{}x", cfg.cookie))));
            }
            s => exec_sym(&mut run, s),
        }
    }
    run.emit(ctx, "gen", false, true);
    ctx.count(&format!("walk_len_{}", run.toks.len().min(16)));
    ctx.count(&format!("walk_end_{}", run.m.state().as_str()));
}

/* ---------- message codecs ---------- */

fn res_bytes(r: std::thread::Result<Result<Vec<u8>, Error>>) -> (String, Option<Vec<u8>>) {
    match r {
        Ok(Ok(b)) => (format!("ok {}", hex(&b)), Some(b)),
        Ok(Err(e)) => (eclass(&e).to_string(), None),
        Err(_) => ("panic".to_string(), None),
    }
}

fn status_text(s: Status) -> &'static str {
    match s {
        Status::Ok => "ok",
        Status::OkSimultaneous => "ok_simultaneous",
        Status::Nok => "nok",
        Status::NotAllowed => "not_allowed",
        Status::Alive => "alive",
    }
}

fn decode_all(ctx: &mut Ctx, tag: &str, b: &[u8]) {
    let h = hexarg(b);
    let r = match catch_unwind(|| SendName::decode(b)) {
        Ok(Ok(m)) => format!("ok {} {} {}", m.flags.as_u64(), m.creation, hex(m.name.as_bytes())),
        Ok(Err(e)) => eclass(&e).to_string(),
        Err(_) => "panic".to_string(),
    };
    ctx.tie(tag, &format!("c04dec_name {}", h), &r);
    let r = match catch_unwind(|| StatusMessage::decode(b)) {
        Ok(Ok(m)) => format!("ok {}", status_text(m.status)),
        Ok(Err(e)) => eclass(&e).to_string(),
        Err(_) => "panic".to_string(),
    };
    ctx.tie(tag, &format!("c04dec_status {}", h), &r);
    let r = match catch_unwind(|| Challenge::decode(b)) {
        Ok(Ok(m)) => format!("ok {} {} {} {}", m.flags.as_u64(), m.challenge, m.creation, hex(m.name.as_bytes())),
        Ok(Err(e)) => eclass(&e).to_string(),
        Err(_) => "panic".to_string(),
    };
    ctx.tie(tag, &format!("c04dec_chal {}", h), &r);
    let r = match catch_unwind(|| ChallengeReply::decode(b)) {
        Ok(Ok(m)) => format!("ok {} {}", m.challenge, hex(&m.digest)),
        Ok(Err(e)) => eclass(&e).to_string(),
        Err(_) => "panic".to_string(),
    };
    ctx.tie(tag, &format!("c04dec_reply {}", h), &r);
    let r = match catch_unwind(|| ChallengeAck::decode(b)) {
        Ok(Ok(m)) => format!("ok {}", hex(&m.digest)),
        Ok(Err(e)) => eclass(&e).to_string(),
        Err(_) => "panic".to_string(),
    };
    ctx.tie(tag, &format!("c04dec_ack {}", h), &r);
    ctx.count("codec_decode_inputs");
}

fn codecs(ctx: &mut Ctx) {
    let n = ctx.n(150, 1000);
    for _ in 0..n {
        let flags = gen_flags(ctx);
        let creation = gen_u32(ctx);
        let chal = gen_u32(ctx);
        let their = gen_u32(ctx);
        let name = gen_name(ctx);
        let cookie = gen_cookie(ctx);
        let nh = hexarg(name.as_bytes());
        let ch = hexarg(cookie.as_bytes());
        let mut encoded: Vec<Vec<u8>> = vec![];

        let sn = SendName::new(DistributionFlags::new(flags), creation, name.clone());
        let (r, b) = res_bytes(catch_unwind(|| sn.encode()));
        ctx.tie("codec", &format!("c04enc_name {} {} {}", flags, creation, nh), &r);
        if let Some(b) = b {
            ctx.prop("codec", &format!("c04p_name_new {} {} {} {}", flags, creation, nh, hex(&b)), "ok");
            if SendName::decode(&b[2..]).ok().as_ref() != Some(&sn) {
                ctx.fail("codec", &format!("SendName decode(encode) differs: {}", hex(&b)));
            }
            encoded.push(b[2..].to_vec());
        }
        let (r, _) = res_bytes(catch_unwind(|| sn.encode_old()));
        ctx.tie("codec", &format!("c04enc_name_old {} {} {}", flags, creation, nh), &r);

        let cm = Challenge::new(DistributionFlags::new(flags), chal, creation, name.clone());
        let (r, b) = res_bytes(catch_unwind(|| cm.encode()));
        ctx.tie("codec", &format!("c04enc_chal {} {} {} {}", flags, chal, creation, nh), &r);
        if let Some(b) = b {
            ctx.prop("codec", &format!("c04p_chal {} {} {} {} {}", flags, chal, creation, nh, hex(&b)), "ok");
            if Challenge::decode(&b[2..]).ok().as_ref() != Some(&cm) {
                ctx.fail("codec", &format!("Challenge decode(encode) differs: {}", hex(&b)));
            }
            encoded.push(b[2..].to_vec());
        }

        let rp = ChallengeReply::new(chal, their, &cookie);
        let b = rp.encode();
        ctx.tie("codec", &format!("c04enc_reply {} {} {}", chal, their, ch), &format!("ok {}", hex(&b)));
        if ChallengeReply::decode(&b[2..]).ok().as_ref() != Some(&rp) {
            ctx.fail("codec", &format!("ChallengeReply decode(encode) differs: {}", hex(&b)));
        }
        ctx.tie("codec", &format!("c04verify {} {} {}", hex(&rp.digest), their, ch), if rp.verify(their, &cookie) { "true" } else { "false" });
        ctx.tie("codec", &format!("c04verify {} {} {}", hex(&rp.digest), chal, ch), if rp.verify(chal, &cookie) { "true" } else { "false" });
        encoded.push(b[2..].to_vec());

        let ak = ChallengeAck::new(chal, &cookie);
        let b = ak.encode();
        ctx.tie("codec", &format!("c04enc_ack {} {}", chal, ch), &format!("ok {}", hex(&b)));
        ctx.prop("codec", &format!("c04p_ack {} {} {}", chal, ch, hex(&b)), "ok");
        if ChallengeAck::decode(&b[2..]).ok().as_ref() != Some(&ak) {
            ctx.fail("codec", &format!("ChallengeAck decode(encode) differs: {}", hex(&b)));
        }
        // structured near misses of the right digest must all be refused (by the ack and by the reply check)
        for _ in 0..6 {
            let forged = near_miss_digest(ctx, &ak.digest);
            let mut raw = vec![b'a'];
            raw.extend_from_slice(&forged);
            if let Ok(fa) = ChallengeAck::decode(&raw) {
                ctx.tie("codec", &format!("c04verify {} {} {}", hex(&forged), chal, ch), if fa.verify(chal, &cookie) { "true" } else { "false" });
                if fa.verify(chal, &cookie) {
                    ctx.fail("c04-forged-digest-accepted", &format!("ChallengeAck digest {} accepted for challenge {} cookie {} (right digest {})", hex(&forged), chal, ch, hex(&ak.digest)));
                }
            }
            let forged_r = near_miss_digest(ctx, &rp.digest);
            let mut raw = vec![b'r'];
            raw.extend_from_slice(&chal.to_be_bytes());
            raw.extend_from_slice(&forged_r);
            if let Ok(fr) = ChallengeReply::decode(&raw) {
                ctx.tie("codec", &format!("c04verify {} {} {}", hex(&forged_r), their, ch), if fr.verify(their, &cookie) { "true" } else { "false" });
            }
        }
        let other = format!("{}y", cookie);
        ctx.tie("codec", &format!("c04verify {} {} {}", hex(&ak.digest), chal, hexarg(other.as_bytes())), if ak.verify(chal, &other) { "true" } else { "false" });
        encoded.push(b[2..].to_vec());

        ctx.tie("codec", &format!("c04digest {} {}", chal, ch), &hex(&digest::compute_digest(chal, &cookie)));

        encoded.push(status_msg(b"ok"));
        encoded.push(gen_status(ctx));
        encoded.push(gen_challenge_bytes(ctx));
        for e in encoded {
            decode_all(ctx, "codec", &e);
            let d = damage(ctx, e);
            decode_all(ctx, "codec-damaged", &d);
        }
    }
    // every truncation of one message of each kind
    let cm = challenge_msg(PEER_FLAGS, PEER_CHAL, 3, "p@é".as_bytes());
    let ak = ack_msg(5, "c");
    let mut rp = vec![b'r', 0, 0, 0, 9];
    rp.extend_from_slice(&digest::compute_digest(9, "c"));
    let mut nm = vec![b'N'];
    nm.extend_from_slice(&cm[1..9]);
    nm.extend_from_slice(&cm[13..]);
    for m in [cm, ak, rp, nm, status_msg(b"ok_simultaneous")] {
        for k in 0..=m.len() {
            decode_all(ctx, "codec-truncated", &m[..k]);
        }
    }
    ctx.add("exhaustive", 1);

    // StatusMessage::encode: the accepting side's message, the protocol's layout, read back by the crate's own decoder
    for s in [Status::Ok, Status::OkSimultaneous, Status::Nok, Status::NotAllowed, Status::Alive] {
        let b = StatusMessage::new(s).encode();
        ctx.tie("codec", &format!("c04enc_status {}", status_text(s)), &format!("ok {}", hex(&b)));
        ctx.prop("codec-status-encode", &format!("c04p_status {} {}", hex(status_text(s).as_bytes()), hex(&b)), "ok");
        match StatusMessage::decode(&b[2..]) {
            Ok(m) if m.status == s => {}
            _ => ctx.fail("codec-status-encode", &format!("StatusMessage::decode rejects StatusMessage::encode({}) = {}", status_text(s), hex(&b))),
        }
        if b.len() < 2 || u16::from_be_bytes([b[0], b[1]]) as usize != b.len() - 2 {
            ctx.fail("codec-status-encode", &format!("StatusMessage::encode({}): length prefix does not cover the message: {}", status_text(s), hex(&b)));
        }
        decode_all(ctx, "codec", &b[2..]);
        ctx.count("status_encode_round_trips");
    }
}

/* ---------- capability flags: the compiled constants against the regenerated table and against the protocol ---------- */

/// flags.rs constants whose value is not the protocol's (known finding kf-c04-flag-bits)
const MISNUMBERED: [&str; 4] = ["FRAGMENTS", "SPAWN", "NAME_ME", "ALIAS"];

fn flag_tables(ctx: &mut Ctx) {
    let mut names: Vec<String> = vec![];
    for (name, f) in DistributionFlags::all().iter_names() {
        names.push(name.to_string());
        // the table gen_misc.py extracted from the source text = what the compiler made of it
        ctx.tie("flags", &format!("c04flagconst {}", name), &f.bits().to_string());
        // and the bit the protocol assigns to the capability of that name
        let class = if MISNUMBERED.contains(&name) { "kf-c04-flag-bits" } else { "flags" };
        ctx.prop(class, &format!("c04p_flagbit {} {}", name, f.bits()), "ok");
        ctx.count("flag_constants");
    }
    ctx.tie("flags", "c04flagnames", &names.join(" "));
    ctx.tie("flags", "c04flagset MANDATORY_OTP26", &DistributionFlags::MANDATORY_OTP26.bits().to_string());
    ctx.tie("flags", "c04flagset DEFAULT", &DistributionFlags::default().bits().to_string());
    ctx.tie("flags", "c04flagset DEFAULT", &DistributionFlags::default_otp26().bits().to_string());
    ctx.tie("flags", "c04flagset DEFAULT_HIDDEN", &DistributionFlags::default_hidden().bits().to_string());
    ctx.add("exhaustive", 1);
}

pub fn run(ctx: &mut Ctx) {
    corpus(ctx);
    flag_tables(ctx);
    codecs(ctx);
    let n = ctx.n(2000, 15000);
    for _ in 0..n {
        random_walk(ctx);
    }
    exhaustive(ctx);
}
