import EdpVerif.Generated.MiscC11
import EdpVerif.Lemmas.CmpSwap
import EdpVerif.Impl.Den
import EdpVerif.Spec.ErlOrder
import EdpVerif.Lemmas.ErlAgree
import EdpVerif.Lemmas.ErlAgreeBits
import EdpVerif.Lemmas.ErlAgreeRec
import EdpVerif.Lemmas.SortMap
import EdpVerif.Lemmas.CmpArmsEq
import EdpVerif.Lemmas.CmpArmsRefine
import EdpVerif.Lemmas.CmpTables
import EdpVerif.Lemmas.DecSortedErl
/-
C12 — term comparison agrees with Erlang's standard term order.
Oracle: `Erl.cmp` on the denoted values (Spec/ErlOrder.lean); `Term.den` (Impl/Den.lean) is the denotation.

Main theorem `C12_agrees`: for all terms satisfying the guard, `Term.cmp a b = Erl.cmp (den a) (den b)`.
The guard (`WFe` and `mapsSorted`, both decidable) lists exactly what is excluded:
  * big integers with a high-order zero digit (`C12_not_agrees_nonminimal_big`: the code orders them by digit count);
  * NaN and the infinities (they are not Erlang values);
  * atom / node / module texts that are not valid UTF-8 (excluded by the Rust type `Atom { name: Arc<str> }`);
  * bit-strings the decoder does not produce (`bits` outside 1..8, non-zero unused bits, no bytes with `bits ≠ 8`);
  * map keys that contain a float with an integer value such as 1.0 (`C12_not_agrees_map_key_tie`: recorded finding
    KF-C12-map-key-exact — inside map keys Erlang orders the integer before the float of equal value, the library uses
    its general order; floats with a fractional part are allowed in keys, they tie with no integer);
  * maps whose entries are not stored in ascending key order (a `BTreeMap` always is).
-/
namespace Edp.Props.C12
open Edp Edp.Term

/-- small integers: the library's comparison is Erlang's on the denoted values -/
theorem C12_agrees_int (x y : Int) :
    Term.cmp (.int x) (.int y) = Erl.cmp (Term.den (.int x)) (Term.den (.int y)) := by
  simp [Term.cmp, Term.norm, Term.cmpN, Term.den, Erl.cmp, Erl.sortMaps, Erl.cmpX, Erl.rank]

/-- atoms against numbers, whatever the number's representation: number < atom on both sides -/
theorem C12_number_lt_atom (a : Bytes) (x : Int) :
    Term.cmp (.int x) (.atom a) = .lt ∧ Erl.cmp (Term.den (.int x)) (Term.den (.atom a)) = .lt := by
  simp [Term.cmp, Term.norm, Term.cmpN, Term.den, Erl.cmp, Erl.sortMaps, Erl.cmpX, Erl.rank]
  decide

/-- integers of either representation compare by value against floats exactly: no rounding on the spec side
(the spec's comparison is cross-multiplication of exact dyadic rationals) -/
theorem C12_spec_exact_int_float_witness :
    Erl.cmp (.int (2 ^ 53 + 1)) (.float 0x4340000000000000) = .gt ∧
    Erl.cmp (.int (2 ^ 53)) (.float 0x4340000000000000) = .eq := by decide

/-- numbers: all nine pairs of representations (small integer, big integer with minimal digits, finite float) compare
exactly as Erlang compares the denoted numbers -/
theorem C12_agrees_numbers (a b : Term) (ha : isNum a) (hb : isNum b) (oa : numOk a) (ob : numOk b)
    (fa : numFin a) (fb : numFin b) : Term.cmp a b = Erl.cmp (Term.den a) (Term.den b) :=
  agrees_numbers a b ha hb oa ob fa fb

example : isNum (.big true [0, 0, 0, 0, 0, 0, 0, 0, 1]) ∧ numOk (.big true [0, 0, 0, 0, 0, 0, 0, 0, 1]) ∧
    numFin (.float 0x4340000000000001) := by simp [isNum, numOk, numFin, minDigits, finiteBits, f64]

/-- the general theorem: on well-formed terms the library's order IS Erlang's term order of the denoted values -/
theorem C12_agrees (a b : Term) (wa : WFe a) (wb : WFe b) (sa : mapsSorted a) (sb : mapsSorted b) :
    Term.cmp a b = Erl.cmp (Term.den a) (Term.den b) := cmp_agrees a b wa wb sa sb

/-- the same for the two arm-by-arm models (Impl/CmpArms.lean: `impl Ord for OwnedTerm` and `impl Ord for BorrowedTerm`
function by function), which compute `Term.cmp` on every pair (Lemmas/CmpArmsRefine.lean, Lemmas/CmpArmsEq.lean) -/
theorem C12_agrees_arms (a b : Term) (wa : WFe a) (wb : WFe b) (sa : mapsSorted a) (sb : mapsSorted b) :
    Term.cmpOwned a b = Erl.cmp (Term.den a) (Term.den b) ∧ Term.cmpBorrowed a b = Erl.cmp (Term.den a) (Term.den b) := by
  rw [cmpBorrowed_eq_cmpOwned, cmpOwned_eq_cmp]
  exact ⟨cmp_agrees a b wa wb sa sb, cmp_agrees a b wa wb sa sb⟩

/-- non-vacuity: a nested term with every kind of child satisfies the guard (a map key may be a float with a
fractional part: 1.5) -/
example : WFe (.tuple [.atom [0xe6, 0x97, 0xa5], .big true [0, 1], .float 0x3FF8000000000000, .bits [0xff, 0x80] 1,
    .ilist [.int 1] (.bin [1]), .list [], .map [(.int 1, .float 0), (.float 0x3FF8000000000000, .nil), (.atom [97], .nil)],
    .pid ⟨[97, 64, 104], 1, 2, 3, none⟩]) = true ∧
  mapsSorted (.tuple [.map [(.int 1, .float 0), (.float 0x3FF8000000000000, .nil), (.atom [97], .nil)]]) = true := by
  constructor
  · simp [WFe, WFeL, WFeKV, validUtf8, utf8Decode, isCont, minDigits, finiteBits, f64, bitsOk, keysExact, Term.den,
      Value.noTie, fracF, F64.mant, F64.expo]
  · simp [mapsSorted, mapsSortedL, mapsSortedKV, adjSorted, Term.cmp, Term.norm, Term.cmpN, Term.rank, cmpIntFloat,
      natDigits_one]
    decide

/-- equality in the library's order is Erlang's `==` on the denoted values -/
theorem C12_equal_iff (a b : Term) (wa : WFe a) (wb : WFe b) (sa : mapsSorted a) (sb : mapsSorted b) :
    Term.cmp a b = .eq ↔ Erl.cmp (Term.den a) (Term.den b) = .eq := by
  rw [C12_agrees a b wa wb sa sb]

/-- atoms by code points (UTF-8 preserves code point order) -/
theorem C12_agrees_atoms (a b : Bytes) (ha : validUtf8 a) (hb : validUtf8 b) :
    Term.cmp (.atom a) (.atom b) = Erl.cmp (Term.den (.atom a)) (Term.den (.atom b)) :=
  C12_agrees _ _ (by simpa [WFe] using ha) (by simpa [WFe] using hb) (by simp [mapsSorted]) (by simp [mapsSorted])

example : validUtf8 [0xf0, 0x90, 0x80, 0x80] = true ∧ validUtf8 [0xc3, 0xa9] = true := by
  simp [validUtf8, utf8Decode, isCont]

/-- pids, ports, references, external funs: by the identifying fields, node names by code points -/
theorem C12_agrees_pids (p q : PidF) (hp : validUtf8 p.node) (hq : validUtf8 q.node) :
    Term.cmp (.pid p) (.pid q) = Erl.cmp (Term.den (.pid p)) (Term.den (.pid q)) :=
  C12_agrees _ _ (by simpa [WFe] using hp) (by simpa [WFe] using hq) (by simp [mapsSorted]) (by simp [mapsSorted])

theorem C12_agrees_ports (n : Bytes) (i c : Nat) (l : Option Bytes) (n2 : Bytes) (i2 c2 : Nat) (l2 : Option Bytes)
    (hn : validUtf8 n) (hn2 : validUtf8 n2) :
    Term.cmp (.port n i c l) (.port n2 i2 c2 l2) = Erl.cmp (Term.den (.port n i c l)) (Term.den (.port n2 i2 c2 l2)) :=
  C12_agrees _ _ (by simpa [WFe] using hn) (by simpa [WFe] using hn2) (by simp [mapsSorted]) (by simp [mapsSorted])

theorem C12_agrees_refs (n : Bytes) (c : Nat) (ids : List Nat) (l : Option Bytes) (n2 : Bytes) (c2 : Nat) (ids2 : List Nat)
    (l2 : Option Bytes) (hn : validUtf8 n) (hn2 : validUtf8 n2) :
    Term.cmp (.ref n c ids l) (.ref n2 c2 ids2 l2) = Erl.cmp (Term.den (.ref n c ids l)) (Term.den (.ref n2 c2 ids2 l2)) :=
  C12_agrees _ _ (by simpa [WFe] using hn) (by simpa [WFe] using hn2) (by simp [mapsSorted]) (by simp [mapsSorted])

/-- tuples: by size, then element-wise -/
theorem C12_agrees_tuples (x y : List Term) (wx : WFeL x) (wy : WFeL y) (sx : mapsSortedL x) (sy : mapsSortedL y) :
    Term.cmp (.tuple x) (.tuple y) = Erl.cmp (Term.den (.tuple x)) (Term.den (.tuple y)) :=
  C12_agrees _ _ (by simpa [WFe] using wx) (by simpa [WFe] using wy) (by simpa [mapsSorted] using sx)
    (by simpa [mapsSorted] using sy)

/-- lists in any of the three representations (nil, proper, improper with a tail that may itself be a list):
element-wise, then the tails -/
theorem C12_agrees_lists (a b : Term) (_ha : isListLike a) (_hb : isListLike b) (wa : WFe a) (wb : WFe b)
    (sa : mapsSorted a) (sb : mapsSorted b) : Term.cmp a b = Erl.cmp (Term.den a) (Term.den b) :=
  C12_agrees a b wa wb sa sb

example : isListLike (.ilist [.int 1] (.ilist [] (.list [.int 2]))) = true ∧
    WFe (.ilist [.int 1] (.ilist [] (.list [.int 2]))) = true := by simp [isListLike, WFe, WFeL]

/-- binaries, strings and bit-strings: bit-wise, a prefix being smaller -/
theorem C12_agrees_bitstrings (x y : Bytes) (n m : Nat) (hx : bitsOk x n) (hy : bitsOk y m) :
    Term.cmp (.bits x n) (.bits y m) = Erl.cmp (Term.den (.bits x n)) (Term.den (.bits y m)) :=
  C12_agrees _ _ (by simpa [WFe] using hx) (by simpa [WFe] using hy) (by simp [mapsSorted]) (by simp [mapsSorted])

theorem C12_agrees_binary_bitstring (x y : Bytes) (m : Nat) (hy : bitsOk y m) :
    Term.cmp (.bin x) (.bits y m) = Erl.cmp (Term.den (.bin x)) (Term.den (.bits y m)) :=
  C12_agrees _ _ (by simp [WFe]) (by simpa [WFe] using hy) (by simp [mapsSorted]) (by simp [mapsSorted])

example : bitsOk [0xff, 0x80] 1 = true ∧ bitsOk [] 8 = true ∧ bitsOk [0xfe] 7 = true := by simp [bitsOk]

/-- the recorded finding as a theorem: with an integer/float tie between map keys the library's order is NOT
Erlang's (`#{1 => []}` against `#{1.0 => []}`: Equal for the library, Less for Erlang) — hence the guard on keys -/
theorem C12_not_agrees_map_key_tie :
    Term.cmp (.map [(.int 1, .nil)]) (.map [(.float 0x3FF0000000000000, .nil)]) = .eq ∧
    Erl.cmp (Term.den (.map [(.int 1, .nil)])) (Term.den (.map [(.float 0x3FF0000000000000, .nil)])) = .lt := by
  constructor
  · simp [Term.cmp, Term.norm, Term.normKV, Term.cmpN, Term.cmpKeys, Term.cmpVals, cmpIntFloat, natDigits_one]; decide
  · decide

/-- the minimal-digits guard is needed: a big integer with a high-order zero digit (the decoder keeps the digits of
`131,110,2,0,1,0` as they are) denotes 1 but compares Greater than the integer 1 — the code compares digit counts -/
theorem C12_not_agrees_nonminimal_big :
    Term.cmp (.big false [1, 0]) (.int 1) = .gt ∧
    Erl.cmp (Term.den (.big false [1, 0])) (Term.den (.int 1)) = .eq := by
  constructor
  · simp [Term.cmp, Term.norm, Term.cmpN, cmpIntBig, natDigits_one, cmpSignedMag, signum, allZero, cmpMag, thenO]; decide
  · decide

/-- the type-rank tables regenerated from `term_type_order` (term.rs) and `borrowed_type_order` (borrowed.rs) are the
order the property states (number < atom < reference < fun < port < pid < tuple < map < nil/list < bit-string), and they are
the `rank` of the model, for every constructor -/
theorem C12_rank_table_is_the_source (t : Term) :
    Gen.C11_OWNED_RANKS = erlangRanks ∧ Gen.C11_BORROWED_RANKS = erlangRanks ∧
    Gen.C11_OWNED_RANKS.lookup (variantName t) = some (Term.rank t) := by
  refine ⟨rfl, rfl, ?_⟩
  cases t <;> simp only [variantName, Term.rank] <;> decide

/-! ### the `mapsSorted` guard is an invariant of construction, not an assumption

`OwnedTerm::Map` holds a `BTreeMap`: every map the library can hold has been built by insertions (decoder, `From`
conversions, `collect`, `MapBuilder`) and possibly removals, all under the library's own order. Under C11's laws such a map
stores its keys strictly ascending. -/

/-- a map built by any sequence of insertions from entries whose keys have minimal big-integer digits (and whose own
maps are in key order) satisfies `mapsSorted` -/
theorem C12_built_map_sorted (l : List (Term × Term)) (hk : ∀ p ∈ l, WFo p.1)
    (hs : ∀ p ∈ l, mapsSorted p.1 = true ∧ mapsSorted p.2 = true) : mapsSorted (.map (mapBuild l)) = true :=
  mapsSorted_mapBuild l hk hs

/-- the agreement theorem without the `mapsSorted` guard, for maps built by insertions (entry lists in ANY order, with
duplicates): the library's order of the two built maps is Erlang's order of the maps they denote -/
theorem C12_agrees_built_maps (la lb : List (Term × Term))
    (wa : WFe (.map (mapBuild la))) (wb : WFe (.map (mapBuild lb)))
    (ka : ∀ p ∈ la, WFo p.1) (kb : ∀ p ∈ lb, WFo p.1)
    (sa : ∀ p ∈ la, mapsSorted p.1 = true ∧ mapsSorted p.2 = true)
    (sb : ∀ p ∈ lb, mapsSorted p.1 = true ∧ mapsSorted p.2 = true) :
    Term.cmp (.map (mapBuild la)) (.map (mapBuild lb)) =
      Erl.cmp (Term.den (.map (mapBuild la))) (Term.den (.map (mapBuild lb))) :=
  C12_agrees _ _ wa wb (mapsSorted_mapBuild la ka sa) (mapsSorted_mapBuild lb kb sb)

/-- non-vacuity: entries given out of order and with a duplicate key -/
example : (∀ p ∈ [((.atom [98] : Term), (.int 1 : Term)), (.atom [97], .int 2), (.atom [98], .int 3)], WFo p.1 = true) ∧
    (∀ p ∈ [((.atom [98] : Term), (.int 1 : Term)), (.atom [97], .int 2), (.atom [98], .int 3)],
      mapsSorted p.1 = true ∧ mapsSorted p.2 = true) := by
  simp [WFo, mapsSorted]

/-- removing entries keeps a map in key order -/
theorem C12_sorted_after_removal (m m' : List (Term × Term)) (h : m'.Sublist m) (hs : keysSorted m) :
    adjSorted m' = true := adjSorted_of_keysSorted m' (keysSorted_sublist h hs)

/-! ### … and it holds of everything the decoder returns

The decoder fills every map by `BTreeMap::insert` (`mapInsert` in the model).  The induction over the decoder model
(Lemmas/DecSorted.lean, `dec_btInv`: every tag, any cache, fuel, depth, behaviour of the external calls) shows that every
map node of a decoded term whose keys carry minimal big integers has its keys pairwise strictly ascending; `WFe` asks
minimal digits anyway, so for decoded terms the `mapsSorted` guard of `C12_agrees` is discharged. -/

/-- every term the decoder model returns (entered at any depth, with any cache) whose big integers have minimal digits
stores every map in ascending key order -/
theorem C12_decoded_maps_sorted (x : Ext) (cfg : DecCfg) (fuel d : Nat) (bs : Bytes) (t : Term) (r : Bytes)
    (h : dec x cfg fuel d bs = .ok (t, r)) (hw : WFo t = true) : mapsSorted t = true :=
  mapsSorted_of_mapsStrict t (dec_mapsStrict x cfg fuel d bs t r h (mapKeysMin_of_WFo t hw))

/-- the agreement theorem WITHOUT the `mapsSorted` guard for what `decode` / `decode_borrowed` / `decode_with_atom_cache`
return (`decodeWith` under any configuration): the library's order of two decoded terms is Erlang's order of the values -/
theorem C12_agrees_decoded (x y : Ext) (ca cb : DecCfg) (ba bb : Bytes) (a b : Term)
    (ha : decodeWith x ca ba = .ok a) (hb : decodeWith y cb bb = .ok b) (wa : WFe a) (wb : WFe b) :
    Term.cmp a b = Erl.cmp (Term.den a) (Term.den b) :=
  C12_agrees a b wa wb
    (mapsSorted_of_mapsStrict a (mapsStrict_of_btInv a (decodeWith_btInv x ca ba a ha) (mapKeysMin_of_WFo a (WFo_of_WFe a wa))))
    (mapsSorted_of_mapsStrict b (mapsStrict_of_btInv b (decodeWith_btInv y cb bb b hb) (mapKeysMin_of_WFo b (WFo_of_WFe b wb))))

/-- non-vacuity: a map sent with its keys out of order (2 before 1) is decoded into key order, and the result
satisfies the hypotheses of `C12_agrees_decoded` -/
example : decodeWith Ext.none {} [131, 116, 0, 0, 0, 2, 97, 2, 97, 7, 97, 1, 97, 8] =
      .ok (.map [(.int 1, .int 8), (.int 2, .int 7)]) ∧
    WFe (.map [(.int 1, .int 8), (.int 2, .int 7)]) = true := by
  constructor
  · simp [decodeWith, dec, decKV, rdU, rdN, ownedOnlyTags, MAX_NESTING_DEPTH, MAX_MAP_SIZE, Ext.none, mapInsert,
      Term.cmp, Term.norm, Term.cmpN]
    have : compare (1 : Int) 2 = .lt := by decide
    simp [this]
  · simp [WFe, WFeKV, keysExact, Value.noTie, Term.den]

end Edp.Props.C12
