import EdpVerif.Lemmas.DistHeader
import EdpVerif.Lemmas.DistBody
import EdpVerif.Lemmas.DistReader
import EdpVerif.Generated.MiscC14
import EdpVerif.Generated.Tags
/-
C14 — distribution headers and the atom cache resolve every atom correctly.

`DistHeader.header` / `encodeDist` model `encode_with_dist_header(_multi)`, `DistHeader.parseHeader` /
`decodeWithAtomCache` model `parse_dist_header_with_cache` / `decode_with_atom_cache` (Impl/DistHeader.lean).
The oracle is `Spec.DistHeader` (an independent reader of the header layout and a conforming sender with an
atom cache, written from the protocol).  The order in which the encoder's hash set yields the atoms is
universally quantified (`order`).
-/
namespace Edp.Props.C14
open Edp Edp.DistHeader Edp.Spec.DistHeader

/-- **The header the library writes is read by the independent reader as exactly its atoms, every one intact**:
for every order of the atoms, any number of them from 1 to 255, any lengths up to 65535 bytes (so: both parities
of the reference count, short and long atoms), whatever the reader's cache held before and whatever follows. -/
theorem C14_header_read_by_spec (order : List Bytes) (s : Slots) (rest : Bytes)
    (hne : order ≠ []) (hn : order.length ≤ 255) (hl : ∀ a ∈ order, a.length < 65536) :
    readHeader s (header order ++ rest) = some (order, sendSlots s (entriesOf 0 order), rest) := by
  rw [header_eq_send order hne]
  have := readHeader_send (isLong order) s (entriesOf 0 order) rest (by rw [entriesOf_length]; exact hn)
    (entriesOf_conforming s order 0 (by omega) hl)
  rw [this, entriesOf_atoms]

example : ∃ s', readHeader [] (header [[97], [98, 99], [100]] ++ [106]) = some ([[97], [98, 99], [100]], s', [106]) :=
  ⟨_, C14_header_read_by_spec _ _ _ (by simp) (by simp) (by simp)⟩

/-- the flag fields, one by one: `new entry, segment 0` for each reference, then the LongAtoms field — which for an
odd number of references is the HIGH nibble of the last flag byte, for an even number the low nibble of an extra byte -/
theorem C14_flag_fields (order : List Bytes) (i : Nat) (hi : i ≤ order.length) :
    field (packNibbles (flagNibbles order)) i =
      if i < order.length then 8 else if isLong order then 1 else 0 := by
  rw [pack_eq]
  have hl : ∀ x ∈ flagNibbles order, x < 16 := by
    intro x hx
    simp only [flagNibbles, List.mem_append, List.mem_replicate, List.mem_singleton] at hx
    rcases hx with ⟨_, rfl⟩ | rfl
    · omega
    · split <;> omega
  rw [field_pack _ hl i (by simp [flagNibbles]; omega)]
  by_cases h : i < order.length
  · simp only [h, ↓reduceIte, flagNibbles]
    rw [List.getElem_append_left (by simpa using h)]
    simp
  · have : i = order.length := by omega
    subst this
    simp only [Nat.lt_irrefl, ↓reduceIte, flagNibbles]
    rw [List.getElem_append_right (by simp)]
    simp

/-- and there are exactly `N/2 + 1` flag bytes -/
theorem C14_flag_byte_count (order : List Bytes) :
    (packNibbles (flagNibbles order)).length = order.length / 2 + 1 := by
  rw [pack_eq, pack_length]; simp [flagNibbles]; omega

/-- one atom longer than 255 bytes: the single flag byte is `0x18` (LongAtoms in the high nibble) — the witness of
the defect repaired by fc7340a, which wrote `0x09` -/
theorem C14_one_long_atom_flag_byte (a : Bytes) (h : a.length > 255) : packNibbles (flagNibbles [a]) = [0x18] := by
  simp [flagNibbles, isLong, packNibbles, h]

/-- more than 255 distinct atoms: an error, nothing is written -/
theorem C14_limit_too_many (order : List Bytes) (terms : List Term) (h : order.length > 255) :
    encodeDist order terms = .error .tooManyAtoms := by
  have : order.isEmpty = false := by cases order <;> simp_all
  simp [encodeDist, this, h]

/-- an atom longer than the 16-bit length field: an error (never a truncated length) -/
theorem C14_limit_atom_too_large (order : List Bytes) (terms : List Term) (hn : order.length ≤ 255)
    (a : Bytes) (ha : a ∈ order) (hl : a.length > 65535) :
    encodeDist order terms = .error .atomTooLarge := by
  have h1 : order.isEmpty = false := by cases order <;> simp_all
  have h2 : ¬ order.length > 255 := by omega
  have h3 : (order.any fun a => decide (a.length > u16max)) = true := by
    simp only [List.any_eq_true, decide_eq_true_eq]; exact ⟨a, ha, by simpa [u16max] using hl⟩
  simp [encodeDist, h1, h2, h3]

/-- no atoms at all: still a header (`131, 68, 0`, no flag bytes), which the independent reader accepts -/
theorem C14_zero_atoms (terms : List Term) (bs : Bytes) (s : Slots) (h : encodeDist [] terms = .ok bs) :
    ∃ body, bs = 131 :: 68 :: 0 :: body ∧ encL [] terms = .ok body ∧ readHeader s (0 :: body) = some ([], s, body) := by
  simp only [encodeDist, List.isEmpty_nil, ↓reduceIte] at h
  split at h
  · rename_i b hb
    refine ⟨b, by simpa using h.symm, hb, by simp [readHeader]⟩
  · simp at h

/-- whenever encoding succeeds with atoms, the bytes are `131, 68`, the header of exactly these atoms, the terms -/
theorem C14_layout (order : List Bytes) (terms : List Term) (bs : Bytes) (hne : order ≠ [])
    (h : encodeDist order terms = .ok bs) :
    ∃ body, bs = 131 :: 68 :: (header order ++ body) ∧ encL order terms = .ok body ∧
      order.length ≤ 255 ∧ ∀ a ∈ order, a.length < 65536 := by
  have h1 : order.isEmpty = false := by cases order <;> simp_all
  simp only [encodeDist, h1, Bool.false_eq_true, ↓reduceIte] at h
  split at h
  · simp at h
  · rename_i hn
    split at h
    · simp at h
    · rename_i hl
      split at h
      · rename_i b hb
        refine ⟨b, by simpa using h.symm, hb, by omega, ?_⟩
        intro a ha
        simp only [List.any_eq_true, not_exists, not_and, u16max] at hl
        have := hl a ha; simp at this; omega
      · simp at h

/-- **The library's own reader on the library's own header**: every position resolves to its atom -/
theorem C14_own_header (order : List Bytes) (c : Cache) (rest : Bytes)
    (hne : order ≠ []) (hn : order.length ≤ 255) (hl : ∀ a ∈ order, a.length < 65536)
    (hv : ∀ a ∈ order, validUtf8 a = true) :
    ∃ c', parseHeader c (header order ++ rest) = (c', .ok rest) ∧
      ∀ j (h : j < order.length), c'.atoms.lookup j = some order[j] := by
  rw [header_eq_send order hne]
  -- the receiver's cache need not agree with anything: every reference is new
  obtain ⟨c', h1, h2, _⟩ := parseHeader_send (isLong order) c c.slots (entriesOf 0 order) rest
    (by rw [entriesOf_length]; exact hn) (entriesOf_conforming _ order 0 (by omega) hl)
    (by
      intro e he
      have : e.atom ∈ (entriesOf 0 order).map (·.atom) := List.mem_map_of_mem he
      rw [entriesOf_atoms] at this
      exact hv _ this)
    (fun _ => rfl)
  refine ⟨c', h1, ?_⟩
  intro j hj
  rw [h2]
  have := lookup_posTable (entriesOf 0 order) 0 j c.atoms (by rw [entriesOf_length]; exact hj)
  rw [Nat.zero_add] at this
  rw [this]
  have e := entriesOf_atoms 0 order
  have : ((entriesOf 0 order).map (·.atom))[j]'(by simp [entriesOf_length]; exact hj) = order[j] := by simp [e]
  simpa using this

/-- **A whole header-mode message is read by the independent reader as the same control and payload terms, every
atom intact** — for every list of terms (control alone, control and payload, any further terms), every order in which
the encoder's hash set may yield their atoms (0 to 255 of them, any lengths the header can carry), whatever the
reader's cache held before.  No assumption about the bytes of the terms: the atom-cache-generic codec theorem of C01
(`spec_enc`) is applied to every term with the header's atoms as the reference table.  The two guards are C01's:
`finiteFloatsL` (NaN/infinities are written but are not Erlang floats) and a total size below 4 GiB (NEW_FUN_EXT
carries its own size in 32 bits). -/
theorem C14_message_read_by_spec (inflate : Bytes → Option (Bytes × Nat)) (s : Slots) (order : List Bytes)
    (terms : List Term) (bs : Bytes) (hne : terms ≠ []) (ho : isOrderFor order terms = true)
    (hw : wfL terms = true) (hfin : finiteFloatsL terms = true)
    (h : encodeDist order terms = .ok bs) (hsz : bs.length < 4294967296) :
    ∃ s', readMessage inflate s bs = some (Term.denL terms, s') := by
  have hv := order_valid order terms ho hw
  by_cases hne' : order = []
  · subst hne'
    obtain ⟨body, rfl, hb, hr⟩ := C14_zero_atoms terms bs s h
    refine ⟨s, ?_⟩
    have hlen := encL_length_ge [] terms body hb
    have := readTerms_encL { inflate, refs := [] } [] rfl (by simp) terms body (body.length + 1) hne hw hfin hb
      (by simp at hsz; omega) (by omega)
    simp [readMessage, hr, this]
  · obtain ⟨body, rfl, hb, hn, hl⟩ := C14_layout order terms bs hne' h
    refine ⟨sendSlots s (entriesOf 0 order), ?_⟩
    have hlen := encL_length_ge order terms body hb
    have := readTerms_encL { inflate, refs := order.map cps } order rfl (by omega) terms body (body.length + 1)
      hne hw hfin hb (by simp at hsz; omega) (by omega)
    simp only [readMessage]
    rw [C14_header_read_by_spec order s body hne' hn hl]
    simp only [mapM_cps order hv, this, Option.map_some]

/-- the message used for non-vacuity below: `{foo, #{bar => [foo | baz]}}` with the pid `<n@h.1.2>` as payload; four
distinct atoms, one of them twice, atoms in a map key, an improper tail and an identifier's node name -/
def exTerms : List Term :=
  [.tuple [.atom [102, 111, 111], .map [(.atom [98, 97, 114], .ilist [.atom [102, 111, 111]] (.atom [98, 97, 122]))]],
   .pid ⟨[110, 64, 104], 1, 2, 3, none⟩]
def exOrder : List Bytes := [[98, 97, 122], [102, 111, 111], [110, 64, 104], [98, 97, 114]]

example : ∃ bs, exTerms ≠ [] ∧ isOrderFor exOrder exTerms = true ∧ wfL exTerms = true ∧ finiteFloatsL exTerms = true ∧
    encodeDist exOrder exTerms = .ok bs ∧ bs.length < 4294967296 :=
  ⟨_, by simp [exTerms], by decide, by decide, by decide, rfl, by decide⟩

/-- **The library's own decoder reads the whole message back identically** (`decode_with_atom_cache` on the output of
`encode_with_dist_header(_multi)`): the control term and the optional payload come back as written (in C01's wire
form: `wire t` is `t` up to the encoder's own normalisations — i64 beyond 32 bits as bignum, string as binary …), for
every order of the atoms, 0 to 255 of them, and WHATEVER the cache held before (older positions and slots, from any
earlier messages of the connection, do not disturb it). -/
theorem C14_own_roundtrip (x : Ext) (c : Cache) (order : List Bytes) (t : Term) (q : Option Term) (bs : Bytes)
    (ho : isOrderFor order (t :: q.toList) = true) (hw : wfT t = true) (hwq : ∀ u ∈ q, wfT u = true)
    (hd : dep t ≤ MAX_NESTING_DEPTH) (hdq : ∀ u ∈ q, dep u ≤ MAX_NESTING_DEPTH)
    (h : encodeDist order (t :: q.toList) = .ok bs) :
    (decodeWithAtomCache x c bs).2 = .ok (wire t, q.map wire) := by
  have hwl : wfL (t :: q.toList) = true := by
    cases q with
    | none => simp [wfL, hw]
    | some u => simp [wfL, hw, hwq u rfl]
  have hv := order_valid order _ ho hwl
  by_cases hne : order = []
  · subst hne
    obtain ⟨body, rfl, hb, _⟩ := C14_zero_atoms _ bs [] h
    have hp : parseHeader c (0 :: body) = (c, .ok body) := by
      have : rdU 1 ((0 : UInt8) :: body) = .ok (0, body) := rdU_byte 0 body (by omega)
      simp [parseHeader, this]
    rw [own_decode x c c [] (by simp) (0 :: body) body hp (cfgFor_nil _) (by simp) t q hw hwq hd hdq hb]
  · obtain ⟨body, rfl, hb, hn, hl⟩ := C14_layout order _ bs hne h
    obtain ⟨c1, hp, hlk⟩ := C14_own_header order c body hne hn hl hv
    rw [own_decode x c c1 order (by omega) (header order ++ body) body hp (cfgFor_of_lookup order c1 hlk) (by simp)
      t q hw hwq hd hdq hb]

example : ∃ bs, isOrderFor exOrder (exTerms.head! :: (some exTerms[1]!).toList) = true ∧
    encodeDist exOrder (exTerms.head! :: (some exTerms[1]!).toList) = .ok bs :=
  ⟨_, by decide, rfl⟩

/-- … and so does every message of a connection's life: any number of messages the library wrote, each with its own
atoms and order, decoded one after the other on ONE cache, come back identically -/
theorem C14_own_roundtrip_history (x : Ext) (msgs : List (List Bytes × Term × Option Term × Bytes)) (c : Cache)
    (h : ∀ m ∈ msgs, isOrderFor m.1 (m.2.1 :: m.2.2.1.toList) = true ∧ wfT m.2.1 = true ∧
      (∀ u ∈ m.2.2.1, wfT u = true) ∧ dep m.2.1 ≤ MAX_NESTING_DEPTH ∧ (∀ u ∈ m.2.2.1, dep u ≤ MAX_NESTING_DEPTH) ∧
      encodeDist m.1 (m.2.1 :: m.2.2.1.toList) = .ok m.2.2.2) :
    decodeSeq x c (msgs.map (·.2.2.2)) = msgs.map fun m => .ok (wire m.2.1, m.2.2.1.map wire) := by
  induction msgs generalizing c with
  | nil => rfl
  | cons m r ih =>
    obtain ⟨ho, hw, hwq, hd, hdq, he⟩ := h m (by simp)
    have h1 := C14_own_roundtrip x c m.1 m.2.1 m.2.2.1 m.2.2.2 ho hw hwq hd hdq he
    have h2 := ih (decodeWithAtomCache x c m.2.2.2).1 (fun m' hm' => h m' (by simp [hm']))
    simp only [List.map_cons, decodeSeq]
    rw [← h1, h2]

/-! ### the traversal and the constants, regenerated from the source on every run -/

/-- **Every atom `collect_atoms` finds is in the header and is written as a reference to its position**: for every
order of the hash set, `encode_atom_impl` with the header's index map turns each collected atom into
`ATOM_CACHE_REF i` with `order[i]` that atom (never an inline atom, never a wrapped index). -/
theorem C14_collected_atoms_are_written_as_references (order : List Bytes) (terms : List Term)
    (ho : isOrderFor order terms = true) (hn : order.length ≤ 255) :
    ∀ a ∈ atomsOfL terms, ∃ i, i < 255 ∧ order[i]? = some a ∧ encAtom order a = .ok [82, UInt8.ofNat i] := by
  intro a ha
  obtain ⟨i, hi, hg, he⟩ := encAtom_ref order a (order_complete order terms ho a ha)
  exact ⟨i, by omega, hg, he⟩

example : isOrderFor exOrder exTerms = true ∧ exOrder.length ≤ 255 ∧ [110, 64, 104] ∈ atomsOfL exTerms := by decide

/-- the per-variant traversal, regenerated: the arms of `collect_atoms` are those of the model's `atomsOf` (atom; the
elements of tuples and lists; elements and tail of an improper list; keys and values of a map; the node name of a pid,
port and reference; module and function of an external fun; module, the pid's node name and the free variables of an
internal fun; nothing else), and the atoms each `encode_*_impl` hands to `encode_atom_impl` are exactly the ones the
corresponding arm collects — so no atom is written that was not collected. -/
theorem C14_traversal_arms_are_the_sources :
    Gen.COLLECT_ATOMS_ARMS =
      [("Atom", ["insert:atom"]), ("Tuple|List", ["rec:elem"]), ("ImproperList", ["rec:elem", "rec:tail"]),
       ("Map", ["rec:key", "rec:value"]), ("Pid", ["insert:pid.node"]), ("Port", ["insert:port.node"]),
       ("Reference", ["insert:ref_.node"]), ("ExternalFun", ["insert:fun.module", "insert:fun.function"]),
       ("InternalFun", ["insert:fun.module", "insert:fun.pid.node", "rec:var"]), ("_", [])]
    ∧ Gen.ENCODE_ATOM_SITES =
      [("encode_term_impl", ["atom:atom"]), ("encode_pid_impl", ["atom:&pid.node"]),
       ("encode_port_impl", ["atom:&port.node"]), ("encode_reference_impl", ["atom:&ref_.node"]),
       ("encode_export_ext_impl", ["atom:&fun.module", "atom:&fun.function"]),
       ("encode_new_fun_ext_impl", ["atom:&fun.module", "pid:&fun.pid"])] := by decide

/-- the literal constants of the header writer and reader, regenerated, are the protocol's and the model's: at most 255
references; LongAtoms as soon as one atom exceeds 255 bytes; NewCacheEntryFlag = bit 3 of a 4-bit field, segment index =
bits 0–2; the LongAtoms bit is bit 0 of field N (0x01 of the last byte for even N, 0x10 for odd N) on both sides;
`N/2 + 1` flag bytes on both sides; tags 68 and 82 -/
theorem C14_constants_are_the_sources :
    Gen.C14_ENC_MAX_ATOMS = 255 ∧ Gen.C14_ENC_LONG_THRESHOLD = 255 ∧ Gen.C14_ENC_NEW_ENTRY_FLAG = 8 ∧
    (Gen.C14_ENC_LONG_BIT_EVEN, Gen.C14_ENC_LONG_BIT_ODD) = (1, 16) ∧ Gen.C14_ENC_NIBBLE_SHIFT_ODD = 4 ∧
    (Gen.C14_DEC_LONG_BIT_EVEN, Gen.C14_DEC_LONG_BIT_ODD) = (1, 16) ∧
    Gen.C14_DEC_NIBBLE_MASK = 15 ∧ Gen.C14_DEC_NIBBLE_SHIFT = 4 ∧ Gen.C14_DEC_NEW_ENTRY_MASK = 8 ∧
    Gen.C14_DEC_SEGMENT_MASK = 7 ∧ Gen.C14_ENC_FLAGS_LEN = "(atoms.len()/2)+1" ∧
    Gen.C14_DEC_FLAGS_LEN = "(num_atom_cache_refsasusize)/2+1" ∧ Gen.DIST_HEADER = 68 ∧ Gen.ATOM_CACHE_REF = 82 ∧
    (∀ order : List Bytes, flagNibbles order =
      List.replicate order.length Gen.C14_ENC_NEW_ENTRY_FLAG ++ [if isLong order then 1 else 0]) ∧
    (∀ order terms, order.length > Gen.C14_ENC_MAX_ATOMS → encodeDist order terms = .error .tooManyAtoms) := by
  refine ⟨by decide, by decide, by decide, by decide, by decide, by decide, by decide, by decide, by decide, by decide,
    by decide, by decide, by decide, by decide, fun _ => rfl, fun order terms h => C14_limit_too_many order terms h⟩

/-! ### histories: a conforming sender that creates, re-uses and overwrites cache entries across messages -/

/-- a message as the sender decides it: its LongAtoms flag, its references, the bytes of its terms -/
abbrev Msg := Bool × List Entry × Bytes

/-- the sender is conforming throughout the history (relative to ITS OWN evolving cache) -/
def ConformingSeq : Slots → List Msg → Prop
  | _, [] => True
  | s, (long, es, _) :: r =>
    es.length ≤ 255 ∧ Conforming long s es ∧ (∀ e ∈ es, validUtf8 e.atom = true) ∧ ConformingSeq (sendSlots s es) r

/-- the library reads every header of the history without error and, in every message, every position
resolves to the atom the sender meant; the cache is carried from message to message -/
def Resolves : Cache → List Msg → Prop
  | _, [] => True
  | c, (long, es, body) :: r =>
    (parseHeader c (sendHeader long es ++ body)).2 = .ok body ∧
    (∀ j (h : j < es.length), (parseHeader c (sendHeader long es ++ body)).1.atoms.lookup j = some es[j].atom) ∧
    Resolves (parseHeader c (sendHeader long es ++ body)).1 r

/-- **Every cached-atom reference in every message of any conforming sender's history resolves to the atom the
sender meant** — new entries, references to entries created in earlier messages, overwrites of a slot, all eight
segment indices, header position different from cache slot, both parities, long and short atoms; unbounded history. -/
theorem C14_history (msgs : List Msg) (c : Cache) (s : Slots) (ha : SlotsAgree c s) (hc : ConformingSeq s msgs) :
    Resolves c msgs := by
  induction msgs generalizing c s with
  | nil => trivial
  | cons m r ih =>
    obtain ⟨long, es, body⟩ := m
    obtain ⟨hn, hconf, hv, hrest⟩ := hc
    obtain ⟨c', h1, h2, h3⟩ := parseHeader_send long c s es body hn hconf hv ha
    refine ⟨by rw [h1], ?_, ?_⟩
    · intro j hj
      rw [h1]
      simp only [h2]
      have := lookup_posTable es 0 j c.atoms hj
      rwa [Nat.zero_add] at this
    · rw [h1]; exact ih c' _ h3 hrest

/-- non-vacuity: message 1 creates slot (3, 7) = `foo` at position 0; message 2 refers to it at position 1 (after a new
`bar` in slot (0, 7), same internal index, other segment); message 3 overwrites slot (3, 7) with `baz` -/
example : ConformingSeq []
    [ (false, [⟨[102, 111, 111], 3, 7, true⟩], [106]),
      (false, [⟨[98, 97, 114], 0, 7, true⟩, ⟨[102, 111, 111], 3, 7, false⟩], [106]),
      (true, [⟨[98, 97, 122], 3, 7, true⟩], [106]) ] := by
  simp [ConformingSeq, Conforming, upd, sendSlots, List.lookup, validUtf8, utf8Decode]
  decide

/-- the receiver's cache tracks the sender's, slot by slot, after every header -/
theorem C14_cache_tracks_sender (long : Bool) (c : Cache) (s : Slots) (es : List Entry) (rest : Bytes)
    (hn : es.length ≤ 255) (hc : Conforming long s es) (hv : ∀ e ∈ es, validUtf8 e.atom = true) (ha : SlotsAgree c s) :
    SlotsAgree (parseHeader c (sendHeader long es ++ rest)).1 (sendSlots s es) := by
  obtain ⟨c', h1, _, h3⟩ := parseHeader_send long c s es rest hn hc hv ha
  rw [h1]; exact h3

/-- the oracle is self-consistent: the spec's reader reads the spec's sender -/
theorem C14_spec_sound (long : Bool) (s : Slots) (es : List Entry) (rest : Bytes)
    (hn : es.length ≤ 255) (hc : Conforming long s es) :
    readHeader s (sendHeader long es ++ rest) = some (es.map (·.atom), sendSlots s es, rest) :=
  readHeader_send long s es rest hn hc

/-- a reference to a slot that was never filled is refused — it never resolves to some other atom -/
theorem C14_unfilled_slot_rejected (long : Bool) (flags : Bytes) (k i : Nat) (c : Cache) (idx : Nat) (bs r : Bytes)
    (seg : Nat) (hseg : seg < 8) (hr : rdU 1 bs = .ok (idx, r)) (hnib : nibbleAt flags i = some seg)
    (hnone : c.slots.lookup (seg, idx) = none) :
    parseRefs long flags (k + 1) i c bs = (c, .error .err) := by
  have h1 : seg / 8 = 0 := by omega
  simp [parseRefs, hr, hnib, h1, Nat.mod_eq_of_lt hseg, hnone]

/-! ### every input, conforming sender or not -/

/-- **Whatever header the library accepts, the protocol accepts, and every position means the same atom** — for EVERY
byte string and every state of the cache (no assumption on the sender): the independent reader reads the same atoms at
the same positions, leaves the same bytes for the terms, and the two caches still agree afterwards.  The library never
resolves a reference to anything but what the layout prescribes. -/
theorem C14_accepted_header_means_what_the_protocol_says (c : Cache) (s : Slots) (bs : Bytes) (c' : Cache) (rest : Bytes)
    (ha : SlotsAgree c s) (h : parseHeader c bs = (c', .ok rest)) :
    ∃ as s', readHeader s bs = some (as, s', rest) ∧ SlotsAgree c' s' ∧
      (∀ j (hj : j < as.length), c'.atoms.lookup j = some as[j]) :=
  parseHeader_sound c s bs c' rest ha h

/-- a new entry in slot (3, 7) at position 0, referred to again at position 1 of the same header -/
example : ∃ c', parseHeader {} [2, 0x3b, 0, 7, 3, 102, 111, 111, 7, 106] = (c', .ok [106]) ∧
    c'.atoms = [(1, [102, 111, 111]), (0, [102, 111, 111])] := ⟨_, rfl, rfl⟩

/-- **A header the protocol refuses is refused by the library** — a reference to a slot that was never filled, a
truncated reference, a missing flag byte — in every state of the cache, after any history. -/
theorem C14_header_the_protocol_refuses_is_refused (c : Cache) (s : Slots) (bs : Bytes) (ha : SlotsAgree c s)
    (h : readHeader s bs = none) : ∃ e, (parseHeader c bs).2 = .error e := by
  rcases hp : parseHeader c bs with ⟨c', e | rest⟩
  · exact ⟨e, rfl⟩
  · obtain ⟨as, s', hr, _⟩ := parseHeader_sound c s bs c' rest ha hp
    rw [h] at hr; cases hr

/-- a reference to slot (3, 7), which nothing filled -/
example : readHeader [((3, 8), [102, 111, 111])] [1, 0x03, 7, 106] = none := by decide

/-- a history of arbitrary byte strings on one cache, followed up to the first header the library refuses: every
accepted header is accepted by the protocol and resolves, position by position, as the protocol says -/
def AcceptedAsProtocol : Cache → Slots → List Bytes → Prop
  | _, _, [] => True
  | c, s, m :: r =>
    ∀ rest, (parseHeader c m).2 = .ok rest →
      ∃ as s', readHeader s m = some (as, s', rest) ∧
        (∀ j (hj : j < as.length), (parseHeader c m).1.atoms.lookup j = some as[j]) ∧
        AcceptedAsProtocol (parseHeader c m).1 s' r

/-- **Any sender, any history**: as long as the library accepts the headers it is given, it reads them as the protocol
does (so, with `C14_header_the_protocol_refuses_is_refused`, the first header the protocol refuses is the first the
library refuses).  `C14_history` is the other direction for conforming senders: their headers ARE accepted. -/
theorem C14_any_sender_history (msgs : List Bytes) (c : Cache) (s : Slots) (ha : SlotsAgree c s) :
    AcceptedAsProtocol c s msgs := by
  induction msgs generalizing c s with
  | nil => trivial
  | cons m r ih =>
    intro rest hr
    have hp : parseHeader c m = ((parseHeader c m).1, .ok rest) := by rw [← hr]
    obtain ⟨as, s', h1, h2, h3⟩ := parseHeader_sound c s m _ rest ha hp
    exact ⟨as, s', h1, h3, ih _ s' h2⟩

/-- reading a header never reaches an out-of-range index into the flag bytes (no panic), for any input at all -/
theorem C14_no_panic_refs (long : Bool) (flags : Bytes) (k i : Nat) (c : Cache) (bs : Bytes)
    (h : i + k ≤ 2 * flags.length - 1) :
    (parseRefs long flags k i c bs).2 ≠ .error .panic := parseRefs_np long flags k i c bs h

theorem C14_no_panic (c : Cache) (bs : Bytes) : (parseHeader c bs).2 ≠ .error .panic := parseHeader_np c bs

end Edp.Props.C14
