import EdpVerif.Impl.Send
import EdpVerif.Lemmas.Codec
import EdpVerif.Lemmas.Control
/-!
Lemmas for C07: what the independent reader (`Spec.parse`, `Spec.Wire`) makes of the bytes the send side writes.

`Reads env b v`: the bytes `b` are an encoding of the value `v` for a reader whose distribution header (if any) is `env`,
with whatever follows, for any fuel from `b.length` up.  The lemmas build `Reads` compositionally.
-/
namespace Edp.Send
open Edp Edp.Spec Edp.Spec.Wire
open Edp.Impl.Handshake (ConnState)

/-- `b` reads as `v` and nothing else, whatever follows -/
def Reads (env : Env) (b : Bytes) (v : Value) : Prop :=
  ∀ (fuel : Nat) (r : Bytes), b.length ≤ fuel → parse env fuel (b ++ r) = some (v, r)

theorem Reads.ne_nil {env : Env} {b : Bytes} {v : Value} (h : Reads env b v) : 1 ≤ b.length := by
  cases b with
  | nil =>
    have := h 0 [] (by simp)
    simp [parse] at this
  | cons x xs => simp

/-! ### bytes -/

theorem rdN_byte (n : Nat) (r : Bytes) (h : n < 256) : rdN 1 (UInt8.ofNat n :: r) = some (n, r) := by
  have := rdN_beN 1 n r (by omega)
  simpa [beN] using this

theorem rdN_prefix : ∀ (k : Nat) (l r : Bytes), k ≤ l.length → ∃ v, rdN k (l ++ r) = some (v, l.drop k ++ r) := by
  intro k
  induction k with
  | zero => intro l r _; exact ⟨0, by simp [rdN]⟩
  | succ k ih =>
    intro l r h
    cases l with
    | nil => simp at h
    | cons b l =>
      obtain ⟨v, hv⟩ := ih l r (by simpa using h)
      exact ⟨b.toNat * 256 ^ k + v, by simp [rdN, hv]⟩

theorem leVal_eq_magVal : ∀ d : Bytes, leVal d = magVal d := by
  intro d; induction d with
  | nil => rfl
  | cons b r ih => simp [leVal, magVal, ih]

theorem leVal_append_zeros : ∀ (a z : Bytes), (∀ x ∈ z, x = 0) → leVal (a ++ z) = leVal a := by
  intro a z hz
  induction a with
  | nil =>
    induction z with
    | nil => rfl
    | cons x z ih =>
      have hx : x = 0 := hz x (by simp)
      have := ih (fun y hy => hz y (by simp [hy]))
      simp at this
      simp [leVal, hx, this]
  | cons b a ih => simp [leVal, ih]

theorem leVal_leN : ∀ (k n : Nat), leVal (leN k n) = n % 256 ^ k := by
  intro k
  induction k with
  | zero => intro n; simp [leN, leVal, Nat.mod_one]
  | succ k ih =>
    intro n
    simp only [leN, leVal, ih]
    have : (UInt8.ofNat (n % 256)).toNat = n % 256 := by
      simp [UInt8.toNat_ofNat']
    rw [this, Nat.pow_succ]
    have h1 := Nat.mod_mul_right_div_self n 256 (256 ^ k)
    have h2 : n % (256 ^ k * 256) = n % (256 * 256 ^ k) := by rw [Nat.mul_comm]
    rw [h2, Nat.mod_mul]

theorem takeWhile_all {α : Type} (p : α → Bool) : ∀ (l : List α) (x : α), x ∈ l.takeWhile p → p x = true := by
  intro l
  induction l with
  | nil => intro x hx; simp at hx
  | cons a l ih =>
    intro x hx
    simp only [List.takeWhile] at hx
    split at hx
    · rename_i hp
      rcases List.mem_cons.mp hx with rfl | h
      · exact hp
      · exact ih x h
    · simp at hx

def sigOf (dw : Bytes) : Nat :=
  match dw with
  | [] => 1
  | r => r.length

theorem leVal_take_aux (dw tw d : Bytes) (hd : d = dw.reverse ++ tw.reverse) (hz : ∀ x ∈ tw, x = 0) :
    leVal (d.take (sigOf dw)) = leVal d := by
  have hz' : ∀ x ∈ tw.reverse, x = 0 := fun x hx => hz x (by simpa using hx)
  cases dw with
  | nil =>
    have hd0 : ∀ x ∈ d, x = 0 := by rw [hd]; simpa using hz'
    have e1 := leVal_append_zeros [] d hd0
    have e2 := leVal_append_zeros [] (d.take 1) (fun x hx => hd0 x (List.mem_of_mem_take hx))
    simp only [List.nil_append] at e1 e2
    simp only [sigOf]
    rw [e1, e2]
  | cons a dw =>
    simp only [sigOf]
    have hlen : (a :: dw).length = ((a :: dw).reverse).length := by simp
    rw [hd, hlen, List.take_left', leVal_append_zeros _ _ hz']
    rfl

/-- dropping the most significant zero digits does not change the value -/
theorem leVal_take_sigLen (d : Bytes) : leVal (d.take (sigLen d)) = leVal d := by
  have hsplit := List.takeWhile_append_dropWhile (p := fun x : UInt8 => x == 0) (l := d.reverse)
  have hd : d = (d.reverse.dropWhile (· == 0)).reverse ++ (d.reverse.takeWhile (· == 0)).reverse := by
    have := congrArg List.reverse hsplit
    rw [List.reverse_append, List.reverse_reverse] at this
    exact this.symm
  have hz : ∀ x ∈ d.reverse.takeWhile (· == 0), x = 0 := by
    intro x hx
    simpa using takeWhile_all _ _ x hx
  have := leVal_take_aux _ _ d hd hz
  exact this

theorem cps_of_valid {a : Bytes} (h : validUtf8 a = true) : utf8Decode a = some (cps a) := by
  unfold validUtf8 at h
  unfold cps
  cases hu : utf8Decode a with
  | none => simp [hu] at h
  | some c => simp

/-! ### leaves -/

/-- the reader's header environment is the encoder's atom cache -/
structure EnvFor (cache : List Bytes) (env : Env) : Prop where
  len : cache.length ≤ 256
  refs : env.refs = cache.map cps

theorem envFor_nil : EnvFor [] {} := ⟨by simp, rfl⟩

theorem indexOf_some : ∀ (cache : List Bytes) (a : Bytes) (i : Nat), indexOf? a cache = some i → cache[i]? = some a := by
  intro cache
  induction cache with
  | nil => intro a i h; simp [indexOf?] at h
  | cons x xs ih =>
    intro a i h
    simp only [indexOf?] at h
    split at h
    · rename_i hx
      have : x = a := by simpa using hx
      simp at h; subst h; simp [this]
    · cases hi : indexOf? a xs with
      | none => simp [hi] at h
      | some j =>
        simp [hi] at h; subst h
        simpa using ih a j hi

theorem parse_atom_small (env : Env) (a r : Bytes) (fuel : Nat) (h : a.length ≤ 255) (hu : validUtf8 a = true) :
    parse env (fuel + 1) (119 :: (be8 a.length ++ (a ++ r))) = some (.atom (cps a), r) := by
  rw [parse.eq_3]
  have e : (119 : UInt8).toNat = 119 := by decide
  simp only [e]
  rw [be8, rdN_beN 1 a.length (a ++ r) (by omega)]
  simp [takeN_append, cps_of_valid hu]

theorem parse_atom_long (env : Env) (a r : Bytes) (fuel : Nat) (h : a.length ≤ 65535) (hu : validUtf8 a = true) :
    parse env (fuel + 1) (118 :: (be16 a.length ++ (a ++ r))) = some (.atom (cps a), r) := by
  rw [parse.eq_3]
  have e : (118 : UInt8).toNat = 118 := by decide
  simp only [e]
  rw [be16, rdN_beN 2 a.length (a ++ r) (by omega)]
  simp [takeN_append, cps_of_valid hu]

theorem parse_atom_ref (env : Env) (i : Nat) (r : Bytes) (fuel : Nat) (h : i < 256) (cs : List Nat)
    (hu : env.refs[i]? = some cs) : parse env (fuel + 1) (82 :: UInt8.ofNat i :: r) = some (.atom cs, r) := by
  rw [parse.eq_3]
  have e : (82 : UInt8).toNat = 82 := by decide
  simp only [e]
  rw [rdN_byte i r h]
  simp [hu]

/-- an atom as the encoder writes it (a cache reference or its text) reads as that atom, at any fuel ≥ 1 -/
theorem parse_encAtom {cache : List Bytes} {env : Env} (he : EnvFor cache env) (a bs r : Bytes) (fuel : Nat)
    (hu : validUtf8 a = true) (h : encAtom cache a = .ok bs) :
    parse env (fuel + 1) (bs ++ r) = some (.atom (cps a), r) := by
  unfold encAtom at h
  cases hi : indexOf? a cache with
  | some i =>
    simp only [hi] at h
    have hb : bs = [82, UInt8.ofNat i] := by injection h with h; exact h.symm
    subst hb
    have hc := indexOf_some cache a i hi
    have hlt : i < cache.length := by
      rcases Nat.lt_or_ge i cache.length with h | h
      · exact h
      · simp [List.getElem?_eq_none h] at hc
    have hr : env.refs[i]? = some (cps a) := by rw [he.refs]; simp [hc]
    exact parse_atom_ref env i r fuel (by have := he.len; omega) _ hr
  | none =>
    simp only [hi] at h
    by_cases h1 : a.length > u16max
    · simp [h1] at h
    · by_cases h2 : a.length > 255
      · simp only [h1, h2, ↓reduceIte] at h
        have hb : bs = 118 :: be16 a.length ++ a := by injection h with h; exact h.symm
        subst hb
        simp only [List.cons_append, List.append_assoc]
        exact parse_atom_long env a r fuel (by simp [u16max] at h1; omega) hu
      · simp only [h1, h2, ↓reduceIte] at h
        have hb : bs = 119 :: be8 a.length ++ a := by injection h with h; exact h.symm
        subst hb
        simp only [List.cons_append, List.append_assoc]
        exact parse_atom_small env a r fuel (by omega) hu

theorem encAtom_length {cache : List Bytes} {a bs : Bytes} (h : encAtom cache a = .ok bs) : 2 ≤ bs.length := by
  unfold encAtom at h
  split at h
  · injection h with h; subst h; simp
  · split at h
    · simp at h
    · split at h <;> (injection h with h; subst h; simp [be8, be16, beN_length] <;> omega)

theorem reads_atom {cache : List Bytes} {env : Env} (he : EnvFor cache env) (a bs : Bytes)
    (hu : validUtf8 a = true) (h : encAtom cache a = .ok bs) : Reads env bs (.atom (cps a)) := by
  intro fuel r hf
  have := encAtom_length h
  obtain ⟨f, rfl⟩ : ∃ f, fuel = f + 1 := ⟨fuel - 1, by omega⟩
  exact parse_encAtom he a bs r f hu h

theorem i32_of_mod (v : Int) (h : -2147483648 ≤ v ∧ v ≤ 2147483647) : i32 ((v % 4294967296).toNat) = v := by
  unfold i32
  split <;> omega

/-- an `i64` as the encoder writes it reads as that integer -/
theorem parse_encInt (env : Env) (v : Int) (r : Bytes) (fuel : Nat)
    (hv : -9223372036854775808 ≤ v ∧ v ≤ 9223372036854775807) :
    parse env (fuel + 1) (encInt v ++ r) = some (.int v, r) := by
  unfold encInt
  by_cases h1 : 0 ≤ v ∧ v ≤ 255
  · simp only [h1, and_self, ↓reduceIte, List.cons_append, List.nil_append]
    rw [parse.eq_3]
    have e : (97 : UInt8).toNat = 97 := by decide
    simp only [e]
    rw [rdN_byte v.toNat r (by omega)]
    simp; omega
  · by_cases h2 : -2147483648 ≤ v ∧ v ≤ 2147483647
    · simp only [h1, h2, and_self, ↓reduceIte, List.cons_append]
      rw [parse.eq_3]
      have e : (98 : UInt8).toNat = 98 := by decide
      simp only [e]
      rw [be32, rdN_beN 4 _ r (by omega)]
      simp [i32_of_mod v h2]
    · simp only [h1, h2, ↓reduceIte, List.cons_append]
      rw [parse.eq_3]
      have e : (110 : UInt8).toNat = 110 := by decide
      simp only [e]
      have hlen : (leN 8 v.natAbs).length = 8 := by
        have : ∀ k n, (leN k n).length = k := by
          intro k; induction k with
          | zero => intro n; simp [leN]
          | succ k ih => intro n; simp [leN, ih]
        exact this 8 _
      have hs1 : 1 ≤ sigLen (leN 8 v.natAbs) := by
        unfold sigLen; split
        · exact Nat.le_refl 1
        · rename_i r' hr
          cases hq : List.dropWhile (fun x => x == (0 : UInt8)) (leN 8 v.natAbs).reverse with
          | nil => exact absurd hq hr
          | cons a b => simp
      have hs8 : sigLen (leN 8 v.natAbs) ≤ 8 := by
        unfold sigLen; split
        · omega
        · have : ∀ (p : UInt8 → Bool) (l : Bytes), (l.dropWhile p).length ≤ l.length := by
            intro p l; induction l with
            | nil => simp
            | cons a l ih => simp only [List.dropWhile]; split <;> simp <;> omega
          have := this (· == 0) (leN 8 v.natAbs).reverse
          simp [hlen] at this
          exact this
      rw [rdN_byte _ _ (by omega)]
      have htl : ((leN 8 v.natAbs).take (sigLen (leN 8 v.natAbs))).length = sigLen (leN 8 v.natAbs) := by
        simp [hlen]; omega
      have hval : leVal ((leN 8 v.natAbs).take (sigLen (leN 8 v.natAbs))) = v.natAbs := by
        rw [leVal_take_sigLen, leVal_leN]
        apply Nat.mod_eq_of_lt
        omega
      have htk : takeN (sigLen (leN 8 v.natAbs)) ((leN 8 v.natAbs).take (sigLen (leN 8 v.natAbs)) ++ r)
          = some ((leN 8 v.natAbs).take (sigLen (leN 8 v.natAbs)), r) := by
        have := takeN_append ((leN 8 v.natAbs).take (sigLen (leN 8 v.natAbs))) r
        rw [htl] at this; exact this
      by_cases hneg : v ≥ 0
      · have e0 : rdN 1 ((0 : UInt8) :: ((leN 8 v.natAbs).take (sigLen (leN 8 v.natAbs)) ++ r)) = some (0, _) := rdN_byte 0 _ (by omega)
        simp only [hneg, ↓reduceIte, e0, htk]
        simp [hval]; omega
      · have e1 : rdN 1 ((1 : UInt8) :: ((leN 8 v.natAbs).take (sigLen (leN 8 v.natAbs)) ++ r)) = some (1, _) := rdN_byte 1 _ (by omega)
        simp only [hneg, ↓reduceIte, e1, htk]
        simp [hval]; omega

theorem encInt_length (v : Int) : 2 ≤ (encInt v).length := by
  unfold encInt
  split
  · simp
  · split <;> simp [be32, beN_length]

theorem reads_int (env : Env) (v : Int) (hv : -9223372036854775808 ≤ v ∧ v ≤ 9223372036854775807) :
    Reads env (encInt v) (.int v) := by
  intro fuel r hf
  have := encInt_length v
  obtain ⟨f, rfl⟩ : ∃ f, fuel = f + 1 := ⟨fuel - 1, by omega⟩
  exact parse_encInt env v r f hv

/-- a big integer as the encoder writes it reads as its value -/
theorem parse_encBig (env : Env) (neg : Bool) (d r : Bytes) (fuel : Nat) (hl : d.length < 4294967296) :
    parse env (fuel + 1) (encBig neg d ++ r) = some (.int (bigVal neg d), r) := by
  unfold encBig
  by_cases h255 : d.length ≤ 255
  · simp only [h255, ↓reduceIte, List.cons_append, List.append_assoc]
    rw [parse.eq_3]
    have e : (110 : UInt8).toNat = 110 := by decide
    simp only [e]
    rw [be8, rdN_beN 1 d.length _ (by omega)]
    cases neg
    · have e0 : rdN 1 ((0 : UInt8) :: (d ++ r)) = some (0, d ++ r) := rdN_byte 0 _ (by omega)
      simp [e0, takeN_append, bigVal, leVal_eq_magVal]
    · have e1 : rdN 1 ((1 : UInt8) :: (d ++ r)) = some (1, d ++ r) := rdN_byte 1 _ (by omega)
      simp [e1, takeN_append, bigVal, leVal_eq_magVal]
  · simp only [h255, ↓reduceIte, List.cons_append, List.append_assoc]
    rw [parse.eq_3]
    have e : (111 : UInt8).toNat = 111 := by decide
    simp only [e]
    rw [be32, rdN_beN 4 d.length _ (by omega)]
    cases neg
    · have e0 : rdN 1 ((0 : UInt8) :: (d ++ r)) = some (0, d ++ r) := rdN_byte 0 _ (by omega)
      simp [e0, takeN_append, bigVal, leVal_eq_magVal]
    · have e1 : rdN 1 ((1 : UInt8) :: (d ++ r)) = some (1, d ++ r) := rdN_byte 1 _ (by omega)
      simp [e1, takeN_append, bigVal, leVal_eq_magVal]

theorem reads_big (env : Env) (neg : Bool) (d : Bytes) (hl : d.length < 4294967296) :
    Reads env (encBig neg d) (.int (bigVal neg d)) := by
  intro fuel r hf
  have : 1 ≤ (encBig neg d).length := by unfold encBig; split <;> simp
  obtain ⟨f, rfl⟩ : ∃ f, fuel = f + 1 := ⟨fuel - 1, by omega⟩
  exact parse_encBig env neg d r f hl

/-! ### identifiers -/

/-- preserved node-local bytes (`LOCAL_EXT`: 8 bytes of hash, then a term) that denote `v` -/
def LocReads (l : Bytes) (v : Value) : Prop :=
  8 ≤ l.length ∧ ∀ (env : Env) (fuel : Nat) (r : Bytes), parse env (fuel + 2) (l.drop 8 ++ r) = some (v, r)

/-- what the Rust types guarantee of an `ExternalPid` (UTF-8 node name, 32-bit numbers), plus: preserved node-local
bytes, if any, denote the same pid -/
structure PidOk (p : PidF) : Prop where
  utf8 : validUtf8 p.node = true
  id : p.id < 4294967296
  serial : p.serial < 4294967296
  creation : p.creation < 4294967296
  loc : ∀ l, p.loc = some l → LocReads l (pidDen p)

theorem pidDen_eq (p : PidF) : pidDen p = .pid (cps p.node) p.id p.serial p.creation := by
  simp [pidDen, Term.den]

theorem parse_local (env : Env) (l : Bytes) (v : Value) (r : Bytes) (fuel : Nat) (h : LocReads l v) :
    parse env (fuel + 3) (121 :: (l ++ r)) = some (v, r) := by
  rw [parse.eq_3]
  have e : (121 : UInt8).toNat = 121 := by decide
  simp only [e]
  obtain ⟨x, hx⟩ := rdN_prefix 8 l r h.1
  rw [hx]
  exact h.2 env fuel r

theorem parse_pid_plain (env : Env) (a r : Bytes) (node : List Nat) (id serial creation fuel : Nat)
    (ha : ∀ r', parse env (fuel + 1) (a ++ r') = some (.atom node, r'))
    (h1 : id < 4294967296) (h2 : serial < 4294967296) (h3 : creation < 4294967296) :
    parse env (fuel + 2) (88 :: (a ++ (be32 id ++ (be32 serial ++ (be32 creation ++ r))))) =
      some (.pid node id serial creation, r) := by
  rw [parse.eq_3]
  have e : (88 : UInt8).toNat = 88 := by decide
  simp only [e]
  rw [ha]
  simp only
  rw [be32, rdN_beN 4 id _ (by omega)]
  simp only
  rw [be32, rdN_beN 4 serial _ (by omega)]
  simp only
  rw [be32, rdN_beN 4 creation _ (by omega)]
  simp

theorem reads_pid {cache : List Bytes} {env : Env} (he : EnvFor cache env) (p : PidF) (bs : Bytes) (hp : PidOk p)
    (h : encPid cache p = .ok bs) : Reads env bs (pidDen p) := by
  intro fuel r hf
  unfold encPid at h
  cases hl : p.loc with
  | some l =>
    simp only [hl] at h
    have hb : bs = 121 :: l := by injection h with h; exact h.symm
    subst hb
    have h8 := (hp.loc l hl).1
    obtain ⟨f, rfl⟩ : ∃ f, fuel = f + 3 := ⟨fuel - 3, by simp at hf; omega⟩
    exact parse_local env l _ r f (hp.loc l hl)
  | none =>
    simp only [hl] at h
    cases ha : encAtom cache p.node with
    | error e => simp [ha] at h
    | ok a =>
      simp only [ha] at h
      have hb : bs = 88 :: a ++ be32 p.id ++ be32 p.serial ++ be32 p.creation := by injection h with h; exact h.symm
      subst hb
      have := encAtom_length ha
      obtain ⟨f, rfl⟩ : ∃ f, fuel = f + 2 := ⟨fuel - 2, by simp at hf; omega⟩
      simp only [List.cons_append, List.append_assoc]
      rw [pidDen_eq]
      exact parse_pid_plain env a r _ _ _ _ f (fun r' => parse_encAtom he p.node a r' f hp.utf8 ha) hp.id hp.serial hp.creation

/-- what the Rust types guarantee of an `ExternalReference`, plus coherence of preserved node-local bytes -/
structure RefOk (x : RefF) : Prop where
  utf8 : validUtf8 x.node = true
  creation : x.creation < 4294967296
  ids : ∀ i ∈ x.ids, i < 4294967296
  loc : ∀ l, x.loc = some l → LocReads l x.term.den

theorem refDen_eq (x : RefF) : x.term.den = .ref (cps x.node) x.creation x.ids := by
  simp [RefF.term, Term.den]

theorem rdWords_flatten : ∀ (ids : List Nat) (r : Bytes), (∀ i ∈ ids, i < 4294967296) →
    Spec.rdWords ids.length ((ids.map be32).flatten ++ r) = some (ids, r) := by
  intro ids
  induction ids with
  | nil => intro r _; simp [Spec.rdWords]
  | cons i ids ih =>
    intro r h
    simp only [List.length_cons, List.map_cons, List.flatten_cons, List.append_assoc, Spec.rdWords]
    rw [be32, rdN_beN 4 i _ (by have := h i (by simp); omega)]
    simp only
    rw [ih r (fun j hj => h j (by simp [hj]))]

theorem reads_ref {cache : List Bytes} {env : Env} (he : EnvFor cache env) (x : RefF) (bs : Bytes) (hx : RefOk x)
    (h : encRef cache x.node x.creation x.ids x.loc = .ok bs) : Reads env bs x.term.den := by
  intro fuel r hf
  unfold encRef at h
  cases hl : x.loc with
  | some l =>
    simp only [hl] at h
    have hb : bs = 121 :: l := by injection h with h; exact h.symm
    subst hb
    have h8 := (hx.loc l hl).1
    obtain ⟨f, rfl⟩ : ∃ f, fuel = f + 3 := ⟨fuel - 3, by simp at hf; omega⟩
    exact parse_local env l _ r f (hx.loc l hl)
  | none =>
    simp only [hl] at h
    by_cases hn : x.ids.length > u16max
    · simp [hn] at h
    · simp only [hn, ↓reduceIte] at h
      cases ha : encAtom cache x.node with
      | error e => simp [ha] at h
      | ok a =>
        simp only [ha] at h
        have hb : bs = 90 :: be16 x.ids.length ++ a ++ be32 x.creation ++ (x.ids.map be32).flatten := by
          injection h with h; exact h.symm
        subst hb
        have := encAtom_length ha
        obtain ⟨f, rfl⟩ : ∃ f, fuel = f + 2 := ⟨fuel - 2, by simp at hf; omega⟩
        simp only [List.cons_append, List.append_assoc]
        rw [refDen_eq, parse.eq_3]
        have e : (90 : UInt8).toNat = 90 := by decide
        simp only [e]
        rw [be16, rdN_beN 2 x.ids.length _ (by simp [u16max] at hn; omega)]
        simp only
        rw [parse_encAtom he x.node a _ f hx.utf8 ha]
        simp only
        rw [be32, rdN_beN 4 x.creation _ (by have := hx.creation; omega)]
        simp only
        rw [rdWords_flatten x.ids r hx.ids]
        simp

/-! ### tuples -/

theorem parseN_encL {cache : List Bytes} {env : Env} : ∀ (l : List Term) (bs : Bytes), encL cache l = .ok bs →
    (∀ t ∈ l, ∀ b, enc cache t = .ok b → Reads env b t.den) →
    ∀ (fuel : Nat) (r : Bytes), bs.length + 1 ≤ fuel → parseN env fuel l.length (bs ++ r) = some (Term.denL l, r) := by
  intro l
  induction l with
  | nil =>
    intro bs h _ fuel r _
    simp only [encL] at h
    have : bs = [] := by injection h with h; exact h.symm
    subst this
    cases fuel <;> simp [parseN, Term.denL]
  | cons t ts ih =>
    intro bs h hel fuel r hf
    simp only [encL] at h
    cases ha : enc cache t with
    | error e => simp [ha] at h
    | ok a =>
      simp only [ha] at h
      cases hb : encL cache ts with
      | error e => simp [hb] at h
      | ok b =>
        simp only [hb] at h
        have hbs : bs = a ++ b := by injection h with h; exact h.symm
        subst hbs
        have hra := hel t (by simp) a ha
        have h1 := hra.ne_nil
        obtain ⟨f, rfl⟩ : ∃ f, fuel = f + 1 := ⟨fuel - 1, by omega⟩
        simp only [List.length_cons, List.append_assoc, parseN]
        rw [hra f (b ++ r) (by simp at hf; omega)]
        simp only
        rw [ih b hb (fun t' ht' => hel t' (by simp [ht'])) f r (by simp at hf; omega)]
        simp [Term.denL]

theorem reads_tuple {cache : List Bytes} {env : Env} (l : List Term) (bs : Bytes) (hn : l.length ≤ 255)
    (h : enc cache (.tuple l) = .ok bs) (hel : ∀ t ∈ l, ∀ b, enc cache t = .ok b → Reads env b t.den) :
    Reads env bs (Term.tuple l).den := by
  intro fuel r hf
  simp only [enc, hn, ↓reduceIte] at h
  cases hb : encL cache l with
  | error e => simp [hb] at h
  | ok b =>
    simp only [hb] at h
    have hbs : bs = 104 :: be8 l.length ++ b := by injection h with h; exact h.symm
    subst hbs
    obtain ⟨f, rfl⟩ : ∃ f, fuel = f + 1 := ⟨fuel - 1, by simp at hf; omega⟩
    simp only [List.cons_append, List.append_assoc]
    rw [parse.eq_3]
    have e : (104 : UInt8).toNat = 104 := by decide
    simp only [e]
    rw [be8, rdN_beN 1 l.length _ (by omega)]
    simp only
    rw [parseN_encL l b hb hel f r (by simp [be8, beN_length] at hf; omega)]
    simp [Term.den]

/-! ### control tuples -/

open Edp.Control in
/-- the control tuple each operation serialises (what `ControlMessage::to_term` returns for the value it builds) -/
def controlTerm : Op → Term
  | .send _ to _ => .tuple [.int 2, .atom [], .pid to]
  | .regSend frm name _ => .tuple [.int 6, .pid frm, .atom [], .atom name]
  | .link frm to => .tuple [.int 1, .pid frm, .pid to]
  | .unlink frm to id => .tuple [.int 35, unlinkIdToTerm id, .pid frm, .pid to]
  | .monitor frm to r => .tuple [.int 19, .pid frm, .pid to, r.term]
  | .demonitor frm to r => .tuple [.int 20, .pid frm, .pid to, r.term]

theorem toTerm_control (op : Op) : Control.toTerm Gen.controlTable op.control = some (controlTerm op) := by
  cases op <;> rfl

/-- the arguments are values of the Rust types (UTF-8 names, 32-bit fields, `u64` id), node-local bytes coherent -/
def OpOk : Op → Prop
  | .send _ to _ => PidOk to
  | .regSend frm name _ => PidOk frm ∧ validUtf8 name = true
  | .link frm to => PidOk frm ∧ PidOk to
  | .unlink frm to id => PidOk frm ∧ PidOk to ∧ id < 2 ^ 64
  | .monitor frm to r => PidOk frm ∧ PidOk to ∧ RefOk r
  | .demonitor frm to r => PidOk frm ∧ PidOk to ∧ RefOk r

section elems
set_option linter.unusedSectionVars false
variable {cache : List Bytes} {env : Env} (he : EnvFor cache env)
include he

theorem reads_term_int (v : Int) (hv : -9223372036854775808 ≤ v ∧ v ≤ 9223372036854775807) (b : Bytes)
    (h : enc cache (.int v) = .ok b) : Reads env b (Term.int v).den := by
  simp only [enc] at h
  have : b = encInt v := by injection h with h; exact h.symm
  subst this
  simpa [Term.den] using reads_int env v hv

theorem reads_term_atom (a : Bytes) (hu : validUtf8 a = true) (b : Bytes)
    (h : enc cache (.atom a) = .ok b) : Reads env b (Term.atom a).den := by
  simp only [enc] at h
  simpa [Term.den] using reads_atom he a b hu h

theorem reads_term_pid (p : PidF) (hp : PidOk p) (b : Bytes)
    (h : enc cache (.pid p) = .ok b) : Reads env b (Term.pid p).den := by
  simp only [enc] at h
  exact reads_pid he p b hp h

theorem reads_term_ref (x : RefF) (hx : RefOk x) (b : Bytes)
    (h : enc cache x.term = .ok b) : Reads env b x.term.den := by
  simp only [RefF.term, enc] at h
  exact reads_ref he x b hx h

open Edp.Control in
theorem reads_term_uid (id : Nat) (hid : id < 2 ^ 64) (b : Bytes)
    (h : enc cache (unlinkIdToTerm id) = .ok b) : Reads env b (.int id) := by
  unfold unlinkIdToTerm at h
  split at h
  · have := reads_term_int he (id : Int) (by omega) b h
    simpa [Term.den] using this
  · simp only [enc] at h
    have hb : b = encBig false (leN 8 id) := by injection h with h; exact h.symm
    subst hb
    have hl : (leN 8 id).length < 4294967296 := by simp [Control.leN_length]
    have := reads_big env false (leN 8 id) hl
    have hv : bigVal false (leN 8 id) = (id : Int) := by
      simp only [bigVal, Bool.false_eq_true, ↓reduceIte, Control.magVal_leN]
      have : id % 256 ^ 8 = id := Nat.mod_eq_of_lt (by simpa using hid)
      rw [this]
    rw [hv] at this
    exact this

end elems

open Edp.Control in
theorem den_unlinkId (id : Nat) (hid : id < 2 ^ 64) : (unlinkIdToTerm id).den = .int id :=
  Control.intOf_den (Control.intOf_toTerm hid)

/-- the value the serialised control tuple denotes is the control tuple the protocol assigns to the operation -/
theorem controlTerm_den (op : Op) (h : OpOk op) : (controlTerm op).den = controlFor op.den := by
  cases op with
  | send f t m => simp [controlTerm, Op.den, controlFor, Term.den, Term.denL, unused, pidDen, cps, utf8Decode]
  | regSend f n m => simp [controlTerm, Op.den, controlFor, Term.den, Term.denL, unused, pidDen, cps, utf8Decode]
  | link f t => simp [controlTerm, Op.den, controlFor, Term.den, Term.denL, pidDen]
  | unlink f t id =>
    have := den_unlinkId id h.2.2
    simp [controlTerm, Op.den, controlFor, Term.den, Term.denL, pidDen, this]
  | monitor f t r => simp [controlTerm, Op.den, controlFor, Term.den, Term.denL, pidDen]
  | demonitor f t r => simp [controlTerm, Op.den, controlFor, Term.den, Term.denL, pidDen]

/-- the encoded control tuple reads as the protocol's control tuple, with or without a distribution header -/
theorem reads_control {cache : List Bytes} {env : Env} (he : EnvFor cache env) (op : Op) (hok : OpOk op) (b : Bytes)
    (h : enc cache (controlTerm op) = .ok b) : Reads env b (controlFor op.den) := by
  rw [← controlTerm_den op hok]
  have hempty : validUtf8 ([] : Bytes) = true := by decide
  cases op with
  | send f t m =>
    refine reads_tuple _ b (by simp) h ?_
    intro x hx bx hbx
    simp only [List.mem_cons, List.not_mem_nil, or_false] at hx
    rcases hx with rfl | rfl | rfl
    · exact reads_term_int he 2 (by omega) bx hbx
    · exact reads_term_atom he [] hempty bx hbx
    · exact reads_term_pid he t hok bx hbx
  | regSend f n m =>
    refine reads_tuple _ b (by simp) h ?_
    intro x hx bx hbx
    simp only [List.mem_cons, List.not_mem_nil, or_false] at hx
    rcases hx with rfl | rfl | rfl | rfl
    · exact reads_term_int he 6 (by omega) bx hbx
    · exact reads_term_pid he f hok.1 bx hbx
    · exact reads_term_atom he [] hempty bx hbx
    · exact reads_term_atom he n hok.2 bx hbx
  | link f t =>
    refine reads_tuple _ b (by simp) h ?_
    intro x hx bx hbx
    simp only [List.mem_cons, List.not_mem_nil, or_false] at hx
    rcases hx with rfl | rfl | rfl
    · exact reads_term_int he 1 (by omega) bx hbx
    · exact reads_term_pid he f hok.1 bx hbx
    · exact reads_term_pid he t hok.2 bx hbx
  | unlink f t id =>
    refine reads_tuple _ b (by simp) h ?_
    intro x hx bx hbx
    simp only [List.mem_cons, List.not_mem_nil, or_false] at hx
    rcases hx with rfl | rfl | rfl | rfl
    · exact reads_term_int he 35 (by omega) bx hbx
    · rw [den_unlinkId id hok.2.2]; exact reads_term_uid he id hok.2.2 bx hbx
    · exact reads_term_pid he f hok.1 bx hbx
    · exact reads_term_pid he t hok.2.1 bx hbx
  | monitor f t r =>
    refine reads_tuple _ b (by simp) h ?_
    intro x hx bx hbx
    simp only [List.mem_cons, List.not_mem_nil, or_false] at hx
    rcases hx with rfl | rfl | rfl | rfl
    · exact reads_term_int he 19 (by omega) bx hbx
    · exact reads_term_pid he f hok.1 bx hbx
    · exact reads_term_pid he t hok.2.1 bx hbx
    · exact reads_term_ref he r hok.2.2 bx hbx
  | demonitor f t r =>
    refine reads_tuple _ b (by simp) h ?_
    intro x hx bx hbx
    simp only [List.mem_cons, List.not_mem_nil, or_false] at hx
    rcases hx with rfl | rfl | rfl | rfl
    · exact reads_term_int he 20 (by omega) bx hbx
    · exact reads_term_pid he f hok.1 bx hbx
    · exact reads_term_pid he t hok.2.1 bx hbx
    · exact reads_term_ref he r hok.2.2 bx hbx

/-! ### frames -/

theorem readTerms_ctl (env : Env) (ver : Bool) (cb : Bytes) (c : Value) (hc : Reads env cb c) :
    readTerms env ver (if ver then 131 :: cb else cb) = some (.msg c none) := by
  cases ver
  · simp only [Bool.false_eq_true, ↓reduceIte, readTerms]
    have := hc (cb.length + 1) [] (by omega)
    simp only [List.append_nil] at this
    rw [this]
  · simp only [↓reduceIte, readTerms]
    have := hc ((131 :: cb).length + 1) [] (by simp; omega)
    simp only [List.append_nil] at this
    rw [this]

theorem readTerms_msg (env : Env) (ver : Bool) (cb mb : Bytes) (c p : Value) (hc : Reads env cb c) (hp : Reads env mb p) :
    readTerms env ver (if ver then 131 :: cb ++ 131 :: mb else cb ++ mb) = some (.msg c (some p)) := by
  have hm := hp.ne_nil
  cases ver
  · simp only [Bool.false_eq_true, ↓reduceIte, readTerms]
    rw [hc ((cb ++ mb).length + 1) mb (by simp; omega)]
    cases mb with
    | nil => simp at hm
    | cons x xs =>
      simp only
      have := hp ((cb ++ x :: xs).length + 1) [] (by simp; omega)
      simp only [List.append_nil] at this
      rw [this]
  · simp only [↓reduceIte, readTerms, List.cons_append]
    rw [hc ((131 :: (cb ++ 131 :: mb)).length + 1) (131 :: mb) (by simp; omega)]
    simp only
    have := hp ((131 :: (cb ++ 131 :: mb)).length + 1) [] (by simp; omega)
    simp only [List.append_nil] at this
    rw [this]

theorem splitFrames_mono : ∀ (f : Nat) (bs : Bytes), bs.length ≤ f → splitFrames f bs = splitFrames bs.length bs := by
  intro f
  induction f using Nat.strongRecOn with
  | _ f ih =>
    intro bs hf
    cases bs with
    | nil => cases f <;> simp [splitFrames]
    | cons b bs =>
      cases f with
      | zero => simp at hf
      | succ f =>
        simp only [List.length_cons]
        rw [splitFrames, splitFrames]
        · cases h4 : rdN 4 (b :: bs) with
          | none => rfl
          | some p =>
            obtain ⟨len, r⟩ := p
            simp only
            cases ht : takeN len r with
            | none => rfl
            | some q =>
              obtain ⟨body, rest⟩ := q
              simp only
              have hl := rdN_length 4 (b :: bs) len r h4
              have hrest : rest.length ≤ r.length := by
                unfold takeN at ht
                split at ht
                · injection ht with ht; injection ht with _ h2; subst h2; simp
                · simp at ht
              simp only [List.length_cons] at hl
              have e1 := ih f (by omega) rest (by simp at hf; omega)
              have e2 := ih bs.length (by simp at hf; omega) rest (by omega)
              rw [e1, e2]
        · simp
        · simp

theorem splitFrames_cons (body rest : Bytes) (hl : body.length < 4294967296) :
    splitFrames (be32 body.length ++ body ++ rest).length (be32 body.length ++ body ++ rest) =
      (splitFrames rest.length rest).map (body :: ·) := by
  have hlen : (be32 body.length ++ body ++ rest).length = (3 + body.length + rest.length) + 1 := by
    simp [be32, beN_length]; omega
  rw [hlen, splitFrames]
  · simp only [List.append_assoc]
    rw [be32, rdN_beN 4 body.length _ (by omega)]
    simp only [takeN_append]
    rw [splitFrames_mono (3 + body.length + rest.length) rest (by omega)]
    cases splitFrames rest.length rest <;> rfl
  · intro h
    have := congrArg List.length h
    simp [be32, beN_length] at this

theorem readBodies_cons (mode : Mode) (cache : Cache) (body : Bytes) (fs : List Bytes)
    (hne : body ≠ []) (it : Item) (cache' : Cache) (hb : readBody mode cache body = some (it, cache')) :
    readBodies mode cache (body :: fs) = (readBodies mode cache' fs).map (it :: ·) := by
  cases body with
  | nil => exact absurd rfl hne
  | cons x xs => simp only [readBodies, hb]

theorem readFrames_of_split (mode : Mode) (cache : Cache) (body rest bs : Bytes)
    (h1 : splitFrames bs.length bs = (splitFrames rest.length rest).map (body :: ·))
    (hne : body ≠ []) (it : Item) (cache' : Cache) (hb : readBody mode cache body = some (it, cache')) :
    readFramesFrom mode cache bs = (readFramesFrom mode cache' rest).map (it :: ·) := by
  simp only [readFramesFrom, h1]
  cases splitFrames rest.length rest with
  | none => simp
  | some fs => simp [readBodies_cons mode cache body fs hne it cache' hb]

/-- one frame at the head of a stream: its body is read with the receiver's cache, the rest with the updated cache -/
theorem readFrames_cons (mode : Mode) (cache : Cache) (body rest : Bytes) (hl : body.length < 4294967296)
    (hne : body ≠ []) (it : Item) (cache' : Cache) (hb : readBody mode cache body = some (it, cache')) :
    readFramesFrom mode cache (be32 body.length ++ body ++ rest) = (readFramesFrom mode cache' rest).map (it :: ·) :=
  readFrames_of_split mode cache body rest _ (splitFrames_cons body rest hl) hne it cache' hb

theorem readFrames_nil (mode : Mode) (cache : Cache) : readFramesFrom mode cache [] = some [] := by
  simp [readFramesFrom, splitFrames, readBodies]

/-! ### the distribution header -/

theorem flagBytes_length (n : Nat) (long : Bool) : (flagBytes n long).length = n / 2 + 1 := by
  simp [flagBytes]

theorem flagByte_toNat (n : Nat) (long : Bool) (k : Nat) :
    (flagByte n long k).toNat = (if 2 * k < n then 8 else 0) + (if 2 * k + 1 < n then 128 else 0) +
      (if long && k == n / 2 then (if n % 2 = 0 then 1 else 16) else 0) := by
  unfold flagByte
  rw [UInt8.toNat_ofNat']
  apply Nat.mod_eq_of_lt
  split <;> split <;> split <;> (try split) <;> omega

theorem nibble_flagBytes (n : Nat) (long : Bool) (i : Nat) (hi : i ≤ n) :
    nibble (flagBytes n long) i =
      if i % 2 = 0 then (flagByte n long (i / 2)).toNat % 16 else (flagByte n long (i / 2)).toNat / 16 := by
  unfold nibble flagBytes
  have : i / 2 < n / 2 + 1 := by omega
  simp [this]

theorem nibble_new (n : Nat) (long : Bool) (i : Nat) (hi : i < n) : nibble (flagBytes n long) i = 8 := by
  rw [nibble_flagBytes n long i (by omega), flagByte_toNat]
  by_cases hl : long = true <;> by_cases hk : (i / 2 == n / 2) = true <;> simp [hl, hk] <;> (try simp at hk) <;>
    (split <;> split <;> (try split) <;> (try split) <;> omega)

theorem nibble_long (n : Nat) (long : Bool) : nibble (flagBytes n long) n % 2 = if long then 1 else 0 := by
  rw [nibble_flagBytes n long n (by omega), flagByte_toNat]
  cases long <;> simp <;> (split <;> (try split) <;> (try split) <;> omega)


theorem readRefs_new (flags : Bytes) (long : Bool) : ∀ (as : List Bytes) (i : Nat) (cache : Cache) (rest : Bytes),
    (∀ j, j < as.length → nibble flags (i + j) = 8) →
    (∀ a ∈ as, validUtf8 a = true ∧ a.length < (if long then 65536 else 256)) →
    ∃ cache', readRefs flags long as.length i cache (refBytes long i as ++ rest) = some (as.map cps, cache', rest) := by
  intro as
  induction as with
  | nil => intro i cache rest _ _; exact ⟨cache, by simp [readRefs, refBytes]⟩
  | cons a as ih =>
    intro i cache rest hn ha
    have h0 : nibble flags i = 8 := by simpa using hn 0 (by simp)
    have haa := ha a (by simp)
    obtain ⟨c', hc'⟩ := ih (i + 1) (cache.set (0, i % 256) (cps a)) rest
      (fun j hj => by have := hn (j + 1) (by simp; omega); rw [← this]; congr 1; omega)
      (fun b hb => ha b (by simp [hb]))
    refine ⟨c', ?_⟩
    simp only [List.length_cons, readRefs, refBytes, h0, List.cons_append, List.append_assoc, rdN]
    have hlen : rdN (if long = true then 2 else 1) ((if long = true then be16 a.length else be8 a.length) ++ (a ++ (refBytes long (i + 1) as ++ rest)))
        = some (a.length, a ++ (refBytes long (i + 1) as ++ rest)) := by
      cases long
      · simp only [Bool.false_eq_true, ↓reduceIte] at haa ⊢
        rw [be8, rdN_beN 1 a.length _ (by omega)]
      · simp only [↓reduceIte] at haa ⊢
        rw [be16, rdN_beN 2 a.length _ (by omega)]
    simp [hlen, takeN_append, cps_of_valid haa.1, hc']


/-- what the independent reader makes of the distribution header the send side writes: it accepts it, learns exactly
the atoms of the header in order, and goes on to the terms -/
theorem readBody_distHeader (order : List Bytes) (terms : List Term) (bs : Bytes) (h : distHeader order terms = .ok bs)
    (hu : ∀ a ∈ order, validUtf8 a = true) (cache : Cache) :
    ∃ env cache' tb, EnvFor order env ∧ encL order terms = .ok tb ∧
      readBody .distHeader cache bs = (readTerms env false tb).map (fun it => (it, cache')) := by
  unfold distHeader at h
  simp only at h
  split at h
  · simp at h
  · split at h
    · rename_i hemp
      have ho : order = [] := by simpa using hemp
      subst ho
      cases hb : encL [] terms with
      | error e => simp [hb] at h
      | ok b =>
        simp only [hb] at h
        have hbs : bs = 131 :: 68 :: 0 :: b := by injection h with h; exact h.symm
        subst hbs
        refine ⟨{}, cache, b, envFor_nil, rfl, ?_⟩
        have e0 : rdN 1 ((0 : UInt8) :: b) = some (0, b) := rdN_byte 0 b (by omega)
        simp only [readBody, e0]
    · rename_i hne
      split at h
      · simp at h
      · rename_i hlen
        split at h
        · simp at h
        · rename_i hbig
          cases hb : encL order terms with
          | error e => simp [hb] at h
          | ok b =>
            simp only [hb] at h
            generalize hlong : order.any (fun a => decide (a.length > 255)) = long at h
            have hbs : bs = 131 :: 68 :: UInt8.ofNat order.length :: flagBytes order.length long ++ refBytes long 0 order ++ b := by
              injection h with h; exact h.symm
            subst hbs
            have hn255 : order.length ≤ 255 := by
              have : Gen.C07_HEADER_MAX_ATOMS = 255 := rfl
              omega
            have hpos : 0 < order.length := by
              cases order with
              | nil => simp at hne
              | cons _ _ => simp
            have has : ∀ a ∈ order, validUtf8 a = true ∧ a.length < (if long then 65536 else 256) := by
              intro a ha
              refine ⟨hu a ha, ?_⟩
              have h1 : ¬ a.length > u16max := by
                intro hc
                exact hbig (List.any_eq_true.mpr ⟨a, ha, by simpa using hc⟩)
              cases long
              · simp only [Bool.false_eq_true, ↓reduceIte]
                have : ¬ a.length > 255 := by
                  intro hc
                  have : order.any (fun a => decide (a.length > 255)) = true := List.any_eq_true.mpr ⟨a, ha, by simpa using hc⟩
                  rw [hlong] at this; cases this
                omega
              · simp only [↓reduceIte]; simp [u16max] at h1; omega
            obtain ⟨c', hc'⟩ := readRefs_new (flagBytes order.length long) long order 0 cache b
              (fun j hj => by simpa using nibble_new order.length long j hj) has
            refine ⟨{ refs := order.map cps }, c', b, ⟨by omega, rfl⟩, rfl, ?_⟩
            have e1 : rdN 1 (UInt8.ofNat order.length :: (flagBytes order.length long ++ (refBytes long 0 order ++ b)))
                = some (order.length, flagBytes order.length long ++ (refBytes long 0 order ++ b)) := rdN_byte _ _ (by omega)
            obtain ⟨m, hm⟩ : ∃ m, order.length = m + 1 := ⟨order.length - 1, by omega⟩
            have e2 : takeN (order.length / 2 + 1) (flagBytes order.length long ++ (refBytes long 0 order ++ b))
                = some (flagBytes order.length long, refBytes long 0 order ++ b) := by
              have := takeN_append (flagBytes order.length long) (refBytes long 0 order ++ b)
              rwa [flagBytes_length] at this
            have e3 : decide (nibble (flagBytes order.length long) order.length % 2 = 1) = long := by
              rw [nibble_long]; cases long <;> simp
            simp only [readBody, List.cons_append, List.append_assoc, e1]
            rw [hm] at e2 e3 hc' ⊢
            simp only [e2, e3, hc']


/-! ### shape of a successful operation -/

theorem encode_ok {t : Term} {b : Bytes} (h : encode t = .ok b) : ∃ tb, enc [] t = .ok tb ∧ b = 131 :: tb := by
  unfold encode at h
  cases ht : enc [] t with
  | error e => simp [ht] at h
  | ok tb =>
    simp only [ht] at h
    exact ⟨tb, rfl, by injection h with h; exact h.symm⟩

/-- the write sequences the translator read off the source are the ones the protocol's frame needs -/
theorem ptWrites_payload (n : Nat) (ce me : Bytes) : ptWrites true n ce me = [be32 n, [112], ce, me] := by
  simp [ptWrites, writesFromSteps, writeOfStep, Gen.C07_SEND_BRANCHES, Gen.C07_PASS_THROUGH]

theorem ptWrites_control (n : Nat) (ce me : Bytes) : ptWrites false n ce me = [be32 n, [112], ce] := by
  simp [ptWrites, writesFromSteps, writeOfStep, Gen.C07_SEND_BRANCHES, Gen.C07_PASS_THROUGH]

theorem hdrWrites_eq (p : Bool) (enc : Bytes) : hdrWrites p enc = [be32 enc.length ++ enc] := by
  cases p <;> simp [hdrWrites, bufOf, Gen.C07_SEND_BRANCHES, Gen.C07_HEADER_BUFFER]

/-- shape of a successful operation in pass-through mode -/
theorem sendOp_pt_shape (c : Conn) (order : List Bytes) (op : Op) (ws : List Bytes)
    (h : sendOp c order op = .ok ws) (hpt : usePassThrough c = true) :
    c.state = .connected ∧ c.stream = true ∧
    ∃ cb, enc [] (controlTerm op) = .ok cb ∧
      ((op.payload = none ∧ ws = [be32 (1 + (131 :: cb).length), [112], 131 :: cb] ∧ 1 + (131 :: cb).length ≤ u32max) ∨
       (∃ m mb, op.payload = some m ∧ enc [] m = .ok mb ∧
          ws = [be32 (1 + (131 :: cb).length + (131 :: mb).length), [112], 131 :: cb, 131 :: mb] ∧
          1 + (131 :: cb).length + (131 :: mb).length ≤ u32max)) := by
  unfold sendOp at h
  split at h
  · simp at h
  · rename_i hst
    have hst' : c.state = .connected := by simpa using hst
    unfold sendControlMessage at h
    rw [toTerm_control] at h
    simp only [hpt, ↓reduceIte] at h
    cases hce : encode (controlTerm op) with
    | error e => simp [hce] at h
    | ok ce =>
      obtain ⟨cb, hcb, rfl⟩ := encode_ok hce
      simp only [hce] at h
      cases hp : op.payload with
      | none =>
        simp only [hp] at h
        split at h
        · simp at h
        · rename_i hsz
          split at h
          · simp at h
          · rename_i hs
            refine ⟨hst', by simpa using hs, cb, hcb, Or.inl ⟨rfl, ?_, by omega⟩⟩
            injection h with h; exact h.symm
      | some m =>
        simp only [hp] at h
        cases hme : encode m with
        | error e => simp [hme] at h
        | ok me =>
          obtain ⟨mb, hmb, rfl⟩ := encode_ok hme
          simp only [hme] at h
          split at h
          · simp at h
          · rename_i hsz
            split at h
            · simp at h
            · rename_i hs
              refine ⟨hst', by simpa using hs, cb, hcb, Or.inr ⟨m, mb, rfl, hmb, ?_, by omega⟩⟩
              injection h with h; exact h.symm

/-- shape of a successful operation in distribution-header mode -/
theorem sendOp_hdr_shape (c : Conn) (order : List Bytes) (op : Op) (ws : List Bytes)
    (h : sendOp c order op = .ok ws) (hpt : usePassThrough c = false) :
    c.state = .connected ∧ c.stream = true ∧
    ∃ hb, distHeader order (controlTerm op :: op.payload.toList) = .ok hb ∧ ws = [be32 hb.length ++ hb] ∧ hb.length ≤ u32max := by
  unfold sendOp at h
  split at h
  · simp at h
  · rename_i hst
    have hst' : c.state = .connected := by simpa using hst
    unfold sendControlMessage at h
    rw [toTerm_control] at h
    simp only [hpt, Bool.false_eq_true, ↓reduceIte, hdrWrites_eq] at h
    have key : ∀ terms, terms = controlTerm op :: op.payload.toList →
        (match distHeader order terms with
          | Except.error e => Except.error e
          | Except.ok enc =>
            if List.length enc > u32max then Except.error Err.tooLarge
            else if (!c.stream) = true then Except.error Err.noStream else Except.ok [be32 (List.length enc) ++ enc]) = Except.ok ws →
        c.state = .connected ∧ c.stream = true ∧
          ∃ hb, distHeader order (controlTerm op :: op.payload.toList) = .ok hb ∧ ws = [be32 hb.length ++ hb] ∧ hb.length ≤ u32max := by
      intro terms ht h
      subst ht
      cases hd : distHeader order (controlTerm op :: op.payload.toList) with
      | error e => simp [hd] at h
      | ok hb =>
        simp only [hd] at h
        split at h
        · simp at h
        · rename_i hsz
          split at h
          · simp at h
          · rename_i hs
            refine ⟨hst', by simpa using hs, hb, rfl, ?_, by omega⟩
            injection h with h; exact h.symm
    cases hp : op.payload with
    | none =>
      simp only [hp] at h
      have := key _ (by simp [hp]) h
      simpa [hp] using this
    | some m =>
      simp only [hp] at h
      have := key _ (by simp [hp]) h
      simpa [hp] using this


/-! ### one operation, one frame -/

theorem payloadFor_den (op : Op) : payloadFor op.den = op.payload.map Term.den := by
  cases op <;> rfl

/-- the frame of a successful pass-through operation: a body that the reader accepts as the operation's item,
preceded by its length -/
theorem pt_frame (c : Conn) (order : List Bytes) (op : Op) (ws : List Bytes)
    (h : sendOp c order op = .ok ws) (hpt : usePassThrough c = true) (hok : OpOk op)
    (hpay : ∀ m b, op.payload = some m → enc [] m = .ok b → Reads {} b m.den) :
    ∃ body, ws.flatten = be32 body.length ++ body ∧ body.length < 4294967296 ∧ body ≠ [] ∧
      ∀ cache, readBody .passThrough cache body = some (itemFor op.den, cache) := by
  obtain ⟨_, _, cb, hcb, hsh⟩ := sendOp_pt_shape c order op ws h hpt
  have hc := reads_control envFor_nil op hok cb hcb
  rcases hsh with ⟨hp, rfl, hsz⟩ | ⟨m, mb, hp, hmb, rfl, hsz⟩
  · refine ⟨112 :: 131 :: cb, by simp; congr 1; omega, by simp [u32max] at hsz ⊢; omega, by simp, ?_⟩
    intro cache
    have := readTerms_ctl {} true cb _ hc
    simp only [↓reduceIte] at this
    simp [readBody, this, itemFor, payloadFor_den, hp]
  · refine ⟨112 :: (131 :: cb ++ 131 :: mb), by simp; congr 1; omega, by simp [u32max] at hsz ⊢; omega, by simp, ?_⟩
    intro cache
    have := readTerms_msg {} true cb mb _ _ hc (hpay m mb hp hmb)
    simp only [↓reduceIte, List.cons_append] at this
    simp [readBody, this, itemFor, payloadFor_den, hp]


theorem distHeader_orderOk {order : List Bytes} {terms : List Term} {hb : Bytes} (h : distHeader order terms = .ok hb) :
    orderOk order (collectAtomsL terms) = true := by
  unfold distHeader at h
  simp only at h
  split at h
  · simp at h
  · rename_i hn; simpa using hn

theorem order_subset {order atoms : List Bytes} (h : orderOk order atoms = true) : ∀ a ∈ order, a ∈ atoms := by
  intro a ha
  unfold orderOk at h
  simp only [Bool.and_eq_true, List.all_eq_true] at h
  have := h.1.1 a ha
  simpa using this

open Edp.Control in
theorem controlAtoms_valid (op : Op) (hok : OpOk op) : ∀ a ∈ collectAtoms (controlTerm op), validUtf8 a = true := by
  have hempty : validUtf8 ([] : Bytes) = true := by decide
  have huid : ∀ id, collectAtoms (unlinkIdToTerm id) = [] := by
    intro id; unfold unlinkIdToTerm; split <;> simp [collectAtoms]
  cases op with
  | send f t m =>
    intro a ha
    simp [controlTerm, collectAtoms, collectAtomsL] at ha
    rcases ha with rfl | rfl
    · exact hempty
    · exact hok.utf8
  | regSend f n m =>
    intro a ha
    simp [controlTerm, collectAtoms, collectAtomsL] at ha
    rcases ha with rfl | rfl | rfl
    · exact hok.1.utf8
    · exact hempty
    · exact hok.2
  | link f t =>
    intro a ha
    simp [controlTerm, collectAtoms, collectAtomsL] at ha
    rcases ha with rfl | rfl
    · exact hok.1.utf8
    · exact hok.2.utf8
  | unlink f t id =>
    intro a ha
    simp [controlTerm, collectAtoms, collectAtomsL, huid] at ha
    rcases ha with rfl | rfl
    · exact hok.1.utf8
    · exact hok.2.1.utf8
  | monitor f t r =>
    intro a ha
    simp [controlTerm, collectAtoms, collectAtomsL, RefF.term] at ha
    rcases ha with rfl | rfl | rfl
    · exact hok.1.utf8
    · exact hok.2.1.utf8
    · exact hok.2.2.utf8
  | demonitor f t r =>
    intro a ha
    simp [controlTerm, collectAtoms, collectAtomsL, RefF.term] at ha
    rcases ha with rfl | rfl | rfl
    · exact hok.1.utf8
    · exact hok.2.1.utf8
    · exact hok.2.2.utf8

/-- the frame of a successful distribution-header operation, for whatever order the atoms were enumerated in and
whatever the receiver's atom cache holds -/
theorem hdr_frame (c : Conn) (order : List Bytes) (op : Op) (ws : List Bytes)
    (h : sendOp c order op = .ok ws) (hpt : usePassThrough c = false) (hok : OpOk op)
    (hatoms : ∀ m, op.payload = some m → ∀ a ∈ collectAtoms m, validUtf8 a = true)
    (hpay : ∀ env m b, EnvFor order env → op.payload = some m → enc order m = .ok b → Reads env b m.den) :
    ∃ body, ws.flatten = be32 body.length ++ body ∧ body.length < 4294967296 ∧ body ≠ [] ∧
      ∀ cache, ∃ cache', readBody .distHeader cache body = some (itemFor op.den, cache') := by
  obtain ⟨_, _, hb, hd, rfl, hsz⟩ := sendOp_hdr_shape c order op ws h hpt
  have hu : ∀ a ∈ order, validUtf8 a = true := by
    intro a ha
    have hmem := order_subset (distHeader_orderOk hd) a ha
    simp only [collectAtomsL, List.mem_append] at hmem
    rcases hmem with h1 | h2
    · exact controlAtoms_valid op hok a h1
    · cases hp : op.payload with
      | none => simp [hp, collectAtomsL] at h2
      | some m =>
        simp [hp, collectAtomsL] at h2
        exact hatoms m hp a h2
  have hne : hb ≠ [] := by
    intro hc; subst hc
    unfold distHeader at hd
    simp only at hd
    split at hd
    · simp at hd
    · split at hd
      · split at hd <;> simp at hd
      · split at hd
        · simp at hd
        · split at hd
          · simp at hd
          · split at hd <;> simp at hd
  refine ⟨hb, by simp, by simp [u32max] at hsz; omega, hne, ?_⟩
  intro cache
  obtain ⟨env, cache', tb, henv, htb, hrb⟩ := readBody_distHeader order _ hb hd hu cache
  refine ⟨cache', ?_⟩
  rw [hrb]
  simp only [encL] at htb
  cases hcb : enc order (controlTerm op) with
  | error e => simp [hcb] at htb
  | ok cb =>
    have hc := reads_control henv op hok cb hcb
    simp only [hcb] at htb
    cases hp : op.payload with
    | none =>
      simp only [hp, Option.toList, encL] at htb
      have : tb = cb := by injection htb with h; simpa using h.symm
      subst this
      have := readTerms_ctl env false tb _ hc
      simp only [Bool.false_eq_true, ↓reduceIte] at this
      simp [this, itemFor, payloadFor_den, hp]
    | some m =>
      simp only [hp, Option.toList, encL] at htb
      cases hmb : enc order m with
      | error e => simp [hmb] at htb
      | ok mb =>
        simp only [hmb] at htb
        have : tb = cb ++ mb := by injection htb with h; simpa using h.symm
        subst this
        have := readTerms_msg env false cb mb _ _ hc (hpay env m mb henv hp hmb)
        simp only [Bool.false_eq_true, ↓reduceIte] at this
        simp [this, itemFor, payloadFor_den, hp]


/-! ### node-local identifiers -/

/-- an atom written as text (no cache) reads as that atom under any header environment -/
theorem parse_encAtom_text (env : Env) (a bs r : Bytes) (fuel : Nat) (hu : validUtf8 a = true)
    (h : encAtom [] a = .ok bs) : parse env (fuel + 1) (bs ++ r) = some (.atom (cps a), r) := by
  unfold encAtom at h
  simp only [indexOf?] at h
  by_cases h1 : a.length > u16max
  · simp [h1] at h
  · by_cases h2 : a.length > 255
    · simp only [h1, h2, ↓reduceIte] at h
      have hb : bs = 118 :: be16 a.length ++ a := by injection h with h; exact h.symm
      subst hb
      simp only [List.cons_append, List.append_assoc]
      exact parse_atom_long env a r fuel (by simp [u16max] at h1; omega) hu
    · simp only [h1, h2, ↓reduceIte] at h
      have hb : bs = 119 :: be8 a.length ++ a := by injection h with h; exact h.symm
      subst hb
      simp only [List.cons_append, List.append_assoc]
      exact parse_atom_small env a r fuel (by omega) hu

/-- node-local bytes made of any 8-byte hash and the plain encoding of the same pid (what the decoder preserves when
the peer wrapped a canonically encoded pid, and what the harness generates) denote that pid -/
theorem locReads_pid (p : PidF) (hash inner : Bytes) (hh : hash.length = 8) (hu : validUtf8 p.node = true)
    (h1 : p.id < 4294967296) (h2 : p.serial < 4294967296) (h3 : p.creation < 4294967296)
    (hi : encPid [] { p with loc := none } = .ok inner) : LocReads (hash ++ inner) (pidDen p) := by
  refine ⟨by simp [hh], ?_⟩
  intro env fuel r
  have hd : (hash ++ inner).drop 8 = inner := by rw [← hh]; simp
  rw [hd]
  unfold encPid at hi
  simp only at hi
  cases ha : encAtom [] p.node with
  | error e => simp [ha] at hi
  | ok a =>
    simp only [ha] at hi
    have hb : inner = 88 :: a ++ be32 p.id ++ be32 p.serial ++ be32 p.creation := by injection hi with h; exact h.symm
    subst hb
    simp only [List.cons_append, List.append_assoc]
    rw [pidDen_eq]
    exact parse_pid_plain env a r _ _ _ _ fuel (fun r' => parse_encAtom_text env p.node a r' fuel hu ha) h1 h2 h3

theorem pidOk_local (p : PidF) (hash inner : Bytes) (hh : hash.length = 8) (hu : validUtf8 p.node = true)
    (h1 : p.id < 4294967296) (h2 : p.serial < 4294967296) (h3 : p.creation < 4294967296)
    (hi : encPid [] { p with loc := none } = .ok inner) (hl : p.loc = some (hash ++ inner)) : PidOk p :=
  ⟨hu, h1, h2, h3, fun l h => by
    rw [hl] at h; injection h with h; subst h
    exact locReads_pid p hash inner hh hu h1 h2 h3 hi⟩


/-! ### more leaves, lists -/

theorem reads_binary (env : Env) (b bs : Bytes) (h : encBinary b = .ok bs) : Reads env bs (Value.mkBits b 8) := by
  unfold encBinary at h
  split at h
  · simp at h
  · rename_i hl
    have hb : bs = 109 :: be32 b.length ++ b := by injection h with h; exact h.symm
    subst hb
    intro fuel r hf
    obtain ⟨f, rfl⟩ : ∃ f, fuel = f + 1 := ⟨fuel - 1, by simp at hf; omega⟩
    simp only [List.cons_append, List.append_assoc]
    rw [parse.eq_3]
    have e : (109 : UInt8).toNat = 109 := by decide
    simp only [e]
    rw [be32, rdN_beN 4 b.length _ (by simp [u32max] at hl; omega)]
    simp [takeN_append]

theorem reads_float (env : Env) (v : Nat) (hv : v < 18446744073709551616) (hfin : v / 2 ^ 52 % 2048 ≠ 2047) :
    Reads env (70 :: be64 v) (.float v) := by
  intro fuel r hf
  obtain ⟨f, rfl⟩ : ∃ f, fuel = f + 1 := ⟨fuel - 1, by simp at hf; omega⟩
  simp only [List.cons_append]
  rw [parse.eq_3]
  have e : (70 : UInt8).toNat = 70 := by decide
  simp only [e]
  rw [be64, rdN_beN 8 v _ (by omega)]
  simp [hfin]

theorem reads_nil (env : Env) : Reads env [106] .nil := by
  intro fuel r hf
  obtain ⟨f, rfl⟩ : ∃ f, fuel = f + 1 := ⟨fuel - 1, by simp at hf; omega⟩
  simp only [List.cons_append, List.nil_append]
  rw [parse.eq_3]
  have e : (106 : UInt8).toNat = 106 := by decide
  simp [e]

theorem reads_list {cache : List Bytes} {env : Env} (l : List Term) (bs : Bytes)
    (h : enc cache (.list l) = .ok bs) (hel : ∀ t ∈ l, ∀ b, enc cache t = .ok b → Reads env b t.den) :
    Reads env bs (Term.list l).den := by
  intro fuel r hf
  simp only [enc] at h
  split at h
  · rename_i hemp
    have hb : bs = [106] := by injection h with h; exact h.symm
    subst hb
    have hl : l = [] := by simpa using hemp
    subst hl
    simpa [Term.den, Term.denL, Value.mkList] using reads_nil env fuel r hf
  · rename_i hne
    split at h
    · simp at h
    · rename_i hlen
      cases hb : encL cache l with
      | error e => simp [hb] at h
      | ok b =>
        simp only [hb] at h
        have hbs : bs = 108 :: be32 l.length ++ b ++ [106] := by injection h with h; exact h.symm
        subst hbs
        obtain ⟨f, rfl⟩ : ∃ f, fuel = f + 1 := ⟨fuel - 1, by simp at hf; omega⟩
        simp only [List.cons_append, List.append_assoc, List.nil_append]
        rw [parse.eq_3]
        have e : (108 : UInt8).toNat = 108 := by decide
        simp only [e]
        rw [be32, rdN_beN 4 l.length _ (by simp [u32max] at hlen; omega)]
        simp only
        have hf' : b.length + 6 ≤ f + 1 := by simp [be32, beN_length] at hf; omega
        rw [parseN_encL l b hb hel f (106 :: r) (by omega)]
        simp only
        obtain ⟨g, rfl⟩ : ∃ g, f = g + 1 := ⟨f - 1, by omega⟩
        rw [parse.eq_3]
        have e2 : (106 : UInt8).toNat = 106 := by decide
        simp [e2, Term.den]


/-! ### a class of payloads whose encoding is proved conformant here -/

/-- payload terms for which this development proves conformance of the encoder itself (the rest is C01's subject):
64-bit integers, big integers, finite floats, atoms, binaries, strings, pids and references, nil, and lists and
tuples (up to 255 elements) of these -/
inductive Basic : Term → Prop where
  | int (v : Int) (h : -9223372036854775808 ≤ v ∧ v ≤ 9223372036854775807) : Basic (.int v)
  | big (neg : Bool) (d : Bytes) (h : d.length < 4294967296) : Basic (.big neg d)
  | atom (a : Bytes) (h : validUtf8 a = true) : Basic (.atom a)
  | pid (p : PidF) (h : PidOk p) : Basic (.pid p)
  | ref (x : RefF) (h : RefOk x) : Basic x.term
  | nil : Basic .nil
  | float (v : Nat) (hv : v < 18446744073709551616) (hfin : v / 2 ^ 52 % 2048 ≠ 2047) : Basic (.float v)
  | bin (b : Bytes) : Basic (.bin b)
  | str (s : Bytes) : Basic (.str s)
  | list (l : List Term) (h : ∀ t ∈ l, Basic t) : Basic (.list l)
  | tuple (l : List Term) (hn : l.length ≤ 255) (h : ∀ t ∈ l, Basic t) : Basic (.tuple l)

theorem reads_basic {cache : List Bytes} {env : Env} (he : EnvFor cache env) (t : Term) (hb : Basic t) :
    ∀ b, enc cache t = .ok b → Reads env b t.den := by
  induction hb with
  | int v h => intro b hb; exact reads_term_int he v h b hb
  | big neg d h =>
    intro b hb
    simp only [enc] at hb
    have : b = encBig neg d := by injection hb with h; exact h.symm
    subst this
    simpa [Term.den] using reads_big env neg d h
  | atom a h => intro b hb; exact reads_term_atom he a h b hb
  | pid p h => intro b hb; exact reads_term_pid he p h b hb
  | ref x h => intro b hb; exact reads_term_ref he x h b hb
  | nil =>
    intro b hb
    simp only [enc] at hb
    have : b = [106] := by injection hb with h; exact h.symm
    subst this
    intro fuel r hf
    obtain ⟨f, rfl⟩ : ∃ f, fuel = f + 1 := ⟨fuel - 1, by simp at hf; omega⟩
    simp only [List.cons_append, List.nil_append]
    rw [parse.eq_3]
    have e : (106 : UInt8).toNat = 106 := by decide
    simp [e, Term.den]
  | float v hv hfin =>
    intro b hb
    simp only [enc] at hb
    have : b = 70 :: be64 v := by injection hb with h; exact h.symm
    subst this
    simpa [Term.den] using reads_float env v hv hfin
  | bin x =>
    intro b hb
    simp only [enc] at hb
    simpa [Term.den] using reads_binary env x b hb
  | str x =>
    intro b hb
    simp only [enc] at hb
    simpa [Term.den] using reads_binary env x b hb
  | list l h ih =>
    intro b hb
    exact reads_list l b hb (fun t ht bt hbt => ih t ht bt hbt)
  | tuple l hn h ih =>
    intro b hb
    exact reads_tuple l b hn hb (fun t ht bt hbt => ih t ht bt hbt)


end Edp.Send
