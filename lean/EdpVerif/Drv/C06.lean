import EdpVerif.Drv.Etf
import EdpVerif.Generated.Control
import EdpVerif.Impl.Recv
import EdpVerif.Spec.Peer
import EdpVerif.Spec.DistHeader
/-!
Driver requests of property C06.

* `c06recv <conn|rh> <oracle> <frames>` — the model (`Recv.recvAll` / `Recv.recvAllRH`) on a frame history; frames are
  `,`-separated hex bodies, `-` = tick (empty body). Prints `r₁/r₂/…` (`-` when nothing was returned).
* `c06oracle <conn|rh> <pt|hdr> <oracle> <frames> <results> <lenient seqs|->` — the reference receiver of Spec/Peer.lean reads the same
  frames by the protocol and judges what the implementation returned (`results`, same text form).
* `c06cache <oracle> <frames>` — after the history, the model's atom cache (`Recv.after`) and the reference receiver's hold
  the same atom in every slot the reference receiver still vouches for (not in `RState.taint`): the theorem's guard
  (`wroteSlots`/`Avoids`) and the oracle's rule for malformed headers describe the same cache.
* `c06form <pt|hdr|frag> …` — the frames the harness' peer sent are the frames Spec/Peer.lean part 1 builds.
* `c06form chist <long;entries;terms;frame>/…` — the header-mode messages the harness' peer sent are a history of the
  conforming sender of Spec/DistHeader.lean (`Conforming`, decided by the instance below) and their frames are
  `131, 68, sendHeader long entries, terms`: the histories the header-mode theorems of Props/C06.lean quantify over.
-/
namespace Edp.Drv
open Edp Edp.Control

def c06tbl : Table := Gen.controlTable

def c06cut (s : String) (n : Nat) : String := (s.take n).toString

def c06frames (s : String) : Except String (List Bytes) :=
  if s == "-" || s == "" then .ok [] else
  (s.splitOn ",").mapM fun w => if w == "-" then .ok [] else getHex w

/-! ### judging one returned result against one expectation -/

/-- a structured message agrees with the control tuple the peer sent (values): the variant implements the operation
with this tag, every field holds the element at the position of its role -/
def c06structured (v : String) (fs : List (String × FVal)) (tag : Nat) (els : List Value) : Option String :=
  match lookup Spec.opOfVariant v with
  | none => some ("unknown-variant " ++ v)
  | some pn =>
    match Spec.findOp pn with
    | none => some ("no-protocol-op " ++ pn)
    | some op =>
      if op.tag != tag then some ("tag " ++ toString tag ++ " returned " ++ pn) else
      match (op.fields :: op.alt).find? (fun l => l.length + 1 == els.length) with
      | none => some ("arity " ++ toString els.length ++ " returned " ++ pn)
      | some layout =>
        if fs.length != layout.length then some "field-count" else
        let bad := fs.filter fun (f, x) =>
          match lookup Spec.roleOfField f with
          | none => true
          | some role =>
            match layout.idxOf? role with
            | none => true
            | some k =>
              match els[k + 1]?, x with
              | some e, .term t => !(Value.same t.den e)
              | some e, .uid n => !(role == Spec.idRole && Value.same e (.int (n : Int)))
              | none, _ => true
        match bad with
        | [] => none
        | (f, _) :: _ => some ("field " ++ f)

def c06control (m : Msg) (ctl : Value) : Option String :=
  match ctl with
  | .tuple (.int tag :: rest) =>
    match m with
    | .generic ty l =>
      -- the protocol table knows no operation of this tag and arity (SPAWN_REQUEST / SPAWN_REQUEST_TT in the protocol's
      -- own arity, which the library does not have as a structured variant, is C08's recorded low-confidence difference
      -- and comes back as `Generic` with every element intact: accepted here)
      let libKnows := match Spec.opOfTagArity tag.toNat (rest.length + 1) with
        | some op => op.alt.isEmpty || op.alt.any (fun l => l.length + 1 == rest.length + 1)
        | none => false
      if libKnows then some "known-operation-returned-as-generic"
      else if (ty : Int) == tag && l.length == rest.length && (l.zip rest).all (fun (a, b) => Value.same a.den b) then none
      else some "generic-fields"
    | .known v fs => c06structured v fs tag.toNat (.int tag :: rest)
  | _ => some "not-a-control-tuple"

/-- `none` = the returned result is what the expectation demands -/
def c06judge (e : Spec.Peer.Expect) (r : String) : Option String :=
  match e, r.splitOn "~" with
  | _, ["panic"] => some "panic"
  | .err, ["err"] => none
  | .err, _ => some ("malformed-frame-accepted " ++ c06cut r 60)
  | .unspecified, _ => none
  | .msg _ _, ["err"] => some "valid-message-rejected"
  | .msg ctl pay, ["ok", m, p] =>
    match Msg.ofText m with
    | none => some "bad-msg-text"
    | some msg =>
      match c06control msg ctl with
      | some why => some ("control " ++ why)
      | none =>
        match pay, p with
        | none, "-" => none
        | some v, "-" => some ("payload-lost " ++ c06cut v.text 40)
        | none, _ => some "payload-invented"
        | some v, t =>
          match Term.ofText t with
          | none => some "bad-payload-text"
          | some pt => if Value.same pt.den v then none else some ("payload-differs sent=" ++ c06cut v.text 60 ++ " got=" ++ c06cut pt.den.text 60)
  | _, _ => some ("bad-result " ++ c06cut r 40)

/-- walk expectations and results together: every `msg`/`err` expectation consumes exactly one result; `nothing` consumes
none; an `unspecified` frame may have produced one result or none, so both alignments are tried -/
partial def c06align : List Spec.Peer.Expect → List String → Option String
  | [], [] => none
  | [], r :: _ => some ("extra-result " ++ c06cut r 60)
  | .nothing :: es, rs => c06align es rs
  | .unspecified :: es, rs =>
    match c06align es rs with
    | none => none
    | some why =>
      match rs with
      | r :: rs' => if r == "panic" then some "panic" else
        match c06align es rs' with
        | none => none
        | some _ => some why
      | [] => some why
  | e :: _, [] => some ("missing-result for " ++ (match e with | .msg c _ => c06cut c.text 60 | _ => "malformed frame"))
  | e :: es, r :: rs =>
    match c06judge e r with
    | some why => some why
    | none => c06align es rs

/-- the sequence id of a fragment frame -/
def c06seq : Bytes → Option Nat
  | 131 :: t :: r => if t == 69 || t == 70 then (rdN 8 r).map (·.1) else none
  | _ => none

def c06oracle (api mode : String) (o : Oracle) (frames : List Bytes) (results : List String) (lenient : List Nat) : String :=
  let inflate := o.env.inflate
  let exps := Spec.Peer.readAll inflate {} frames
  -- sequences the caller does not want judged (the message of a recorded finding): only "later frames intact" is kept
  let exps := (frames.zip exps).map fun (f, e) =>
    match c06seq f, e with
    | some q, .msg c p => if lenient.contains q then Spec.Peer.Expect.unspecified else .msg c p
    | _, e => e
  -- the read-half copy serves connections without DIST_HDR_ATOM_CACHE: anything but pass-through is malformed there;
  -- on a pass-through connection (`pt`) a conforming peer sends no header or fragment frames either
  let exps := if api == "rh" || mode == "pt" then
      (frames.zip exps).map fun (f, e) =>
        match f with
        | [] => e
        | 112 :: _ => e
        | _ => if api == "rh" then Spec.Peer.Expect.err else
          -- `receive_message` on a pass-through connection: header-mode frames are outside what the peer may send
          (match e with | .err => .err | _ => .unspecified)
    else exps
  match c06align exps results with
  | none => "ok"
  | some why => "FAIL " ++ why

def c06finalState (inflate : Bytes → Option (Bytes × Nat)) : Spec.Peer.RState → List Bytes → Spec.Peer.RState
  | s, [] => s
  | s, f :: fs => c06finalState inflate (Spec.Peer.readFrame inflate s f).1 fs

def c06cacheCheck (o : Oracle) (frames : List Bytes) : String :=
  let ms := (Recv.after o.ext c06tbl Recv.St.init (frames.map fun f => (0, f))).cache.slots
  let os := c06finalState o.env.inflate {} frames
  let keys := (ms.map (·.1) ++ os.cache.map (·.1)).eraseDups
  let bad := keys.filter fun k => !os.taint.contains k && (ms.lookup k).bind utf8Decode != os.cache.lookup k
  match bad with
  | [] => "ok"
  | k :: _ => s!"FAIL cache slot ({k.1},{k.2}) differs between the model and the reference receiver"

def c06wire (ctl pay : String) : Except String Spec.Peer.Wire := do
  let c ← getHex ctl
  let p ← if pay == "-" then pure none else (getHex pay).map some
  pure { ctl := c, pay := p }

def c06atoms (s : String) : Except String (List Bytes) :=
  if s == "-" then .ok [] else (s.splitOn ",").mapM fun w => if w == "." then .ok [] else getHex w

def c06nats (s : String) : List Nat :=
  if s == "-" then [] else (s.splitOn ",").map String.toNat!

/-- `Spec.DistHeader.Conforming` is decidable (the driver evaluates the very predicate the theorems assume) -/
def c06decConforming (long : Bool) : (s : Spec.DistHeader.Slots) → (es : List Spec.DistHeader.Entry) →
    Decidable (Spec.DistHeader.Conforming long s es)
  | _, [] => isTrue trivial
  | s, e :: r =>
    have : Decidable (Spec.DistHeader.Conforming long (Spec.DistHeader.upd s e) r) := c06decConforming long _ r
    by unfold Spec.DistHeader.Conforming; exact inferInstance

instance (long : Bool) (s : Spec.DistHeader.Slots) (es : List Spec.DistHeader.Entry) :
    Decidable (Spec.DistHeader.Conforming long s es) := c06decConforming long s es

def c06entry (w : String) : Except String Spec.DistHeader.Entry :=
  match w.splitOn ":" with
  | [a, seg, idx, n] => do
    let atom ← if a == "." then pure [] else getHex a
    pure { atom := atom, seg := seg.toNat!, idx := idx.toNat!, new := n == "n" }
  | _ => .error "bad entry"

/-- the sender's cache, message by message -/
def c06chist : Nat → Spec.DistHeader.Slots → List String → Except String String
  | _, _, [] => .ok "ok"
  | k, s, m :: ms =>
    match m.splitOn ";" with
    | [long, ents, terms, frame] => do
      let es ← if ents == "-" then pure [] else (ents.splitOn ",").mapM c06entry
      let t ← if terms == "-" then pure [] else getHex terms
      let f ← getHex frame
      let lg := long == "1"
      if es.length > 255 then pure s!"FAIL message {k}: more than 255 references"
      else if !decide (Spec.DistHeader.Conforming lg s es) then pure s!"FAIL message {k}: not a conforming sender's header"
      else if !es.all (fun e => validUtf8 e.atom) then pure s!"FAIL message {k}: atom text not UTF-8"
      else if 131 :: 68 :: (Spec.DistHeader.sendHeader lg es ++ t) != f then pure s!"FAIL message {k}: frame differs from sendHeader"
      else c06chist (k + 1) (Spec.DistHeader.sendSlots s es) ms
    | _ => .error "bad message"

def handleC06 : List String → Option String
  | ["c06recv", api, o, fr] => some <| run do
    let frames ← c06frames fr
    let x := (parseOracle o).ext
    if api == "rh" then pure (Recv.resultsText (Recv.recvAllRH x c06tbl frames))
    -- every frame of a harness history is read within a few seconds of the first: far inside the 30 s fragment timeout,
    -- so the logical clock stands still
    else pure (Recv.resultsText (Recv.recvAll x c06tbl Recv.St.init (frames.map fun f => (0, f))))
  | ["c06oracle", api, mode, o, fr, res, len] => some <| run do
    let frames ← c06frames fr
    let results := if res == "-" then [] else res.splitOn "/"
    pure (c06oracle api mode (parseOracle o) frames results (c06nats len))
  | ["c06cache", o, fr] => some <| run do
    let frames ← c06frames fr
    pure (c06cacheCheck (parseOracle o) frames)
  | ["c06form", "chist", h] => some <| run do
    if h == "-" then pure "ok" else c06chist 1 [] (h.splitOn "/")
  | ["c06form", "pt", ctl, pay, fr] => some <| run do
    let w ← c06wire ctl pay
    let f ← getHex fr
    pure (if Spec.Peer.passThrough w == f then "ok" else "FAIL pass-through-frame")
  | ["c06form", "hdr", atoms, segs, long, ctl, pay, fr] => some <| run do
    let w ← c06wire ctl pay
    let a ← c06atoms atoms
    let f ← getHex fr
    let hdr := Spec.Peer.headerBytes (Spec.Peer.positional (c06nats segs) a) (long == "1")
    pure (if Spec.Peer.withHeader hdr w == f then "ok" else "FAIL header-frame")
  | ["c06form", "frag", seq, lens, atoms, segs, long, ctl, pay, fr] => some <| run do
    let w ← c06wire ctl pay
    let a ← c06atoms atoms
    let fs ← c06frames fr
    let hdr := Spec.Peer.headerBytes (Spec.Peer.positional (c06nats segs) a) (long == "1")
    pure (if Spec.Peer.fragmented seq.toNat! hdr w (c06nats lens) == fs then "ok" else "FAIL fragment-frames")
  | _ => none

end Edp.Drv
