import EdpVerif.Impl.Decode
/-! A parser of the term decoder's family never reports trailing data: that is the finding of the top-level entry points
only (`decode`, `decode_borrowed`).  Same shape as Lemmas/DecNoPanic.lean.  Used by C13 (`C13_trailing_offset`). -/
namespace Edp

theorem rdU_ne_trailing (k : Nat) (j : Nat) (bs : Bytes) : rdU j bs ≠ .error (.trailing k) := by
  unfold rdU; split <;> simp

theorem takeE_ne_trailing (k : Nat) (j : Nat) (bs : Bytes) : takeE j bs ≠ .error (.trailing k) := by
  unfold takeE; split <;> simp

theorem decAtomBody_ne_trailing (k : Nat) (j : Nat) (bs : Bytes) : decAtomBody j bs ≠ .error (.trailing k) := by
  unfold decAtomBody
  split
  · rename_i e he; intro h; simp at h; subst h; exact rdU_ne_trailing k _ _ he
  · split
    · simp
    · split
      · rename_i e he; intro h; simp at h; subst h; exact takeE_ne_trailing k _ _ he
      · split <;> simp

theorem decLatin1Body_ne_trailing (k : Nat) (j : Nat) (bs : Bytes) : decLatin1Body j bs ≠ .error (.trailing k) := by
  unfold decLatin1Body
  split
  · rename_i e he; intro h; simp at h; subst h; exact rdU_ne_trailing k _ _ he
  · split
    · simp
    · split
      · rename_i e he; intro h; simp at h; subst h; exact takeE_ne_trailing k _ _ he
      · simp

theorem decBig_ne_trailing (k : Nat) (j : Nat) (bs : Bytes) : decBig j bs ≠ .error (.trailing k) := by
  unfold decBig
  split
  · rename_i e he; intro h; simp at h; subst h; exact rdU_ne_trailing k _ _ he
  · split
    · rename_i e he; intro h; simp at h; subst h; exact rdU_ne_trailing k _ _ he
    · split
      · rename_i e he; intro h; simp at h; subst h; exact takeE_ne_trailing k _ _ he
      · simp

theorem rdWords_ne_trailing (k : Nat) : ∀ (n : Nat) (bs : Bytes), rdWords n bs ≠ .error (.trailing k) := by
  intro n
  induction n with
  | zero => intro bs; simp [rdWords]
  | succ n ih =>
    intro bs
    unfold rdWords
    split
    · rename_i e he; intro h; simp at h; subst h; exact rdU_ne_trailing k _ _ he
    · split
      · rename_i e he; intro h; simp at h; subst h; exact ih _ he
      · simp

set_option hygiene false in
macro "ntstep" : tactic => `(tactic| (
  split at h <;> (first
    | (simp at h; done)
    | (rename_i heq; simp at h; subst h; first
        | exact absurd heq (rdU_ne_trailing k _ _)
        | exact absurd heq (takeE_ne_trailing k _ _)
        | exact absurd heq (rdWords_ne_trailing k _ _)
        | exact absurd heq (ih1 _ _)
        | exact absurd heq (ih2 _ _ _)
        | exact absurd heq (ih3 _ _ _ _))
    | skip)))

set_option maxHeartbeats 4000000 in
theorem dec_ne_trailing (x : Ext) (cfg : DecCfg) (k : Nat) : ∀ (fuel : Nat),
    (∀ d bs, dec x cfg fuel d bs ≠ .error (.trailing k)) ∧
    (∀ d n bs, decN x cfg fuel d n bs ≠ .error (.trailing k)) ∧
    (∀ d n bs m, decKV x cfg fuel d n bs m ≠ .error (.trailing k)) := by
  intro fuel
  induction fuel with
  | zero =>
    refine ⟨?_, ?_, ?_⟩
    · intro d bs; simp [dec]
    · intro d n bs; cases n <;> simp [decN]
    · intro d n bs m; cases n <;> simp [decKV]
  | succ f ih =>
    obtain ⟨ih1, ih2, ih3⟩ := ih
    refine ⟨?_, ?_, ?_⟩
    · intro d bs h
      cases bs with
      | nil => simp [dec] at h
      | cons t bs =>
        simp only [dec] at h
        split at h
        · simp at h
        · split at h
          · simp at h
          · split at h
            all_goals (first
              | exact absurd h (decAtomBody_ne_trailing k _ _)
              | exact absurd h (decLatin1Body_ne_trailing k _ _)
              | exact absurd h (decBig_ne_trailing k _ _)
              | (simp at h; done)
              | skip)
            all_goals (repeat ntstep)
    · intro d n bs h
      cases n with
      | zero => simp [decN] at h
      | succ n =>
        simp only [decN] at h
        ntstep
        ntstep
    · intro d n bs m h
      cases n with
      | zero => simp [decKV] at h
      | succ n =>
        simp only [decKV] at h
        ntstep
        ntstep
        exact ih3 _ _ _ _ h


end Edp
