import EdpVerif.Drv.All
import EdpVerif.Props.All
