import EdpVerif.Generated.Tags
import EdpVerif.Impl.Decode
/-
Translator obligations: the literals used in the hand-written model are the constants that
`tools/gen_tables.py` re-extracts from /repo's tags.rs and decoder.rs on every run.
A change of a tag byte, of a size cap, or of a decoder's dispatch set breaks one of these.
-/
namespace Edp
open Gen

theorem tags_tie :
    [VERSION, ATOM_EXT, SMALL_ATOM_EXT, ATOM_UTF8_EXT, SMALL_ATOM_UTF8_EXT, ATOM_CACHE_REF, SMALL_INTEGER_EXT,
     INTEGER_EXT, SMALL_BIG_EXT, LARGE_BIG_EXT, FLOAT_EXT, NEW_FLOAT_EXT, SMALL_TUPLE_EXT, LARGE_TUPLE_EXT, NIL_EXT,
     STRING_EXT, LIST_EXT, MAP_EXT, BINARY_EXT, BIT_BINARY_EXT, REFERENCE_EXT, PORT_EXT, PID_EXT, NEW_REFERENCE_EXT,
     NEW_PID_EXT, NEWER_REFERENCE_EXT, V4_PORT_EXT, NEW_PORT_EXT, LOCAL_EXT, NEW_FUN_EXT, EXPORT_EXT, DIST_HEADER, DIST_FRAG_HEADER,
     COMPRESSED_EXT]
    = [131, 100, 115, 118, 119, 82, 97, 98, 110, 111, 99, 70, 104, 105, 106, 107, 108, 116, 109, 77, 101, 102, 103,
       114, 88, 90, 120, 89, 121, 112, 113, 68, 69, 80] := by decide

theorem limits_tie :
    [Gen.MAX_ATOM_SIZE, Gen.MAX_LIST_SIZE, Gen.MAX_TUPLE_SIZE, Gen.MAX_MAP_SIZE, Gen.MAX_BINARY_SIZE, Gen.MAX_NESTING_DEPTH]
    = [Edp.MAX_ATOM_SIZE, Edp.MAX_LIST_SIZE, Edp.MAX_TUPLE_SIZE, Edp.MAX_MAP_SIZE, Edp.MAX_BINARY_SIZE, Edp.MAX_NESTING_DEPTH] := by decide

/-- the model's owned decoder dispatches on exactly the tags the Rust owned decoder does (68 = DIST_HEADER is
listed there only to be rejected) -/
def modelOwnedTags : List Nat :=
  [97, 98, 99, 70, 100, 118, 119, 115, 104, 105, 106, 107, 108, 109, 77, 110, 111, 116, 88, 90, 120, 89, 113, 112, 80,
   101, 102, 103, 114, 121, 82]

theorem owned_dispatch_tie : ∀ t, t ∈ ownedTags ↔ (t ∈ modelOwnedTags ∨ t = 68) := by
  intro t; simp [ownedTags, modelOwnedTags]; omega

theorem borrowed_dispatch_tie : ∀ t, t ∈ borrowedTags ↔ (t ∈ modelOwnedTags ∧ t ∉ ownedOnlyTags) := by
  intro t; simp [borrowedTags, modelOwnedTags, ownedOnlyTags]; omega

end Edp
