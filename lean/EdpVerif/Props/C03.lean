import EdpVerif.Impl.Decode
import EdpVerif.Impl.Den
import EdpVerif.Spec.Etf
import EdpVerif.Lemmas.Codec
/-
C03 — every valid external encoding of a value decodes to exactly that value.
Oracle: `Spec.parseTop` (Spec/Etf.lean), an independent reader of the format that knows every tag and width.
-/
namespace Edp.Props.C03
open Edp

/-- bytes remaining after one complete term are reported as an error carrying their number — never ignored:
for every input, every atom cache, every behaviour of the external calls -/
theorem C03_trailing_reported (x : Ext) (cfg : DecCfg) (r : Bytes) (t : Term) (rest : Bytes)
    (h : dec x cfg (r.length + 1 + x.extra) 0 r = .ok (t, rest)) (hne : rest ≠ []) :
    decodeWith x cfg (131 :: r) = .error (.trailing rest.length) := by
  unfold decodeWith
  cases rest with
  | nil => exact absurd rfl hne
  | cons a b => simp [h]

example : dec Ext.none {} 3 0 [106, 7] = .ok (.nil, [7]) := by simp [dec, ownedOnlyTags, MAX_NESTING_DEPTH]

/-- and a term is returned only when nothing remains -/
theorem C03_ok_consumes_everything (x : Ext) (cfg : DecCfg) (bs : Bytes) (t : Term)
    (h : decodeWith x cfg bs = .ok t) :
    ∃ r, bs = 131 :: r ∧ dec x cfg (r.length + 1 + x.extra) 0 r = .ok (t, []) := by
  unfold decodeWith at h
  cases bs with
  | nil => simp at h
  | cons v r =>
    by_cases hv : v != 131
    · simp [hv] at h
    · simp only [hv, Bool.false_eq_true, ↓reduceIte] at h
      have hv' : v = 131 := by simpa using hv
      refine ⟨r, by rw [hv'], ?_⟩
      split at h
      · simp at h
      · rename_i t' heq; simp at h; rw [heq, h]
      · simp at h

/-- Latin-1 atom text (ATOM_EXT / SMALL_ATOM_EXT): the characters the library stores are exactly the bytes received,
one character per byte — for every byte string -/
theorem C03_latin1_atom_chars (b : Bytes) : utf8Decode (latin1ToUtf8 b) = some (Spec.latin1 b) := by
  unfold latin1ToUtf8 utf8Encode Spec.latin1
  induction b with
  | nil => simp [utf8Decode]
  | cons c cs ih =>
    simp only [List.map_cons, List.flatMap_cons]
    have hc : c.toNat < 256 := c.toNat_lt
    by_cases h1 : c.toNat < 128
    · simp only [utf8EncodeCp, h1, ↓reduceIte, List.cons_append, List.nil_append]
      have : (UInt8.ofNat c.toNat) = c := by simp
      rw [this, utf8Decode.eq_def]
      simp [h1, ih]
    · have h2 : c.toNat < 2048 := by omega
      simp only [utf8EncodeCp, h1, h2, ↓reduceIte, List.cons_append, List.nil_append]
      have e1 : (UInt8.ofNat (192 + c.toNat / 64)).toNat = 192 + c.toNat / 64 := by
        simp; omega
      have e2 : (UInt8.ofNat (128 + c.toNat % 64)).toNat = 128 + c.toNat % 64 := by
        simp; omega
      have n1 : ¬ 192 + c.toNat / 64 < 128 := by omega
      have n2 : 194 ≤ 192 + c.toNat / 64 ∧ 192 + c.toNat / 64 ≤ 223 := by omega
      have n3 : (128 + c.toNat % 64) / 64 = 2 := by omega
      rw [utf8Decode.eq_def]
      simp only [e1, e2, isCont]
      rw [if_neg n1, if_pos n2, n3, ih]
      have n4 : (192 + c.toNat / 64) % 32 * 64 + (128 + c.toNat % 64) % 64 = c.toNat := by omega
      simp
      omega

end Edp.Props.C03
