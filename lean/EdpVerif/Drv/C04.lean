import EdpVerif.Drv.Common
import EdpVerif.Drv.Etf
import EdpVerif.Impl.Handshake
import EdpVerif.Spec.Handshake
import EdpVerif.Basic.Md5
/-! Driver requests of property C04 (handshake state machine and message codecs).

Op tokens: `B` begin_connect, `N` prepare_send_name, `S:<hex>` handle_status, `C` prepare_complement,
`H:<hex>:<chal>` handle_challenge (chal = the clock-derived challenge read back from the implementation),
`R` prepare_challenge_reply, `A:<hex>` handle_challenge_ack, `D` disconnect.
Observation per op: `<out>@<state>#<negotiated>` with out = `ok` | `ok:<hex>` | `e-<class>` | `panic`. -/
namespace Edp.Drv
open Edp
open Edp.Spec.Handshake (Op)

namespace C04
open Edp.Impl.Handshake

def getNat (s : String) : Except String Nat :=
  match s.toNat? with
  | some n => .ok n
  | none => .error ("bad-nat " ++ s)

def parseOp (t : String) : Except String Op :=
  match t.splitOn ":" with
  | ["B"] => pure .beginConnect
  | ["N"] => pure .prepareSendName
  | ["C"] => pure .prepareComplement
  | ["R"] => pure .prepareChallengeReply
  | ["D"] => pure .disconnect
  | ["S", h] => do pure (.handleStatus (← getHex h))
  | ["A", h] => do pure (.handleChallengeAck (← getHex h))
  | ["H", h, c] => do pure (.handleChallenge (← getHex h) (← getNat c))
  | _ => .error ("bad-op-token " ++ t.take 20)

/-- the fixed peer challenge message of the exhaustive stream: flags 0xd07df7fbd, challenge 0x01020304, creation 3, "p@h" -/
def fixedChallenge : Bytes :=
  [78] ++ be64 0xd07df7fbd ++ be32 0x01020304 ++ be32 3 ++ be16 3 ++ [112, 64, 104]

/-- what a peer that knows `cookie` answers to challenge `c` (Spec layout without the length) -/
def peerAck (cookie : Bytes) (c : Nat) : Bytes := [97] ++ Spec.Handshake.digest cookie c

def flipLast (bs : Bytes) : Bytes :=
  match bs.reverse with
  | [] => []
  | b :: r => (UInt8.ofNat (b.toNat ^^^ 1) :: r).reverse

/-- tokens of the exhaustive stream: the fixed letters are symbolic (`So Sn Hv:<chal> Ht Av:<c> Aw:<c> At:<c>`) -/
def parseOpC (cookie : Bytes) (t : String) : Except String Op :=
  match t.splitOn ":" with
  | ["So"] => pure (.handleStatus [115, 111, 107])
  | ["Sn"] => pure (.handleStatus [115, 110, 111, 107])
  | ["Hv", c] => do pure (.handleChallenge fixedChallenge (← getNat c))
  | ["Ht", c] => do pure (.handleChallenge (fixedChallenge.take 18) (← getNat c))
  | ["Av", c] => do pure (.handleChallengeAck (peerAck cookie (← getNat c)))
  | ["Aw", c] => do pure (.handleChallengeAck (flipLast (peerAck cookie (← getNat c))))
  | ["At", c] => do pure (.handleChallengeAck ((peerAck cookie (← getNat c)).take 16))
  | _ => parseOp t

def stateName : ConnState → String
  | .disconnected => "disconnected"
  | .connecting => "connecting"
  | .sendingName => "sending_name"
  | .awaitingStatus => "awaiting_status"
  | .awaitingChallenge => "awaiting_challenge"
  | .sendingChallengeReply => "sending_challenge_reply"
  | .awaitingChallengeAck => "awaiting_challenge_ack"
  | .connected => "connected"
  | .failed => "failed"

def errName : Err → String
  | .invalidTransition => "e-state"
  | .nameTooLong => "e-name"
  | .malformed => "e-malformed"
  | .refused => "e-refused"
  | .auth => "e-auth"
  | .stateMsg => "e-state"

/-- FNV-1a, 32 bit (compact stand-in for emitted bytes in the exhaustive stream) -/
def fnv32 (bs : Bytes) : Nat :=
  bs.foldl (fun h b => ((h ^^^ b.toNat) * 16777619) % 4294967296) 2166136261

def hex8 (n : Nat) : String := hexOf (be32 n)

def outText : Out → String
  | .unit => "ok"
  | .bytes b => "ok:" ++ hexOf b
  | .err e => errName e
  | .panic => "panic"

def negText : Option Nat → String
  | none => "-"
  | some n => toString n

def stateIdx : ConnState → String
  | .disconnected => "0"
  | .connecting => "1"
  | .sendingName => "2"
  | .awaitingStatus => "3"
  | .awaitingChallenge => "4"
  | .sendingChallengeReply => "5"
  | .awaitingChallengeAck => "6"
  | .connected => "7"
  | .failed => "8"

def hexNat (n : Nat) : String := String.ofList (Nat.toDigits 16 n)

def obsText (compact : Bool) (o : Out) (s : State) : String :=
  if compact then
    (match o with
      | .unit => "k"
      | .bytes b => "k:" ++ hex8 (fnv32 b)
      | .err e => errName e
      | .panic => "panic") ++ "@" ++ stateIdx s.state ++ "#" ++ (match s.neg with | none => "-" | some n => hexNat n)
  else outText o ++ "@" ++ stateName s.state ++ "#" ++ negText s.neg

def dgMd5 (cookie : Bytes) (c : Nat) : Bytes := Spec.Handshake.digest cookie c

/-- run the model over an op list, one observation per op -/
def observe (compact : Bool) (cfg : Cfg) : State → List Op → List String
  | _, [] => []
  | s, op :: rest =>
    let (s', o) := step cfg dgMd5 s op
    obsText compact o s' :: observe compact cfg s' rest

def getCfg (n c f cr : String) : Except String Cfg := do
  pure { name := ← getHex n, cookie := ← getHex c, flags := ← getNat f, creation := ← getNat cr }

def showD {α : Type} (f : α → String) : HRes α → String
  | .ok a => "ok " ++ f a
  | .err e => errName e
  | .panic => "panic"

/-! #### the Spec oracle on an observed trace (uses `Spec.Handshake` only, never `Impl.step`) -/

structure Obs where
  op : Op
  out : String
  state : String
  neg : String

def parseObs (t : String) : Except String Obs :=
  match t.splitOn ">" with
  | [o, r] =>
    match r.splitOn "@" with
    | [out, sn] =>
      match sn.splitOn "#" with
      | [st, ng] => do pure { op := ← parseOp o, out := out, state := st, neg := ng }
      | _ => .error "bad-obs"
    | _ => .error "bad-obs"
  | _ => .error "bad-obs"

def isErrOut (s : String) : Bool := s.startsWith "e-"

open Edp.Spec.Handshake (Phase Conn Side Resp connStep) in
/-- the state names the implementation may show while the protocol automaton is in a phase -/
def phaseStates : Phase → List String
  | .idle => ["disconnected"]
  | .begun => ["connecting"]
  | .nameSent => ["awaiting_status"]
  | .accepted => ["awaiting_challenge"]
  | .challenged _ _ => ["sending_challenge_reply"]
  | .replied _ => ["awaiting_challenge_ack"]
  | .established => ["connected"]
  | .dead => ["failed", "sending_name"]

open Edp.Spec.Handshake (Phase Conn Side Resp connStep) in
/-- check one observed step against the protocol automaton of the connecting side (`Spec.Handshake.connStep`, digest =
MD5 implemented in Lean); `h` = the automaton before the call, `before` = the implementation's state name before it -/
def checkStep (p : Side) (h : Conn) (before : String) (o : Obs) : Except String Conn :=
  let (h', r) := connStep p Spec.Handshake.digest h o.op
  if o.out == "panic" then .error "panic"
  else
    -- stated independently of the automaton: connected is entered only by a successful ack carrying the digest of the
    -- cookie and the challenge issued while the reply was outstanding; an error result never enters connected
    let entered := o.state == "connected" && before != "connected"
    let justified : Bool :=
      match o.op, h.phase with
      | .handleChallengeAck b, .replied c =>
        Spec.Handshake.parseAck b == some (Spec.Handshake.digest p.cookie c) && o.out == "ok"
      | _, _ => false
    if entered && !justified then .error "connected-without-proof"
    else if isErrOut o.out && entered then .error "error-yet-connected"
    else if !(phaseStates h'.phase).contains o.state then
      .error ("state impl=" ++ o.state ++ " protocol=" ++ " ".intercalate (phaseStates h'.phase))
    else if o.neg != negText h'.neg && h'.phase != .dead then
      .error ("negotiated-flags spec=" ++ negText h'.neg ++ " impl=" ++ o.neg)
    else
      match r with
      | .ok => if o.out == "ok" then .ok h' else .error ("expected success, got " ++ o.out.take 24)
      | .sent b => if o.out == "ok:" ++ hexOf b then .ok h' else .error ("emitted bytes differ from the protocol layout: " ++ o.out.take 60)
      | .error => if isErrOut o.out then .ok h' else .error ("expected an error, got " ++ o.out.take 24)

def checkTrace (p : Spec.Handshake.Side) : Spec.Handshake.Conn → String → List Obs → Nat → Option String
  | _, _, [], _ => none
  | h, before, o :: rest, i =>
    match checkStep p h before o with
    | .error why => some ("step " ++ toString i ++ " " ++ why)
    | .ok h' => checkTrace p h' o.state rest (i + 1)

end C04

open C04 Edp.Impl.Handshake in
def handleC04 : List String → Option String
  | "c04run" :: n :: c :: f :: cr :: ops => some <| run do
      let cfg ← getCfg n c f cr
      let ops ← ops.mapM parseOp
      pure (" ".intercalate (observe false cfg State.init ops))
  | "c04x" :: n :: c :: f :: cr :: ops => some <| run do
      let cfg ← getCfg n c f cr
      let ops ← ops.mapM (parseOpC cfg.cookie)
      pure (" ".intercalate (observe true cfg State.init ops))
  -- Spec oracle over an observed trace of the implementation
  | "c04chk" :: n :: c :: f :: cr :: obs => some <| run do
      let cfg ← getCfg n c f cr
      let obs ← obs.mapM parseObs
      match checkTrace ⟨cfg.name, cfg.cookie, cfg.flags, cfg.creation⟩ Spec.Handshake.Conn.empty "disconnected" obs 0 with
      | none => pure "ok"
      | some why => pure ("FAIL " ++ why)
  -- message codecs (model vs code)
  | ["c04enc_name", f, cr, n] => some <| run do
      pure (showD hexOf (encodeSendName ⟨← getNat f, ← getNat cr, ← getHex n⟩))
  | ["c04enc_name_old", f, cr, n] => some <| run do
      pure (showD hexOf (encodeSendNameOld ⟨← getNat f, ← getNat cr, ← getHex n⟩))
  | ["c04dec_name", h] => some <| run do
      pure (showD (fun (m : NameMsg) => s!"{m.flags} {m.creation} {hexOf m.name}") (decodeSendName (← getHex h)))
  | ["c04enc_status", k] => some <| run do
      let st ← match k with
        | "ok" => pure Status.ok | "ok_simultaneous" => pure Status.okSimultaneous | "nok" => pure Status.nok
        | "not_allowed" => pure Status.notAllowed | "alive" => pure Status.alive | _ => .error "bad-status"
      pure ("ok " ++ hexOf (encodeStatus st))
  | ["c04dec_status", h] => some <| run do
      pure (showD (fun (s : Status) => match s with
        | .ok => "ok" | .okSimultaneous => "ok_simultaneous" | .nok => "nok" | .notAllowed => "not_allowed" | .alive => "alive")
        (decodeStatus (← getHex h)))
  | ["c04enc_chal", f, ch, cr, n] => some <| run do
      pure (showD hexOf (encodeChallenge ⟨← getNat f, ← getNat ch, ← getNat cr, ← getHex n⟩))
  | ["c04dec_chal", h] => some <| run do
      pure (showD (fun (m : ChallengeMsg) => s!"{m.flags} {m.challenge} {m.creation} {hexOf m.name}") (decodeChallenge (← getHex h)))
  | ["c04enc_reply", our, their, c] => some <| run do
      pure ("ok " ++ hexOf (encodeReply (← getNat our) (dgMd5 (← getHex c) (← getNat their))))
  | ["c04dec_reply", h] => some <| run do
      pure (showD (fun (p : Nat × Bytes) => s!"{p.1} {hexOf p.2}") (decodeReply (← getHex h)))
  | ["c04enc_ack", ch, c] => some <| run do
      pure ("ok " ++ hexOf (encodeAck (dgMd5 (← getHex c) (← getNat ch))))
  | ["c04dec_ack", h] => some <| run do
      pure (showD hexOf (decodeAck (← getHex h)))
  -- `verify`: does this digest prove knowledge of the cookie for this challenge
  | ["c04verify", d, ch, c] => some <| run do
      pure (if (← getHex d) == dgMd5 (← getHex c) (← getNat ch) then "true" else "false")
  -- digest::compute_digest against the native MD5
  | ["c04digest", ch, c] => some <| run do
      pure (hexOf (dgMd5 (← getHex c) (← getNat ch)))
  -- Spec oracles on single messages produced by the implementation's encoders
  | ["c04p_name_new", f, cr, n, h] => some <| run do
      let name ← getHex n
      pure (if (← getHex h) == Spec.Handshake.sendNameNew (← getNat f) (← getNat cr) name then "ok" else "FAIL layout")
  | ["c04p_chal", f, ch, cr, n, h] => some <| run do
      let name ← getHex n
      pure (if (← getHex h) == Spec.Handshake.challenge (← getNat f) (← getNat ch) (← getNat cr) name then "ok" else "FAIL layout")
  | ["c04p_ack", ch, c, h] => some <| run do
      pure (if (← getHex h) == Spec.Handshake.ack (dgMd5 (← getHex c) (← getNat ch)) then "ok" else "FAIL layout")
  | ["c04p_status", txt, h] => some <| run do
      let t ← getHex txt
      let m ← getHex h
      pure (if m == Spec.Handshake.status t && (Spec.Handshake.parseStatus (m.drop 2)).isSome then "ok" else "FAIL layout")
  -- capability flags: the regenerated table against the compiled constants (tie), and against the protocol (oracle)
  | ["c04flagconst", name] => some (match flagConst name with | some v => toString v | none => "unknown")
  | ["c04flagset", name] => some (match name with
      | "MANDATORY_OTP26" => toString flagMandatory
      | "DEFAULT" => toString flagDefault
      | "DEFAULT_HIDDEN" => toString flagDefaultHidden
      | _ => "unknown")
  | ["c04flagnames"] => some (" ".intercalate (Gen.DIST_FLAGS.map (·.1)))
  | ["c04p_flagbit", name, v] => some (match Spec.Handshake.protocolFlag name with
      | some w => if toString w == v then "ok" else "FAIL protocol=" ++ toString w
      | none => "FAIL not-a-protocol-capability")
  | _ => none

end Edp.Drv
