import EdpVerif.Impl.RegistryLocks
import EdpVerif.Lemmas.Procs
/-
C18 — the registry at lock granularity: the inductive invariant of the small-step model of Impl/RegistryLocks.lean for the
programs the source has (`srcProgs`), over every schedule of any number of tasks, and the refinement to the atomic operations.
-/
namespace Edp.Impl.RegistryLocks
open Edp.Impl.Procs

/-- the programs the events of registry.rs are read as (Props/C18.lean shows `progsOf Gen.… = some srcProgs` by evaluation) -/
def srcProgs : Progs :=
  ⟨[.acqNames, .checkLive, .claim], [.dropPid, .sweep], [.delName], [.lookup]⟩

/-- the seeded order: the liveness check in front of the names lock -/
def checkFirstProgs : Progs :=
  ⟨[.checkLive, .acqNames, .claim], [.dropPid, .sweep], [.delName], [.lookup]⟩

/-- what can be left of a function of `srcProgs` -/
def shapes : List (List Instr) :=
  [[], [.acqNames, .checkLive, .claim], [.checkLive, .claim], [.claim], [.dropPid, .sweep], [.sweep], [.delName], [.lookup], [.insPid]]

/-- the owner of a name / of a claim in progress is in `by_pid`, or its `remove` is between drop and sweep -/
def Owned (st : St) (p : Pid) : Prop := p ∈ st.reg.byPid ∨ Pend st.tasks p

structure LockInv (st : St) : Prop where
  shape : ∀ t, (st.tasks t).code ∈ shapes
  /-- exactly the task that is between the acquisition and the claim holds the names -/
  held : ∀ t, st.holder = some t ↔ ((st.tasks t).code = [.checkLive, .claim] ∨ (st.tasks t).code = [.claim])
  owned : ∀ n p, (n, p) ∈ st.reg.byName → Owned st p
  /-- a claim that found its process is for a process that is still there or whose `remove` has not swept yet: the sweep
  cannot run before the claim, it waits for the names -/
  claiming : ∀ t, (st.tasks t).code = [.claim] → (st.tasks t).live = true → Owned st (st.tasks t).pid
  uniq : (st.reg.byName.map (·.1)).Nodup

theorem pend_upd_of_code {ts : Tid → Task} {t : Tid} {k : Task} {p : Pid} (h : Pend ts p) (hc : (ts t).code ≠ [.sweep]) :
    Pend (upd ts t k) p := by
  obtain ⟨w, hw, hp⟩ := h
  refine ⟨w, ?_⟩
  have : w ≠ t := by intro e; subst e; exact hc hw
  simp [upd, this, hw, hp]

theorem pend_upd_of_pid {ts : Tid → Task} {t : Tid} {k : Task} {p : Pid} (h : Pend ts p) (hc : (ts t).pid ≠ p) :
    Pend (upd ts t k) p := by
  obtain ⟨w, hw, hp⟩ := h
  refine ⟨w, ?_⟩
  have : w ≠ t := by intro e; subst e; exact hc hp
  simp [upd, this, hw, hp]

theorem pend_upd_self {ts : Tid → Task} {t : Tid} {k : Task} (hc : k.code = [.sweep]) : Pend (upd ts t k) k.pid :=
  ⟨t, by simp [upd, hc]⟩

theorem claimRes_mem {live : Bool} {n : Name} {p : Pid} {names : List (Name × Pid)} {e : Name × Pid}
    (h : e ∈ (claimRes live n p names).1) : e ∈ names ∨ (e = (n, p) ∧ live = true ∧ nameFind n names = none) := by
  unfold claimRes at h
  cases live with
  | false => simp at h; exact Or.inl h
  | true =>
    cases hf : nameFind n names with
    | some q => simp [hf] at h; exact Or.inl h
    | none =>
      simp [hf] at h
      rcases h with h | h
      · exact Or.inl h
      · exact Or.inr ⟨h, rfl, rfl⟩

theorem claimRes_nodup {live : Bool} {n : Name} {p : Pid} {names : List (Name × Pid)} (h : (names.map (·.1)).Nodup) :
    (((claimRes live n p names).1).map (·.1)).Nodup := by
  unfold claimRes
  cases live with
  | false => simpa using h
  | true =>
    cases hf : nameFind n names with
    | some q => simpa [hf] using h
    | none =>
      simp only [if_true, List.map_append, List.map_cons, List.map_nil]
      refine List.nodup_append.mpr ⟨h, by simp, ?_⟩
      intro a ha b hb
      simp only [List.mem_singleton] at hb
      subst hb
      intro hab; subst hab
      exact (nameFind_none_iff.mp hf) ha

theorem unregister_names_sub (r : Reg) (n : Name) : ∀ e, e ∈ (r.unregister n).1.byName → e ∈ r.byName := by
  intro e h
  unfold Reg.unregister at h
  cases hf : nameFind n r.byName with
  | none => simpa [hf] using h
  | some q => simp [hf] at h; exact h.1

theorem unregister_byPid (r : Reg) (n : Name) : (r.unregister n).1.byPid = r.byPid := by
  unfold Reg.unregister
  cases hf : nameFind n r.byName <;> simp

theorem unregister_nodup (r : Reg) (n : Name) (h : (r.byName.map (·.1)).Nodup) : ((r.unregister n).1.byName.map (·.1)).Nodup := by
  unfold Reg.unregister
  cases hf : nameFind n r.byName with
  | none => simpa using h
  | some q => simp only []; exact nodup_keys_filter _ h

theorem lockInv_step {st st' : St} {t : Tid} (hi : LockInv st) (h : step st t = some st') : LockInv st' := by
  have hs := hi.shape t
  have hheld := hi.held
  simp only [shapes, List.mem_cons, List.not_mem_nil, or_false] at hs
  rcases hs with hc | hc | hc | hc | hc | hc | hc | hc | hc
  · simp [step, hc] at h
  · -- acquire
    cases hh : st.holder with
    | some w => simp [step, hc, hh] at h
    | none =>
      simp [step, hc, hh] at h
      subst h
      have hnot : ∀ t', ¬ ((st.tasks t').code = [.checkLive, .claim] ∨ (st.tasks t').code = [.claim]) := by
        intro t' hx
        have := (hheld t').mpr hx
        simp [hh] at this
      refine ⟨?_, ?_, ?_, ?_, hi.uniq⟩
      · intro t'
        by_cases ht : t' = t
        · simp [upd, ht, shapes]
        · simpa [upd, ht] using hi.shape t'
      · intro t'
        by_cases ht : t' = t
        · simp [upd, ht]
        · have := hnot t'
          simp [upd, ht, Ne.symm ht, this]
      · intro n p hm
        rcases hi.owned n p hm with h1 | h1
        · exact Or.inl h1
        · exact Or.inr (pend_upd_of_code h1 (by simp [hc]))
      · intro t'
        by_cases ht : t' = t
        · simp [upd, ht]
        · intro h1 h2
          simp [upd, ht] at h1 h2 ⊢
          exact absurd (Or.inr h1) (hnot t')
  · -- check
    simp [step, hc] at h
    subst h
    have hh : st.holder = some t := (hheld t).mpr (Or.inl hc)
    refine ⟨?_, ?_, ?_, ?_, hi.uniq⟩
    · intro t'
      by_cases ht : t' = t
      · simp [upd, ht, shapes]
      · simpa [upd, ht] using hi.shape t'
    · intro t'
      by_cases ht : t' = t
      · simp [upd, ht, hh]
      · simpa [upd, ht] using hheld t'
    · intro n p hm
      rcases hi.owned n p hm with h1 | h1
      · exact Or.inl h1
      · exact Or.inr (pend_upd_of_code h1 (by simp [hc]))
    · intro t'
      by_cases ht : t' = t
      · intro _ h2
        simp [upd, ht] at h2 ⊢
        exact Or.inl h2
      · intro h1 h2
        simp [upd, ht] at h1 h2 ⊢
        have := (hheld t').mpr (Or.inr h1)
        rw [hh] at this
        exact absurd (Option.some.inj this).symm ht
  · -- claim
    have hh : st.holder = some t := (hheld t).mpr (Or.inr hc)
    simp [step, hc, hh] at h
    subst h
    have hnot : ∀ t', t' ≠ t → ¬ ((st.tasks t').code = [.checkLive, .claim] ∨ (st.tasks t').code = [.claim]) := by
      intro t' ht hx
      have := (hheld t').mpr hx
      rw [hh] at this
      exact ht (Option.some.inj this).symm
    refine ⟨?_, ?_, ?_, ?_, claimRes_nodup hi.uniq⟩
    · intro t'
      by_cases ht : t' = t
      · simp [upd, ht, shapes]
      · simpa [upd, ht] using hi.shape t'
    · intro t'
      by_cases ht : t' = t
      · simp [upd, ht]
      · have := hnot t' ht
        simp [upd, ht, this]
    · intro n p hm
      have hfr : ∀ q, Owned st q → Owned { st with reg := { st.reg with byName := (claimRes (st.tasks t).live (st.tasks t).name (st.tasks t).pid st.reg.byName).1 }, holder := none, tasks := upd st.tasks t { st.tasks t with code := [], res := some (claimRes (st.tasks t).live (st.tasks t).name (st.tasks t).pid st.reg.byName).2 } } q := by
        intro q hq
        rcases hq with h1 | h1
        · exact Or.inl h1
        · exact Or.inr (pend_upd_of_code h1 (by simp [hc]))
      rcases claimRes_mem hm with h1 | ⟨h1, h2, _⟩
      · exact hfr _ (hi.owned n p h1)
      · cases h1
        exact hfr _ (hi.claiming t hc h2)
    · intro t'
      by_cases ht : t' = t
      · simp [upd, ht]
      · intro h1 _
        simp [upd, ht] at h1
        exact absurd (Or.inr h1) (hnot t' ht)
  · -- drop
    simp [step, hc] at h
    subst h
    have hfr : ∀ q, Owned st q → Owned { st with reg := { st.reg with byPid := pidDel (st.tasks t).pid st.reg.byPid }, tasks := upd st.tasks t { st.tasks t with code := [.sweep] }, lin := st.lin ++ [(t, .drop (st.tasks t).pid, .ok)] } q := by
      intro q hq
      rcases hq with h1 | h1
      · by_cases hq : q = (st.tasks t).pid
        · subst hq
          exact Or.inr (pend_upd_self (k := { st.tasks t with code := [.sweep] }) rfl)
        · exact Or.inl (by simp [h1, hq])
      · exact Or.inr (pend_upd_of_code h1 (by simp [hc]))
    refine ⟨?_, ?_, ?_, ?_, hi.uniq⟩
    · intro t'
      by_cases ht : t' = t
      · simp [upd, ht, shapes]
      · simpa [upd, ht] using hi.shape t'
    · intro t'
      by_cases ht : t' = t
      · have := hheld t
        simp [hc] at this
        simp [upd, ht, this]
      · simpa [upd, ht] using hheld t'
    · intro n p hm
      exact hfr _ (hi.owned n p hm)
    · intro t'
      by_cases ht : t' = t
      · simp [upd, ht]
      · intro h1 h2
        simp [upd, ht] at h1 h2 ⊢
        have := hfr _ (hi.claiming t' h1 h2)
        simpa [upd, ht] using this
  · -- sweep
    cases hh : st.holder with
    | some w => simp [step, hc, hh] at h
    | none =>
      simp [step, hc, hh] at h
      subst h
      have hnot : ∀ t', ¬ ((st.tasks t').code = [.checkLive, .claim] ∨ (st.tasks t').code = [.claim]) := by
        intro t' hx
        have := (hheld t').mpr hx
        simp [hh] at this
      refine ⟨?_, ?_, ?_, ?_, nodup_keys_filter _ hi.uniq⟩
      · intro t'
        by_cases ht : t' = t
        · simp [upd, ht, shapes]
        · simpa [upd, ht] using hi.shape t'
      · intro t'
        by_cases ht : t' = t
        · simp [upd, ht]
        · have := hnot t'
          simp [upd, ht, this]
      · intro n p hm
        have hm' := mem_nameSweep.mp hm
        rcases hi.owned n p hm'.1 with h1 | h1
        · exact Or.inl h1
        · exact Or.inr (pend_upd_of_pid h1 (fun e => hm'.2 e.symm))
      · intro t'
        by_cases ht : t' = t
        · simp [upd, ht]
        · intro h1 _
          simp [upd, ht] at h1
          exact absurd (Or.inr h1) (hnot t')
  · -- unregister
    cases hh : st.holder with
    | some w => simp [step, hc, hh] at h
    | none =>
      simp [step, hc, hh] at h
      subst h
      have hnot : ∀ t', ¬ ((st.tasks t').code = [.checkLive, .claim] ∨ (st.tasks t').code = [.claim]) := by
        intro t' hx
        have := (hheld t').mpr hx
        simp [hh] at this
      refine ⟨?_, ?_, ?_, ?_, unregister_nodup _ _ hi.uniq⟩
      · intro t'
        by_cases ht : t' = t
        · simp [upd, ht, shapes]
        · simpa [upd, ht] using hi.shape t'
      · intro t'
        by_cases ht : t' = t
        · simp [upd, ht]
        · have := hnot t'
          simp [upd, ht, this]
      · intro n p hm
        rcases hi.owned n p (unregister_names_sub _ _ _ hm) with h1 | h1
        · exact Or.inl (by simpa [unregister_byPid] using h1)
        · exact Or.inr (pend_upd_of_code h1 (by simp [hc]))
      · intro t'
        by_cases ht : t' = t
        · simp [upd, ht]
        · intro h1 _
          simp [upd, ht] at h1
          exact absurd (Or.inr h1) (hnot t')
  · -- whereis
    cases hh : st.holder with
    | some w => simp [step, hc, hh] at h
    | none =>
      simp [step, hc, hh] at h
      subst h
      have hnot : ∀ t', ¬ ((st.tasks t').code = [.checkLive, .claim] ∨ (st.tasks t').code = [.claim]) := by
        intro t' hx
        have := (hheld t').mpr hx
        simp [hh] at this
      refine ⟨?_, ?_, ?_, ?_, hi.uniq⟩
      · intro t'
        by_cases ht : t' = t
        · simp [upd, ht, shapes]
        · simpa [upd, ht] using hi.shape t'
      · intro t'
        by_cases ht : t' = t
        · simp [upd, ht]
        · have := hnot t'
          simp [upd, ht, this]
      · intro n p hm
        rcases hi.owned n p hm with h1 | h1
        · exact Or.inl h1
        · exact Or.inr (pend_upd_of_code h1 (by simp [hc]))
      · intro t'
        by_cases ht : t' = t
        · simp [upd, ht]
        · intro h1 _
          simp [upd, ht] at h1
          exact absurd (Or.inr h1) (hnot t')
  · -- insert
    simp [step, hc] at h
    subst h
    have hfr : ∀ q, Owned st q → Owned { st with reg := st.reg.insert (st.tasks t).pid, tasks := upd st.tasks t { st.tasks t with code := [], res := some .ok }, lin := st.lin ++ [(t, .insert (st.tasks t).pid, .ok)] } q := by
      intro q hq
      rcases hq with h1 | h1
      · exact Or.inl (by simp [Reg.insert, h1])
      · exact Or.inr (pend_upd_of_code h1 (by simp [hc]))
    refine ⟨?_, ?_, ?_, ?_, hi.uniq⟩
    · intro t'
      by_cases ht : t' = t
      · simp [upd, ht, shapes]
      · simpa [upd, ht] using hi.shape t'
    · intro t'
      by_cases ht : t' = t
      · have := hheld t
        simp [hc] at this
        simp [upd, ht, this]
      · simpa [upd, ht] using hheld t'
    · intro n p hm
      exact hfr _ (hi.owned n p hm)
    · intro t'
      by_cases ht : t' = t
      · simp [upd, ht]
      · intro h1 h2
        simp [upd, ht] at h1 h2 ⊢
        have := hfr _ (hi.claiming t' h1 h2)
        simpa [upd, ht] using this

theorem lockInv_run {st : St} (hi : LockInv st) (sched : List Tid) : LockInv (run st sched) := by
  induction sched generalizing st with
  | nil => exact hi
  | cons t r ih =>
    simp only [run, List.foldl_cons]
    cases hs : step st t with
    | none => exact ih hi
    | some st' => exact ih (lockInv_step hi hs)

/-- the registry a schedule starts from: every name's owner is a process of it, and the names are a map -/
def RegOK (r : Reg) : Prop := (∀ n p, (n, p) ∈ r.byName → p ∈ r.byPid) ∧ (r.byName.map (·.1)).Nodup

theorem lockInv_init {r0 : Reg} (h0 : RegOK r0) (calls : List Call) : LockInv (init srcProgs r0 calls) := by
  have hcode : ∀ t, ((init srcProgs r0 calls).tasks t).code ∈ shapes ∧
      ((init srcProgs r0 calls).tasks t).code ≠ [.checkLive, .claim] ∧ ((init srcProgs r0 calls).tasks t).code ≠ [.claim] := by
    intro t
    simp only [init]
    cases calls[t]? with
    | none => simp [shapes]
    | some c => cases c <;> simp [Call.task, srcProgs, shapes]
  refine ⟨fun t => (hcode t).1, ?_, ?_, ?_, h0.2⟩
  · intro t
    have := hcode t
    constructor
    · intro h; simp [init] at h
    · rintro (h | h)
      · exact absurd h this.2.1
      · exact absurd h this.2.2
  · intro n p hm
    exact Or.inl (h0.1 n p hm)
  · intro t h
    exact absurd h (hcode t).2.2

/-! ### refinement: the ghost order `lin` is a sequential history of the atomic operations with the same tables and answers -/

theorem replay_snoc (r : Reg) (ops : List AOp) (o : AOp) :
    replay r (ops ++ [o]) = ((o.apply (replay r ops).1).1, (replay r ops).2 ++ [(o.apply (replay r ops).1).2]) := by
  simp [replay, List.foldl_append]

/-- the names as the sequential history has them: a `register` that has read `by_pid` under the lock has, in the sequential
order, claimed already -/
def absN (holder : Option Tid) (tasks : Tid → Task) (names : List (Name × Pid)) : List (Name × Pid) :=
  match holder with
  | some t => if (tasks t).code = [.claim] then (claimRes (tasks t).live (tasks t).name (tasks t).pid names).1 else names
  | none => names

theorem absN_upd {holder : Option Tid} {tasks : Tid → Task} {t : Tid} {k : Task} {names : List (Name × Pid)}
    (h : holder ≠ some t) : absN holder (upd tasks t k) names = absN holder tasks names := by
  cases holder with
  | none => rfl
  | some w =>
    have : w ≠ t := fun e => h (by rw [e])
    simp [absN, upd, this]

theorem register_eq_claimRes (r : Reg) (n : Name) (p : Pid) :
    r.register n p = ({ r with byName := (claimRes (decide (p ∈ r.byPid)) n p r.byName).1 },
                      (claimRes (decide (p ∈ r.byPid)) n p r.byName).2) := by
  unfold Reg.register claimRes
  by_cases hp : p ∈ r.byPid
  · cases hf : nameFind n r.byName <;> simp [hp]
  · simp [hp]

structure LinInv (r0 : Reg) (st : St) : Prop where
  sim : replay r0 (st.lin.map (·.2.1)) =
    ({ byPid := st.reg.byPid, byName := absN st.holder st.tasks st.reg.byName }, st.lin.map (·.2.2))
  answered : ∀ t r, (st.tasks t).res = some r → ∃ op, (t, op, r) ∈ st.lin
  promised : ∀ t, st.holder = some t → (st.tasks t).code = [.claim] →
    (t, AOp.register (st.tasks t).name (st.tasks t).pid,
      (claimRes (st.tasks t).live (st.tasks t).name (st.tasks t).pid st.reg.byName).2) ∈ st.lin

theorem linInv_init (pr : Progs) (r0 : Reg) (calls : List Call) : LinInv r0 (init pr r0 calls) := by
  refine ⟨by simp [init, replay, absN], ?_, ?_⟩
  · intro t r h
    simp only [init] at h
    cases hc : calls[t]? with
    | none => simp [hc] at h
    | some c => cases c <;> simp [hc, Call.task] at h
  · intro t h; simp [init] at h

theorem linInv_step {r0 : Reg} {st st' : St} {t : Tid} (hl : LockInv st) (hi : LinInv r0 st) (h : step st t = some st') :
    LinInv r0 st' := by
  have hs := hl.shape t
  have hheld := hl.held
  have hsim := hi.sim
  simp only [shapes, List.mem_cons, List.not_mem_nil, or_false] at hs
  rcases hs with hc | hc | hc | hc | hc | hc | hc | hc | hc
  · simp [step, hc] at h
  · -- acquire
    cases hh : st.holder with
    | some w => simp [step, hc, hh] at h
    | none =>
      simp [step, hc, hh] at h
      subst h
      refine ⟨?_, ?_, ?_⟩
      · simpa [absN, upd, hh] using hsim
      · intro t' r hr
        by_cases ht : t' = t
        · subst ht; simp [upd] at hr; exact hi.answered _ r hr
        · simp [upd, ht] at hr; exact hi.answered t' r hr
      · intro t' h1 h2
        simp at h1; subst h1
        simp [upd] at h2
  · -- check: the linearization point of `register`
    have hh : st.holder = some t := (hheld t).mpr (Or.inl hc)
    simp [step, hc] at h
    subst h
    refine ⟨?_, ?_, ?_⟩
    · simp only [List.map_append, List.map_cons, List.map_nil]
      rw [replay_snoc, hsim]
      simp [absN, hh, hc, upd, AOp.apply]
      rw [register_eq_claimRes]
    · intro t' r hr
      by_cases ht : t' = t
      · subst ht; simp [upd] at hr
        obtain ⟨op, ho⟩ := hi.answered _ r hr
        exact ⟨op, List.mem_append_left _ ho⟩
      · simp [upd, ht] at hr
        obtain ⟨op, ho⟩ := hi.answered _ r hr
        exact ⟨op, List.mem_append_left _ ho⟩
    · intro t' h1 _
      have : t' = t := by
        simp only [hh] at h1; exact (Option.some.inj h1).symm
      subst this
      simp [upd, register_eq_claimRes]
  · -- claim
    have hh : st.holder = some t := (hheld t).mpr (Or.inr hc)
    simp [step, hc, hh] at h
    subst h
    refine ⟨?_, ?_, ?_⟩
    · simpa [absN, hh, hc] using hsim
    · intro t' r hr
      by_cases ht : t' = t
      · subst ht; simp [upd] at hr
        subst hr
        exact ⟨_, hi.promised _ hh hc⟩
      · simp [upd, ht] at hr; exact hi.answered t' r hr
    · intro t' h1; simp at h1
  · -- drop
    have hh : st.holder ≠ some t := by
      intro e
      have := (hheld t).mp e
      simp [hc] at this
    simp [step, hc] at h
    subst h
    refine ⟨?_, ?_, ?_⟩
    · simp only [List.map_append, List.map_cons, List.map_nil]
      rw [replay_snoc, hsim, absN_upd hh]
      simp [AOp.apply]
    · intro t' r hr
      by_cases ht : t' = t
      · subst ht; simp [upd] at hr
        obtain ⟨op, ho⟩ := hi.answered _ r hr
        exact ⟨op, List.mem_append_left _ ho⟩
      · simp [upd, ht] at hr
        obtain ⟨op, ho⟩ := hi.answered _ r hr
        exact ⟨op, List.mem_append_left _ ho⟩
    · intro t' h1 h2
      have ht : t' ≠ t := fun e => hh (by rw [← e]; exact h1)
      simp [upd, ht] at h2 ⊢
      exact hi.promised t' h1 h2
  · -- sweep
    cases hh : st.holder with
    | some w => simp [step, hc, hh] at h
    | none =>
      simp [step, hc, hh] at h
      subst h
      rw [hh] at hsim
      refine ⟨?_, ?_, ?_⟩
      · simp only [List.map_append, List.map_cons, List.map_nil]
        rw [replay_snoc, hsim]
        simp [AOp.apply, absN]
      · intro t' r hr
        by_cases ht : t' = t
        · subst ht; simp [upd] at hr
          subst hr
          exact ⟨_, List.mem_append_right _ (List.mem_singleton.mpr rfl)⟩
        · simp [upd, ht] at hr
          obtain ⟨op, ho⟩ := hi.answered _ r hr
          exact ⟨op, List.mem_append_left _ ho⟩
      · intro t' h1; simp at h1
  · -- unregister
    cases hh : st.holder with
    | some w => simp [step, hc, hh] at h
    | none =>
      simp [step, hc, hh] at h
      subst h
      rw [hh] at hsim
      refine ⟨?_, ?_, ?_⟩
      · simp only [List.map_append, List.map_cons, List.map_nil]
        rw [replay_snoc, hsim]
        simp [AOp.apply, absN]
      · intro t' r hr
        by_cases ht : t' = t
        · subst ht; simp [upd] at hr
          subst hr
          exact ⟨_, List.mem_append_right _ (List.mem_singleton.mpr rfl)⟩
        · simp [upd, ht] at hr
          obtain ⟨op, ho⟩ := hi.answered _ r hr
          exact ⟨op, List.mem_append_left _ ho⟩
      · intro t' h1; simp at h1
  · -- whereis
    cases hh : st.holder with
    | some w => simp [step, hc, hh] at h
    | none =>
      simp [step, hc, hh] at h
      subst h
      rw [hh] at hsim
      refine ⟨?_, ?_, ?_⟩
      · simp only [List.map_append, List.map_cons, List.map_nil]
        rw [replay_snoc, hsim]
        simp [AOp.apply, absN, Reg.whereis]
      · intro t' r hr
        by_cases ht : t' = t
        · subst ht; simp [upd] at hr
          subst hr
          exact ⟨_, List.mem_append_right _ (List.mem_singleton.mpr rfl)⟩
        · simp [upd, ht] at hr
          obtain ⟨op, ho⟩ := hi.answered _ r hr
          exact ⟨op, List.mem_append_left _ ho⟩
      · intro t' h1; simp at h1
  · -- insert
    have hh : st.holder ≠ some t := by
      intro e
      have := (hheld t).mp e
      simp [hc] at this
    simp [step, hc] at h
    subst h
    refine ⟨?_, ?_, ?_⟩
    · simp only [List.map_append, List.map_cons, List.map_nil]
      rw [replay_snoc, hsim, absN_upd hh]
      simp [AOp.apply, Reg.insert]
    · intro t' r hr
      by_cases ht : t' = t
      · subst ht; simp [upd] at hr
        subst hr
        exact ⟨_, List.mem_append_right _ (List.mem_singleton.mpr rfl)⟩
      · simp [upd, ht] at hr
        obtain ⟨op, ho⟩ := hi.answered _ r hr
        exact ⟨op, List.mem_append_left _ ho⟩
    · intro t' h1 h2
      have ht : t' ≠ t := fun e => hh (by rw [← e]; exact h1)
      simp [upd, ht, Reg.insert] at h2 ⊢
      exact hi.promised t' h1 h2

theorem linInv_run {r0 : Reg} {st : St} (hl : LockInv st) (hi : LinInv r0 st) (sched : List Tid) :
    LinInv r0 (run st sched) := by
  induction sched generalizing st with
  | nil => exact hi
  | cons t r ih =>
    simp only [run, List.foldl_cons]
    cases hs : step st t with
    | none => exact ih hl hi
    | some st' => exact ih (lockInv_step hl hs) (linInv_step hl hi hs)

/-! ### the ghost order keeps every call's operations in program order (for ANY programs) -/

/-- the atomic operation an instruction stands for at its linearization point -/
def instrOp (n : Name) (p : Pid) : Instr → Option AOp
  | .checkLive => some (.register n p)
  | .dropPid => some (.drop p)
  | .sweep => some (.sweep p)
  | .delName => some (.unregister n)
  | .lookup => some (.whereis n)
  | .insPid => some (.insert p)
  | .acqNames => none
  | .claim => none

/-- the atomic operations a task still has to linearize -/
def Task.opsLeft (k : Task) : List AOp := k.code.filterMap (instrOp k.name k.pid)

/-- the atomic operations task `t` has linearized, in the order of `lin` -/
def doneOps (st : St) (t : Tid) : List AOp := (st.lin.filter (fun e => e.1 = t)).map (·.2.1)

def ProgOrder (ops0 : Tid → List AOp) (st : St) : Prop := ∀ t, doneOps st t ++ (st.tasks t).opsLeft = ops0 t

theorem progOrder_step {ops0 : Tid → List AOp} {st st' : St} {t : Tid} (hi : ProgOrder ops0 st) (h : step st t = some st') :
    ProgOrder ops0 st' := by
  unfold step at h
  cases hc : (st.tasks t).code with
  | nil => simp [hc] at h
  | cons i rest =>
    have ht0 := hi t
    cases i <;> simp only [hc] at h
    case acqNames =>
      cases hh : st.holder with
      | some w => simp [hh] at h
      | none =>
        simp [hh] at h; subst h
        intro t'
        by_cases ht : t' = t
        · subst ht
          simpa [doneOps, Task.opsLeft, hc, upd, instrOp, List.filterMap_cons] using ht0
        · simpa [doneOps, Task.opsLeft, upd, ht] using hi t'
    case checkLive =>
      simp at h; subst h
      intro t'
      by_cases ht : t' = t
      · subst ht
        simpa [doneOps, Task.opsLeft, hc, upd, instrOp, List.filter_append, List.filterMap_cons] using ht0
      · simpa [doneOps, Task.opsLeft, upd, ht, Ne.symm ht, List.filter_append] using hi t'
    case claim =>
      by_cases hh : st.holder = some t
      · simp [hh] at h; subst h
        intro t'
        by_cases ht : t' = t
        · subst ht
          simpa [doneOps, Task.opsLeft, hc, upd, instrOp, List.filterMap_cons] using ht0
        · simpa [doneOps, Task.opsLeft, upd, ht] using hi t'
      · simp [hh] at h
    case dropPid =>
      simp at h; subst h
      intro t'
      by_cases ht : t' = t
      · subst ht
        simpa [doneOps, Task.opsLeft, hc, upd, instrOp, List.filter_append, List.filterMap_cons] using ht0
      · simpa [doneOps, Task.opsLeft, upd, ht, Ne.symm ht, List.filter_append] using hi t'
    case sweep =>
      cases hh : st.holder with
      | some w => simp [hh] at h
      | none =>
        simp [hh] at h; subst h
        intro t'
        by_cases ht : t' = t
        · subst ht
          simpa [doneOps, Task.opsLeft, hc, upd, instrOp, List.filter_append, List.filterMap_cons] using ht0
        · simpa [doneOps, Task.opsLeft, upd, ht, Ne.symm ht, List.filter_append] using hi t'
    case delName =>
      cases hh : st.holder with
      | some w => simp [hh] at h
      | none =>
        simp [hh] at h; subst h
        intro t'
        by_cases ht : t' = t
        · subst ht
          simpa [doneOps, Task.opsLeft, hc, upd, instrOp, List.filter_append, List.filterMap_cons] using ht0
        · simpa [doneOps, Task.opsLeft, upd, ht, Ne.symm ht, List.filter_append] using hi t'
    case lookup =>
      cases hh : st.holder with
      | some w => simp [hh] at h
      | none =>
        simp [hh] at h; subst h
        intro t'
        by_cases ht : t' = t
        · subst ht
          simpa [doneOps, Task.opsLeft, hc, upd, instrOp, List.filter_append, List.filterMap_cons] using ht0
        · simpa [doneOps, Task.opsLeft, upd, ht, Ne.symm ht, List.filter_append] using hi t'
    case insPid =>
      simp at h; subst h
      intro t'
      by_cases ht : t' = t
      · subst ht
        simpa [doneOps, Task.opsLeft, hc, upd, instrOp, List.filter_append, List.filterMap_cons] using ht0
      · simpa [doneOps, Task.opsLeft, upd, ht, Ne.symm ht, List.filter_append] using hi t'

theorem progOrder_run {ops0 : Tid → List AOp} {st : St} (hi : ProgOrder ops0 st) (sched : List Tid) :
    ProgOrder ops0 (run st sched) := by
  induction sched generalizing st with
  | nil => exact hi
  | cons t r ih =>
    simp only [run, List.foldl_cons]
    cases hs : step st t with
    | none => exact ih hi
    | some st' => exact ih (progOrder_step hi hs)

/-- the atomic operations of a call, in program order: `remove` is its drop and its sweep -/
def Call.ops : Call → List AOp
  | .register n p => [.register n p]
  | .remove p => [.drop p, .sweep p]
  | .unregister n => [.unregister n]
  | .whereis n => [.whereis n]
  | .insert p => [.insert p]

/-- what task `t` of `calls` has to linearize -/
def callOps (calls : List Call) (t : Tid) : List AOp := match calls[t]? with | some c => c.ops | none => []

theorem progOrder_init (r0 : Reg) (calls : List Call) : ProgOrder (callOps calls) (init srcProgs r0 calls) := by
  intro t
  simp only [doneOps, init, callOps, List.filter_nil, List.map_nil, List.nil_append]
  cases calls[t]? with
  | none => rfl
  | some c => cases c <;> rfl

theorem quiescent_holder {st : St} (hl : LockInv st) (hq : Quiescent st) : st.holder = none := by
  cases hh : st.holder with
  | none => rfl
  | some t =>
    have := (hl.held t).mp hh
    simp [hq t] at this

/-! ### one `register` racing one `remove`: the three orders of their atomic operations -/

theorem length_two_tids (l : List (Tid × AOp × Res)) (h : ∀ e ∈ l, e.1 = 0 ∨ e.1 = 1) :
    l.length = (l.filter (fun e => e.1 = 0)).length + (l.filter (fun e => e.1 = 1)).length := by
  induction l with
  | nil => rfl
  | cons e l ih =>
    have ih := ih (fun x hx => h x (List.mem_cons_of_mem _ hx))
    rcases h e (List.mem_cons_self) with h0 | h1
    · simp [h0, ih]; omega
    · simp [h1, ih]; omega

/-- one task with one operation and one task with two: the three interleavings -/
theorem interleavings_1_2 (l : List (Tid × AOp × Res)) (a b c : AOp)
    (h2 : ∀ t, 2 ≤ t → (l.filter (fun e => e.1 = t)) = [])
    (h0 : (l.filter (fun e => e.1 = 0)).map (·.2.1) = [a])
    (h1 : (l.filter (fun e => e.1 = 1)).map (·.2.1) = [b, c]) :
    ∃ ra rb rc, l = [(0, a, ra), (1, b, rb), (1, c, rc)] ∨ l = [(1, b, rb), (0, a, ra), (1, c, rc)] ∨
      l = [(1, b, rb), (1, c, rc), (0, a, ra)] := by
  have htid : ∀ e ∈ l, e.1 = 0 ∨ e.1 = 1 := by
    intro e he
    obtain ⟨t, x⟩ := e
    match t, he with
    | 0, _ => exact Or.inl rfl
    | 1, _ => exact Or.inr rfl
    | n + 2, he =>
      exfalso
      have := h2 (n + 2) (Nat.le_add_left 2 n)
      have hm : (n + 2, x) ∈ l.filter (fun e => e.1 = n + 2) := by simp [he]
      rw [this] at hm; cases hm
  have hlen := length_two_tids l htid
  have l0 : (l.filter (fun e => e.1 = 0)).length = 1 := by
    have := congrArg List.length h0; simpa using this
  have l1 : (l.filter (fun e => e.1 = 1)).length = 2 := by
    have := congrArg List.length h1; simpa using this
  rw [l0, l1] at hlen
  have hl3 : ∃ e1 e2 e3, l = [e1, e2, e3] := by
    rcases l with _ | ⟨e1, _ | ⟨e2, _ | ⟨e3, _ | ⟨e4, r⟩⟩⟩⟩ <;>
      first | exact ⟨_, _, _, rfl⟩ | (exfalso; simp at hlen; done) | (exfalso; simp at hlen; omega)
  obtain ⟨e1, e2, e3, rfl⟩ := hl3
  · 
    obtain ⟨t1, o1, r1⟩ := e1
    obtain ⟨t2, o2, r2⟩ := e2
    obtain ⟨t3, o3, r3⟩ := e3
    have k1 := htid (t1, o1, r1) (by simp)
    have k2 := htid (t2, o2, r2) (by simp)
    have k3 := htid (t3, o3, r3) (by simp)
    simp only at k1 k2 k3
    rcases k1 with k1 | k1 <;> rcases k2 with k2 | k2 <;> rcases k3 with k3 | k3 <;> subst k1 <;> subst k2 <;> subst k3 <;>
      simp at h0 h1
    · exact ⟨r1, r2, r3, Or.inl (by simp [h0, h1])⟩
    · exact ⟨r2, r1, r3, Or.inr (Or.inl (by simp [h0, h1]))⟩
    · exact ⟨r3, r1, r2, Or.inr (Or.inr (by simp [h0, h1]))⟩
/-! ### every call that has finished has returned an answer -/

def Returned (m : Nat) (st : St) : Prop := ∀ t, t < m → (st.tasks t).code = [] → (st.tasks t).res ≠ none

theorem returned_init (r0 : Reg) (calls : List Call) : Returned calls.length (init srcProgs r0 calls) := by
  intro t ht hc
  simp only [init] at hc
  have : calls[t]? = some calls[t] := List.getElem?_eq_getElem ht
  rw [this] at hc
  cases hcall : calls[t] <;> simp [hcall, Call.task, srcProgs] at hc

theorem returned_step {m : Nat} {st st' : St} {t : Tid} (hl : LockInv st) (hi : Returned m st) (h : step st t = some st') :
    Returned m st' := by
  have hs := hl.shape t
  simp only [shapes, List.mem_cons, List.not_mem_nil, or_false] at hs
  have fin : ∀ (k : Task) (r : Reg) (ho : Option Tid) (l : List (Tid × AOp × Res)), (k.code = [] → k.res ≠ none) →
      Returned m { st with reg := r, holder := ho, tasks := upd st.tasks t k, lin := l } := by
    intro k r ho l hk t' ht'
    by_cases ht : t' = t
    · subst ht; simpa [upd] using hk
    · simpa [upd, ht] using hi t' ht'
  rcases hs with hc | hc | hc | hc | hc | hc | hc | hc | hc
  · simp [step, hc] at h
  · cases hh : st.holder with
    | some w => simp [step, hc, hh] at h
    | none => simp [step, hc, hh] at h; subst h; exact fin _ _ _ _ (by simp)
  · simp [step, hc] at h; subst h; exact fin _ _ _ _ (by simp)
  · by_cases hh : st.holder = some t
    · simp [step, hc, hh] at h; subst h; exact fin _ _ _ _ (by simp)
    · simp [step, hc, hh] at h
  · simp [step, hc] at h; subst h; exact fin _ _ _ _ (by simp)
  · cases hh : st.holder with
    | some w => simp [step, hc, hh] at h
    | none => simp [step, hc, hh] at h; subst h; exact fin _ _ _ _ (by simp)
  · cases hh : st.holder with
    | some w => simp [step, hc, hh] at h
    | none => simp [step, hc, hh] at h; subst h; exact fin _ _ _ _ (by simp)
  · cases hh : st.holder with
    | some w => simp [step, hc, hh] at h
    | none => simp [step, hc, hh] at h; subst h; exact fin _ _ _ _ (by simp)
  · simp [step, hc] at h; subst h; exact fin _ _ _ _ (by simp)

theorem returned_run {m : Nat} {st : St} (hl : LockInv st) (hi : Returned m st) (sched : List Tid) :
    Returned m (run st sched) := by
  induction sched generalizing st with
  | nil => exact hi
  | cons t r ih =>
    simp only [run, List.foldl_cons]
    cases hs : step st t with
    | none => exact ih hl hi
    | some st' => exact ih (lockInv_step hl hs) (returned_step hl hi hs)

end Edp.Impl.RegistryLocks
