import EdpVerif.Lemmas.Control
/-! C08: an unlink message whose id element does not stand for an integer `0 ≤ id < 2^64` is REJECTED (an error, not a
message and not a panic). Core Lean only. -/
namespace Edp.Control
open Edp

/-- the elements are Rust values: `OwnedTerm::Integer` carries an `i64` -/
def IntsAreI64 (els : List Term) : Prop := ∀ e ∈ els, ∀ i : Int, e = .int i → -2 ^ 63 ≤ i ∧ i < 2 ^ 63

theorem unlinkId_some_range {e : Term} {n : Nat} (h : unlinkIdFromTerm e = some n)
    (hi : ∀ i : Int, e = .int i → i < 2 ^ 63) : n < 2 ^ 64 := by
  cases e <;> simp only [unlinkIdFromTerm] at h <;> try (simp at h; done)
  · rename_i i
    split at h
    · simp at h
    · simp at h
      have := hi i rfl
      omega
  · rename_i neg d
    split at h
    · simp at h
    · split at h
      · simp at h
      · rename_i h1 h2
        simp at h
        rw [magVal_take_sig] at h
        subst h
        exact magVal_lt_of_sig (by omega)

theorem evalSrc_bad {els : List Term} {s : Src} (hw : IntsAreI64 els) (hi : s.idx < els.length)
    (hg : srcIdOk els s = false) : evalSrc els s = .error .err := by
  cases s with
  | elem i => simp [srcIdOk] at hg
  | uid i =>
    simp only [Src.idx] at hi
    simp only [srcIdOk, List.getElem?_eq_getElem hi] at hg
    simp only [evalSrc, List.getElem?_eq_getElem hi]
    cases hu : unlinkIdFromTerm els[i] with
    | none => rfl
    | some n =>
      exfalso
      have h1 := unlinkId_intOf hu
      have h2 := unlinkId_some_range hu (fun j hj => (hw els[i] (List.getElem_mem hi) j hj).2)
      rw [h1] at hg
      simp only [decide_eq_false_iff_not, not_and, Int.not_lt] at hg
      have := hg (by omega)
      omega

theorem evalFields_bad (els : List Term) (hw : IntsAreI64 els) :
    ∀ (flds : List (String × Src)), (∀ p ∈ flds, p.2.idx < els.length) →
      (∃ p ∈ flds, srcIdOk els p.2 = false) → evalFields els flds = .error .err := by
  intro flds
  induction flds with
  | nil => intro _ ⟨p, hp, _⟩; simp at hp
  | cons q r ih =>
    intro hidx ⟨p, hp, hbad⟩
    obtain ⟨g, s⟩ := q
    have hs := evalSrc_no_panic (hidx (g, s) (by simp))
    simp only [evalFields]
    cases h1 : evalSrc els s with
    | error e =>
      cases e with
      | err => rfl
      | panic => exact absurd h1 hs
    | ok v =>
      have hp' : p ∈ r := by
        rcases List.mem_cons.mp hp with h | h
        · subst h
          rw [evalSrc_bad hw (hidx (g, s) (by simp)) hbad] at h1
          cases h1
        · exact h
      rw [ih (fun x hx => hidx x (List.mem_cons_of_mem _ hx)) ⟨p, hp', hbad⟩]

/-- a tuple headed by `Integer 0..255` whose id element is not an integer of at most 64 bits is rejected with an error -/
theorem bad_id_rejected {tbl : Table} (h : TableOK tbl) (raw : Int) (rest : List Term) (h0 : 0 ≤ raw) (h255 : raw ≤ 255)
    (hw : IntsAreI64 rest) (hg : idGuard tbl (.tuple (.int raw :: rest)) = false) :
    parse tbl (.tuple (.int raw :: rest)) = .error .err := by
  have ok := okParts h
  have hw' : IntsAreI64 (.int raw :: rest) := by
    intro e he i hi
    rcases List.mem_cons.mp he with h1 | h1
    · subst h1; cases hi; constructor <;> omega
    · exact hw e h1 i hi
  simp only [idGuard] at hg
  simp only [parse, h0, h255, and_self, if_true]
  cases hsel : selectArm tbl (fromU8 tbl raw.toNat) (rest.length + 1) with
  | none => simp [hsel] at hg
  | some a =>
    simp only [hsel] at hg ⊢
    obtain ⟨hmem, _, har⟩ := selectArm_some hsel
    have haok := ok.fromOK a hmem
    simp only [fromArmOK] at haok
    cases hb : findTo tbl.toArms a.variant with
    | none => simp [hb] at haok
    | some b =>
      simp only [hb, Bool.and_eq_true, decide_eq_true_eq, List.all_eq_true] at haok
      have hidx := haok.2
      have hlen' : (Term.int raw :: rest).length = a.arity := by simp [har]
      have hex : ∃ p ∈ a.fields, srcIdOk (.int raw :: rest) p.2 = false := by
        rw [List.all_eq_false] at hg
        obtain ⟨p, hp, hv⟩ := hg
        exact ⟨p, hp, by simpa using hv⟩
      rw [evalFields_bad (.int raw :: rest) hw' a.fields (by rw [hlen']; exact hidx) hex]

end Edp.Control
