import EdpVerif.Lemmas.SortedInsert
import EdpVerif.Lemmas.Convert
/-!
Decoded maps satisfy the `BTreeMap` invariant.

The decoder model builds every map by `mapInsert` (the model of `BTreeMap::insert`), so every map of a term it returns
has its keys pairwise strictly ascending under `Term.cmp` — at every nesting level, for every configuration, cache, fuel
and depth, for every behaviour of the external calls — PROVIDED the keys of that map carry big integers with minimal
digits only (`WFo`; on non-minimal digits the order is not transitive, C11's recorded finding, and an insertion into a
sorted list need not give a pairwise sorted list).  `btInv` states exactly that, map node by map node, as one structural
predicate; `dec_btInv` proves it of every result of `dec` without any hypothesis.  The corollaries discharge the guards
`btreeSorted` (C10, C13) and — Lemmas/DecSortedErl.lean — `mapsSorted` (C12) for decoder results.
-/
namespace Edp
open Term

/-- every key of the entry list carries big integers with minimal digits only -/
def keysWFo (m : List (Term × Term)) : Bool := m.all (fun p => WFo p.1)

theorem keysWFo_iff (m : List (Term × Term)) : keysWFo m = true ↔ ∀ p ∈ m, WFo p.1 = true := by
  simp [keysWFo]

mutual
/-- the `BTreeMap` invariant as the decoder establishes it: every map node whose keys are `WFo` has them pairwise
strictly ascending (free variables of funs included) -/
def btInv : Term → Bool
  | .list l => btInvL l
  | .ilist l t => btInvL l && btInv t
  | .map kvs => (!keysWFo kvs || pairwiseLt kvs) && btInvKV kvs
  | .tuple l => btInvL l
  | .ifun _ _ _ _ _ _ _ _ fr => btInvL fr
  | _ => true
def btInvL : List Term → Bool
  | [] => true
  | t :: ts => btInv t && btInvL ts
def btInvKV : List (Term × Term) → Bool
  | [] => true
  | (k, v) :: r => btInv k && btInv v && btInvKV r
end

mutual
/-- every map node of the term has its keys pairwise strictly ascending (free variables of funs included) -/
def mapsStrict : Term → Bool
  | .list l => mapsStrictL l
  | .ilist l t => mapsStrictL l && mapsStrict t
  | .map kvs => pairwiseLt kvs && mapsStrictKV kvs
  | .tuple l => mapsStrictL l
  | .ifun _ _ _ _ _ _ _ _ fr => mapsStrictL fr
  | _ => true
def mapsStrictL : List Term → Bool
  | [] => true
  | t :: ts => mapsStrict t && mapsStrictL ts
def mapsStrictKV : List (Term × Term) → Bool
  | [] => true
  | (k, v) :: r => mapsStrict k && mapsStrict v && mapsStrictKV r
end

mutual
/-- every map KEY (at any level) carries big integers with minimal digits only; nothing is asked of values, list or
tuple elements outside keys -/
def mapKeysMin : Term → Bool
  | .list l => mapKeysMinL l
  | .ilist l t => mapKeysMinL l && mapKeysMin t
  | .map kvs => keysWFo kvs && mapKeysMinKV kvs
  | .tuple l => mapKeysMinL l
  | .ifun _ _ _ _ _ _ _ _ fr => mapKeysMinL fr
  | _ => true
def mapKeysMinL : List Term → Bool
  | [] => true
  | t :: ts => mapKeysMin t && mapKeysMinL ts
def mapKeysMinKV : List (Term × Term) → Bool
  | [] => true
  | (k, v) :: r => mapKeysMin k && mapKeysMin v && mapKeysMinKV r
end

/-! ### the Bool and the Prop form of "pairwise ascending" -/

theorem pairwiseLt_iff : ∀ (m : List (Term × Term)), pairwiseLt m = true ↔ keysSorted m
  | [] => by simp [pairwiseLt, keysSorted]
  | (k, v) :: r => by
    unfold keysSorted
    rw [List.pairwise_cons]
    simp only [pairwiseLt, Bool.and_eq_true, allLt, List.all_eq_true, beq_iff_eq]
    constructor
    · rintro ⟨h1, h2⟩; exact ⟨fun q hq => h1 q hq, (pairwiseLt_iff r).mp h2⟩
    · rintro ⟨h1, h2⟩; exact ⟨fun q hq => h1 q hq, (pairwiseLt_iff r).mpr h2⟩

/-- every key and every value of the result of an insertion was a key / value before or is the inserted one -/
theorem mapInsert_parts_ks (m : List (Term × Term)) (k v : Term) :
    ∀ q ∈ mapInsert m k v, (q.1 = k ∨ ∃ p ∈ m, q.1 = p.1) ∧ (q.2 = v ∨ ∃ p ∈ m, q.2 = p.2) := by
  induction m with
  | nil => intro q hq; simp [mapInsert] at hq; subst hq; simp
  | cons p0 r ih =>
    obtain ⟨k0, v0⟩ := p0
    intro q hq
    simp only [mapInsert] at hq
    cases h : Term.cmp k k0 <;> simp only [h] at hq
    · rcases List.mem_cons.mp hq with rfl | hq
      · simp
      · exact ⟨.inr ⟨q, hq, rfl⟩, .inr ⟨q, hq, rfl⟩⟩
    · rcases List.mem_cons.mp hq with rfl | hq
      · exact ⟨.inr ⟨(k0, v0), by simp, rfl⟩, .inl rfl⟩
      · exact ⟨.inr ⟨q, List.mem_cons_of_mem _ hq, rfl⟩, .inr ⟨q, List.mem_cons_of_mem _ hq, rfl⟩⟩
    · rcases List.mem_cons.mp hq with rfl | hq
      · exact ⟨.inr ⟨(k0, v0), by simp, rfl⟩, .inr ⟨(k0, v0), by simp, rfl⟩⟩
      · obtain ⟨h1, h2⟩ := ih q hq
        refine ⟨h1.imp id ?_, h2.imp id ?_⟩
        · rintro ⟨p, hp, e⟩; exact ⟨p, List.mem_cons_of_mem _ hp, e⟩
        · rintro ⟨p, hp, e⟩; exact ⟨p, List.mem_cons_of_mem _ hp, e⟩

/-! ### one insertion, asking `WFo` of the keys of the RESULT only

A key that compares `Equal` to a stored one is dropped, so nothing may be asked of it. -/

theorem mapInsert_sorted_res (m : List (Term × Term)) (k v : Term) (hs : keysSorted m)
    (hw : ∀ q ∈ mapInsert m k v, WFo q.1 = true) : keysSorted (mapInsert m k v) := by
  induction m with
  | nil => simp [mapInsert, keysSorted]
  | cons p0 r ih =>
    obtain ⟨k', v'⟩ := p0
    unfold keysSorted at hs ⊢
    rw [List.pairwise_cons] at hs
    simp only [mapInsert] at hw ⊢
    cases h : Term.cmp k k' <;> simp only [h] at hw ⊢
    · have hk : WFo k = true := hw (k, v) (by simp)
      have hk' : WFo k' = true := hw (k', v') (by simp)
      refine List.pairwise_cons.mpr ⟨?_, List.pairwise_cons.mpr hs⟩
      intro q hq
      rcases List.mem_cons.mp hq with rfl | hq
      · exact h
      · exact cmp_trans_lt_lt hk hk' (hw q (by simp [hq])) h (hs.1 q hq)
    · exact List.pairwise_cons.mpr ⟨hs.1, hs.2⟩
    · refine List.pairwise_cons.mpr ⟨?_, ih hs.2 (fun q hq => hw q (List.mem_cons_of_mem _ hq))⟩
      intro q hq
      rcases (mapInsert_parts_ks r k v q hq).1 with e | ⟨p, hp, e⟩
      · rw [e]; exact (cmp_gt_iff k k').mp h
      · rw [e]; exact hs.1 p hp

theorem btInvKV_iff : ∀ (m : List (Term × Term)),
    btInvKV m = true ↔ ∀ p ∈ m, btInv p.1 = true ∧ btInv p.2 = true
  | [] => by simp [btInvKV]
  | (k, v) :: r => by
    simp only [btInvKV, Bool.and_eq_true, List.mem_cons, forall_eq_or_imp, btInvKV_iff r, and_assoc]

theorem btInvL_iff : ∀ (l : List Term), btInvL l = true ↔ ∀ t ∈ l, btInv t = true
  | [] => by simp [btInvL]
  | t :: ts => by simp only [btInvL, Bool.and_eq_true, List.mem_cons, forall_eq_or_imp, btInvL_iff ts]

/-- what `parse_map` keeps true of the map it is filling -/
def KVInv (m : List (Term × Term)) : Prop :=
  (keysWFo m = true → keysSorted m) ∧ ∀ p ∈ m, btInv p.1 = true ∧ btInv p.2 = true

theorem KVInv_nil : KVInv [] := ⟨fun _ => by simp [keysSorted], by simp⟩

theorem KVInv_insert (m : List (Term × Term)) (k v : Term) (hm : KVInv m) (hk : btInv k = true) (hv : btInv v = true) :
    KVInv (mapInsert m k v) := by
  refine ⟨?_, ?_⟩
  · intro hw
    have hw' := (keysWFo_iff _).mp hw
    have hm' : keysWFo m = true := (keysWFo_iff _).mpr (fun p hp => by
      obtain ⟨q, hq, e⟩ := mapInsert_keeps m k v p hp
      rw [← e]; exact hw' q hq)
    exact mapInsert_sorted_res m k v (hm.1 hm') hw'
  · intro q hq
    obtain ⟨h1, h2⟩ := mapInsert_parts_ks m k v q hq
    constructor
    · rcases h1 with e | ⟨p, hp, e⟩
      · rw [e]; exact hk
      · rw [e]; exact (hm.2 p hp).1
    · rcases h2 with e | ⟨p, hp, e⟩
      · rw [e]; exact hv
      · rw [e]; exact (hm.2 p hp).2

theorem btInv_map_of_KVInv (m : List (Term × Term)) (h : KVInv m) : btInv (.map m) = true := by
  simp only [btInv, Bool.and_eq_true, Bool.or_eq_true, Bool.not_eq_true']
  refine ⟨?_, (btInvKV_iff m).mpr h.2⟩
  cases hw : keysWFo m with
  | false => exact .inl rfl
  | true => exact .inr ((pairwiseLt_iff m).mpr (h.1 hw))

/-! ### shapes of the leaf parsers -/

theorem decAtomBody_shape {k : Nat} {bs : Bytes} {t : Term} {r : Bytes} (h : decAtomBody k bs = .ok (t, r)) :
    ∃ a, t = .atom a := by
  unfold decAtomBody at h
  repeat' split at h
  all_goals simp at h
  exact ⟨_, h.1.symm⟩

theorem decLatin1Body_shape {k : Nat} {bs : Bytes} {t : Term} {r : Bytes} (h : decLatin1Body k bs = .ok (t, r)) :
    ∃ a, t = .atom a := by
  unfold decLatin1Body at h
  repeat' split at h
  all_goals simp at h
  exact ⟨_, h.1.symm⟩

theorem decBig_shape {k : Nat} {bs : Bytes} {t : Term} {r : Bytes} (h : decBig k bs = .ok (t, r)) :
    ∃ n d, t = .big n d := by
  unfold decBig at h
  repeat' split at h
  all_goals simp at h
  exact ⟨_, _, h.1.symm⟩

theorem btInvL_ints (s : Bytes) : btInvL (s.map fun b => Term.int b.toNat) = true := by
  induction s with
  | nil => rfl
  | cons b s ih => simp [btInvL, btInv, ih]

/-! ### the induction over the decoder -/

set_option hygiene false in
macro "btstep" : tactic => `(tactic| (
  split at h <;> (first
    | (simp at h; done)
    | (rename_i heq; first
        | (have := ih1 _ _ _ _ heq)
        | (have := ih2 _ _ _ _ _ heq)
        | (have := btInv_map_of_KVInv _ (ih3 _ _ _ _ _ _ heq KVInv_nil))
        | skip)
    | skip)))

set_option maxHeartbeats 4000000 in
theorem dec_btInv_all (x : Ext) (cfg : DecCfg) : ∀ (fuel : Nat),
    (∀ d bs t r, dec x cfg fuel d bs = .ok (t, r) → btInv t = true) ∧
    (∀ d n bs l r, decN x cfg fuel d n bs = .ok (l, r) → btInvL l = true) ∧
    (∀ d n bs m m' r, decKV x cfg fuel d n bs m = .ok (m', r) → KVInv m → KVInv m') := by
  intro fuel
  induction fuel with
  | zero =>
    refine ⟨?_, ?_, ?_⟩
    · intro d bs t r h; simp [dec] at h
    · intro d n bs l r h; cases n <;> simp [decN] at h; obtain ⟨h1, _⟩ := h; subst h1; rfl
    · intro d n bs m m' r h hm; cases n <;> simp [decKV] at h; obtain ⟨h1, _⟩ := h; subst h1; exact hm
  | succ f ih =>
    obtain ⟨ih1, ih2, ih3⟩ := ih
    refine ⟨?_, ?_, ?_⟩
    · intro d bs t r h
      cases bs with
      | nil => simp [dec] at h
      | cons tg bs =>
        simp only [dec] at h
        by_cases hd : d > MAX_NESTING_DEPTH
        · simp [hd] at h
        · simp only [hd, ↓reduceIte] at h
          split at h
          · simp at h
          · split at h
            all_goals (repeat btstep)
            all_goals (first
              | (obtain ⟨_, rfl⟩ := decLatin1Body_shape h; rfl)
              | (obtain ⟨_, rfl⟩ := decAtomBody_shape h; rfl)
              | (obtain ⟨_, _, rfl⟩ := decBig_shape h; rfl)
              | (simp at h; done)
              | (simp only [Except.ok.injEq, Prod.mk.injEq] at h
                 obtain ⟨rfl, _⟩ := h
                 simp_all [btInv, btInvL_ints]))
    · intro d n bs l r h
      cases n with
      | zero => simp [decN] at h; obtain ⟨h1, _⟩ := h; subst h1; rfl
      | succ n =>
        simp only [decN] at h
        repeat btstep
        simp only [Except.ok.injEq, Prod.mk.injEq] at h
        obtain ⟨rfl, _⟩ := h
        simp_all [btInvL]
    · intro d n bs m m' r h hm
      cases n with
      | zero => simp [decKV] at h; obtain ⟨h1, _⟩ := h; subst h1; exact hm
      | succ n =>
        simp only [decKV] at h
        split at h
        · simp at h
        · rename_i k r1 hk
          split at h
          · simp at h
          · rename_i v r2 hv
            exact ih3 _ _ _ _ _ _ h (KVInv_insert m k v hm (ih1 _ _ _ _ hk) (ih1 _ _ _ _ hv))

/-- every term the decoder model returns satisfies the `BTreeMap` invariant at every map node whose keys carry
minimal big integers — any configuration, cache, fuel, depth, input, behaviour of the external calls -/
theorem dec_btInv (x : Ext) (cfg : DecCfg) (fuel d : Nat) (bs : Bytes) (t : Term) (r : Bytes)
    (h : dec x cfg fuel d bs = .ok (t, r)) : btInv t = true := (dec_btInv_all x cfg fuel).1 d bs t r h

theorem decodeWith_btInv (x : Ext) (cfg : DecCfg) (bs : Bytes) (t : Term) (h : decodeWith x cfg bs = .ok t) :
    btInv t = true := by
  unfold decodeWith at h
  split at h
  · simp at h
  · split at h
    · simp at h
    · split at h
      · simp at h
      · rename_i heq
        simp only [Except.ok.injEq] at h
        subst h
        exact dec_btInv _ _ _ _ _ _ _ heq
      · simp at h

/-! ### from the decoder's invariant to the guards of the other properties -/

mutual
theorem mapKeysMin_of_WFo : ∀ (t : Term), WFo t = true → mapKeysMin t = true
  | .atom _, _ | .int _, _ | .float _, _ | .pid _, _ | .port _ _ _ _, _ | .ref _ _ _ _, _ | .bin _, _
  | .bits _ _, _ | .str _, _ | .xfun _ _ _, _ | .nil, _ | .big _ _, _ => by simp [mapKeysMin]
  | .tuple l, h => by simp only [WFo] at h; simp only [mapKeysMin]; exact mapKeysMinL_of_WFoL l h
  | .list l, h => by simp only [WFo] at h; simp only [mapKeysMin]; exact mapKeysMinL_of_WFoL l h
  | .ifun _ _ _ _ _ _ _ _ fr, h => by simp only [WFo] at h; simp only [mapKeysMin]; exact mapKeysMinL_of_WFoL fr h
  | .ilist l t, h => by
    simp only [WFo, Bool.and_eq_true] at h
    simp only [mapKeysMin, Bool.and_eq_true]
    exact ⟨mapKeysMinL_of_WFoL l h.1, mapKeysMin_of_WFo t h.2⟩
  | .map kvs, h => by
    simp only [WFo] at h
    simp only [mapKeysMin, Bool.and_eq_true]
    exact mapKeysMinKV_of_WFoKV kvs h
theorem mapKeysMinL_of_WFoL : ∀ (l : List Term), WFoL l = true → mapKeysMinL l = true
  | [], _ => rfl
  | t :: ts, h => by
    simp only [WFoL, Bool.and_eq_true] at h
    simp only [mapKeysMinL, Bool.and_eq_true]
    exact ⟨mapKeysMin_of_WFo t h.1, mapKeysMinL_of_WFoL ts h.2⟩
theorem mapKeysMinKV_of_WFoKV : ∀ (l : List (Term × Term)), WFoKV l = true → keysWFo l = true ∧ mapKeysMinKV l = true
  | [], _ => by simp [keysWFo, mapKeysMinKV]
  | (k, v) :: r, h => by
    simp only [WFoKV, Bool.and_eq_true] at h
    have ih := mapKeysMinKV_of_WFoKV r h.2
    simp only [keysWFo, List.all_cons, Bool.and_eq_true, mapKeysMinKV] at ih ⊢
    exact ⟨⟨h.1.1, ih.1⟩, ⟨mapKeysMin_of_WFo k h.1.1, mapKeysMin_of_WFo v h.1.2⟩, ih.2⟩
end

mutual
/-- under minimal digits in map keys the decoder's invariant is the plain `BTreeMap` invariant -/
theorem mapsStrict_of_btInv : ∀ (t : Term), btInv t = true → mapKeysMin t = true → mapsStrict t = true
  | .atom _, _, _ | .int _, _, _ | .float _, _, _ | .pid _, _, _ | .port _ _ _ _, _, _ | .ref _ _ _ _, _, _ | .bin _, _, _
  | .bits _ _, _, _ | .str _, _, _ | .xfun _ _ _, _, _ | .nil, _, _ | .big _ _, _, _ => by simp [mapsStrict]
  | .tuple l, h, w => by
    simp only [btInv] at h; simp only [mapKeysMin] at w; simp only [mapsStrict]; exact mapsStrictL_of_btInvL l h w
  | .list l, h, w => by
    simp only [btInv] at h; simp only [mapKeysMin] at w; simp only [mapsStrict]; exact mapsStrictL_of_btInvL l h w
  | .ifun _ _ _ _ _ _ _ _ fr, h, w => by
    simp only [btInv] at h; simp only [mapKeysMin] at w; simp only [mapsStrict]; exact mapsStrictL_of_btInvL fr h w
  | .ilist l t, h, w => by
    simp only [btInv, Bool.and_eq_true] at h; simp only [mapKeysMin, Bool.and_eq_true] at w
    simp only [mapsStrict, Bool.and_eq_true]
    exact ⟨mapsStrictL_of_btInvL l h.1 w.1, mapsStrict_of_btInv t h.2 w.2⟩
  | .map kvs, h, w => by
    simp only [btInv, Bool.and_eq_true, Bool.or_eq_true, Bool.not_eq_true'] at h
    simp only [mapKeysMin, Bool.and_eq_true] at w
    simp only [mapsStrict, Bool.and_eq_true]
    refine ⟨?_, mapsStrictKV_of_btInvKV kvs h.2 w.2⟩
    rcases h.1 with h1 | h1
    · rw [w.1] at h1; cases h1
    · exact h1
theorem mapsStrictL_of_btInvL : ∀ (l : List Term), btInvL l = true → mapKeysMinL l = true → mapsStrictL l = true
  | [], _, _ => rfl
  | t :: ts, h, w => by
    simp only [btInvL, Bool.and_eq_true] at h; simp only [mapKeysMinL, Bool.and_eq_true] at w
    simp only [mapsStrictL, Bool.and_eq_true]
    exact ⟨mapsStrict_of_btInv t h.1 w.1, mapsStrictL_of_btInvL ts h.2 w.2⟩
theorem mapsStrictKV_of_btInvKV : ∀ (l : List (Term × Term)), btInvKV l = true → mapKeysMinKV l = true →
    mapsStrictKV l = true
  | [], _, _ => rfl
  | (k, v) :: r, h, w => by
    simp only [btInvKV, Bool.and_eq_true] at h; simp only [mapKeysMinKV, Bool.and_eq_true] at w
    simp only [mapsStrictKV, Bool.and_eq_true]
    exact ⟨⟨mapsStrict_of_btInv k h.1.1 w.1.1, mapsStrict_of_btInv v h.1.2 w.1.2⟩, mapsStrictKV_of_btInvKV r h.2 w.2⟩
end

mutual
/-- the guard of the conversion theorems (C10, C13) follows -/
theorem btreeSorted_of_mapsStrict : ∀ (t : Term), mapsStrict t = true → btreeSorted t = true
  | .atom _, _ | .int _, _ | .float _, _ | .pid _, _ | .port _ _ _ _, _ | .ref _ _ _ _, _ | .bin _, _
  | .bits _ _, _ | .str _, _ | .xfun _ _ _, _ | .nil, _ | .big _ _, _ | .ifun _ _ _ _ _ _ _ _ _, _ => by simp [btreeSorted]
  | .tuple l, h => by simp only [mapsStrict] at h; simp only [btreeSorted]; exact btreeSortedL_of_mapsStrictL l h
  | .list l, h => by simp only [mapsStrict] at h; simp only [btreeSorted]; exact btreeSortedL_of_mapsStrictL l h
  | .ilist l t, h => by
    simp only [mapsStrict, Bool.and_eq_true] at h
    simp only [btreeSorted, Bool.and_eq_true]
    exact ⟨btreeSortedL_of_mapsStrictL l h.1, btreeSorted_of_mapsStrict t h.2⟩
  | .map kvs, h => by
    simp only [mapsStrict, Bool.and_eq_true] at h
    simp only [btreeSorted, Bool.and_eq_true]
    exact ⟨btreeSortedKV_of_mapsStrictKV kvs h.2, h.1⟩
theorem btreeSortedL_of_mapsStrictL : ∀ (l : List Term), mapsStrictL l = true → btreeSortedL l = true
  | [], _ => rfl
  | t :: ts, h => by
    simp only [mapsStrictL, Bool.and_eq_true] at h
    simp only [btreeSortedL, Bool.and_eq_true]
    exact ⟨btreeSorted_of_mapsStrict t h.1, btreeSortedL_of_mapsStrictL ts h.2⟩
theorem btreeSortedKV_of_mapsStrictKV : ∀ (l : List (Term × Term)), mapsStrictKV l = true → btreeSortedKV l = true
  | [], _ => rfl
  | (k, v) :: r, h => by
    simp only [mapsStrictKV, Bool.and_eq_true] at h
    simp only [btreeSortedKV, Bool.and_eq_true]
    exact ⟨⟨btreeSorted_of_mapsStrict k h.1.1, btreeSorted_of_mapsStrict v h.1.2⟩, btreeSortedKV_of_mapsStrictKV r h.2⟩
end

/-- every decoded term whose map keys carry minimal big integers has all its maps strictly sorted -/
theorem dec_mapsStrict (x : Ext) (cfg : DecCfg) (fuel d : Nat) (bs : Bytes) (t : Term) (r : Bytes)
    (h : dec x cfg fuel d bs = .ok (t, r)) (hk : mapKeysMin t = true) : mapsStrict t = true :=
  mapsStrict_of_btInv t (dec_btInv x cfg fuel d bs t r h) hk

end Edp
