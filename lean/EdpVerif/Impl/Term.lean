import EdpVerif.Basic.Bytes
/-
`Term` mirrors `erltf::OwnedTerm` (term.rs:33) constructor by constructor.
`BorrowedTerm` is the same Lean type (DESIGN §4).
Canonical text form shared with the Rust harness (harness/src/canon.rs).
-/
namespace Edp

structure PidF where
  node : Bytes
  id : Nat
  serial : Nat
  creation : Nat
  loc : Option Bytes := none
  deriving Repr, BEq, DecidableEq, Inhabited

inductive Term where
  | atom (n : Bytes)
  | int (i : Int)
  | float (bits : Nat)
  | pid (p : PidF)
  | port (node : Bytes) (id creation : Nat) (loc : Option Bytes)
  | ref (node : Bytes) (creation : Nat) (ids : List Nat) (loc : Option Bytes)
  | bin (b : Bytes)
  | bits (b : Bytes) (n : Nat)
  | str (s : Bytes)
  | list (l : List Term)
  | ilist (l : List Term) (tail : Term)
  | map (kvs : List (Term × Term))
  | tuple (l : List Term)
  | big (neg : Bool) (digits : Bytes)
  | xfun (m f : Bytes) (arity : Nat)
  | ifun (arity : Nat) (uniq : Bytes) (index numFree : Nat) (mod : Bytes)
         (oldIndex oldUniq : Nat) (pid : PidF) (free : List Term)
  | nil
  deriving Repr, BEq, Inhabited

namespace Term

def isNil : Term → Bool
  | .nil => true
  | _ => false

def locText : Option Bytes → String
  | none => "-"
  | some b => "=" ++ hexOf b

def pidText (p : PidF) : String :=
  "P(" ++ hexOf p.node ++ "," ++ toString p.id ++ "," ++ toString p.serial ++ "," ++
    toString p.creation ++ "," ++ locText p.loc ++ ")"

def natsText (l : List Nat) : String := ".".intercalate (l.map toString)

mutual
def text : Term → String
  | .atom n => "A" ++ hexOf n
  | .int i => "I" ++ toString i
  | .float b => "F" ++ hexOf (be64 b)
  | .pid p => pidText p
  | .port n i c l => "O(" ++ hexOf n ++ "," ++ toString i ++ "," ++ toString c ++ "," ++ locText l ++ ")"
  | .ref n c ids l => "R(" ++ hexOf n ++ "," ++ toString c ++ "," ++ natsText ids ++ "," ++ locText l ++ ")"
  | .bin b => "B" ++ hexOf b
  | .bits b n => "K" ++ toString n ++ ":" ++ hexOf b
  | .str s => "S" ++ hexOf s
  | .list l => "L[" ++ textL l ++ "]"
  | .ilist l t => "J[" ++ textL l ++ "|" ++ text t ++ "]"
  | .map kvs => "D[" ++ textKV kvs ++ "]"
  | .tuple l => "U[" ++ textL l ++ "]"
  | .big neg d => "G" ++ (if neg then "-" else "+") ++ hexOf d
  | .xfun m f a => "X(" ++ hexOf m ++ "," ++ hexOf f ++ "," ++ toString a ++ ")"
  | .ifun a u i nf m oi ou p fr =>
      "Y(" ++ toString a ++ "," ++ hexOf u ++ "," ++ toString i ++ "," ++ toString nf ++ "," ++ hexOf m ++ "," ++
        toString oi ++ "," ++ toString ou ++ "," ++ pidText p ++ ",[" ++ textL fr ++ "])"
  | .nil => "N"
def textL : List Term → String
  | [] => ""
  | [t] => text t
  | t :: ts => text t ++ "," ++ textL ts
def textKV : List (Term × Term) → String
  | [] => ""
  | [(k, v)] => text k ++ "," ++ text v
  | (k, v) :: r => text k ++ "," ++ text v ++ "," ++ textKV r
end

/-! ### parser (driver only; `partial`, never used in a theorem) -/

abbrev P := List Char

def pHex (cs : P) : Bytes × P :=
  let h := cs.takeWhile (fun c => (hexVal c).isSome)
  ((unhexL h).getD [], cs.drop h.length)

def pNat (cs : P) : Nat × P :=
  let d := cs.takeWhile Char.isDigit
  ((String.ofList d).toNat!, cs.drop d.length)

def pInt (cs : P) : Int × P :=
  match cs with
  | '-' :: r => let (n, r') := pNat r; (-(n : Int), r')
  | _ => let (n, r') := pNat cs; ((n : Int), r')

def expect (c : Char) (cs : P) : Option P :=
  match cs with
  | d :: r => if c == d then some r else none
  | [] => none

def pLoc (cs : P) : Option (Option Bytes × P) :=
  match cs with
  | '-' :: r => some (none, r)
  | '=' :: r => let (b, r') := pHex r; some (some b, r')
  | _ => none

def pNats (cs : P) : List Nat × P :=
  match cs with
  | c :: _ =>
    if c.isDigit then
      let rec go (cs : P) (acc : List Nat) (fuel : Nat) : List Nat × P :=
        match fuel with
        | 0 => (acc.reverse, cs)
        | fuel+1 =>
          let (n, r) := pNat cs
          match r with
          | '.' :: r' => go r' (n :: acc) fuel
          | _ => ((n :: acc).reverse, r)
      go cs [] cs.length
    else ([], cs)
  | [] => ([], cs)

def pPid (cs : P) : Option (PidF × P) := do
  let r ← expect 'P' cs
  let r ← expect '(' r
  let (node, r) := pHex r
  let r ← expect ',' r
  let (id, r) := pNat r
  let r ← expect ',' r
  let (serial, r) := pNat r
  let r ← expect ',' r
  let (creation, r) := pNat r
  let r ← expect ',' r
  let (loc, r) ← pLoc r
  let r ← expect ')' r
  pure ({ node, id, serial, creation, loc }, r)

mutual
partial def parse (cs : P) : Option (Term × P) :=
  match cs with
  | 'A' :: r => let (b, r) := pHex r; some (.atom b, r)
  | 'I' :: r => let (i, r) := pInt r; some (.int i, r)
  | 'F' :: r =>
    let (b, r) := pHex r
    match rd64 b with
    | some (v, _) => some (.float v, r)
    | none => none
  | 'P' :: _ => do let (p, r) ← pPid cs; pure (.pid p, r)
  | 'O' :: r => do
    let r ← expect '(' r
    let (node, r) := pHex r
    let r ← expect ',' r
    let (id, r) := pNat r
    let r ← expect ',' r
    let (creation, r) := pNat r
    let r ← expect ',' r
    let (loc, r) ← pLoc r
    let r ← expect ')' r
    pure (.port node id creation loc, r)
  | 'R' :: r => do
    let r ← expect '(' r
    let (node, r) := pHex r
    let r ← expect ',' r
    let (creation, r) := pNat r
    let r ← expect ',' r
    let (ids, r) := pNats r
    let r ← expect ',' r
    let (loc, r) ← pLoc r
    let r ← expect ')' r
    pure (.ref node creation ids loc, r)
  | 'B' :: r => let (b, r) := pHex r; some (.bin b, r)
  | 'K' :: r => do
    let (n, r) := pNat r
    let r ← expect ':' r
    let (b, r) := pHex r
    pure (.bits b n, r)
  | 'S' :: r => let (b, r) := pHex r; some (.str b, r)
  | 'L' :: '[' :: r => do let (l, r) ← parseL r; let r ← expect ']' r; pure (.list l, r)
  | 'J' :: '[' :: r => do
    let (l, r) ← parseL r
    let r ← expect '|' r
    let (t, r) ← parse r
    let r ← expect ']' r
    pure (.ilist l t, r)
  | 'D' :: '[' :: r => do
    let (l, r) ← parseL r
    let r ← expect ']' r
    let rec pairs : List Term → Option (List (Term × Term))
      | [] => some []
      | [_] => none
      | k :: v :: t => (pairs t).map ((k, v) :: ·)
    let kvs ← pairs l
    pure (.map kvs, r)
  | 'U' :: '[' :: r => do let (l, r) ← parseL r; let r ← expect ']' r; pure (.tuple l, r)
  | 'G' :: s :: r =>
    let (b, r) := pHex r
    if s == '-' then some (.big true b, r) else if s == '+' then some (.big false b, r) else none
  | 'X' :: r => do
    let r ← expect '(' r
    let (m, r) := pHex r
    let r ← expect ',' r
    let (f, r) := pHex r
    let r ← expect ',' r
    let (a, r) := pNat r
    let r ← expect ')' r
    pure (.xfun m f a, r)
  | 'Y' :: r => do
    let r ← expect '(' r
    let (a, r) := pNat r
    let r ← expect ',' r
    let (u, r) := pHex r
    let r ← expect ',' r
    let (i, r) := pNat r
    let r ← expect ',' r
    let (nf, r) := pNat r
    let r ← expect ',' r
    let (m, r) := pHex r
    let r ← expect ',' r
    let (oi, r) := pNat r
    let r ← expect ',' r
    let (ou, r) := pNat r
    let r ← expect ',' r
    let (p, r) ← pPid r
    let r ← expect ',' r
    let r ← expect '[' r
    let (fr, r) ← parseL r
    let r ← expect ']' r
    let r ← expect ')' r
    pure (.ifun a u i nf m oi ou p fr, r)
  | 'N' :: r => some (.nil, r)
  | _ => none
partial def parseL (cs : P) : Option (List Term × P) :=
  match cs with
  | ']' :: _ => some ([], cs)
  | '|' :: _ => some ([], cs)
  | _ => do
    let (t, r) ← parse cs
    match r with
    | ',' :: r' => do let (ts, r'') ← parseL r'; pure (t :: ts, r'')
    | _ => pure ([t], r)
end

def ofText (s : String) : Option Term :=
  match parse s.toList with
  | some (t, []) => some t
  | _ => none

end Term
end Edp
