#!/usr/bin/env python3
"""Union of add-only edits to tools/gen_misc.py: base (git commit) + new top-level functions of each builder copy.
usage: tools/merge_gen_misc.py <base-commit> <builder-name>...   (rewrites tools/gen_misc.py from the CURRENT file + builders)"""
import re, subprocess, sys, os
ROOT = os.path.dirname(os.path.dirname(os.path.abspath(__file__)))
base_commit, names = sys.argv[1], sys.argv[2:]
def split(src):
    """-> (preamble, [(name, text)]) top-level def/assignment blocks"""
    parts = re.split(r"(?m)^(?=def |[A-Z_]+ = )", src)
    pre, blocks = parts[0], []
    for p in parts[1:]:
        m = re.match(r"def (\w+)|([A-Z_]+) =", p)
        blocks.append((m.group(1) or m.group(2), p))
    return pre, blocks
base = subprocess.run(["git", "-C", ROOT, "show", f"{base_commit}:tools/gen_misc.py"], capture_output=True, text=True).stdout
cur_path = os.path.join(ROOT, "tools", "gen_misc.py")
cur = open(cur_path).read()
_, bblocks = split(base); bnames = {n: t for n, t in bblocks}
pre, cblocks = split(cur)
cnames = [n for n, _ in cblocks]
def run_parts(text):
    m = re.search(r"parts = \(([^)]*)\)", text) or re.search(r"for part in \(([^)]*)\):", text)
    return [x.strip() for x in m.group(1).split(",") if x.strip()]
parts = run_parts(dict(cblocks)["run"])
for nm in names:
    src = open(f"/tmp/bld/{nm}/verif/tools/gen_misc.py").read()
    _, blocks = split(src)
    for n, t in blocks:
        if n == "run":
            for p in run_parts(t):
                if p not in parts:
                    parts.append(p)
            continue
        if n in bnames:
            if t != bnames[n]:
                print(f"NOTE {nm}: existing block `{n}` was modified (not add-only); taking the builder's version" if dict(cblocks).get(n) == bnames[n] else f"CONFLICT {nm}: `{n}` modified by builder and in /verif")
                if dict(cblocks).get(n) == bnames[n]:
                    cblocks = [(a, t if a == n else b) for a, b in cblocks]
            continue
        if n in cnames:
            if dict(cblocks)[n] != t:
                print(f"CONFLICT {nm}: new block `{n}` already present with other content")
            continue
        idx = [a for a, _ in cblocks].index("run")
        cblocks.insert(idx, (n, t)); cnames.append(n)
        print(f"added {n} from {nm}")
# gen_state last among parts for stable output order
out = pre
for n, t in cblocks:
    if n == "run":
        if re.search(r"parts = \([^)]*\)", t):
            t = re.sub(r"parts = \([^)]*\)", "parts = (" + ", ".join(parts) + ")", t)
        else:
            t = re.sub(r"for part in \([^)]*\):", "for part in (" + ", ".join(parts) + "):", t)
    out += t
open(cur_path, "w").write(out)
print("run parts:", parts)
