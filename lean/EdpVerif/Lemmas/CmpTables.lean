import EdpVerif.Impl.CmpArms
import EdpVerif.Impl.EqHash
/-!
What the models of the term order, of `==` and of `Hash` transcribe from the source, as literal tables, to be compared
with the tables the translator regenerates from term.rs / borrowed.rs / types.rs on every run (tools/gen_misc.py `gen_c11`).
`variantName` links a model constructor to the Rust variant it stands for.
-/
namespace Edp
open Edp.Term

/-- the Rust variant a model constructor stands for -/
def variantName : Term → String
  | .atom _ => "Atom" | .int _ => "Integer" | .float _ => "Float" | .pid _ => "Pid" | .port _ _ _ _ => "Port"
  | .ref _ _ _ _ => "Reference" | .bin _ => "Binary" | .bits _ _ => "BitBinary" | .str _ => "String" | .list _ => "List"
  | .ilist _ _ => "ImproperList" | .map _ => "Map" | .tuple _ => "Tuple" | .big _ _ => "BigInt" | .xfun _ _ _ => "ExternalFun"
  | .ifun _ _ _ _ _ _ _ _ _ => "InternalFun" | .nil => "Nil"

/-- `discriminant`: the position of the variant in the declaration of `OwnedTerm` -/
def discr : Term → Nat
  | .atom _ => 0 | .int _ => 1 | .float _ => 2 | .pid _ => 3 | .port _ _ _ _ => 4 | .ref _ _ _ _ => 5 | .bin _ => 6
  | .bits _ _ => 7 | .str _ => 8 | .list _ => 9 | .ilist _ _ => 10 | .map _ => 11 | .tuple _ => 12 | .big _ _ => 13
  | .xfun _ _ _ => 14 | .ifun _ _ _ _ _ _ _ _ _ => 15 | .nil => 16

/-- Erlang's type order as the property states it: number < atom < reference < fun < port < pid < tuple < map < list
(nil included) < bit-string -/
def erlangRanks : List (String × Nat) := [("Integer", 0), ("BigInt", 0), ("Float", 0), ("Atom", 1), ("Reference", 2), ("ExternalFun", 3), ("InternalFun", 3), ("Port", 4), ("Pid", 5), ("Tuple", 6), ("Map", 7), ("Nil", 8), ("List", 8), ("ImproperList", 8), ("Binary", 9), ("BitBinary", 9), ("String", 9)]

/-- the arms `cmpO` / `cmpB` (Impl/CmpArms.lean) transcribe, in source order: variant pair and what the arm evaluates -/
def modelArms : List (String × String × String) := [("Integer", "Integer", "a.cmp(b)"),
  ("Integer", "BigInt", "compare_int_bigint(*a,b)"),
  ("BigInt", "Integer", "compare_bigint_int(a,*b)"),
  ("BigInt", "BigInt", "compare_bigint(a,b)"),
  ("Integer", "Float", "compare_int_float(*a,*b)"),
  ("Float", "Integer", "compare_float_int(*a,*b)"),
  ("BigInt", "Float", "compare_bigint_float(a,*b)"),
  ("Float", "BigInt", "compare_float_bigint(*a,b)"),
  ("Float", "Float", "ifa.is_nan()&&b.is_nan(){Ordering::Equal}elseifa.is_nan(){Ordering::Greater}elseifb.is_nan(){Ordering::Less}else{a.partial_cmp(b).unwrap_or(Ordering::Equal)}"),
  ("Atom", "Atom", "a.cmp(b)"),
  ("Reference", "Reference", "a.node.name.cmp(&b.node.name).then_with(||a.creation.cmp(&b.creation)).then_with(||a.ids.cmp(&b.ids))"),
  ("ExternalFun", "ExternalFun", "a.module.name.cmp(&b.module.name).then_with(||a.function.name.cmp(&b.function.name)).then_with(||a.arity.cmp(&b.arity))"),
  ("InternalFun", "InternalFun", "a.module.name.cmp(&b.module.name).then_with(||a.old_index.cmp(&b.old_index)).then_with(||a.old_uniq.cmp(&b.old_uniq)).then_with(||a.index.cmp(&b.index)).then_with(||a.uniq.cmp(&b.uniq)).then_with(||a.pid.cmp(&b.pid)).then_with(||compare_term_lists(&a.free_vars,&b.free_vars))"),
  ("ExternalFun", "InternalFun", "Ordering::Less"),
  ("InternalFun", "ExternalFun", "Ordering::Greater"),
  ("Port", "Port", "a.node.name.cmp(&b.node.name).then_with(||a.id.cmp(&b.id)).then_with(||a.creation.cmp(&b.creation))"),
  ("Pid", "Pid", "a.node.name.cmp(&b.node.name).then_with(||a.id.cmp(&b.id)).then_with(||a.serial.cmp(&b.serial)).then_with(||a.creation.cmp(&b.creation))"),
  ("Tuple", "Tuple", "a.len().cmp(&b.len()).then_with(||{for(x,y)ina.iter().zip(b.iter()){matchx.cmp(y){Ordering::Equal=>continue,other=>returnother,}}Ordering::Equal})"),
  ("Map", "Map", "a.len().cmp(&b.len()).then_with(||{for(k1,k2)ina.keys().zip(b.keys()){matchk1.cmp(k2){Ordering::Equal=>continue,other=>returnother,}}for(v1,v2)ina.values().zip(b.values()){matchv1.cmp(v2){Ordering::Equal=>continue,other=>returnother,}}Ordering::Equal})"),
  ("Nil", "Nil", "Ordering::Equal"),
  ("Binary", "Binary", "a.cmp(b)"),
  ("String", "String", "a.cmp(b)"),
  ("Binary", "String", "a.cmp(b)"),
  ("String", "Binary", "a.cmp(b)"),
  ("BitBinary", "BitBinary", "a.cmp(b).then_with(||abits.cmp(bbits))")]

def modelCatchAll : String := "match(this.bitstring_parts(),other.bitstring_parts()){(Some((a,abits)),Some((b,bbits)))=>{a.cmp(b).then_with(||abits.cmp(&bbits))}_=>compare_list_terms(this,other),}"

def modelFastArms : List (String × String × String) := [("Integer", "Integer", "a.cmp(b)"),
  ("Atom", "Atom", "a.cmp(b)"),
  ("Binary", "Binary", "a.cmp(b)"),
  ("String", "String", "a.cmp(b)"),
  ("Nil", "Nil", "Ordering::Equal")]

/-- what `Term.hashBytes` (Impl/EqHash.lean) writes per variant after the discriminant -/
def modelHashFields : List (String × List String) := [("Atom", ["a"]), ("Integer", ["i"]), ("Binary", ["b"]), ("String", ["s"]), ("Pid", ["p"]), ("Port", ["p"]), ("Reference", ["r"]), ("Nil", []), ("Float", ["(if*f==0.0{0.0f64}else{*f}).to_bits()"]), ("BigInt", ["big"]), ("BitBinary", ["bytes", "bits"]), ("List", ["elements.len()", "each:elem"]), ("ImproperList", ["elements.len()", "each:elem", "tail"]), ("Tuple", ["elements.len()", "each:elem"]), ("Map", ["map.len()", "each:k", "v"]), ("ExternalFun", ["f"]), ("InternalFun", ["f.arity", "f.uniq", "f.index", "f.num_free", "f.module", "f.old_index", "f.old_uniq", "f.pid", "each:var"])]

/-- first arm of an arm table that matches a variant pair -/
def armOf (t : List (String × String × String)) (a b : String) : Option String :=
  (t.find? (fun e => e.1 == a && e.2.1 == b)).map (·.2.2)

def rankOfName (t : List (String × Nat)) (v : String) : Nat := (t.lookup v).getD 99

end Edp
