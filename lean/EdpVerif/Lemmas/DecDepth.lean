import EdpVerif.Impl.DecodeMeter
import EdpVerif.Lemmas.DecSorted
/-!
Nesting of decoded terms: a term the decoder model returns when entered at depth `d` is nested at most
`MAX_NESTING_DEPTH + 1 - d` levels deep (`Term.depth`, Impl/DecodeMeter.lean: containers one above their deepest
child, leaves 0).  Every container costs the decoder one level (`depth + 1` for its children, refused above
`MAX_NESTING_DEPTH`); the `+ 1` is the empty container at the last permitted level, whose children are never entered.
Hence whatever recurses over a decoded term structurally — `Drop`, `Clone`, `to_owned`, `Ord`, `Hash`, serde's
deserializer — recurses at most `MAX_NESTING_DEPTH + 2` frames deep.
-/
namespace Edp
open Term

theorem depthL_ints (s : Bytes) : Term.depthL (s.map fun b => Term.int b.toNat) = 0 := by
  induction s with
  | nil => rfl
  | cons b s ih => simp [Term.depthL, Term.depth, ih]

theorem depthKV_mapInsert_le (m : List (Term × Term)) (k v : Term) :
    Term.depthKV (mapInsert m k v) ≤ max (Term.depthKV m) (max k.depth v.depth) := by
  induction m with
  | nil => simp [mapInsert, Term.depthKV]
  | cons p0 r ih =>
    obtain ⟨k', v'⟩ := p0
    simp only [mapInsert]
    cases Term.cmp k k' <;> simp only [Term.depthKV] at ih ⊢ <;> omega

set_option hygiene false in
macro "depstep" : tactic => `(tactic| (
  split at h <;> (first
    | (simp at h; done)
    | (rename_i heq; first
        | (have := ih1 _ _ _ _ heq)
        | (have := ih2 _ _ _ _ _ heq)
        | (have := ih3 _ _ _ _ _ _ heq (Or.inl rfl))
        | skip)
    | skip)))

set_option maxHeartbeats 4000000 in
theorem dec_depth_all (x : Ext) (cfg : DecCfg) : ∀ (fuel : Nat),
    (∀ d bs t r, dec x cfg fuel d bs = .ok (t, r) → t.depth + d ≤ MAX_NESTING_DEPTH + 1) ∧
    (∀ d n bs l r, decN x cfg fuel d n bs = .ok (l, r) →
      Term.depthL l = 0 ∨ Term.depthL l + d ≤ MAX_NESTING_DEPTH + 1) ∧
    (∀ d n bs m m' r, decKV x cfg fuel d n bs m = .ok (m', r) →
      (Term.depthKV m = 0 ∨ Term.depthKV m + d ≤ MAX_NESTING_DEPTH + 1) →
      (Term.depthKV m' = 0 ∨ Term.depthKV m' + d ≤ MAX_NESTING_DEPTH + 1)) := by
  intro fuel
  induction fuel with
  | zero =>
    refine ⟨?_, ?_, ?_⟩
    · intro d bs t r h; simp [dec] at h
    · intro d n bs l r h; cases n <;> simp [decN] at h; obtain ⟨h1, _⟩ := h; subst h1; exact .inl rfl
    · intro d n bs m m' r h hm; cases n <;> simp [decKV] at h; obtain ⟨h1, _⟩ := h; subst h1; exact hm
  | succ f ih =>
    obtain ⟨ih1, ih2, ih3⟩ := ih
    refine ⟨?_, ?_, ?_⟩
    · intro d bs t r h
      cases bs with
      | nil => simp [dec] at h
      | cons tg bs =>
        simp only [dec] at h
        by_cases hd : d > MAX_NESTING_DEPTH
        · simp [hd] at h
        · simp only [hd, ↓reduceIte] at h
          split at h
          · simp at h
          · split at h
            all_goals (repeat depstep)
            all_goals (first
              | (obtain ⟨_, rfl⟩ := decLatin1Body_shape h; simp only [Term.depth, MAX_NESTING_DEPTH] at *; omega)
              | (obtain ⟨_, rfl⟩ := decAtomBody_shape h; simp only [Term.depth, MAX_NESTING_DEPTH] at *; omega)
              | (obtain ⟨_, _, rfl⟩ := decBig_shape h; simp only [Term.depth, MAX_NESTING_DEPTH] at *; omega)
              | (simp at h; done)
              | (simp only [Except.ok.injEq, Prod.mk.injEq] at h
                 obtain ⟨rfl, _⟩ := h
                 simp only [Term.depth, depthL_ints, MAX_NESTING_DEPTH] at *
                 omega))
    · intro d n bs l r h
      cases n with
      | zero => simp [decN] at h; obtain ⟨h1, _⟩ := h; subst h1; exact .inl rfl
      | succ n =>
        simp only [decN] at h
        repeat depstep
        simp only [Except.ok.injEq, Prod.mk.injEq] at h
        obtain ⟨rfl, _⟩ := h
        simp only [Term.depthL, MAX_NESTING_DEPTH] at *
        omega
    · intro d n bs m m' r h hm
      cases n with
      | zero => simp [decKV] at h; obtain ⟨h1, _⟩ := h; subst h1; exact hm
      | succ n =>
        simp only [decKV] at h
        split at h
        · simp at h
        · rename_i k r1 hk
          split at h
          · simp at h
          · rename_i v r2 hv
            refine ih3 _ _ _ _ _ _ h ?_
            have h1 := ih1 _ _ _ _ hk
            have h2 := ih1 _ _ _ _ hv
            have h3 := depthKV_mapInsert_le m k v
            simp only [MAX_NESTING_DEPTH] at *
            omega

/-- a term decoded at depth `d` is nested at most `MAX_NESTING_DEPTH + 1 - d` deep -/
theorem dec_depth (x : Ext) (cfg : DecCfg) (fuel d : Nat) (bs : Bytes) (t : Term) (r : Bytes)
    (h : dec x cfg fuel d bs = .ok (t, r)) : t.depth + d ≤ MAX_NESTING_DEPTH + 1 :=
  (dec_depth_all x cfg fuel).1 d bs t r h

theorem decodeWith_depth (x : Ext) (cfg : DecCfg) (bs : Bytes) (t : Term) (h : decodeWith x cfg bs = .ok t) :
    t.depth ≤ MAX_NESTING_DEPTH + 1 := by
  unfold decodeWith at h
  split at h
  · simp at h
  · split at h
    · simp at h
    · split at h
      · simp at h
      · rename_i heq
        simp only [Except.ok.injEq] at h
        subst h
        exact dec_depth _ _ _ _ _ _ _ heq
      · simp at h

end Edp
