//! C15: serde round trip (`erltf_serde::{to_term, from_term, to_bytes, from_bytes}`) over a universe of Rust types.
//!
//! Dynamic part: `V` (a value of any type of the universe) implements `serde::Serialize` by calling exactly the
//! `Serializer` methods the std / derived impls call; `&Ty` implements `DeserializeSeed` by calling exactly the
//! `Deserializer` methods and visitors the std / derived impls use.  `Dyn` carries the top-level type through a
//! thread-local, because `from_term` / `from_bytes` only take `T: Deserialize`.
//! Concrete part: `#[derive(Serialize, Deserialize)]` and `#[derive(ElixirStruct)]` types, reflected into `V`
//! through a reflection `Serializer` (`Reflect`) so that the same model requests apply.
//! Text forms of `Ty` and `V`: see lean/EdpVerif/Drv/C15.lean.
#![allow(dead_code)]
use crate::canon::{hex, term_text};
use crate::rng::Rng;
use crate::Ctx;
use erltf::types::{Atom, BigInt};
use erltf::OwnedTerm;
use serde::de::{self, DeserializeSeed, EnumAccess, MapAccess, SeqAccess, VariantAccess, Visitor};
use serde::ser::{
    self, SerializeMap, SerializeSeq, SerializeStruct, SerializeStructVariant, SerializeTuple, SerializeTupleStruct,
    SerializeTupleVariant,
};
use serde::{Deserialize, Serialize};
use std::cell::RefCell;
use std::collections::{BTreeMap, HashMap};
use std::fmt;

type Name = &'static str;

thread_local! {
    static INTERN: RefCell<HashMap<String, &'static str>> = RefCell::new(HashMap::new());
    static INTERN_LIST: RefCell<HashMap<Vec<&'static str>, &'static [&'static str]>> = RefCell::new(HashMap::new());
    static CUR_TY: RefCell<Option<Ty>> = const { RefCell::new(None) };
}

fn intern(s: &str) -> Name {
    INTERN.with(|m| {
        let mut m = m.borrow_mut();
        if let Some(x) = m.get(s) {
            return *x;
        }
        let l: &'static str = Box::leak(s.to_string().into_boxed_str());
        m.insert(s.to_string(), l);
        l
    })
}

fn intern_list(v: Vec<&'static str>) -> &'static [&'static str] {
    INTERN_LIST.with(|m| {
        let mut m = m.borrow_mut();
        if let Some(x) = m.get(&v) {
            return *x;
        }
        let l: &'static [&'static str] = Box::leak(v.clone().into_boxed_slice());
        m.insert(v, l);
        l
    })
}

#[derive(Clone, Copy, Debug, PartialEq, Eq, Hash)]
pub enum IntTy {
    I8,
    I16,
    I32,
    I64,
    U8,
    U16,
    U32,
    U64,
}

impl IntTy {
    const ALL: [IntTy; 8] =
        [IntTy::I8, IntTy::I16, IntTy::I32, IntTy::I64, IntTy::U8, IntTy::U16, IntTy::U32, IntTy::U64];
    fn text(self) -> &'static str {
        match self {
            IntTy::I8 => "i8",
            IntTy::I16 => "i16",
            IntTy::I32 => "i32",
            IntTy::I64 => "i64",
            IntTy::U8 => "u8",
            IntTy::U16 => "u16",
            IntTy::U32 => "u32",
            IntTy::U64 => "u64",
        }
    }
    fn lo(self) -> i128 {
        match self {
            IntTy::I8 => i8::MIN as i128,
            IntTy::I16 => i16::MIN as i128,
            IntTy::I32 => i32::MIN as i128,
            IntTy::I64 => i64::MIN as i128,
            _ => 0,
        }
    }
    fn hi(self) -> i128 {
        match self {
            IntTy::I8 => i8::MAX as i128,
            IntTy::I16 => i16::MAX as i128,
            IntTy::I32 => i32::MAX as i128,
            IntTy::I64 => i64::MAX as i128,
            IntTy::U8 => u8::MAX as i128,
            IntTy::U16 => u16::MAX as i128,
            IntTy::U32 => u32::MAX as i128,
            IntTy::U64 => u64::MAX as i128,
        }
    }
    fn fits(self, i: i128) -> bool {
        self.lo() <= i && i <= self.hi()
    }
}

/// Rust types.  In `Enum` a variant's second component is a shape marker: `Unit`, `Newtype("", t)`, `Tup(ts)`, `Struct("", fs)`.
#[derive(Clone, Debug, PartialEq)]
pub enum Ty {
    Int(IntTy),
    F32,
    F64,
    Bool,
    Char,
    Str,
    Bytes,
    Unit,
    Opt(Box<Ty>),
    Tup(Vec<Ty>),
    Seq(Box<Ty>),
    Map(Box<Ty>, Box<Ty>),
    Struct(Name, Vec<(Name, Ty)>),
    UnitStruct(Name),
    Newtype(Name, Box<Ty>),
    TupleStruct(Name, Vec<Ty>),
    ExStruct(Name, Vec<(Name, Ty)>),
    Enum(Name, Vec<(Name, Ty)>),
}

#[derive(Clone, Debug, PartialEq)]
pub enum V {
    Int(IntTy, i128),
    F32(u32),
    F64(u64),
    Bool(bool),
    Char(char),
    Str(String),
    Bytes(Vec<u8>),
    Unit,
    None,
    Some(Box<V>),
    Tup(Vec<V>),
    Seq(Vec<V>),
    Map(Vec<(V, V)>),
    Struct(Name, Vec<(Name, V)>),
    UnitStruct(Name),
    Newtype(Name, Box<V>),
    TupleStruct(Name, Vec<V>),
    ExStruct(Name, Vec<(Name, V)>),
    /// enum name, variant name, variant index, payload (shaped like the markers)
    Variant(Name, Name, u32, Box<V>),
}

fn hx(s: &str) -> String {
    hex(s.as_bytes())
}

fn join<T>(xs: &[T], f: impl Fn(&T) -> String) -> String {
    xs.iter().map(f).collect::<Vec<_>>().join(",")
}

pub fn ty_text(t: &Ty) -> String {
    match t {
        Ty::Int(k) => k.text().to_string(),
        Ty::F32 => "f32".into(),
        Ty::F64 => "f64".into(),
        Ty::Bool => "bool".into(),
        Ty::Char => "char".into(),
        Ty::Str => "str".into(),
        Ty::Bytes => "bytes".into(),
        Ty::Unit => "unit".into(),
        Ty::Opt(t) => format!("opt({})", ty_text(t)),
        Ty::Tup(ts) => format!("tup({})", join(ts, ty_text)),
        Ty::Seq(t) => format!("seq({})", ty_text(t)),
        Ty::Map(k, v) => format!("map({},{})", ty_text(k), ty_text(v)),
        Ty::Struct(n, fs) => format!("st:{}({})", hx(n), join(fs, |f| format!("{}:{}", hx(f.0), ty_text(&f.1)))),
        Ty::UnitStruct(n) => format!("us:{}", hx(n)),
        Ty::Newtype(n, t) => format!("nt:{}({})", hx(n), ty_text(t)),
        Ty::TupleStruct(n, ts) => format!("ts:{}({})", hx(n), join(ts, ty_text)),
        Ty::ExStruct(n, fs) => format!("ex:{}({})", hx(n), join(fs, |f| format!("{}:{}", hx(f.0), ty_text(&f.1)))),
        Ty::Enum(n, vs) => format!("en:{}({})", hx(n), join(vs, |f| format!("{}:{}", hx(f.0), ty_text(&f.1)))),
    }
}

pub fn val_text(v: &V) -> String {
    match v {
        V::Int(k, i) => format!("{}:{}", k.text(), i),
        V::F32(b) => format!("f32:{:08x}", b),
        V::F64(b) => format!("f64:{:016x}", b),
        V::Bool(b) => if *b { "true".into() } else { "false".into() },
        V::Char(c) => format!("c:{}", *c as u32),
        V::Str(s) => format!("s:{}", hx(s)),
        V::Bytes(b) => format!("b:{}", hex(b)),
        V::Unit => "unit".into(),
        V::None => "none".into(),
        V::Some(v) => format!("some({})", val_text(v)),
        V::Tup(vs) => format!("tup({})", join(vs, val_text)),
        V::Seq(vs) => format!("seq({})", join(vs, val_text)),
        V::Map(kvs) => format!("map({})", join(kvs, |kv| format!("{},{}", val_text(&kv.0), val_text(&kv.1)))),
        V::Struct(n, fs) => format!("st:{}({})", hx(n), join(fs, |f| format!("{}:{}", hx(f.0), val_text(&f.1)))),
        V::UnitStruct(n) => format!("us:{}", hx(n)),
        V::Newtype(n, v) => format!("nt:{}({})", hx(n), val_text(v)),
        V::TupleStruct(n, vs) => format!("ts:{}({})", hx(n), join(vs, val_text)),
        V::ExStruct(n, fs) => format!("ex:{}({})", hx(n), join(fs, |f| format!("{}:{}", hx(f.0), val_text(&f.1)))),
        V::Variant(e, vn, _, p) => format!("en:{}:{}({})", hx(e), hx(vn), val_text(p)),
    }
}

// ------------------------------------------------------------------------------------------------
// Serialize: the calls the std / derived impls make
// ------------------------------------------------------------------------------------------------

impl Serialize for V {
    fn serialize<S: serde::Serializer>(&self, s: S) -> Result<S::Ok, S::Error> {
        match self {
            V::Int(k, i) => match k {
                IntTy::I8 => s.serialize_i8(*i as i8),
                IntTy::I16 => s.serialize_i16(*i as i16),
                IntTy::I32 => s.serialize_i32(*i as i32),
                IntTy::I64 => s.serialize_i64(*i as i64),
                IntTy::U8 => s.serialize_u8(*i as u8),
                IntTy::U16 => s.serialize_u16(*i as u16),
                IntTy::U32 => s.serialize_u32(*i as u32),
                IntTy::U64 => s.serialize_u64(*i as u64),
            },
            V::F32(b) => s.serialize_f32(f32::from_bits(*b)),
            V::F64(b) => s.serialize_f64(f64::from_bits(*b)),
            V::Bool(b) => s.serialize_bool(*b),
            V::Char(c) => s.serialize_char(*c),
            V::Str(x) => s.serialize_str(x),
            V::Bytes(b) => s.serialize_bytes(b),
            V::Unit => s.serialize_unit(),
            V::None => s.serialize_none(),
            V::Some(v) => s.serialize_some(&**v),
            V::Tup(vs) => {
                let mut t = s.serialize_tuple(vs.len())?;
                for v in vs {
                    t.serialize_element(v)?;
                }
                t.end()
            }
            V::Seq(vs) => {
                let mut t = s.serialize_seq(Some(vs.len()))?;
                for v in vs {
                    t.serialize_element(v)?;
                }
                t.end()
            }
            V::Map(kvs) => {
                let mut m = s.serialize_map(Some(kvs.len()))?;
                for (k, v) in kvs {
                    m.serialize_entry(k, v)?;
                }
                m.end()
            }
            V::Struct(n, fs) => {
                let mut st = s.serialize_struct(n, fs.len())?;
                for (f, v) in fs {
                    st.serialize_field(f, v)?;
                }
                st.end()
            }
            V::UnitStruct(n) => s.serialize_unit_struct(n),
            V::Newtype(n, v) => s.serialize_newtype_struct(n, &**v),
            V::TupleStruct(n, vs) => {
                let mut t = s.serialize_tuple_struct(n, vs.len())?;
                for v in vs {
                    t.serialize_field(v)?;
                }
                t.end()
            }
            V::ExStruct(module, fs) => {
                // what `derive(ElixirStruct)` generates
                let full = format!("Elixir.{}", module);
                let mut m = s.serialize_map(Some(fs.len() + 1))?;
                m.serialize_entry(&erltf_serde::elixir::AtomKey("__struct__"), &erltf_serde::elixir::AtomValue(&full))?;
                for (f, v) in fs {
                    m.serialize_entry(&erltf_serde::elixir::AtomKey(f), v)?;
                }
                m.end()
            }
            V::Variant(e, vn, idx, p) => match &**p {
                V::Unit => s.serialize_unit_variant(e, *idx, vn),
                V::Newtype(_, v) => s.serialize_newtype_variant(e, *idx, vn, &**v),
                V::Tup(vs) => {
                    let mut t = s.serialize_tuple_variant(e, *idx, vn, vs.len())?;
                    for v in vs {
                        t.serialize_field(v)?;
                    }
                    t.end()
                }
                V::Struct(_, fs) => {
                    let mut t = s.serialize_struct_variant(e, *idx, vn, fs.len())?;
                    for (f, v) in fs {
                        t.serialize_field(f, v)?;
                    }
                    t.end()
                }
                _ => Err(ser::Error::custom("bad variant payload")),
            },
        }
    }
}

// ------------------------------------------------------------------------------------------------
// Deserialize: `&Ty` as a seed, calling what the std / derived `Deserialize` impls call
// ------------------------------------------------------------------------------------------------

fn custom<E: de::Error>(s: &str) -> E {
    E::custom(s)
}

/// serde's primitive integer visitors: any `visit_iN/uN` is accepted when the value fits the target
struct IntVis(IntTy);
impl<'de> Visitor<'de> for IntVis {
    type Value = V;
    fn expecting(&self, f: &mut fmt::Formatter) -> fmt::Result {
        f.write_str("integer")
    }
    fn visit_i8<E: de::Error>(self, v: i8) -> Result<V, E> {
        self.visit_i64(v as i64)
    }
    fn visit_i16<E: de::Error>(self, v: i16) -> Result<V, E> {
        self.visit_i64(v as i64)
    }
    fn visit_i32<E: de::Error>(self, v: i32) -> Result<V, E> {
        self.visit_i64(v as i64)
    }
    fn visit_i64<E: de::Error>(self, v: i64) -> Result<V, E> {
        if self.0.fits(v as i128) { Ok(V::Int(self.0, v as i128)) } else { Err(custom("int out of range")) }
    }
    fn visit_u8<E: de::Error>(self, v: u8) -> Result<V, E> {
        self.visit_u64(v as u64)
    }
    fn visit_u16<E: de::Error>(self, v: u16) -> Result<V, E> {
        self.visit_u64(v as u64)
    }
    fn visit_u32<E: de::Error>(self, v: u32) -> Result<V, E> {
        self.visit_u64(v as u64)
    }
    fn visit_u64<E: de::Error>(self, v: u64) -> Result<V, E> {
        if self.0.fits(v as i128) { Ok(V::Int(self.0, v as i128)) } else { Err(custom("int out of range")) }
    }
}

struct LeafVis(Ty);
impl<'de> Visitor<'de> for LeafVis {
    type Value = V;
    fn expecting(&self, f: &mut fmt::Formatter) -> fmt::Result {
        write!(f, "{}", ty_text(&self.0))
    }
    fn visit_f32<E: de::Error>(self, v: f32) -> Result<V, E> {
        match self.0 {
            Ty::F32 => Ok(V::F32(v.to_bits())),
            Ty::F64 => Ok(V::F64((v as f64).to_bits())),
            _ => Err(custom("unexpected f32")),
        }
    }
    fn visit_f64<E: de::Error>(self, v: f64) -> Result<V, E> {
        match self.0 {
            Ty::F32 => Ok(V::F32((v as f32).to_bits())),
            Ty::F64 => Ok(V::F64(v.to_bits())),
            _ => Err(custom("unexpected f64")),
        }
    }
    fn visit_bool<E: de::Error>(self, v: bool) -> Result<V, E> {
        match self.0 {
            Ty::Bool => Ok(V::Bool(v)),
            _ => Err(custom("unexpected bool")),
        }
    }
    fn visit_char<E: de::Error>(self, v: char) -> Result<V, E> {
        match self.0 {
            Ty::Char => Ok(V::Char(v)),
            Ty::Str => Ok(V::Str(v.to_string())),
            _ => Err(custom("unexpected char")),
        }
    }
    fn visit_str<E: de::Error>(self, v: &str) -> Result<V, E> {
        match self.0 {
            Ty::Str => Ok(V::Str(v.to_string())),
            Ty::Bytes => Ok(V::Bytes(v.as_bytes().to_vec())),
            Ty::Char => {
                let mut it = v.chars();
                match (it.next(), it.next()) {
                    (Some(c), None) => Ok(V::Char(c)),
                    _ => Err(custom("expected one char")),
                }
            }
            _ => Err(custom("unexpected str")),
        }
    }
    fn visit_bytes<E: de::Error>(self, v: &[u8]) -> Result<V, E> {
        match self.0 {
            Ty::Bytes => Ok(V::Bytes(v.to_vec())),
            Ty::Str => match std::str::from_utf8(v) {
                Ok(s) => Ok(V::Str(s.to_string())),
                Err(_) => Err(custom("invalid utf-8")),
            },
            _ => Err(custom("unexpected bytes")),
        }
    }
    fn visit_unit<E: de::Error>(self) -> Result<V, E> {
        match self.0 {
            Ty::Unit => Ok(V::Unit),
            Ty::UnitStruct(n) => Ok(V::UnitStruct(n)),
            Ty::Opt(_) => Ok(V::None),
            _ => Err(custom("unexpected unit")),
        }
    }
    fn visit_none<E: de::Error>(self) -> Result<V, E> {
        match self.0 {
            Ty::Opt(_) => Ok(V::None),
            _ => Err(custom("unexpected none")),
        }
    }
    fn visit_some<D: serde::Deserializer<'de>>(self, d: D) -> Result<V, D::Error> {
        match &self.0 {
            Ty::Opt(t) => Ok(V::Some(Box::new((&**t).deserialize(d)?))),
            _ => Err(custom("unexpected some")),
        }
    }
    fn visit_newtype_struct<D: serde::Deserializer<'de>>(self, d: D) -> Result<V, D::Error> {
        match &self.0 {
            Ty::Newtype(n, t) => Ok(V::Newtype(n, Box::new((&**t).deserialize(d)?))),
            _ => Err(custom("unexpected newtype")),
        }
    }
    fn visit_seq<A: SeqAccess<'de>>(self, mut seq: A) -> Result<V, A::Error> {
        fn fixed<'de, A: SeqAccess<'de>>(ts: &[Ty], seq: &mut A) -> Result<Vec<V>, A::Error> {
            let mut out = Vec::new();
            for t in ts {
                match seq.next_element_seed(t)? {
                    Some(v) => out.push(v),
                    None => return Err(custom("invalid length")),
                }
            }
            Ok(out)
        }
        match &self.0 {
            Ty::Seq(t) => {
                let mut out = Vec::new();
                while let Some(v) = seq.next_element_seed(&**t)? {
                    out.push(v);
                }
                Ok(V::Seq(out))
            }
            Ty::Tup(ts) => Ok(V::Tup(fixed(ts, &mut seq)?)),
            Ty::TupleStruct(n, ts) => Ok(V::TupleStruct(n, fixed(ts, &mut seq)?)),
            Ty::Newtype(n, t) => match seq.next_element_seed(&**t)? {
                Some(v) => Ok(V::Newtype(n, Box::new(v))),
                None => Err(custom("invalid length")),
            },
            _ => Err(custom("unexpected seq")),
        }
    }
    fn visit_map<A: MapAccess<'de>>(self, mut map: A) -> Result<V, A::Error> {
        match &self.0 {
            Ty::Map(k, v) => {
                let mut out = Vec::new();
                while let Some(key) = map.next_key_seed(&**k)? {
                    let val = map.next_value_seed(&**v)?;
                    out.push((key, val));
                }
                Ok(V::Map(out))
            }
            Ty::Struct(n, fs) => Ok(V::Struct(n, struct_fields(fs, &mut map)?)),
            Ty::ExStruct(module, fs) => {
                // what `derive(ElixirStruct)` generates
                let full = format!("Elixir.{}", module);
                let mut slots: Vec<Option<V>> = fs.iter().map(|_| None).collect();
                while let Some(key) = map.next_key::<std::borrow::Cow<'de, str>>()? {
                    if key.as_ref() == "__struct__" {
                        let m: std::borrow::Cow<'de, str> = map.next_value()?;
                        if m.as_ref() != full {
                            return Err(custom("wrong __struct__"));
                        }
                    } else if let Some(i) = fs.iter().position(|f| f.0 == key.as_ref()) {
                        slots[i] = Some(map.next_value_seed(&fs[i].1)?);
                    } else {
                        let _: de::IgnoredAny = map.next_value()?;
                    }
                }
                let mut out = Vec::new();
                for (i, s) in slots.into_iter().enumerate() {
                    match s {
                        Some(v) => out.push((fs[i].0, v)),
                        None => return Err(custom("missing field")),
                    }
                }
                Ok(V::ExStruct(module, out))
            }
            _ => Err(custom("unexpected map")),
        }
    }
    fn visit_enum<A: EnumAccess<'de>>(self, data: A) -> Result<V, A::Error> {
        match &self.0 {
            Ty::Enum(en, vs) => {
                let (idx, variant) = data.variant_seed(IdentSeed(vs.iter().map(|v| v.0).collect(), false))?;
                let idx = idx.ok_or_else(|| custom::<A::Error>("unknown variant"))?;
                let (vn, shape) = &vs[idx];
                let payload = match shape {
                    Ty::Unit => {
                        variant.unit_variant()?;
                        V::Unit
                    }
                    Ty::Newtype(_, t) => V::Newtype("", Box::new(variant.newtype_variant_seed(&**t)?)),
                    Ty::Tup(ts) => variant.tuple_variant(ts.len(), LeafVis(Ty::Tup(ts.clone())))?,
                    Ty::Struct(_, fs) => {
                        let names = intern_list(fs.iter().map(|f| f.0).collect());
                        variant.struct_variant(names, LeafVis(Ty::Struct("", fs.clone())))?
                    }
                    _ => return Err(custom("bad shape")),
                };
                Ok(V::Variant(en, vn, idx as u32, Box::new(payload)))
            }
            _ => Err(custom("unexpected enum")),
        }
    }
}

/// the `visit_map` of a `#[derive(Deserialize)]` struct
fn struct_fields<'de, A: MapAccess<'de>>(fs: &[(Name, Ty)], map: &mut A) -> Result<Vec<(Name, V)>, A::Error> {
    let mut slots: Vec<Option<V>> = fs.iter().map(|_| None).collect();
    while let Some(k) = map.next_key_seed(IdentSeed(fs.iter().map(|f| f.0).collect(), true))? {
        match k {
            Some(i) => {
                if slots[i].is_some() {
                    return Err(custom("duplicate field"));
                }
                slots[i] = Some(map.next_value_seed(&fs[i].1)?);
            }
            None => {
                let _: de::IgnoredAny = map.next_value()?;
            }
        }
    }
    let mut out = Vec::new();
    for (i, s) in slots.into_iter().enumerate() {
        match s {
            Some(v) => out.push((fs[i].0, v)),
            // serde::__private::de::missing_field: `None` for an Option, an error otherwise
            None => match fs[i].1 {
                Ty::Opt(_) => out.push((fs[i].0, V::None)),
                _ => return Err(custom("missing field")),
            },
        }
    }
    Ok(out)
}

/// the generated `__Field` identifier: index of the name; unknown names are ignored (fields) or an error (variants)
struct IdentSeed(Vec<Name>, bool);
impl<'de> DeserializeSeed<'de> for IdentSeed {
    type Value = Option<usize>;
    fn deserialize<D: serde::Deserializer<'de>>(self, d: D) -> Result<Option<usize>, D::Error> {
        d.deserialize_identifier(self)
    }
}
impl<'de> Visitor<'de> for IdentSeed {
    type Value = Option<usize>;
    fn expecting(&self, f: &mut fmt::Formatter) -> fmt::Result {
        f.write_str("identifier")
    }
    fn visit_u64<E: de::Error>(self, v: u64) -> Result<Option<usize>, E> {
        if (v as usize) < self.0.len() {
            Ok(Some(v as usize))
        } else if self.1 {
            Ok(None)
        } else {
            Err(custom("bad variant index"))
        }
    }
    fn visit_str<E: de::Error>(self, v: &str) -> Result<Option<usize>, E> {
        match self.0.iter().position(|n| *n == v) {
            Some(i) => Ok(Some(i)),
            None if self.1 => Ok(None),
            None => Err(custom("unknown variant")),
        }
    }
    fn visit_bytes<E: de::Error>(self, v: &[u8]) -> Result<Option<usize>, E> {
        match self.0.iter().position(|n| n.as_bytes() == v) {
            Some(i) => Ok(Some(i)),
            None if self.1 => Ok(None),
            None => Err(custom("unknown variant")),
        }
    }
}

impl<'de> DeserializeSeed<'de> for &Ty {
    type Value = V;
    fn deserialize<D: serde::Deserializer<'de>>(self, d: D) -> Result<V, D::Error> {
        let vis = LeafVis(self.clone());
        match self {
            Ty::Int(k) => match k {
                IntTy::I8 => d.deserialize_i8(IntVis(*k)),
                IntTy::I16 => d.deserialize_i16(IntVis(*k)),
                IntTy::I32 => d.deserialize_i32(IntVis(*k)),
                IntTy::I64 => d.deserialize_i64(IntVis(*k)),
                IntTy::U8 => d.deserialize_u8(IntVis(*k)),
                IntTy::U16 => d.deserialize_u16(IntVis(*k)),
                IntTy::U32 => d.deserialize_u32(IntVis(*k)),
                IntTy::U64 => d.deserialize_u64(IntVis(*k)),
            },
            Ty::F32 => d.deserialize_f32(vis),
            Ty::F64 => d.deserialize_f64(vis),
            Ty::Bool => d.deserialize_bool(vis),
            Ty::Char => d.deserialize_char(vis),
            Ty::Str => d.deserialize_string(vis),
            Ty::Bytes => d.deserialize_byte_buf(vis),
            Ty::Unit => d.deserialize_unit(vis),
            Ty::Opt(_) => d.deserialize_option(vis),
            Ty::Tup(ts) => d.deserialize_tuple(ts.len(), vis),
            Ty::Seq(_) => d.deserialize_seq(vis),
            Ty::Map(_, _) => d.deserialize_map(vis),
            Ty::Struct(n, fs) => d.deserialize_struct(n, intern_list(fs.iter().map(|f| f.0).collect()), vis),
            Ty::UnitStruct(n) => d.deserialize_unit_struct(n, vis),
            Ty::Newtype(n, _) => d.deserialize_newtype_struct(n, vis),
            Ty::TupleStruct(n, ts) => d.deserialize_tuple_struct(n, ts.len(), vis),
            Ty::ExStruct(_, _) => d.deserialize_map(vis),
            Ty::Enum(n, vs) => d.deserialize_enum(n, intern_list(vs.iter().map(|f| f.0).collect()), vis),
        }
    }
}

/// top-level carrier: the type comes from `CUR_TY`
pub struct Dyn(pub V);
impl<'de> Deserialize<'de> for Dyn {
    fn deserialize<D: serde::Deserializer<'de>>(d: D) -> Result<Self, D::Error> {
        let ty = CUR_TY.with(|c| c.borrow().clone()).expect("CUR_TY");
        (&ty).deserialize(d).map(Dyn)
    }
}

fn res_text(r: std::thread::Result<Result<V, erltf_serde::Error>>) -> String {
    match r {
        Ok(Ok(v)) => format!("ok {}", val_text(&v)),
        Ok(Err(_)) => "err".into(),
        Err(_) => "panic".into(),
    }
}

pub fn dyn_from_term(ty: &Ty, t: &OwnedTerm) -> String {
    CUR_TY.with(|c| *c.borrow_mut() = Some(ty.clone()));
    res_text(std::panic::catch_unwind(|| erltf_serde::from_term::<Dyn>(t).map(|d| d.0)))
}

pub fn dyn_from_bytes(ty: &Ty, b: &[u8]) -> String {
    CUR_TY.with(|c| *c.borrow_mut() = Some(ty.clone()));
    res_text(std::panic::catch_unwind(|| erltf_serde::from_bytes::<Dyn>(b).map(|d| d.0)))
}

// ------------------------------------------------------------------------------------------------
// generators
// ------------------------------------------------------------------------------------------------

const NAMES: &[&str] = &[
    "a", "b", "c", "id", "name", "value", "x", "y", "ok", "error", "Some", "None", "Foo", "Bar", "é", "日本", "k1", "k2",
    "undefined", "nil", "true", "false", "A", "B", "T", "data", "__x__",
];
const MODULES: &[&str] = &["MyApp.User", "Foo", "A.B.C", "M", "Ünï"];

fn gen_name(r: &mut Rng) -> Name {
    if r.chance(1, 40) {
        return intern(&"n".repeat(*r.pick(&[255usize, 256, 300])));
    }
    intern(*r.pick(NAMES))
}

fn distinct_names(r: &mut Rng, n: usize, allow_dup: bool) -> Vec<Name> {
    let mut out: Vec<Name> = Vec::new();
    while out.len() < n {
        let c = gen_name(r);
        if !out.contains(&c) || (allow_dup && r.chance(1, 30)) {
            out.push(c);
        }
    }
    out
}

fn gen_fields(r: &mut Rng, depth: u32, ex: bool) -> Vec<(Name, Ty)> {
    let n = r.below(5) as usize;
    distinct_names(r, n, false)
        .into_iter()
        .filter(|x| !(ex && *x == "__struct__"))
        .map(|n| (n, gen_ty(r, depth + 1)))
        .collect()
}

fn gen_key_ty(r: &mut Rng) -> Ty {
    match r.below(20) {
        0..=3 => Ty::Str,
        4..=8 => Ty::Int(*r.pick(&IntTy::ALL)),
        9 => Ty::Bool,
        10 => Ty::Char,
        11 => Ty::Newtype(gen_name(r), Box::new(Ty::Int(IntTy::U64))),
        // keys that are not of one constructor, or change representation on the wire inside a container
        12 => Ty::Tup(vec![Ty::Int(*r.pick(&[IntTy::I64, IntTy::U64, IntTy::I32])), Ty::Char]),
        13 => Ty::Opt(Box::new(Ty::Int(*r.pick(&[IntTy::U64, IntTy::I64])))),
        14 => Ty::Enum(
            "K",
            vec![
                ("A", Ty::Unit),
                ("B", Ty::Newtype("", Box::new(Ty::Int(IntTy::I64)))),
                ("C", Ty::Tup(vec![Ty::Int(IntTy::U64), Ty::Str])),
                ("D", Ty::Struct("", vec![("x", Ty::Int(IntTy::U8))])),
            ],
        ),
        15 => Ty::Bytes,
        16 => Ty::Seq(Box::new(Ty::Int(IntTy::U8))),
        17 => Ty::UnitStruct(gen_name(r)),
        18 => Ty::Unit,
        _ => Ty::TupleStruct(gen_name(r), vec![Ty::Str, Ty::Int(IntTy::I64)]),
    }
}

pub fn gen_ty(r: &mut Rng, depth: u32) -> Ty {
    if depth >= 3 || r.chance(2, 5) {
        return match r.below(17) {
            0..=7 => Ty::Int(*r.pick(&IntTy::ALL)),
            8 => Ty::F32,
            9 => Ty::F64,
            10 => Ty::Bool,
            11 => Ty::Char,
            12 | 13 => Ty::Str,
            14 => Ty::Bytes,
            15 => Ty::Unit,
            _ => Ty::UnitStruct(gen_name(r)),
        };
    }
    match r.below(12) {
        0 | 1 => {
            // mostly a payload the format can tell from `None`
            let mut t = gen_ty(r, depth + 1);
            if !r.chance(1, 12) {
                while may_be_undef(&t) {
                    t = gen_ty(r, depth + 1);
                }
            }
            Ty::Opt(Box::new(t))
        }
        2 => Ty::Tup((0..r.range(1, 4)).map(|_| gen_ty(r, depth + 1)).collect()),
        3 | 4 => Ty::Seq(Box::new(gen_ty(r, depth + 1))),
        5 => Ty::Map(Box::new(gen_key_ty(r)), Box::new(gen_ty(r, depth + 1))),
        6 | 7 => Ty::Struct(gen_name(r), gen_fields(r, depth, false)),
        8 => Ty::Newtype(gen_name(r), Box::new(gen_ty(r, depth + 1))),
        9 => Ty::TupleStruct(gen_name(r), (0..r.below(4)).map(|_| gen_ty(r, depth + 1)).collect()),
        10 => Ty::ExStruct(intern(*r.pick(MODULES)), gen_fields(r, depth, true)),
        _ => {
            let n = r.range(1, 5) as usize;
            let vs = distinct_names(r, n, true)
                .into_iter()
                .map(|n| {
                    let shape = match r.below(4) {
                        0 => Ty::Unit,
                        1 => Ty::Newtype("", Box::new(gen_ty(r, depth + 1))),
                        2 => Ty::Tup((0..r.below(4)).map(|_| gen_ty(r, depth + 1)).collect()),
                        _ => Ty::Struct("", gen_fields(r, depth, false)),
                    };
                    (n, shape)
                })
                .collect();
            Ty::Enum(gen_name(r), vs)
        }
    }
}

/// mirror of `Spec.Serde.mayBeUndef`
fn may_be_undef(t: &Ty) -> bool {
    match t {
        Ty::Opt(_) => true,
        Ty::UnitStruct(n) => *n == "undefined",
        Ty::Newtype(_, t) => may_be_undef(t),
        Ty::Enum(_, vs) => vs.iter().any(|(n, s)| *n == "undefined" && *s == Ty::Unit),
        _ => false,
    }
}

fn gen_int_val(r: &mut Rng, k: IntTy) -> i128 {
    const P: &[u32] = &[7, 8, 15, 16, 31, 32, 53, 63, 64];
    let x: i128 = match r.below(6) {
        0 => *r.pick(&[k.lo(), k.hi(), 0, 1, -1, k.lo() + 1, k.hi() - 1]),
        1 | 2 => {
            let p = 1i128 << *r.pick(P);
            let d = r.below(3) as i128 - 1;
            if r.chance(1, 2) { p + d } else { -p + d }
        }
        3 => r.below(300) as i128 - 40,
        4 => ((r.next() >> r.below(64)) as i128) * if r.chance(1, 2) { -1 } else { 1 },
        _ => r.next() as i64 as i128,
    };
    if k.fits(x) {
        x
    } else {
        // fold into range keeping the low bits (still boundary-heavy)
        let span = k.hi() - k.lo() + 1;
        k.lo() + (x - k.lo()).rem_euclid(span)
    }
}

const CHARS: &[char] = &[
    'a', 'Z', '0', ' ', '\0', '\u{7f}', '\u{80}', 'é', '\u{7ff}', '\u{800}', '日', '\u{d7ff}', '\u{e000}', '\u{ffff}',
    '\u{10000}', '😀', '\u{10ffff}',
];

fn gen_char(r: &mut Rng) -> char {
    if r.chance(3, 4) {
        *r.pick(CHARS)
    } else {
        loop {
            if let Some(c) = char::from_u32(r.below(0x110000) as u32) {
                return c;
            }
        }
    }
}

fn gen_string(r: &mut Rng) -> String {
    match r.below(10) {
        0 => String::new(),
        1 => r.pick(&["undefined", "nil", "true", "false", "__struct__"]).to_string(),
        2 => (0..r.range(1, 6)).map(|_| gen_char(r)).collect(),
        3 if r.chance(1, 10) => "s".repeat(*r.pick(&[255usize, 256, 300, 65536])),
        _ => (0..r.range(1, 8)).map(|_| (b'a' + r.below(26) as u8) as char).collect(),
    }
}

const F32_BITS: &[u32] = &[
    0, 0x8000_0000, 0x3f80_0000, 0xbf80_0000, 1, 2, 3, 0x007f_ffff, 0x0040_0000, 0x0080_0000, 0x0080_0001, 0x7f7f_ffff,
    0xff7f_ffff, 0x7f80_0000, 0xff80_0000, 0x3eaa_aaab, 0x4b00_0000, 0x4b7f_ffff, 0x0000_1000, 0x8000_0001,
];

fn gen_f32(r: &mut Rng) -> u32 {
    match r.below(8) {
        0..=2 => *r.pick(F32_BITS),
        3 if r.chance(1, 3) => *r.pick(&[0x7fc0_0000u32, 0x7f80_0001, 0xffc0_0001, 0x7fff_ffff]),
        4 => r.below(1 << 23) as u32 | if r.chance(1, 2) { 0x8000_0000 } else { 0 },
        _ => {
            let b = r.next() as u32;
            if f32::from_bits(b).is_nan() { 0x3fc0_0000 } else { b }
        }
    }
}

fn gen_f64(r: &mut Rng) -> u64 {
    match r.below(10) {
        0 => *r.pick(&[0x7ff0_0000_0000_0000u64, 0xfff0_0000_0000_0000, 0x7ff8_0000_0000_0000, 0x7ff0_0000_0000_0001]),
        _ => crate::tgen::gen_float_bits(r, false),
    }
}

pub fn gen_val(r: &mut Rng, t: &Ty, depth: u32) -> V {
    let len = |r: &mut Rng| -> usize {
        if depth > 2 { r.below(2) as usize } else { *r.pick(&[0usize, 0, 1, 1, 2, 3, 5]) }
    };
    match t {
        Ty::Int(k) => V::Int(*k, gen_int_val(r, *k)),
        Ty::F32 => V::F32(gen_f32(r)),
        Ty::F64 => V::F64(gen_f64(r)),
        Ty::Bool => V::Bool(r.chance(1, 2)),
        Ty::Char => V::Char(gen_char(r)),
        Ty::Str => V::Str(gen_string(r)),
        Ty::Bytes => {
            let n = *r.pick(&[0usize, 1, 2, 5, 17]);
            V::Bytes(r.bytes(n))
        }
        Ty::Unit => V::Unit,
        Ty::Opt(t) => {
            if r.chance(1, 3) { V::None } else { V::Some(Box::new(gen_val(r, t, depth + 1))) }
        }
        Ty::Tup(ts) => V::Tup(ts.iter().map(|t| gen_val(r, t, depth + 1)).collect()),
        Ty::Seq(t) => {
            let n = len(r);
            V::Seq((0..n).map(|_| gen_val(r, t, depth + 1)).collect())
        }
        Ty::Map(k, v) => {
            let n = len(r);
            let raw: Vec<(V, V)> = (0..n).map(|_| (gen_val(r, k, depth + 1), gen_val(r, v, depth + 1))).collect();
            if r.chance(1, 8) {
                // as generated: possibly repeated keys, any order (correspondence only)
                V::Map(raw)
            } else {
                // the canonical representative: distinct keys in the order of the serialised keys (the real `Ord`)
                let mut m: BTreeMap<OwnedTerm, (V, V)> = BTreeMap::new();
                for (k, v) in raw {
                    if let Ok(kt) = erltf_serde::to_term(&k) {
                        m.entry(kt).or_insert((k, v));
                    }
                }
                V::Map(m.into_values().collect())
            }
        }
        Ty::Struct(n, fs) => V::Struct(n, fs.iter().map(|(f, t)| (*f, gen_val(r, t, depth + 1))).collect()),
        Ty::UnitStruct(n) => V::UnitStruct(n),
        Ty::Newtype(n, t) => V::Newtype(n, Box::new(gen_val(r, t, depth + 1))),
        Ty::TupleStruct(n, ts) => V::TupleStruct(n, ts.iter().map(|t| gen_val(r, t, depth + 1)).collect()),
        Ty::ExStruct(n, fs) => V::ExStruct(n, fs.iter().map(|(f, t)| (*f, gen_val(r, t, depth + 1))).collect()),
        Ty::Enum(en, vs) => {
            let i = r.below(vs.len() as u64) as usize;
            // the first variant with this name is the one a name denotes
            let i = vs.iter().position(|v| v.0 == vs[i].0).unwrap();
            let (vn, shape) = &vs[i];
            let p = match shape {
                Ty::Unit => V::Unit,
                Ty::Newtype(_, t) => V::Newtype("", Box::new(gen_val(r, t, depth + 1))),
                Ty::Tup(ts) => V::Tup(ts.iter().map(|t| gen_val(r, t, depth + 1)).collect()),
                Ty::Struct(_, fs) => V::Struct("", fs.iter().map(|(f, t)| (*f, gen_val(r, t, depth + 1))).collect()),
                _ => V::Unit,
            };
            V::Variant(en, vn, i as u32, Box::new(p))
        }
    }
}

// ------------------------------------------------------------------------------------------------
// the property's side conditions, written a second time (against the real `Ord` and the real codec) — tied to
// `Spec.Serde.distinguishable` / `distinguishableW` on every generated case (T `c15class`), so that the oracle's guard is
// neither wider nor narrower than stated and the number of cases it lets pass unjudged is known
// ------------------------------------------------------------------------------------------------

fn names_distinct(ns: &[Name]) -> bool {
    ns.iter().enumerate().all(|(i, n)| !ns[i + 1..].contains(n))
}

fn wf_fields(fs: &[(Name, Ty)]) -> bool {
    names_distinct(&fs.iter().map(|f| f.0).collect::<Vec<_>>()) && fs.iter().all(|f| wf_ty(&f.1))
}

fn wf_ty(t: &Ty) -> bool {
    match t {
        Ty::Opt(t) => !may_be_undef(t) && wf_ty(t),
        Ty::Tup(ts) | Ty::TupleStruct(_, ts) => ts.iter().all(wf_ty),
        Ty::Seq(t) | Ty::Newtype(_, t) => wf_ty(t),
        Ty::Map(k, v) => wf_ty(k) && wf_ty(v),
        Ty::Struct(_, fs) => wf_fields(fs),
        Ty::ExStruct(_, fs) => wf_fields(fs) && !fs.iter().any(|f| f.0 == "__struct__"),
        Ty::Enum(_, vs) => {
            names_distinct(&vs.iter().map(|v| v.0).collect::<Vec<_>>())
                && vs.iter().all(|(_, sh)| match sh {
                    Ty::Unit => true,
                    Ty::Newtype(_, t) => wf_ty(t),
                    Ty::Tup(ts) => ts.iter().all(wf_ty),
                    Ty::Struct(_, fs) => wf_fields(fs),
                    _ => false,
                })
        }
        _ => true,
    }
}

fn key_term(k: &V, wire: bool) -> Option<OwnedTerm> {
    let t = erltf_serde::to_term(k).ok()?;
    if wire { erltf::decode(&erltf::encode(&t).ok()?).ok() } else { Some(t) }
}

/// `Spec.Serde.plainWith`: no f32 NaN; every map lists its entries in strictly ascending order of the serialised keys
/// (`wire`: of the keys as they come back from the codec)
fn plain(v: &V, wire: bool) -> bool {
    match v {
        V::F32(b) => !f32::from_bits(*b).is_nan(),
        V::Some(v) | V::Newtype(_, v) | V::Variant(_, _, _, v) => plain(v, wire),
        V::Tup(vs) | V::Seq(vs) | V::TupleStruct(_, vs) => vs.iter().all(|v| plain(v, wire)),
        V::Struct(_, fs) | V::ExStruct(_, fs) => fs.iter().all(|f| plain(&f.1, wire)),
        V::Map(kvs) => {
            if !kvs.iter().all(|(k, v)| plain(k, wire) && plain(v, wire)) {
                return false;
            }
            let mut before: Vec<OwnedTerm> = Vec::new();
            for (k, _) in kvs {
                let Some(t) = key_term(k, wire) else { return false };
                if !before.iter().all(|p| t.cmp(p) == std::cmp::Ordering::Greater) {
                    return false;
                }
                before.push(t);
            }
            true
        }
        _ => true,
    }
}

fn classify(ctx: &mut Ctx, ty: &Ty, v: &V) {
    let dist = wf_ty(ty) && plain(v, false);
    let distw = dist && plain(v, true);
    ctx.tie(
        "class",
        &format!("c15class {} {}", ty_text(ty), val_text(v)),
        &format!("ty,{},{}", if dist { "dist" } else { "nodist" }, if distw { "distw" } else { "nodistw" }),
    );
    if !dist {
        ctx.count("guard_excluded");
    } else if !distw {
        ctx.count("guard_excluded_on_the_wire_only");
    } else {
        ctx.count("guard_judged");
    }
}

/// input classes of a generated case (for the evidence file)
fn count_classes(ctx: &mut Ctx, ty: &Ty, v: &V, depth: u32) {
    ctx.count(&format!("class_depth_{}", depth.min(4)));
    match (ty, v) {
        (_, V::Int(k, i)) => {
            if !IntTy::I32.fits(*i) {
                ctx.count("class_int_beyond_i32");
            }
            if *k == IntTy::U64 && *i > i64::MAX as i128 {
                ctx.count("class_u64_above_i64_max");
            }
            if *i == k.lo() || *i == k.hi() {
                ctx.count("class_int_at_type_bound");
            }
        }
        (_, V::F32(b)) => {
            let f = f32::from_bits(*b);
            ctx.count(if f.is_nan() {
                "class_f32_nan"
            } else if f.is_infinite() {
                "class_f32_inf"
            } else if f == 0.0 {
                if f.is_sign_negative() { "class_f32_neg_zero" } else { "class_f32_zero" }
            } else if f.is_subnormal() {
                "class_f32_subnormal"
            } else {
                "class_f32_normal"
            });
        }
        (_, V::F64(b)) => {
            let f = f64::from_bits(*b);
            ctx.count(if f.is_nan() {
                "class_f64_nan"
            } else if f.is_infinite() {
                "class_f64_inf"
            } else if f == 0.0 {
                "class_f64_zero"
            } else if f.is_subnormal() {
                "class_f64_subnormal"
            } else {
                "class_f64_normal"
            });
        }
        (_, V::Char(c)) => ctx.count(if (*c as u32) < 0x80 {
            "class_char_ascii"
        } else if (*c as u32) < 0x10000 {
            "class_char_bmp"
        } else {
            "class_char_non_bmp"
        }),
        (_, V::Str(s)) => ctx.count(if s.is_empty() {
            "class_str_empty"
        } else if s.is_ascii() {
            "class_str_ascii"
        } else {
            "class_str_non_ascii"
        }),
        (Ty::Opt(t), V::None) => {
            ctx.count("class_opt_none");
            if **t == Ty::Unit {
                ctx.count("class_opt_unit");
            }
        }
        (Ty::Opt(t), V::Some(x)) => {
            ctx.count("class_opt_some");
            if **t == Ty::Unit {
                ctx.count("class_opt_unit");
            }
            if may_be_undef(t) {
                ctx.count("class_opt_of_undef_like");
            }
            count_classes(ctx, t, x, depth + 1);
        }
        (Ty::Tup(ts), V::Tup(vs)) | (Ty::TupleStruct(_, ts), V::TupleStruct(_, vs)) => {
            ts.iter().zip(vs).for_each(|(t, x)| count_classes(ctx, t, x, depth + 1))
        }
        (Ty::Seq(t), V::Seq(vs)) => {
            if vs.is_empty() {
                ctx.count("class_seq_empty");
            }
            vs.iter().for_each(|x| count_classes(ctx, t, x, depth + 1))
        }
        (Ty::Map(kt, vt), V::Map(kvs)) => {
            ctx.count(&format!("class_map_key_{}", kind(kt)));
            if kvs.is_empty() {
                ctx.count("class_map_empty");
            }
            for (k, x) in kvs {
                count_classes(ctx, kt, k, depth + 1);
                count_classes(ctx, vt, x, depth + 1);
            }
        }
        (Ty::Struct(_, fts), V::Struct(_, fs)) | (Ty::ExStruct(_, fts), V::ExStruct(_, fs)) => {
            fts.iter().zip(fs).for_each(|(t, x)| count_classes(ctx, &t.1, &x.1, depth + 1))
        }
        (Ty::Newtype(_, t), V::Newtype(_, x)) => count_classes(ctx, t, x, depth + 1),
        (Ty::Enum(_, vs), V::Variant(_, _, i, p)) => {
            if let Some((_, sh)) = vs.get(*i as usize) {
                match (sh, &**p) {
                    (Ty::Unit, _) => ctx.count("class_variant_unit"),
                    (Ty::Newtype(_, t), V::Newtype(_, x)) => {
                        ctx.count("class_variant_newtype");
                        count_classes(ctx, t, x, depth + 1)
                    }
                    (Ty::Tup(ts), V::Tup(xs)) => {
                        ctx.count("class_variant_tuple");
                        ts.iter().zip(xs).for_each(|(t, x)| count_classes(ctx, t, x, depth + 1))
                    }
                    (Ty::Struct(_, fts), V::Struct(_, fs)) => {
                        ctx.count("class_variant_struct");
                        fts.iter().zip(fs).for_each(|(t, x)| count_classes(ctx, &t.1, &x.1, depth + 1))
                    }
                    _ => {}
                }
            }
        }
        _ => {}
    }
}

/// does the value contain what used to be lost across the wire before the fixes 19beadb / 807e280?
fn wire_unsafe(v: &V) -> (bool, bool) {
    // (has a char, has a non-u64 integer outside the i32 range)
    let mut c = false;
    let mut w = false;
    let mut add = |x: (bool, bool)| {
        c |= x.0;
        w |= x.1;
    };
    match v {
        V::Char(_) => c = true,
        V::Int(k, i) => w = *k != IntTy::U64 && !IntTy::I32.fits(*i),
        V::Some(v) | V::Newtype(_, v) | V::Variant(_, _, _, v) => add(wire_unsafe(v)),
        V::Tup(vs) | V::Seq(vs) | V::TupleStruct(_, vs) => vs.iter().for_each(|v| add(wire_unsafe(v))),
        V::Map(kvs) => kvs.iter().for_each(|(k, v)| {
            add(wire_unsafe(k));
            add(wire_unsafe(v))
        }),
        V::Struct(_, fs) | V::ExStruct(_, fs) => fs.iter().for_each(|(_, v)| add(wire_unsafe(v))),
        _ => {}
    }
    (c, w)
}

// ------------------------------------------------------------------------------------------------
// term mutations: reach the acceptance and error paths of the deserialiser
// ------------------------------------------------------------------------------------------------

fn text_variants(r: &mut Rng, s: &str) -> OwnedTerm {
    match r.below(3) {
        0 => OwnedTerm::Atom(Atom::new(s)),
        1 => OwnedTerm::String(s.to_string()),
        _ => OwnedTerm::Binary(s.as_bytes().to_vec()),
    }
}

fn as_text(t: &OwnedTerm) -> Option<String> {
    match t {
        OwnedTerm::Atom(a) => Some(a.as_str().to_string()),
        OwnedTerm::String(s) => Some(s.clone()),
        OwnedTerm::Binary(b) => std::str::from_utf8(b).ok().map(|s| s.to_string()),
        _ => None,
    }
}

fn small_leaf(r: &mut Rng) -> OwnedTerm {
    match r.below(12) {
        0 => OwnedTerm::Integer(crate::tgen::gen_int(r)),
        1 => OwnedTerm::BigInt(BigInt::new(r.chance(1, 3), {
            let n = *r.pick(&[0usize, 1, 4, 8, 8, 9]);
            r.bytes(n)
        })),
        2 => OwnedTerm::Float(f64::from_bits(gen_f64(r))),
        3 => OwnedTerm::Atom(Atom::new(*r.pick(NAMES))),
        4 => OwnedTerm::Binary(r.bytes(3)),
        5 => OwnedTerm::Binary(gen_string(r).into_bytes()),
        6 => OwnedTerm::String(gen_string(r)),
        7 => OwnedTerm::Nil,
        8 => OwnedTerm::List(vec![]),
        9 => OwnedTerm::Tuple(vec![]),
        10 => OwnedTerm::Map(BTreeMap::new()),
        _ => OwnedTerm::Integer(r.below(4) as i64),
    }
}

pub fn mutate(r: &mut Rng, t: &OwnedTerm) -> OwnedTerm {
    // descend with some probability, otherwise rewrite here
    let descend = r.chance(3, 5);
    match t {
        OwnedTerm::List(l) if descend && !l.is_empty() => {
            let mut l = l.clone();
            let i = r.below(l.len() as u64) as usize;
            l[i] = mutate(r, &l[i]);
            return OwnedTerm::List(l);
        }
        OwnedTerm::Tuple(l) if descend && !l.is_empty() => {
            let mut l = l.clone();
            let i = r.below(l.len() as u64) as usize;
            l[i] = mutate(r, &l[i]);
            return OwnedTerm::Tuple(l);
        }
        OwnedTerm::Map(m) if descend && !m.is_empty() => {
            let mut m = m.clone();
            let i = r.below(m.len() as u64) as usize;
            let (k, v) = m.iter().nth(i).map(|(k, v)| (k.clone(), v.clone())).unwrap();
            if r.chance(1, 2) {
                m.insert(k, mutate(r, &v));
            } else {
                m.remove(&k);
                m.insert(mutate(r, &k), v);
            }
            return OwnedTerm::Map(m);
        }
        _ => {}
    }
    match t {
        OwnedTerm::Integer(i) => match r.below(4) {
            0 => {
                // the same number as a big integer: minimal, padded to 8, or padded beyond 8 digits
                let mut d = i.unsigned_abs().to_le_bytes().to_vec();
                match r.below(3) {
                    0 => {
                        while d.last() == Some(&0) {
                            d.pop();
                        }
                    }
                    1 => {}
                    _ => d.extend_from_slice(&[0, 0]),
                }
                OwnedTerm::BigInt(BigInt::new(*i < 0, d))
            }
            1 => OwnedTerm::Integer(i.wrapping_add(*r.pick(&[1i64, -1, 256, -256, 1 << 32]))),
            2 => OwnedTerm::Float(*i as f64),
            _ => small_leaf(r),
        },
        OwnedTerm::BigInt(b) => match r.below(3) {
            0 => OwnedTerm::BigInt(BigInt::new(!b.sign.is_negative(), b.digits.clone())),
            1 => {
                let mut d = b.digits.clone();
                d.push(r.below(2) as u8);
                OwnedTerm::BigInt(BigInt::new(b.sign.is_negative(), d))
            }
            _ => small_leaf(r),
        },
        OwnedTerm::Atom(_) | OwnedTerm::Binary(_) | OwnedTerm::String(_) => match (r.below(5), as_text(t)) {
            (0..=2, Some(s)) => text_variants(r, &s),
            (3, Some(s)) => OwnedTerm::Tuple(vec![text_variants(r, &s)]),
            (3, None) => OwnedTerm::String(String::new()),
            _ => small_leaf(r),
        },
        OwnedTerm::List(l) => match r.below(5) {
            0 => OwnedTerm::Tuple(l.clone()),
            1 => OwnedTerm::Nil,
            2 => {
                let mut l = l.clone();
                l.push(small_leaf(r));
                OwnedTerm::List(l)
            }
            3 => {
                let mut l = l.clone();
                l.pop();
                OwnedTerm::List(l)
            }
            _ => small_leaf(r),
        },
        OwnedTerm::Nil => OwnedTerm::List(vec![]),
        OwnedTerm::Tuple(l) => match r.below(6) {
            0 => OwnedTerm::List(l.clone()),
            1 | 2 => {
                let mut l = l.clone();
                l.push(small_leaf(r));
                OwnedTerm::Tuple(l)
            }
            3 => {
                let mut l = l.clone();
                l.pop();
                OwnedTerm::Tuple(l)
            }
            4 if l.len() == 1 => l[0].clone(),
            _ => small_leaf(r),
        },
        OwnedTerm::Map(m) => {
            let mut m = m.clone();
            match r.below(6) {
                0 | 1 => {
                    // the same key text in another representation (a second entry for the field)
                    if let Some((k, v)) = m.iter().nth(r.below(m.len().max(1) as u64) as usize).map(|(k, v)| (k.clone(), v.clone())) {
                        if let Some(s) = as_text(&k) {
                            let v2 = if r.chance(1, 2) { v } else { small_leaf(r) };
                            m.insert(text_variants(r, &s), v2);
                        }
                    }
                }
                2 => {
                    let nm = *r.pick(NAMES);
                    m.insert(text_variants(r, nm), small_leaf(r));
                }
                3 => {
                    m.insert(small_leaf(r), small_leaf(r));
                }
                4 => {
                    if let Some(k) = m.keys().nth(r.below(m.len().max(1) as u64) as usize).cloned() {
                        m.remove(&k);
                    }
                }
                _ => {
                    let md = format!("Elixir.{}", r.pick(MODULES));
                    m.insert(text_variants(r, "__struct__"), text_variants(r, &md));
                }
            }
            OwnedTerm::Map(m)
        }
        _ => small_leaf(r),
    }
}

// ------------------------------------------------------------------------------------------------
// Reflect: any `T: Serialize` of the universe -> `V` (independent of erltf_serde; used for the derived types)
// ------------------------------------------------------------------------------------------------

#[derive(Debug)]
pub struct RErr(String);
impl fmt::Display for RErr {
    fn fmt(&self, f: &mut fmt::Formatter) -> fmt::Result {
        f.write_str(&self.0)
    }
}
impl std::error::Error for RErr {}
impl ser::Error for RErr {
    fn custom<T: fmt::Display>(m: T) -> Self {
        RErr(m.to_string())
    }
}

pub struct Reflect;
pub struct Acc {
    kind: u8, // 0 seq, 1 tuple, 2 tuple struct, 3 tuple variant, 4 map, 5 struct, 6 struct variant
    name: Name,
    vname: Name,
    idx: u32,
    items: Vec<V>,
    fields: Vec<(Name, V)>,
    entries: Vec<(V, V)>,
    key: Option<V>,
}
fn acc(kind: u8, name: Name, vname: Name, idx: u32) -> Acc {
    Acc { kind, name, vname, idx, items: vec![], fields: vec![], entries: vec![], key: None }
}

pub fn reflect<T: Serialize + ?Sized>(x: &T) -> V {
    x.serialize(Reflect).expect("reflect")
}

impl serde::Serializer for Reflect {
    type Ok = V;
    type Error = RErr;
    type SerializeSeq = Acc;
    type SerializeTuple = Acc;
    type SerializeTupleStruct = Acc;
    type SerializeTupleVariant = Acc;
    type SerializeMap = Acc;
    type SerializeStruct = Acc;
    type SerializeStructVariant = Acc;
    fn serialize_bool(self, v: bool) -> Result<V, RErr> {
        Ok(V::Bool(v))
    }
    fn serialize_i8(self, v: i8) -> Result<V, RErr> {
        Ok(V::Int(IntTy::I8, v as i128))
    }
    fn serialize_i16(self, v: i16) -> Result<V, RErr> {
        Ok(V::Int(IntTy::I16, v as i128))
    }
    fn serialize_i32(self, v: i32) -> Result<V, RErr> {
        Ok(V::Int(IntTy::I32, v as i128))
    }
    fn serialize_i64(self, v: i64) -> Result<V, RErr> {
        Ok(V::Int(IntTy::I64, v as i128))
    }
    fn serialize_u8(self, v: u8) -> Result<V, RErr> {
        Ok(V::Int(IntTy::U8, v as i128))
    }
    fn serialize_u16(self, v: u16) -> Result<V, RErr> {
        Ok(V::Int(IntTy::U16, v as i128))
    }
    fn serialize_u32(self, v: u32) -> Result<V, RErr> {
        Ok(V::Int(IntTy::U32, v as i128))
    }
    fn serialize_u64(self, v: u64) -> Result<V, RErr> {
        Ok(V::Int(IntTy::U64, v as i128))
    }
    fn serialize_f32(self, v: f32) -> Result<V, RErr> {
        Ok(V::F32(v.to_bits()))
    }
    fn serialize_f64(self, v: f64) -> Result<V, RErr> {
        Ok(V::F64(v.to_bits()))
    }
    fn serialize_char(self, v: char) -> Result<V, RErr> {
        Ok(V::Char(v))
    }
    fn serialize_str(self, v: &str) -> Result<V, RErr> {
        Ok(V::Str(v.to_string()))
    }
    fn serialize_bytes(self, v: &[u8]) -> Result<V, RErr> {
        Ok(V::Bytes(v.to_vec()))
    }
    fn serialize_none(self) -> Result<V, RErr> {
        Ok(V::None)
    }
    fn serialize_some<T: ?Sized + Serialize>(self, v: &T) -> Result<V, RErr> {
        Ok(V::Some(Box::new(v.serialize(Reflect)?)))
    }
    fn serialize_unit(self) -> Result<V, RErr> {
        Ok(V::Unit)
    }
    fn serialize_unit_struct(self, n: Name) -> Result<V, RErr> {
        Ok(V::UnitStruct(n))
    }
    fn serialize_unit_variant(self, n: Name, i: u32, v: Name) -> Result<V, RErr> {
        Ok(V::Variant(n, v, i, Box::new(V::Unit)))
    }
    fn serialize_newtype_struct<T: ?Sized + Serialize>(self, n: Name, v: &T) -> Result<V, RErr> {
        Ok(V::Newtype(n, Box::new(v.serialize(Reflect)?)))
    }
    fn serialize_newtype_variant<T: ?Sized + Serialize>(self, n: Name, i: u32, vn: Name, v: &T) -> Result<V, RErr> {
        Ok(V::Variant(n, vn, i, Box::new(V::Newtype("", Box::new(v.serialize(Reflect)?)))))
    }
    fn serialize_seq(self, _l: Option<usize>) -> Result<Acc, RErr> {
        Ok(acc(0, "", "", 0))
    }
    fn serialize_tuple(self, _l: usize) -> Result<Acc, RErr> {
        Ok(acc(1, "", "", 0))
    }
    fn serialize_tuple_struct(self, n: Name, _l: usize) -> Result<Acc, RErr> {
        Ok(acc(2, n, "", 0))
    }
    fn serialize_tuple_variant(self, n: Name, i: u32, v: Name, _l: usize) -> Result<Acc, RErr> {
        Ok(acc(3, n, v, i))
    }
    fn serialize_map(self, _l: Option<usize>) -> Result<Acc, RErr> {
        Ok(acc(4, "", "", 0))
    }
    fn serialize_struct(self, n: Name, _l: usize) -> Result<Acc, RErr> {
        Ok(acc(5, n, "", 0))
    }
    fn serialize_struct_variant(self, n: Name, i: u32, v: Name, _l: usize) -> Result<Acc, RErr> {
        Ok(acc(6, n, v, i))
    }
}

impl Acc {
    fn finish(self) -> Result<V, RErr> {
        Ok(match self.kind {
            0 => V::Seq(self.items),
            1 => V::Tup(self.items),
            2 => V::TupleStruct(self.name, self.items),
            3 => V::Variant(self.name, self.vname, self.idx, Box::new(V::Tup(self.items))),
            4 => {
                // `derive(ElixirStruct)`: keys are `AtomKey` markers, the first one is `__struct__`
                let is_ex = !self.entries.is_empty()
                    && self.entries.iter().all(|(k, _)| matches!(k, V::Newtype(n, _) if *n == erltf_serde::elixir::ATOM_KEY_MARKER));
                if is_ex {
                    let mut module = "";
                    let mut fs = Vec::new();
                    for (k, v) in self.entries {
                        let key = match k {
                            V::Newtype(_, b) => match *b {
                                V::Str(s) => s,
                                _ => return Err(RErr("atom key".into())),
                            },
                            _ => unreachable!(),
                        };
                        if key == "__struct__" {
                            match v {
                                V::Newtype(_, b) => match *b {
                                    V::Str(s) => module = intern(s.strip_prefix("Elixir.").unwrap_or(&s)),
                                    _ => return Err(RErr("atom value".into())),
                                },
                                _ => return Err(RErr("atom value".into())),
                            }
                        } else {
                            fs.push((intern(&key), v));
                        }
                    }
                    V::ExStruct(module, fs)
                } else {
                    V::Map(self.entries)
                }
            }
            5 => V::Struct(self.name, self.fields),
            _ => V::Variant(self.name, self.vname, self.idx, Box::new(V::Struct("", self.fields))),
        })
    }
}
impl SerializeSeq for Acc {
    type Ok = V;
    type Error = RErr;
    fn serialize_element<T: ?Sized + Serialize>(&mut self, v: &T) -> Result<(), RErr> {
        self.items.push(v.serialize(Reflect)?);
        Ok(())
    }
    fn end(self) -> Result<V, RErr> {
        self.finish()
    }
}
impl SerializeTuple for Acc {
    type Ok = V;
    type Error = RErr;
    fn serialize_element<T: ?Sized + Serialize>(&mut self, v: &T) -> Result<(), RErr> {
        self.items.push(v.serialize(Reflect)?);
        Ok(())
    }
    fn end(self) -> Result<V, RErr> {
        self.finish()
    }
}
impl SerializeTupleStruct for Acc {
    type Ok = V;
    type Error = RErr;
    fn serialize_field<T: ?Sized + Serialize>(&mut self, v: &T) -> Result<(), RErr> {
        self.items.push(v.serialize(Reflect)?);
        Ok(())
    }
    fn end(self) -> Result<V, RErr> {
        self.finish()
    }
}
impl SerializeTupleVariant for Acc {
    type Ok = V;
    type Error = RErr;
    fn serialize_field<T: ?Sized + Serialize>(&mut self, v: &T) -> Result<(), RErr> {
        self.items.push(v.serialize(Reflect)?);
        Ok(())
    }
    fn end(self) -> Result<V, RErr> {
        self.finish()
    }
}
impl SerializeMap for Acc {
    type Ok = V;
    type Error = RErr;
    fn serialize_key<T: ?Sized + Serialize>(&mut self, k: &T) -> Result<(), RErr> {
        self.key = Some(k.serialize(Reflect)?);
        Ok(())
    }
    fn serialize_value<T: ?Sized + Serialize>(&mut self, v: &T) -> Result<(), RErr> {
        let k = self.key.take().ok_or(RErr("value without key".into()))?;
        self.entries.push((k, v.serialize(Reflect)?));
        Ok(())
    }
    fn end(self) -> Result<V, RErr> {
        self.finish()
    }
}
impl SerializeStruct for Acc {
    type Ok = V;
    type Error = RErr;
    fn serialize_field<T: ?Sized + Serialize>(&mut self, k: Name, v: &T) -> Result<(), RErr> {
        self.fields.push((k, v.serialize(Reflect)?));
        Ok(())
    }
    fn end(self) -> Result<V, RErr> {
        self.finish()
    }
}
impl SerializeStructVariant for Acc {
    type Ok = V;
    type Error = RErr;
    fn serialize_field<T: ?Sized + Serialize>(&mut self, k: Name, v: &T) -> Result<(), RErr> {
        self.fields.push((k, v.serialize(Reflect)?));
        Ok(())
    }
    fn end(self) -> Result<V, RErr> {
        self.finish()
    }
}

// ------------------------------------------------------------------------------------------------
// concrete derived types
// ------------------------------------------------------------------------------------------------

#[derive(Serialize, Deserialize, PartialEq, Debug, Clone)]
struct Point {
    x: i32,
    y: i32,
}
#[derive(Serialize, Deserialize, PartialEq, Debug, Clone)]
struct Wide {
    a: i64,
    b: u64,
    c: u32,
    d: i8,
    e: u16,
}
#[derive(Serialize, Deserialize, PartialEq, Debug, Clone)]
struct Texty {
    name: String,
    initial: char,
    tags: Vec<String>,
    note: Option<String>,
}
#[derive(Serialize, Deserialize, PartialEq, Debug, Clone)]
struct Marker;
#[derive(Serialize, Deserialize, PartialEq, Debug, Clone)]
struct Meters(f64);
#[derive(Serialize, Deserialize, PartialEq, Debug, Clone)]
struct Pair(i16, String);
#[derive(Serialize, Deserialize, PartialEq, Debug, Clone)]
enum Shape {
    Empty,
    Circle(f32),
    Rect(u16, u16),
    Named { label: String, sides: u8 },
}
#[derive(Serialize, Deserialize, PartialEq, Debug, Clone)]
struct Nested {
    p: Point,
    shapes: Vec<Shape>,
    m: BTreeMap<String, i64>,
    t: (u8, bool, ()),
}
#[derive(Serialize, Deserialize, PartialEq, Debug, Clone)]
struct Keyed {
    by_int: BTreeMap<i64, String>,
    by_u64: BTreeMap<u64, Option<u8>>,
}
#[derive(Serialize, Deserialize, PartialEq, Debug, Clone)]
struct Opts {
    a: Option<i32>,
    b: Option<Vec<Option<bool>>>,
    c: Option<Marker>,
    d: Option<Shape>,
}
#[derive(Serialize, Deserialize, PartialEq, Debug, Clone)]
enum Msg {
    Ping,
    Data(Vec<u8>),
    Move(Point),
    Pair(i64, u64),
    Conf { retries: u32, name: Option<String> },
}
#[derive(Serialize, Deserialize, PartialEq, Debug, Clone)]
struct Hashed {
    m: HashMap<String, u16>,
    k: HashMap<i32, bool>,
}
#[derive(erltf_serde::ElixirStruct, PartialEq, Debug, Clone)]
#[elixir_module = "MyApp.User"]
struct ExUser {
    name: String,
    age: u32,
    email: Option<String>,
}
#[derive(erltf_serde::ElixirStruct, PartialEq, Debug, Clone)]
#[elixir_module = "Geo.Pt"]
struct ExPt {
    lat: f64,
    lon: f64,
    id: i64,
    tags: Vec<String>,
}

fn t_int(k: IntTy) -> Ty {
    Ty::Int(k)
}
fn t_opt(t: Ty) -> Ty {
    Ty::Opt(Box::new(t))
}
fn t_seq(t: Ty) -> Ty {
    Ty::Seq(Box::new(t))
}
fn t_map(k: Ty, v: Ty) -> Ty {
    Ty::Map(Box::new(k), Box::new(v))
}
fn t_st(n: Name, fs: &[(Name, Ty)]) -> Ty {
    Ty::Struct(n, fs.to_vec())
}
fn ty_point() -> Ty {
    t_st("Point", &[("x", t_int(IntTy::I32)), ("y", t_int(IntTy::I32))])
}
fn ty_shape() -> Ty {
    Ty::Enum(
        "Shape",
        vec![
            ("Empty", Ty::Unit),
            ("Circle", Ty::Newtype("", Box::new(Ty::F32))),
            ("Rect", Ty::Tup(vec![t_int(IntTy::U16), t_int(IntTy::U16)])),
            ("Named", t_st("", &[("label", Ty::Str), ("sides", t_int(IntTy::U8))])),
        ],
    )
}
fn ty_marker() -> Ty {
    Ty::UnitStruct("Marker")
}

fn g_i64(r: &mut Rng) -> i64 {
    gen_int_val(r, IntTy::I64) as i64
}
fn g_point(r: &mut Rng) -> Point {
    Point { x: gen_int_val(r, IntTy::I32) as i32, y: gen_int_val(r, IntTy::I32) as i32 }
}
fn g_shape(r: &mut Rng) -> Shape {
    match r.below(4) {
        0 => Shape::Empty,
        1 => Shape::Circle(f32::from_bits(gen_f32(r))),
        2 => Shape::Rect(gen_int_val(r, IntTy::U16) as u16, gen_int_val(r, IntTy::U16) as u16),
        _ => Shape::Named { label: gen_string(r), sides: gen_int_val(r, IntTy::U8) as u8 },
    }
}
fn g_opt<T>(r: &mut Rng, f: impl FnOnce(&mut Rng) -> T) -> Option<T> {
    if r.chance(1, 3) { None } else { Some(f(r)) }
}

/// one derived type: correspondence with the model through its reflection, and the property on the real value
fn concrete<T>(ctx: &mut Ctx, ty: &Ty, c: &T, ordered: bool, mutants: bool)
where
    T: Serialize + for<'a> Deserialize<'a> + PartialEq + fmt::Debug,
{
    ctx.count("derived_cases");
    let v = reflect(c);
    let (tt, vt) = (ty_text(ty), val_text(&v));
    let term = match std::panic::catch_unwind(std::panic::AssertUnwindSafe(|| erltf_serde::to_term(c))) {
        Ok(Ok(t)) => t,
        other => {
            ctx.fail("gen", &format!("to_term failed on derived value {} : {:?}", vt, other.map(|r| r.map(|_| ()))));
            return;
        }
    };
    let show = |r: std::thread::Result<Result<T, erltf_serde::Error>>| -> (String, Option<T>) {
        match r {
            Ok(Ok(x)) => (val_text(&reflect(&x)), Some(x)),
            Ok(Err(_)) => ("err".into(), None),
            Err(_) => ("panic".into(), None),
        }
    };
    let okp = |s: &str| if s == "err" || s == "panic" { s.to_string() } else { format!("ok {}", s) };
    let termt = term_text(&term);
    let (mem, memv) = show(std::panic::catch_unwind(|| erltf_serde::from_term::<T>(&term)));
    if ordered {
        ctx.tie("derived", &format!("c15ser {}", vt), &format!("ok {}", termt));
        ctx.tie("derived", &format!("c15de {} {}", tt, termt), &okp(&mem));
        ctx.prop("gen", &format!("c15rt mem {} {} {}", tt, vt, mem), "ok");
    }
    let nan = vt.contains("f32:7f") || vt.contains("f32:ff") || vt.contains("f64:7ff") || vt.contains("f64:fff");
    if !nan && memv.as_ref() != Some(c) {
        ctx.fail("gen", &format!("derived in-memory round trip: {} {} -> {}", tt, vt, mem));
    }
    let (cu, wu) = wire_unsafe(&v);
    match std::panic::catch_unwind(std::panic::AssertUnwindSafe(|| erltf_serde::to_bytes(c))) {
        Ok(Ok(b)) => {
            let (wire, wirev) = show(std::panic::catch_unwind(|| erltf_serde::from_bytes::<T>(&b)));
            // (formerly failing: a `char`, a non-u64 integer outside the i32 range — now ordinary checks)
            let class = "gen";
            if cu || wu {
                ctx.count("wire_cases_formerly_failing");
            }
            if ordered {
                ctx.tie("derived", &format!("c15bytes {} {}", tt, vt), &okp(&wire));
                ctx.prop(class, &format!("c15rt wire {} {} {}", tt, vt, wire), "ok");
            } else if !nan && wirev.as_ref() != Some(c) {
                ctx.fail(class, &format!("derived wire round trip: {} {} -> {}", tt, vt, wire));
            }
            if ordered && !nan && wirev.as_ref() != Some(c) && class == "gen" {
                ctx.fail("gen", &format!("derived wire round trip: {} {} -> {}", tt, vt, wire));
            }
        }
        other => ctx.fail("gen", &format!("to_bytes failed on derived value {} : {:?}", vt, other.map(|r| r.map(|_| ())))),
    }
    // (types with a real BTreeMap/HashMap inside re-sort and merge entries, which the reflection cannot undo)
    if ordered && mutants {
        for _ in 0..2 {
            let mut m = mutate(&mut ctx.rng, &term);
            if ctx.rng.chance(1, 3) {
                m = mutate(&mut ctx.rng, &m);
            }
            let (res, _) = show(std::panic::catch_unwind(|| erltf_serde::from_term::<T>(&m)));
            ctx.tie("derived-mut", &format!("c15de {} {}", tt, term_text(&m)), &okp(&res));
        }
    }
}

fn run_concrete(ctx: &mut Ctx, n: usize) {
    let i = |k| t_int(k);
    let ty_wide = t_st(
        "Wide",
        &[("a", i(IntTy::I64)), ("b", i(IntTy::U64)), ("c", i(IntTy::U32)), ("d", i(IntTy::I8)), ("e", i(IntTy::U16))],
    );
    let ty_texty =
        t_st("Texty", &[("name", Ty::Str), ("initial", Ty::Char), ("tags", t_seq(Ty::Str)), ("note", t_opt(Ty::Str))]);
    let ty_meters = Ty::Newtype("Meters", Box::new(Ty::F64));
    let ty_pair = Ty::TupleStruct("Pair", vec![i(IntTy::I16), Ty::Str]);
    let ty_nested = t_st(
        "Nested",
        &[
            ("p", ty_point()),
            ("shapes", t_seq(ty_shape())),
            ("m", t_map(Ty::Str, i(IntTy::I64))),
            ("t", Ty::Tup(vec![i(IntTy::U8), Ty::Bool, Ty::Unit])),
        ],
    );
    let ty_keyed = t_st(
        "Keyed",
        &[("by_int", t_map(i(IntTy::I64), Ty::Str)), ("by_u64", t_map(i(IntTy::U64), t_opt(i(IntTy::U8))))],
    );
    let ty_opts = t_st(
        "Opts",
        &[
            ("a", t_opt(i(IntTy::I32))),
            ("b", t_opt(t_seq(t_opt(Ty::Bool)))),
            ("c", t_opt(ty_marker())),
            ("d", t_opt(ty_shape())),
        ],
    );
    let ty_msg = Ty::Enum(
        "Msg",
        vec![
            ("Ping", Ty::Unit),
            ("Data", Ty::Newtype("", Box::new(t_seq(i(IntTy::U8))))),
            ("Move", Ty::Newtype("", Box::new(ty_point()))),
            ("Pair", Ty::Tup(vec![i(IntTy::I64), i(IntTy::U64)])),
            ("Conf", t_st("", &[("retries", i(IntTy::U32)), ("name", t_opt(Ty::Str))])),
        ],
    );
    let ty_hashed = t_st("Hashed", &[("m", t_map(Ty::Str, i(IntTy::U16))), ("k", t_map(i(IntTy::I32), Ty::Bool))]);
    let ty_exuser =
        Ty::ExStruct("MyApp.User", vec![("name", Ty::Str), ("age", i(IntTy::U32)), ("email", t_opt(Ty::Str))]);
    let ty_expt = Ty::ExStruct(
        "Geo.Pt",
        vec![("lat", Ty::F64), ("lon", Ty::F64), ("id", i(IntTy::I64)), ("tags", t_seq(Ty::Str))],
    );
    for _ in 0..n {
        let r = &mut ctx.rng;
        let p = g_point(r);
        let w = Wide {
            a: g_i64(r),
            b: gen_int_val(r, IntTy::U64) as u64,
            c: gen_int_val(r, IntTy::U32) as u32,
            d: gen_int_val(r, IntTy::I8) as i8,
            e: gen_int_val(r, IntTy::U16) as u16,
        };
        let tx = Texty {
            name: gen_string(r),
            initial: gen_char(r),
            tags: (0..r.below(3)).map(|_| gen_string(r)).collect(),
            note: g_opt(r, gen_string),
        };
        let me = Meters(f64::from_bits(gen_f64(r)));
        let pa = Pair(gen_int_val(r, IntTy::I16) as i16, gen_string(r));
        let sh = g_shape(r);
        let ne = Nested {
            p: g_point(r),
            shapes: (0..r.below(4)).map(|_| g_shape(r)).collect(),
            m: (0..r.below(4)).map(|_| (gen_string(r), g_i64(r))).collect(),
            t: (r.next() as u8, r.chance(1, 2), ()),
        };
        let ke = Keyed {
            by_int: (0..r.below(4)).map(|_| (g_i64(r), gen_string(r))).collect(),
            by_u64: (0..r.below(4))
                .map(|_| (gen_int_val(r, IntTy::U64) as u64, g_opt(r, |r| r.next() as u8)))
                .collect(),
        };
        let op = Opts {
            a: g_opt(r, |r| gen_int_val(r, IntTy::I32) as i32),
            b: g_opt(r, |r| (0..r.below(4)).map(|_| g_opt(r, |r| r.chance(1, 2))).collect()),
            c: g_opt(r, |_| Marker),
            d: g_opt(r, g_shape),
        };
        let ms = match r.below(5) {
            0 => Msg::Ping,
            1 => {
                let n = r.below(5) as usize;
                Msg::Data(r.bytes(n))
            }
            2 => Msg::Move(g_point(r)),
            3 => Msg::Pair(g_i64(r), gen_int_val(r, IntTy::U64) as u64),
            _ => Msg::Conf { retries: gen_int_val(r, IntTy::U32) as u32, name: g_opt(r, gen_string) },
        };
        let ha = Hashed {
            m: (0..r.below(5)).map(|_| (gen_string(r), r.next() as u16)).collect(),
            k: (0..r.below(5)).map(|_| (gen_int_val(r, IntTy::I32) as i32, r.chance(1, 2))).collect(),
        };
        let eu = ExUser { name: gen_string(r), age: gen_int_val(r, IntTy::U32) as u32, email: g_opt(r, gen_string) };
        let ep = ExPt {
            lat: f64::from_bits(gen_f64(r)),
            lon: f64::from_bits(gen_f64(r)),
            id: g_i64(r),
            tags: (0..r.below(3)).map(|_| gen_string(r)).collect(),
        };
        concrete(ctx, &ty_point(), &p, true, true);
        concrete(ctx, &ty_wide, &w, true, true);
        concrete(ctx, &ty_texty, &tx, true, true);
        concrete(ctx, &ty_marker(), &Marker, true, true);
        concrete(ctx, &ty_meters, &me, true, true);
        concrete(ctx, &ty_pair, &pa, true, true);
        concrete(ctx, &ty_shape(), &sh, true, true);
        concrete(ctx, &ty_nested, &ne, true, false);
        concrete(ctx, &ty_keyed, &ke, true, false);
        concrete(ctx, &ty_opts, &op, true, true);
        concrete(ctx, &ty_msg, &ms, true, true);
        concrete(ctx, &ty_hashed, &ha, false, false);
        concrete(ctx, &ty_exuser, &eu, true, true);
        concrete(ctx, &ty_expt, &ep, true, true);
    }
}

// ------------------------------------------------------------------------------------------------
// the dynamic universe
// ------------------------------------------------------------------------------------------------

fn kind(t: &Ty) -> &'static str {
    match t {
        Ty::Int(k) => k.text(),
        Ty::F32 => "f32",
        Ty::F64 => "f64",
        Ty::Bool => "bool",
        Ty::Char => "char",
        Ty::Str => "str",
        Ty::Bytes => "bytes",
        Ty::Unit => "unit",
        Ty::Opt(_) => "opt",
        Ty::Tup(_) => "tup",
        Ty::Seq(_) => "seq",
        Ty::Map(_, _) => "map",
        Ty::Struct(_, _) => "struct",
        Ty::UnitStruct(_) => "unit_struct",
        Ty::Newtype(_, _) => "newtype",
        Ty::TupleStruct(_, _) => "tuple_struct",
        Ty::ExStruct(_, _) => "elixir_struct",
        Ty::Enum(_, _) => "enum",
    }
}

fn bare(s: &str) -> &str {
    s.strip_prefix("ok ").unwrap_or(s)
}

fn dyn_case(ctx: &mut Ctx, ty: &Ty, v: &V) {
    ctx.count(&format!("type_{}", kind(ty)));
    count_classes(ctx, ty, v, 0);
    classify(ctx, ty, v);
    let (tt, vt) = (ty_text(ty), val_text(v));
    let term = match std::panic::catch_unwind(|| erltf_serde::to_term(v)) {
        Ok(Ok(t)) => t,
        Ok(Err(_)) => {
            ctx.tie("gen", &format!("c15ser {}", vt), "err");
            return;
        }
        Err(_) => {
            ctx.tie("gen", &format!("c15ser {}", vt), "panic");
            return;
        }
    };
    let termt = term_text(&term);
    ctx.tie("gen", &format!("c15ser {}", vt), &format!("ok {}", termt));
    let mem = dyn_from_term(ty, &term);
    ctx.tie("gen", &format!("c15de {} {}", tt, termt), &mem);
    ctx.prop("gen", &format!("c15rt mem {} {} {}", tt, vt, bare(&mem)), "ok");
    ctx.count(if mem.starts_with("ok") { "mem_ok" } else { "mem_err" });
    let (cu, wu) = wire_unsafe(v);
    match std::panic::catch_unwind(|| erltf_serde::to_bytes(v)) {
        Ok(Ok(b)) => {
            ctx.add("encoded_bytes", b.len() as u64);
            match std::panic::catch_unwind(|| erltf::decode(&b)) {
                Ok(Ok(d)) => {
                    let dt = term_text(&d);
                    ctx.tie("gen", &format!("c15wire {}", termt), &format!("ok {}", dt));
                    let w2 = dyn_from_term(ty, &d);
                    ctx.tie("gen", &format!("c15de {} {}", tt, dt), &w2);
                }
                _ => ctx.fail("gen", &format!("own decoder rejects to_bytes output of {}", vt)),
            }
            let wire = dyn_from_bytes(ty, &b);
            ctx.tie("gen", &format!("c15bytes {} {}", tt, vt), &wire);
            // (formerly failing: a `char`, a non-u64 integer outside the i32 range — now ordinary checks)
            let class = "gen";
            if cu || wu {
                ctx.count("wire_cases_formerly_failing");
            }
            ctx.prop(class, &format!("c15rt wire {} {} {}", tt, vt, bare(&wire)), "ok");
            ctx.count(if wire.starts_with("ok") { "wire_ok" } else { "wire_err" });
        }
        _ => {
            ctx.tie("gen", &format!("c15bytes {} {}", tt, vt), "encerr");
            ctx.prop("gen", &format!("c15rt wire {} {} encerr", tt, vt), "ok");
            ctx.count("to_bytes_err");
        }
    }
    // acceptance / error paths on perturbed terms
    let k = 2 + ctx.rng.below(2);
    for _ in 0..k {
        let mut m = mutate(&mut ctx.rng, &term);
        while ctx.rng.chance(1, 3) {
            m = mutate(&mut ctx.rng, &m);
        }
        let res = dyn_from_term(ty, &m);
        ctx.count(if res.starts_with("ok") { "mutant_ok" } else { "mutant_err" });
        ctx.tie("mut", &format!("c15de {} {}", tt, term_text(&m)), &res);
        if let Ty::Int(k) = ty {
            ctx.prop("int-read", &format!("c15int {} {} {}", k.text(), term_text(&m), bare(&res)), "ok");
        }
    }
}

/// the former witnesses of the two fixed findings, and edge terms for `integer_term_as` / `deserialize_char`
fn witnesses(ctx: &mut Ctx) {
    let cases: Vec<(Ty, V)> = vec![
        (Ty::Int(IntTy::I64), V::Int(IntTy::I64, 1 << 40)),
        (Ty::Int(IntTy::I64), V::Int(IntTy::I64, -(1 << 31) - 1)),
        (Ty::Int(IntTy::I64), V::Int(IntTy::I64, i64::MIN as i128)),
        (Ty::Int(IntTy::U32), V::Int(IntTy::U32, 3_000_000_000)),
        (Ty::Int(IntTy::U32), V::Int(IntTy::U32, 1 << 31)),
        (Ty::Char, V::Char('a')),
        (Ty::Char, V::Char('😀')),
        (Ty::Int(IntTy::U64), V::Int(IntTy::U64, 1 << 40)),
        (Ty::Int(IntTy::U64), V::Int(IntTy::U64, u64::MAX as i128)),
        (Ty::Int(IntTy::I32), V::Int(IntTy::I32, i32::MIN as i128)),
    ];
    for (t, v) in cases {
        dyn_case(ctx, &t, &v);
    }
    // BigInt-shaped and Binary-shaped edge terms for every integer type / char
    let big = |neg: bool, d: Vec<u8>| OwnedTerm::BigInt(BigInt::new(neg, d));
    let mut terms: Vec<OwnedTerm> = vec![
        big(false, vec![]),
        big(true, vec![]),
        big(true, vec![0]),
        big(true, vec![0, 0, 0, 0, 0, 0, 0, 0, 0, 0]),
        big(false, vec![5]),
        big(true, vec![5]),
        big(false, vec![5, 0, 0]),
        big(false, vec![5, 0, 0, 0, 0, 0, 0, 0, 0, 0, 0, 0]),
        big(true, vec![128]),
        big(true, vec![129]),
        big(false, vec![128]),
        big(false, vec![255]),
        big(false, vec![0, 1]),
        big(true, vec![0, 128]),
        big(true, vec![1, 128]),
        big(false, vec![255, 255]),
        big(false, vec![0, 0, 1]),
        big(true, vec![0, 0, 0, 128]),
        big(true, vec![1, 0, 0, 128]),
        big(false, vec![255, 255, 255, 127]),
        big(false, vec![0, 0, 0, 128]),
        big(false, vec![255, 255, 255, 255]),
        big(false, vec![0, 0, 0, 0, 1]),
        big(false, vec![0, 0, 0, 0, 0, 1]),
        big(true, vec![0, 0, 0, 0, 0, 0, 0, 128]),
        big(true, vec![0, 0, 0, 0, 0, 0, 0, 128, 0]),
        big(true, vec![1, 0, 0, 0, 0, 0, 0, 128]),
        big(false, vec![0, 0, 0, 0, 0, 0, 0, 128]),
        big(false, vec![255, 255, 255, 255, 255, 255, 255, 127]),
        big(false, vec![255, 255, 255, 255, 255, 255, 255, 255]),
        big(true, vec![255, 255, 255, 255, 255, 255, 255, 255]),
        big(false, vec![255, 255, 255, 255, 255, 255, 255, 255, 0, 0]),
        big(false, vec![0, 0, 0, 0, 0, 0, 0, 0, 1]),
        big(true, vec![0, 0, 0, 0, 0, 0, 0, 0, 1]),
        big(false, vec![0, 0, 0, 0, 0, 0, 0, 0, 1, 0]),
        big(false, vec![1; 9]),
        big(false, vec![7; 300]),
        OwnedTerm::Integer(i64::MIN),
        OwnedTerm::Integer(i64::MAX),
        OwnedTerm::Float(5.0),
    ];
    for _ in 0..40 {
        let n = *ctx.rng.pick(&[1usize, 2, 4, 7, 8, 8, 9, 10]);
        let mut d = ctx.rng.bytes(n);
        if ctx.rng.chance(1, 2) {
            let z = ctx.rng.below(4) as usize;
            d.extend(std::iter::repeat(0u8).take(z));
        }
        terms.push(big(ctx.rng.chance(1, 2), d));
    }
    for k in IntTy::ALL {
        for t in &terms {
            let res = dyn_from_term(&Ty::Int(k), t);
            ctx.count(if res.starts_with("ok") { "bigint_edge_ok" } else { "bigint_edge_err" });
            ctx.tie("edge", &format!("c15de {} {}", k.text(), term_text(t)), &res);
            // the property on arbitrary integer terms: exactly the term's number when it is in range, an error otherwise
            ctx.prop("int-read", &format!("c15int {} {} {}", k.text(), term_text(t), bare(&res)), "ok");
        }
    }
    let bins: Vec<Vec<u8>> = vec![
        vec![], b"a".to_vec(), b"ab".to_vec(), "é".as_bytes().to_vec(), "éa".as_bytes().to_vec(), "😀".as_bytes().to_vec(),
        "😀😀".as_bytes().to_vec(), vec![0xff], vec![0xc3], vec![0xf0, 0x9f, 0x98], vec![0xed, 0xa0, 0x80], vec![0],
        vec![0xf4, 0x8f, 0xbf, 0xbf], vec![0xf4, 0x90, 0x80, 0x80], vec![0xc0, 0x80],
    ];
    for b in bins {
        let mut ts = vec![OwnedTerm::Binary(b.clone())];
        if let Ok(s) = String::from_utf8(b) {
            ts.push(OwnedTerm::String(s.clone()));
            ts.push(OwnedTerm::Atom(Atom::new(s)));
        }
        for t in ts {
            let res = dyn_from_term(&Ty::Char, &t);
            ctx.tie("edge", &format!("c15de char {}", term_text(&t)), &res);
        }
    }
    // exhaustive: every integer type at every power-of-two boundary and its neighbours
    for k in IntTy::ALL {
        for p in 0..=64u32 {
            for d in [-1i128, 0, 1] {
                for s in [1i128, -1] {
                    let x = s * (1i128 << p) + d;
                    if k.fits(x) {
                        dyn_case(ctx, &Ty::Int(k), &V::Int(k, x));
                    }
                }
            }
        }
    }
    ctx.add("exhaustive", 1);
}

// ------------------------------------------------------------------------------------------------
// 128-bit integers: not carried; an error in both directions, at any depth
// ------------------------------------------------------------------------------------------------

#[derive(Serialize, Deserialize, Debug, PartialEq)]
struct WideField {
    a: u8,
    w: i128,
}
#[derive(Serialize, Deserialize, Debug, PartialEq)]
enum WideVar {
    N(u128),
    S { w: i128 },
}

fn wide_res<T: Serialize>(x: &T) -> String {
    match std::panic::catch_unwind(std::panic::AssertUnwindSafe(|| erltf_serde::to_term(x))) {
        Ok(Ok(t)) => format!("ok {}", term_text(&t)),
        Ok(Err(_)) => "err".into(),
        Err(_) => "panic".into(),
    }
}

fn wide_cases(ctx: &mut Ctx) {
    let mut is: Vec<i128> = vec![0, 1, -1, 5, i64::MAX as i128, i64::MAX as i128 + 1, u64::MAX as i128, u64::MAX as i128 + 1,
        i64::MIN as i128 - 1, i128::MAX, i128::MIN];
    for _ in 0..6 {
        is.push(((ctx.rng.next() as i128) << 64 | ctx.rng.next() as i128) >> ctx.rng.below(120));
    }
    for i in is {
        ctx.count("wide_int_cases");
        ctx.tie("wide", &format!("c15serwide i128 {}", i), &wide_res(&i));
        ctx.tie("wide", &format!("c15serwide i128 {}", i), &wide_res(&(1u8, i)));
        ctx.tie("wide", &format!("c15serwide i128 {}", i), &wide_res(&vec![Some(i)]));
        ctx.tie("wide", &format!("c15serwide i128 {}", i), &wide_res(&WideField { a: 1, w: i }));
        ctx.tie("wide", &format!("c15serwide i128 {}", i), &wide_res(&WideVar::S { w: i }));
        let mut m: BTreeMap<String, i128> = BTreeMap::new();
        m.insert("k".into(), i);
        ctx.tie("wide", &format!("c15serwide i128 {}", i), &wide_res(&m));
        let mut m: BTreeMap<i128, u8> = BTreeMap::new();
        m.insert(i, 1);
        ctx.tie("wide", &format!("c15serwide i128 {}", i), &wide_res(&m));
        if i >= 0 {
            let u = i as u128;
            ctx.tie("wide", &format!("c15serwide u128 {}", u), &wide_res(&u));
            ctx.tie("wide", &format!("c15serwide u128 {}", u), &wide_res(&WideVar::N(u)));
            ctx.tie("wide", &format!("c15serwide u128 {}", u), &wide_res(&[u, u]));
        }
    }
    let big = |neg: bool, d: Vec<u8>| OwnedTerm::BigInt(BigInt::new(neg, d));
    let terms = vec![
        OwnedTerm::Integer(0), OwnedTerm::Integer(5), OwnedTerm::Integer(i64::MIN), big(false, vec![5]), big(false, vec![1; 9]),
        big(true, vec![255; 16]), OwnedTerm::Float(1.0), OwnedTerm::Atom(Atom::new("nil")), OwnedTerm::Binary(vec![5]),
    ];
    for t in &terms {
        let r1 = match std::panic::catch_unwind(|| erltf_serde::from_term::<i128>(t)) {
            Ok(Ok(x)) => format!("ok {}", x),
            Ok(Err(_)) => "err".into(),
            Err(_) => "panic".into(),
        };
        ctx.tie("wide", &format!("c15dewide i128 {}", term_text(t)), &r1);
        let r2 = match std::panic::catch_unwind(|| erltf_serde::from_term::<u128>(t)) {
            Ok(Ok(x)) => format!("ok {}", x),
            Ok(Err(_)) => "err".into(),
            Err(_) => "panic".into(),
        };
        ctx.tie("wide", &format!("c15dewide u128 {}", term_text(t)), &r2);
        let r3 = match std::panic::catch_unwind(|| erltf_serde::from_term::<WideField>(&OwnedTerm::Map(
            [(OwnedTerm::Binary(b"a".to_vec()), OwnedTerm::Integer(1)), (OwnedTerm::Binary(b"w".to_vec()), t.clone())].into_iter().collect(),
        ))) {
            Ok(Ok(_)) => "ok 0".to_string(),
            Ok(Err(_)) => "err".into(),
            Err(_) => "panic".into(),
        };
        ctx.tie("wide", &format!("c15dewide i128 {}", term_text(t)), &r3);
    }
}

/// "nested arbitrarily": chains of containers far deeper than the random generator goes, up to and across the decoder's
/// nesting limit (beyond it `from_bytes` must report an error, not a different value)
fn deep_cases(ctx: &mut Ctx) {
    // five of six layer kinds add a level of term nesting: the decoder's limit of 256 is crossed between 306 and 310 layers
    let depths: Vec<usize> =
        if ctx.thorough { vec![6, 17, 60, 200, 300, 304, 305, 306, 307, 308, 309, 310, 311, 312, 340] } else { vec![6, 17, 60, 305, 306, 307, 308, 309, 310, 340] };
    for d in depths {
        for shape in 0..4u32 {
            let leaf_ty = match shape {
                0 => Ty::Int(IntTy::I64),
                1 => Ty::Char,
                2 => Ty::Opt(Box::new(Ty::Str)),
                _ => Ty::Int(IntTy::U64),
            };
            let leaf = gen_val(&mut ctx.rng, &leaf_ty, 3);
            let (mut ty, mut v) = (leaf_ty, leaf);
            for i in 0..d {
                // layers that add a level of nesting to the term (seq, tuple, map, variant) mixed with transparent ones
                match (shape + i as u32) % 6 {
                    0 => {
                        ty = Ty::Seq(Box::new(ty));
                        v = V::Seq(vec![v]);
                    }
                    1 => {
                        ty = Ty::Tup(vec![Ty::Bool, ty]);
                        v = V::Tup(vec![V::Bool(i % 2 == 0), v]);
                    }
                    2 => {
                        ty = Ty::Struct("S", vec![("f", ty)]);
                        v = V::Struct("S", vec![("f", v)]);
                    }
                    3 => {
                        ty = Ty::Enum("E", vec![("U", Ty::Unit), ("N", Ty::Newtype("", Box::new(ty)))]);
                        v = V::Variant("E", "N", 1, Box::new(V::Newtype("", Box::new(v))));
                    }
                    4 => {
                        ty = Ty::Newtype("W", Box::new(ty));
                        v = V::Newtype("W", Box::new(v));
                    }
                    _ => {
                        ty = Ty::Map(Box::new(Ty::Str), Box::new(ty));
                        v = V::Map(vec![(V::Str("k".into()), v)]);
                    }
                }
            }
            ctx.count("deep_cases");
            deep_case(ctx, &ty, &v);
        }
    }
}

/// like `dyn_case` without the perturbations (the texts are long)
fn deep_case(ctx: &mut Ctx, ty: &Ty, v: &V) {
    let (tt, vt) = (ty_text(ty), val_text(v));
    let Ok(term) = erltf_serde::to_term(v) else {
        ctx.tie("deep", &format!("c15ser {}", vt), "err");
        return;
    };
    let mem = dyn_from_term(ty, &term);
    ctx.prop("deep", &format!("c15rt mem {} {} {}", tt, vt, bare(&mem)), "ok");
    match std::panic::catch_unwind(|| erltf_serde::to_bytes(v)) {
        Ok(Ok(b)) => {
            let wire = dyn_from_bytes(ty, &b);
            ctx.tie("deep", &format!("c15bytes {} {}", tt, vt), &wire);
            ctx.prop("deep", &format!("c15rt wire {} {} {}", tt, vt, bare(&wire)), "ok");
            ctx.count(if wire.starts_with("ok") { "deep_wire_ok" } else { "deep_wire_err" });
        }
        _ => {
            ctx.tie("deep", &format!("c15bytes {} {}", tt, vt), "encerr");
            ctx.prop("deep", &format!("c15rt wire {} {} encerr", tt, vt), "ok");
        }
    }
}

pub fn run(ctx: &mut Ctx) {
    any_cases(ctx);
    witnesses(ctx);
    wide_cases(ctx);
    deep_cases(ctx);
    let n = ctx.n(700, 4000);
    for _ in 0..n {
        let ty = gen_ty(&mut ctx.rng, 0);
        let v = gen_val(&mut ctx.rng, &ty, 0);
        dyn_case(ctx, &ty, &v);
        // type confusion: another type's deserialiser on this term; arbitrary terms
        if ctx.rng.chance(1, 3) {
            let ty2 = gen_ty(&mut ctx.rng, 1);
            if let Ok(t) = erltf_serde::to_term(&v) {
                let res = dyn_from_term(&ty2, &t);
                ctx.tie("cross", &format!("c15de {} {}", ty_text(&ty2), term_text(&t)), &res);
                ctx.prop("shape", &format!("c15shape {} {} {}", ty_text(&ty2), term_text(&t), bare(&res)), "ok");
            }
        }
        if ctx.rng.chance(1, 4) {
            let cfg = crate::tgen::Cfg { max_depth: 2, huge: false, ..Default::default() };
            let t = crate::tgen::gen_term(&mut ctx.rng, &cfg, 0);
            let res = dyn_from_term(&ty, &t);
            ctx.tie("anyterm", &format!("c15de {} {}", ty_text(&ty), term_text(&t)), &res);
            ctx.prop("shape", &format!("c15shape {} {} {}", ty_text(&ty), term_text(&t), bare(&res)), "ok");
            if let Ty::Int(k) = &ty {
                ctx.prop("int-read", &format!("c15int {} {} {}", k.text(), term_text(&t), bare(&res)), "ok");
            }
        }
    }
    let n = ctx.n(25, 150);
    run_concrete(ctx, n);
}

// ---------------------------------------------------------------------------------------------------------------------
// `deserialize_any` (de.rs): the self-describing entry point that serde's buffered representations use — untagged,
// internally and adjacently tagged enums, `#[serde(flatten)]`. `Cn` is what a visitor that accepts everything is shown
// (the shape of serde's private `Content` / of `serde_json::Value`); tied to `Edp.Serde.content` (Impl/SerdeAny.lean).
// ---------------------------------------------------------------------------------------------------------------------
#[derive(Debug, Clone, PartialEq)]
enum Cn {
    Bool(bool),
    I64(i64),
    U64(u64),
    F64(u64),
    Str(Vec<u8>),
    Bytes(Vec<u8>),
    Unit,
    None,
    Seq(Vec<Cn>),
    Map(Vec<(Cn, Cn)>),
}

struct CnVis;
impl<'de> Visitor<'de> for CnVis {
    type Value = Cn;
    fn expecting(&self, f: &mut fmt::Formatter) -> fmt::Result {
        f.write_str("anything")
    }
    fn visit_bool<E: de::Error>(self, v: bool) -> Result<Cn, E> {
        Ok(Cn::Bool(v))
    }
    fn visit_i64<E: de::Error>(self, v: i64) -> Result<Cn, E> {
        Ok(Cn::I64(v))
    }
    fn visit_u64<E: de::Error>(self, v: u64) -> Result<Cn, E> {
        Ok(Cn::U64(v))
    }
    fn visit_f64<E: de::Error>(self, v: f64) -> Result<Cn, E> {
        Ok(Cn::F64(v.to_bits()))
    }
    fn visit_str<E: de::Error>(self, v: &str) -> Result<Cn, E> {
        Ok(Cn::Str(v.as_bytes().to_vec()))
    }
    fn visit_bytes<E: de::Error>(self, v: &[u8]) -> Result<Cn, E> {
        Ok(Cn::Bytes(v.to_vec()))
    }
    fn visit_unit<E: de::Error>(self) -> Result<Cn, E> {
        Ok(Cn::Unit)
    }
    fn visit_none<E: de::Error>(self) -> Result<Cn, E> {
        Ok(Cn::None)
    }
    fn visit_seq<A: SeqAccess<'de>>(self, mut seq: A) -> Result<Cn, A::Error> {
        let mut v = vec![];
        while let Some(x) = seq.next_element::<Cn>()? {
            v.push(x);
        }
        Ok(Cn::Seq(v))
    }
    fn visit_map<A: MapAccess<'de>>(self, mut map: A) -> Result<Cn, A::Error> {
        let mut v = vec![];
        while let Some(k) = map.next_key::<Cn>()? {
            let x = map.next_value::<Cn>()?;
            v.push((k, x));
        }
        Ok(Cn::Map(v))
    }
}
impl<'de> Deserialize<'de> for Cn {
    fn deserialize<D: de::Deserializer<'de>>(d: D) -> Result<Cn, D::Error> {
        d.deserialize_any(CnVis)
    }
}

fn cn_text(c: &Cn) -> String {
    match c {
        Cn::Bool(b) => format!("b{}", *b as u8),
        Cn::I64(i) => format!("i{}", i),
        Cn::U64(u) => format!("u{}", u),
        Cn::F64(b) => format!("f{:016x}", b),
        Cn::Str(s) => format!("s{}", hx_b(s)),
        Cn::Bytes(s) => format!("y{}", hx_b(s)),
        Cn::Unit => "unit".into(),
        Cn::None => "none".into(),
        Cn::Seq(v) => format!("q[{}]", v.iter().map(cn_text).collect::<Vec<_>>().join(",")),
        Cn::Map(v) => format!("m[{}]", v.iter().map(|(k, x)| format!("{}={}", cn_text(k), cn_text(x))).collect::<Vec<_>>().join(",")),
    }
}
fn hx_b(b: &[u8]) -> String {
    if b.is_empty() { "-".into() } else { hex(b) }
}

fn any_term(ctx: &mut Ctx, tag: &str, t: &OwnedTerm) {
    let r = std::panic::catch_unwind(std::panic::AssertUnwindSafe(|| erltf_serde::from_term::<Cn>(t)));
    let res = match r {
        Err(_) => "panic".to_string(),
        Ok(Err(_)) => "err".to_string(),
        Ok(Ok(c)) => format!("ok {}", cn_text(&c)),
    };
    ctx.count(&format!("any_{}", res.split(' ').next().unwrap()));
    ctx.tie(tag, &format!("c15any {}", term_text(t)), &res);
}

// real derived types with the representations that go through `deserialize_any`
#[derive(Serialize, Deserialize, PartialEq, Debug, Clone)]
#[serde(untagged)]
enum Un {
    Pt { x: i32, y: i32 },
    N(u64),
    I(i64),
    F(f64),
    S(String),
    L(Vec<i64>),
    O(Option<bool>),
}
#[derive(Serialize, Deserialize, PartialEq, Debug, Clone)]
#[serde(tag = "t")]
enum It {
    A { x: i64, u: u64 },
    B { s: String, o: Option<i32>, z: () },
    C,
}
#[derive(Serialize, Deserialize, PartialEq, Debug, Clone)]
#[serde(tag = "t", content = "c")]
enum Ad {
    A(u64),
    B(i64, String),
    C,
    D { w: u32, v: Vec<u16> },
}
#[derive(Serialize, Deserialize, PartialEq, Debug, Clone)]
struct FlInner {
    a: i64,
    b: Option<String>,
    w: u64,
    z: (),
}
#[derive(Serialize, Deserialize, PartialEq, Debug, Clone)]
struct Fl {
    id: u32,
    #[serde(flatten)]
    rest: FlInner,
    #[serde(flatten)]
    more: BTreeMap<String, i64>,
}
#[derive(Serialize, Deserialize, PartialEq, Debug, Clone)]
struct Misc2 {
    cow: std::borrow::Cow<'static, str>,
    bx: Box<(i64, Box<Option<u64>>)>,
    t12: (u8, i8, u16, i16, u32, i32, u64, i64, bool, char, f32, f64),
    t0: (),
    t1: (i64,),
    arr: [u8; 3],
    m1: HashMap<u64, i8>,
    m2: BTreeMap<String, Option<Vec<u8>>>,
    m3: BTreeMap<i64, Vec<(u64, String)>>,
    e: Vec<UnitsOnly>,
}
#[derive(Serialize, Deserialize, PartialEq, Debug, Clone, Copy)]
enum UnitsOnly {
    Alpha,
    #[serde(rename = "beta-β")]
    Beta,
    Gamma,
}

fn attr_rt<T: Serialize + for<'a> Deserialize<'a> + PartialEq + fmt::Debug>(ctx: &mut Ctx, kind: &str, x: &T) {
    ctx.count(&format!("attr_{}", kind));
    let shown = format!("{:?}", x);
    let shown: String = shown.chars().take(160).collect();
    match erltf_serde::to_term(x) {
        Err(_) => ctx.fail("c15-attr-roundtrip", &format!("{} to_term fails for {}", kind, shown)),
        Ok(t) => {
            any_term(ctx, "any-attr", &t);
            match std::panic::catch_unwind(std::panic::AssertUnwindSafe(|| erltf_serde::from_term::<T>(&t))) {
                Ok(Ok(y)) if &y == x => {}
                Ok(Ok(y)) => ctx.fail("c15-attr-roundtrip", &format!("{} memory: {} came back as {:?} (term {})", kind, shown, y, term_text(&t))),
                Ok(Err(_)) => ctx.fail("c15-attr-roundtrip", &format!("{} memory: {} is an error (term {})", kind, shown, term_text(&t))),
                Err(_) => ctx.fail("c15-attr-roundtrip", &format!("{} memory: {} panics", kind, shown)),
            }
        }
    }
    match erltf_serde::to_bytes(x) {
        Err(_) => ctx.fail("c15-attr-roundtrip", &format!("{} to_bytes fails for {}", kind, shown)),
        Ok(b) => {
            if let Ok(t) = erltf::decode(&b) {
                any_term(ctx, "any-attr-wire", &t);
            }
            match std::panic::catch_unwind(std::panic::AssertUnwindSafe(|| erltf_serde::from_bytes::<T>(&b))) {
                Ok(Ok(y)) if &y == x => {}
                Ok(Ok(y)) => ctx.fail("c15-attr-roundtrip", &format!("{} wire: {} came back as {:?} (bytes {})", kind, shown, y, hex(&b))),
                Ok(Err(_)) => ctx.fail("c15-attr-roundtrip", &format!("{} wire: {} is an error (bytes {})", kind, shown, hex(&b))),
                Err(_) => ctx.fail("c15-attr-roundtrip", &format!("{} wire: {} panics", kind, shown)),
            }
        }
    }
}

fn edge_i64(r: &mut Rng) -> i64 {
    let p = *r.pick(&[0u32, 7, 8, 15, 16, 27, 31, 32, 40, 53, 62, 63]);
    let base: i128 = 1i128 << p;
    let v = base + (r.below(3) as i128 - 1);
    let v = if r.chance(1, 2) { -v } else { v };
    v.clamp(i64::MIN as i128, i64::MAX as i128) as i64
}
fn edge_u64(r: &mut Rng) -> u64 {
    let p = *r.pick(&[0u32, 8, 16, 31, 32, 40, 53, 62, 63, 64]);
    if p == 64 { u64::MAX - r.below(2) } else { (1u64 << p).wrapping_add(r.below(3)).wrapping_sub(1) }
}

fn any_cases(ctx: &mut Ctx) {
    // every term variant, the special atoms, both integer representations
    let big = |neg: bool, d: &[u8]| OwnedTerm::BigInt(BigInt::new(neg, d.to_vec()));
    let edge: Vec<OwnedTerm> = vec![
        OwnedTerm::Atom(Atom::new("true")), OwnedTerm::Atom(Atom::new("false")), OwnedTerm::Atom(Atom::new("nil")),
        OwnedTerm::Atom(Atom::new("undefined")), OwnedTerm::Atom(Atom::new("ok")), OwnedTerm::Atom(Atom::new("")),
        OwnedTerm::Integer(0), OwnedTerm::Integer(i64::MIN), OwnedTerm::Integer(i64::MAX), OwnedTerm::Integer(-1),
        big(false, &[0, 0, 0, 0, 0, 0, 0, 0x80]), big(true, &[0, 0, 0, 0, 0, 0, 0, 0x80]), big(true, &[1, 0, 0, 0, 0, 0, 0, 0x80]),
        big(false, &[0xff; 8]), big(true, &[0xff; 8]), big(false, &[0, 0, 0, 0, 0, 0, 0, 0, 1]), big(false, &[5, 0, 0, 0, 0, 0, 0, 0, 0, 0]),
        big(false, &[]), big(true, &[]), big(true, &[0]), big(false, &[0, 0, 0, 0, 1]), big(true, &[0, 0, 0, 0x80]),
        OwnedTerm::Float(0.0), OwnedTerm::Float(-0.0), OwnedTerm::Float(f64::NAN), OwnedTerm::Float(f64::INFINITY),
        OwnedTerm::Binary(vec![]), OwnedTerm::Binary(b"abc".to_vec()), OwnedTerm::Binary(vec![0xff, 0xfe]), OwnedTerm::Binary("é€".as_bytes().to_vec()),
        OwnedTerm::String("".into()), OwnedTerm::String("true".into()), OwnedTerm::Nil, OwnedTerm::List(vec![]),
        OwnedTerm::List(vec![OwnedTerm::Integer(1), OwnedTerm::Nil]), OwnedTerm::Tuple(vec![]), OwnedTerm::Tuple(vec![OwnedTerm::Atom(Atom::new("nil"))]),
        OwnedTerm::ImproperList { elements: vec![OwnedTerm::Integer(1)], tail: Box::new(OwnedTerm::Integer(2)) },
        OwnedTerm::List(vec![big(false, &[0xff; 8]), OwnedTerm::Binary(vec![0xff])]),
        OwnedTerm::Map([(OwnedTerm::Atom(Atom::new("true")), OwnedTerm::Integer(1)), (big(false, &[0, 0, 0, 0, 0, 0, 0, 0x80]), OwnedTerm::Nil)].into_iter().collect()),
    ];
    for t in &edge {
        any_term(ctx, "any-edge", t);
    }
    // what the serialiser builds for values of the universe, as built and as it comes back from the wire; arbitrary terms
    for _ in 0..ctx.n(250, 1500) {
        let ty = gen_ty(&mut ctx.rng, 0);
        let v = gen_val(&mut ctx.rng, &ty, 0);
        if let Ok(t) = erltf_serde::to_term(&v) {
            any_term(ctx, "any-ser", &t);
        }
        if let Ok(b) = erltf_serde::to_bytes(&v) {
            if let Ok(t) = erltf::decode(&b) {
                any_term(ctx, "any-wire", &t);
            }
        }
        if ctx.rng.chance(1, 3) {
            let cfg = crate::tgen::Cfg { max_depth: 2, huge: false, ..Default::default() };
            let t = crate::tgen::gen_term(&mut ctx.rng, &cfg, 0);
            any_term(ctx, "any-arbitrary", &t);
        }
    }
    // derived types whose Deserialize goes through deserialize_any, integers at every boundary
    for _ in 0..ctx.n(60, 400) {
        let un = { let r = &mut ctx.rng; match r.below(7) {
            0 => Un::Pt { x: edge_i64(r) as i32, y: -1 },
            1 => Un::N(edge_u64(r)),
            2 => Un::I({ let v = edge_i64(r); if v > 0 { -v } else if v == 0 { -1 } else { v } }),
            3 => Un::F(f64::from_bits(gen_f64(r)).max(0.5) + 0.25),
            4 => Un::S(gen_string(r)),
            5 => Un::L((0..r.below(4)).map(|_| edge_i64(r)).collect()),
            _ => Un::O(if r.chance(1, 2) { None } else { Some(r.chance(1, 2)) }),
        } };
        // an untagged value is read back as the FIRST variant that accepts it: keep the ones that name themselves
        let un = match un {
            Un::I(i) if i >= 0 => Un::N(i as u64),
            Un::F(f) if f.is_nan() => Un::F(1.5),
            Un::O(None) => Un::O(Some(true)),
            Un::S(s) if ["true", "false", "nil", "undefined"].contains(&s.as_str()) => Un::S("x".into()),
            other => other,
        };
        attr_rt(ctx, "untagged", &un);
        let it = { let r = &mut ctx.rng; match r.below(3) {
            0 => It::A { x: edge_i64(r), u: edge_u64(r) },
            1 => It::B { s: gen_string(r), o: if r.chance(1, 2) { None } else { Some(edge_i64(r) as i32) }, z: () },
            _ => It::C,
        } };
        attr_rt(ctx, "internally_tagged", &it);
        let ad = { let r = &mut ctx.rng; match r.below(4) {
            0 => Ad::A(edge_u64(r)),
            1 => Ad::B(edge_i64(r), gen_string(r)),
            2 => Ad::C,
            _ => Ad::D { w: edge_u64(r) as u32, v: (0..r.below(3)).map(|_| edge_u64(r) as u16).collect() },
        } };
        attr_rt(ctx, "adjacently_tagged", &ad);
        let r = &mut ctx.rng;
        let fl = Fl {
            id: edge_u64(r) as u32,
            rest: FlInner { a: edge_i64(r), b: if r.chance(1, 2) { None } else { Some(gen_string(r)) }, w: edge_u64(r), z: () },
            more: (0..r.below(3)).map(|k| (format!("k{}", k), edge_i64(r))).collect(),
        };
        attr_rt(ctx, "flatten", &fl);
        let r = &mut ctx.rng;
        let m = Misc2 {
            cow: std::borrow::Cow::Owned(gen_string(r)),
            bx: Box::new((edge_i64(r), Box::new(if r.chance(1, 3) { None } else { Some(edge_u64(r)) }))),
            t12: (edge_u64(r) as u8, edge_i64(r) as i8, edge_u64(r) as u16, edge_i64(r) as i16, edge_u64(r) as u32, edge_i64(r) as i32,
                  edge_u64(r), edge_i64(r), r.chance(1, 2), gen_char(r), 1.5, f64::from_bits(gen_f64(r))),
            t0: (),
            t1: (edge_i64(r),),
            arr: [r.next() as u8, 0, 255],
            m1: (0..r.below(3)).map(|_| (edge_u64(r), edge_i64(r) as i8)).collect(),
            m2: (0..r.below(3)).map(|k| (format!("k{}", k), if r.chance(1, 3) { None } else { Some(r.bytes(k as usize)) })).collect(),
            m3: (0..r.below(3)).map(|_| (edge_i64(r), vec![(edge_u64(r), gen_string(r))])).collect(),
            e: (0..r.below(4)).map(|_| *r.pick(&[UnitsOnly::Alpha, UnitsOnly::Beta, UnitsOnly::Gamma])).collect(),
        };
        if !m.t12.11.is_nan() {
            attr_rt(ctx, "std_types", &m);
        }
    }
}
