import EdpVerif.Impl.PidAlloc
import EdpVerif.Generated.MiscC17
/-!
Model of the remote-call bookkeeping of `crates/edp_node/src/node.rs`:
`Node::rpc_call_raw_with_timeout`, the `Send` arm of `Node::route_message`, and the part of `spawn_receiver_task`
that calls it — as a small-step system over the shared table `pending_rpcs`.

Shared state
* `pending`  — `pending_rpcs : DashMap<String, oneshot::Sender<OwnedTerm>>`. The key is the text
               `"{id}.{serial}.{creation}"` of the reply pid; three decimal numbers separated by dots determine the
               numbers, so the model keys the table by the triple (`PidAlloc.Pid`). The node name is NOT part of the key.
               The value is the sending half of the caller's one-shot channel; a sender is identified by the caller that
               created it, so an entry is `(key, caller)`.
* `alloc`    — the node's `PidAllocator` (one `allocate()` is one atomic step: C16 proves every interleaving of its
               internal steps equivalent to the sequential function `PidAlloc.alloc`).
* `procs`    — the pids in `ProcessRegistry.by_pid` (live local processes; their pids come from the same allocator).
* `lock`     — the `tokio::sync::Mutex<Connection>` of each connection (by connection id).
* per caller — program counter, reply pid, the one-shot channel (`val`: value sent and not yet taken, `txDropped`: sender
               dropped without sending, `rxAlive`: the receiving half still exists).
* `recv`     — one receiver task per connection (receiver `r` belongs to connection `r`); each runs `route_message` on
               one inbound message at a time, until its `receive_message_from_read_half` fails and it leaves its loop.
* `conns`    — `connections : DashMap<String, Arc<Mutex<Connection>>>` as the set of connection ids that are in the
               table. Every id is there at the start (an id that no call has looked up yet is a connection not yet
               made); a receiver that stops removes its id for good — a later `Node::connect` to the same name makes
               a new connection object with a new mutex and a new receiver task, which is another id.

Environment (everything the property quantifies over): the peer hands ANY message to ANY receiver at any time
(`rStart`), `connections.get` finds a connection or not (`lookup`), the write succeeds or fails (`send`), timers fire
at any time (`timeout`), the owner of a call future may drop it at any suspension point (`drop`), other parts of the
node allocate pids, spawn processes and let them exit, `Node::start` changes the creation the allocator stamps on new
pids (`start`, at any time, to any value: calls made before `start` carry the placeholder creation 1). The scheduler
picks any enabled step.

The code modelled is the repaired one: entry removed when the request cannot be sent (d080091) and a drop guard that
removes the entry when the call future goes away for whatever reason (notes/C17.md).
-/
namespace Edp.Impl.Rpc
open Edp.Impl.PidAlloc (Pid Sh Res alloc)

/-- what a call returns (`m` = number of the inbound message in `St.inbox`, ghost) -/
inductive Outcome
  | reply (m body : Nat)     -- `Ok(term)`
  | timeout                  -- `Err(RpcTimeout)`
  | cancelled                -- `Err(RpcCancelled)`: the sender was dropped without a value
  | noConn                   -- `Err(NodeNotConnected)`
  | sendErr                  -- the error of `send_to_name`
  | allocFail                -- `expect("PID allocator lock poisoned")` panicked; nothing was registered
  | dropped                  -- the future was dropped by its owner (never returns)
deriving DecidableEq, Repr, Inhabited

/-- program counter of one call, named after the yield points of the source where there is one -/
inductive Pc
  | start                    -- future created, not polled yet
  | allocated                -- `rpc:before_insert`: reply pid allocated, channel created
  | inserted                 -- `rpc:after_insert`: entry in the table, drop guard armed
  | found                    -- `rpc:before_lock`: `connections.get` returned the connection
  | locked                   -- holds the connection mutex, `send_to_name` in progress
  | sent                     -- `rpc:after_send`: request written, mutex still held
  | waiting                  -- mutex released; `timeout(rx)` pending
  | timedOut                 -- `rpc:timed_out`: timer fired, receiving half dropped; next: `pending_rpcs.remove`
  | exiting (o : Outcome)    -- result computed; next: locals dropped (the guard removes the key), return
  | done
deriving DecidableEq, Repr, Inhabited

structure Caller where
  pc : Pc := .start
  key : Pid := ⟨0, 0, 0⟩     -- reply pid (id, serial, creation); meaningful from `allocated` on
  ix : Nat := 0              -- ghost: index of the allocation that produced `key`
  conn : Nat := 0            -- connection found by `connections.get`
  val : Option (Nat × Nat) := none   -- one-shot channel: (message number, body) sent, not yet taken
  txDropped : Bool := false  -- sender dropped without sending
  rxAlive : Bool := true     -- receiving half exists
  out : Option Outcome := none
deriving Repr, Inhabited

/-- an inbound `SEND`: control `{2, _, ToPid}` with a payload -/
structure Msg where
  node : Nat                 -- node name of `to_pid` (a number stands for the atom)
  pid : Pid
  body : Nat
deriving DecidableEq, Repr, Inhabited

/-- a receiver task inside `route_message` -/
inductive RPc
  | idle                                   -- in `receive_message_from_read_half`
  | routing (msg : Msg) (m : Nat)          -- `route:before_pending_remove`: the registry had no such process
  | holding (i : Nat) (m body : Nat)       -- removed the entry, owns caller `i`'s sender; next: `sender.send(body)`
  | stopped                                -- left the loop (`break`), did `connections.remove`; the task is over
deriving DecidableEq, Repr, Inhabited

structure St where
  alloc : Sh
  nalloc : Nat := 0                        -- ghost: allocations so far
  localNode : Nat := 0
  callers : Nat → Caller := fun _ => {}
  pending : List (Pid × Nat) := []
  recv : Nat → RPc := fun _ => .idle
  lock : Nat → Option Nat := fun _ => none
  conns : Nat → Bool := fun _ => true      -- connection ids in `connections`
  procs : List Pid := []
  inbox : List Msg := []                   -- ghost: every message given to `route_message`, in order
  procLog : List (Pid × Nat) := []         -- ghost: (process, message number) delivered to local processes

def St.init (a : Sh) (localNode : Nat := 0) : St := { alloc := a, localNode := localNode }

/-- the characters of `format!("{}.{}.{}", pid.id, pid.serial, pid.creation)` (decimal, no padding) -/
def keyChars (p : Pid) : List Char :=
  Nat.toDigits 10 p.id ++ '.' :: (Nat.toDigits 10 p.serial ++ '.' :: Nat.toDigits 10 p.creation)

/-- the `String` key of the real table; `Props.C17_key_text_injective`: different triples give different texts, which is
why the model may key the table by the triple -/
def keyText (p : Pid) : String := String.ofList (keyChars p)

def upd {α : Type} (f : Nat → α) (i : Nat) (v : α) : Nat → α := fun j => if j = i then v else f j

/-- `DashMap::get`/`remove` look the key up -/
def lookupKey (p : List (Pid × Nat)) (k : Pid) : Option Nat := (p.find? (fun e => e.1 = k)).map (·.2)

def eraseKey (p : List (Pid × Nat)) (k : Pid) : List (Pid × Nat) := p.filter (fun e => e.1 ≠ k)

def St.setCaller (s : St) (i : Nat) (c : Caller) : St := { s with callers := upd s.callers i c }

/-- `pending_rpcs.remove(key)` with the result dropped (also what `insert` does to a previous entry of the same key):
the entry goes away and its sender is dropped, which closes that caller's channel -/
def St.removeKey (s : St) (k : Pid) : St :=
  { s with pending := eraseKey s.pending k,
           callers := match lookupKey s.pending k with
             | some j => upd s.callers j { s.callers j with txDropped := true }
             | none => s.callers }

/-- the drop guard exists (created right after `insert`) -/
def Pc.armed : Pc → Bool
  | .start | .allocated | .done => false
  | _ => true

def Pc.holdsLock : Pc → Bool
  | .locked | .sent => true
  | _ => false

/-- places where the future is suspended at an `.await` that can return `Pending`. (A future that was never polled
has done nothing yet; dropping it is not a step.) -/
def Pc.suspended : Pc → Bool
  | .start | .exiting _ | .done => false
  | _ => true

inductive Step
  | begin (i : Nat)                    -- first poll: `pid_allocator.allocate()`, `oneshot::channel()`
  | insert (i : Nat)                   -- `pending_rpcs.insert(pid_str, tx)`; guard armed
  | lookup (i : Nat) (c : Option Nat)  -- `connections.get(remote_node)`; `none`: remove, `Err(NodeNotConnected)`
  | lock (i : Nat)                     -- `conn.lock().await` returns
  | send (i : Nat) (ok : Bool)         -- `send_to_name` finished; failure: remove, guard of the mutex dropped, `Err`
  | unlock (i : Nat)                   -- end of the `if let` block
  | recvReply (i : Nat)                -- `rx` ready with a value
  | recvClosed (i : Nat)               -- `rx` ready with `RecvError`
  | timeout (i : Nat)                  -- the timer won; the `Timeout` future (with `rx`) is dropped
  | timeoutRemove (i : Nat)            -- `pending_rpcs.remove(&pid_str)` on the timeout path
  | finish (i : Nat)                   -- return: the guard removes the key
  | drop (i : Nat)                     -- the owner drops the future at a suspension point
  | rStart (r : Nat) (msg : Msg)       -- receiver `r` got `Send{to_pid}` + payload; `registry.get(&pid)`
  | rRemove (r : Nat)                  -- `pending_rpcs.remove(&pid_str)`
  | rSend (r : Nat)                    -- `sender.send(body)`
  | rStop (r : Nat)                    -- `receive_message_from_read_half` failed for good: `break`, `connections.remove`
  | spawnProc                          -- `Node::spawn`: allocate a pid, register the process
  | procExit (p : Pid)                 -- the process leaves the registry
  | otherAlloc                         -- any other `allocate()` (`send_remote` takes one per message)
  | start (c : Nat)                    -- `Node::start`: `creation.store(c)`, `pid_allocator.set_creation(c)` (EPMD's answer)
deriving Repr

/-- one atomic step; `none` = not enabled in this state -/
def step (s : St) : Step → Option St
  | .begin i =>
    let c := s.callers i
    if c.pc = .start then
      match alloc s.alloc with
      | (.ok p, a') =>
        some { s with alloc := a', nalloc := s.nalloc + 1,
                      callers := upd s.callers i { c with pc := .allocated, key := p, ix := s.nalloc } }
      | (_, a') =>
        some { s with alloc := a', nalloc := s.nalloc + 1,
                      callers := upd s.callers i { c with pc := .done, out := some .allocFail, ix := s.nalloc } }
    else none
  | .insert i =>
    let c := s.callers i
    if c.pc = .allocated then
      let s1 := s.removeKey c.key
      some { s1 with pending := (c.key, i) :: s1.pending,
                     callers := upd s1.callers i { s1.callers i with pc := .inserted } }
    else none
  | .lookup i (some cid) =>
    let c := s.callers i
    if c.pc = .inserted ∧ s.conns cid = true then some (s.setCaller i { c with pc := .found, conn := cid }) else none
  | .lookup i none =>
    let c := s.callers i
    if c.pc = .inserted then
      let s1 := s.removeKey c.key
      some (s1.setCaller i { s1.callers i with pc := .exiting .noConn })
    else none
  | .lock i =>
    let c := s.callers i
    if c.pc = .found ∧ s.lock c.conn = none then
      some { s with lock := upd s.lock c.conn (some i), callers := upd s.callers i { c with pc := .locked } }
    else none
  | .send i true =>
    let c := s.callers i
    if c.pc = .locked then some (s.setCaller i { c with pc := .sent }) else none
  | .send i false =>
    let c := s.callers i
    if c.pc = .locked then
      let s1 := s.removeKey c.key
      some { s1 with lock := upd s1.lock c.conn none,
                     callers := upd s1.callers i { s1.callers i with pc := .exiting .sendErr } }
    else none
  | .unlock i =>
    let c := s.callers i
    if c.pc = .sent then
      some { s with lock := upd s.lock c.conn none, callers := upd s.callers i { c with pc := .waiting } }
    else none
  | .recvReply i =>
    let c := s.callers i
    if c.pc = .waiting then
      match c.val with
      | some (m, b) => some (s.setCaller i { c with pc := .exiting (.reply m b), val := none, rxAlive := false })
      | none => none
    else none
  | .recvClosed i =>
    let c := s.callers i
    if c.pc = .waiting ∧ c.val = none ∧ c.txDropped = true then
      some (s.setCaller i { c with pc := .exiting .cancelled, rxAlive := false })
    else none
  | .timeout i =>
    let c := s.callers i
    if c.pc = .waiting then some (s.setCaller i { c with pc := .timedOut, val := none, rxAlive := false }) else none
  | .timeoutRemove i =>
    let c := s.callers i
    if c.pc = .timedOut then
      let s1 := s.removeKey c.key
      some (s1.setCaller i { s1.callers i with pc := .exiting .timeout })
    else none
  | .finish i =>
    let c := s.callers i
    match c.pc with
    | .exiting o =>
      let s1 := s.removeKey c.key
      some (s1.setCaller i { s1.callers i with pc := .done, out := some o })
    | _ => none
  | .drop i =>
    let c := s.callers i
    if c.pc.suspended then
      let s0 : St := if c.pc.holdsLock then { s with lock := upd s.lock c.conn none } else s
      let s1 := if c.pc.armed then s0.removeKey c.key else s0
      some (s1.setCaller i { s1.callers i with pc := .done, out := some .dropped, val := none, rxAlive := false })
    else none
  | .rStart r msg =>
    if s.recv r = .idle then
      let m := s.inbox.length
      if msg.node = s.localNode ∧ msg.pid ∈ s.procs then
        some { s with inbox := s.inbox ++ [msg], procLog := s.procLog ++ [(msg.pid, m)] }
      else
        some { s with inbox := s.inbox ++ [msg], recv := upd s.recv r (.routing msg m) }
    else none
  | .rRemove r =>
    match s.recv r with
    | .routing msg m =>
      match lookupKey s.pending msg.pid with
      | some i => some { s with pending := eraseKey s.pending msg.pid, recv := upd s.recv r (.holding i m msg.body) }
      | none => some { s with recv := upd s.recv r .idle }
    | _ => none
  | .rSend r =>
    match s.recv r with
    | .holding i m b =>
      let c := s.callers i
      some { s with recv := upd s.recv r .idle,
                    callers := if c.rxAlive then upd s.callers i { c with val := some (m, b) } else s.callers }
    | _ => none
  | .rStop r =>
    if s.recv r = .idle then some { s with recv := upd s.recv r .stopped, conns := upd s.conns r false } else none
  | .spawnProc =>
    match alloc s.alloc with
    | (.ok p, a') => some { s with alloc := a', nalloc := s.nalloc + 1, procs := p :: s.procs }
    | (_, a') => some { s with alloc := a', nalloc := s.nalloc + 1 }
  | .procExit p => some { s with procs := s.procs.filter (fun q => q ≠ p) }
  | .otherAlloc => some { s with alloc := (alloc s.alloc).2, nalloc := s.nalloc + 1 }
  -- `connect` and `rpc_call*` do not look at `started`, so calls may exist before this step; the step is enabled at any
  -- time with any value (more than the code allows: `started.swap(true)` lets only the first `start` through)
  | .start c => some { s with alloc := s.alloc.setCreation c }

/-- run a schedule; a step that is not enabled is skipped -/
def run (s : St) (σ : List Step) : St := σ.foldl (fun s e => (step s e).getD s) s

/-- run a schedule, failing at the first step that is not enabled (trace validation) -/
def runStrict (s : St) : List Step → Option St
  | [] => some s
  | e :: σ => match step s e with
    | some s' => runStrict s' σ
    | none => none

/-- every call that was started has returned (or was dropped) -/
def St.quiescent (s : St) : Prop := ∀ i, (s.callers i).pc = .start ∨ (s.callers i).pc = .done

/-! ### the wrappers `rpc_call_with_timeout` / `rpc_call` (and the `erlang_*` calls built on them)

`rpc_call_with_timeout` awaits `rpc_call_raw_with_timeout` (its only await: dropping the wrapper drops the raw call at
one of the raw call's suspension points), passes an error on (`?`) and applies `OwnedTerm::into_rex_response` to the
reply. It touches no shared state. `rpc_call` and `rpc_call_raw` only supply `DEFAULT_RPC_TIMEOUT`. -/

/-- what a wrapped call returns -/
inductive WOutcome
  | value (m v : Nat)        -- `Ok(result)`: the second element of the `{rex, Result}` reply number `m`
  | badShape (m : Nat)       -- `Err(TermConversion)`: reply number `m` is not a `{rex, _}` pair
  | err (o : Outcome)        -- the raw call's error, unchanged
deriving DecidableEq, Repr

/-- `response.into_rex_response().map_err(Error::from)` after `?`; `unwrap` stands for `into_rex_response` on bodies -/
def wrapOutcome (unwrap : Nat → Option Nat) : Outcome → WOutcome
  | .reply m b => match unwrap b with
    | some v => .value m v
    | none => .badShape m
  | o => .err o

/-! ### the source as the translator lists it (`Generated/Misc.lean`, `tools/gen_misc.py gen_c17`) -/

/-- where the call future is suspended at each `.await` of `rpc_call_raw_with_timeout`; `none` for a step that is not an await -/
def awaitPc : String → Option Pc
  | "yield:rpc:before_insert" => some .allocated
  | "yield:rpc:after_insert" => some .inserted
  | "yield:rpc:before_lock" => some .found
  | "await:lock" => some .found
  | "await:send_to_name" => some .locked
  | "yield:rpc:after_send" => some .sent
  | "await:timeout" => some .waiting
  | "yield:rpc:timed_out" => some .timedOut
  | _ => none

/-- the translator marks every `.await` with one of the prefixes `await:` / `yield:` (an await it does not know is `await:?`) -/
def isAwait (t : String) : Bool :=
  match t.toList with
  | 'a' :: 'w' :: 'a' :: 'i' :: 't' :: ':' :: _ => true
  | 'y' :: 'i' :: 'e' :: 'l' :: 'd' :: ':' :: _ => true
  | _ => false

/-- the model's reading of the source: each listed step with the model step kind that performs it -/
def sourceSteps : List (String × String) :=
  [("allocate", "begin"), ("expect", "begin"), ("channel", "begin"),
   ("yield:rpc:before_insert", "-"), ("insert", "insert"), ("guard", "insert"),
   ("yield:rpc:after_insert", "-"), ("get", "lookup"),
   ("yield:rpc:before_lock", "-"), ("await:lock", "lock"), ("await:send_to_name", "send"),
   ("remove", "send false"), ("return:err", "send false"),
   ("yield:rpc:after_send", "-"),
   ("remove", "lookup none"), ("return:err", "lookup none"),
   ("await:timeout", "recvReply|recvClosed|timeout"),
   ("yield:rpc:timed_out", "-"), ("remove", "timeoutRemove"),
   ("try:RpcTimeout", "finish"), ("try:RpcCancelled", "finish"), ("return:ok", "finish")]

/-- every use of the node's allocator in node.rs (`Gen.NODE_PID_ALLOCATOR_USES`) with the part of the model that stands for
it; `none` = a use the model does not know (an assignment of a new allocator, a new caller of `allocate`, ...) -/
def allocUseStep : String → Option String
  | "struct::field" => some "St.alloc"
  | "with_hidden:let=new" => some "St.init"
  | "with_hidden:,init" => some "St.init"
  | "start:.set_creation()" => some "start"
  | "spawn:.allocate()" => some "spawnProc"
  | "send_remote:.allocate()" => some "otherAlloc"
  | "rpc_call_raw_with_timeout:.allocate()" => some "begin"
  | _ => none

/-- every use of `self.creation` (the node's own copy of the creation; calls never read it) -/
def creationUseStep : String → Option String
  | "start:.store()" => some "start"
  | "make_reference:.load()" => some "-"
  | "creation:.load()" => some "-"
  | _ => none

/-- `format!` with `{}` placeholders filled by decimal numbers -/
def renderFmt : List Char → List Nat → List Char
  | '{' :: '}' :: r, n :: ns => Nat.toDigits 10 n ++ renderFmt r ns
  | c :: r, ns => c :: renderFmt r ns
  | [], _ => []

def Pid.field (p : Pid) : String → Nat
  | "id" => p.id
  | "serial" => p.serial
  | "creation" => p.creation
  | _ => 0

/-- the key text as the source builds it: the format string and field list the translator read -/
def keyCharsFrom (f : String × List String) (p : Pid) : List Char := renderFmt f.1.toList (f.2.map (Pid.field p))

end Edp.Impl.Rpc
