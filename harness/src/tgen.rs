//! Structured, boundary-biased generator over all 17 `OwnedTerm` variants.
use crate::rng::Rng;
use erltf::types::{
    Atom, BigInt, ExternalFun, ExternalPid, ExternalPort, ExternalReference, InternalFun,
};
use erltf::OwnedTerm;
use std::collections::BTreeMap;

#[derive(Clone)]
pub struct Cfg {
    pub max_depth: u32,
    /// well-formed only: bits in 1..=8, non-empty bit-strings, finite floats, minimal bignum digits,
    /// fun indices < 2^31, num_free = free_vars.len()
    pub wf: bool,
    pub maps: bool,
    pub local_ids: bool,
    pub huge: bool,
    pub funs: bool,
}

impl Default for Cfg {
    fn default() -> Self {
        Cfg { max_depth: 4, wf: true, maps: true, local_ids: true, huge: true, funs: true }
    }
}

pub const INT_BOUNDS: &[i64] = &[
    0, 1, 2, 97, 127, 128, 255, 256, 257, 65535, 65536, -1, -2, -128, -129, -255, -256,
    2147483647, 2147483648, -2147483648, -2147483649, 4294967295, 4294967296,
    1 << 40, -(1 << 40), (1 << 53) - 1, 1 << 53, (1 << 53) + 1, -(1 << 53), -(1 << 53) - 1,
    i64::MAX, i64::MAX - 1, i64::MIN, i64::MIN + 1, 72057594037927935, 72057594037927936,
];

pub const FLOAT_BITS: &[u64] = &[
    0, 0x8000000000000000, 0x3ff0000000000000, 0xbff0000000000000, 1, 0x000fffffffffffff,
    0x0010000000000000, 0x7fefffffffffffff, 0xffefffffffffffff, 0x4340000000000000,
    0x4340000000000001, 0x433fffffffffffff, 0x43e0000000000000, 0xc3e0000000000000,
    0x43f0000000000000, 0x3fe0000000000000, 0x4004000000000000, 0x41dfffffffc00000,
    0x41e0000000000000, 0x3ff8000000000000, 0x4059000000000000,
];

pub fn gen_atom_name(r: &mut Rng, huge: bool) -> String {
    let kind = r.below(20);
    let len = match kind {
        0 => 0,
        1 => 255,
        2 => 256,
        3 if huge && r.chance(1, 4) => *r.pick(&[300usize, 1000, 65535]),
        4..=6 => r.range(1, 12) as usize,
        _ => r.range(1, 5) as usize,
    };
    const COMMON: &[&str] = &["ok", "error", "true", "false", "nil", "undefined", "a", "b", "c", "x@h", "Elixir.Foo"];
    if kind >= 14 {
        return r.pick(COMMON).to_string();
    }
    let mut s = String::new();
    let multi = r.chance(1, 4);
    while s.len() < len {
        let rem = len - s.len();
        let c = if multi && rem >= 4 && r.chance(1, 3) {
            *r.pick(&['é', 'ß', 'λ', '日', '😀', 'ÿ', '\u{80}', '\u{7ff}', '\u{800}', '\u{ffff}', '\u{10000}'])
        } else {
            (b'a' + r.below(26) as u8) as char
        };
        if s.len() + c.len_utf8() <= len {
            s.push(c);
        } else {
            s.push('z');
        }
    }
    s
}

pub fn gen_node(r: &mut Rng) -> Atom {
    if r.chance(1, 8) {
        Atom::new(gen_atom_name(r, false))
    } else {
        Atom::new(*r.pick(&["a@h", "node@host", "rabbit@localhost", "x", "nonode@nohost"]))
    }
}

pub fn gen_u32(r: &mut Rng) -> u32 {
    match r.below(8) {
        0 => 0,
        1 => u32::MAX,
        2 => 1 << 31,
        3 => (1 << 28) - 1,
        4 => 255,
        5 => 256,
        _ => r.next() as u32,
    }
}

pub fn gen_u64(r: &mut Rng) -> u64 {
    match r.below(8) {
        0 => 0,
        1 => u64::MAX,
        2 => 1 << 63,
        3 => (1 << 32) - 1,
        4 => 1 << 32,
        5 => (1 << 28) - 1,
        _ => r.next() >> r.below(64),
    }
}

pub fn gen_int(r: &mut Rng) -> i64 {
    match r.below(4) {
        0 => *r.pick(INT_BOUNDS),
        1 => r.below(300) as i64 - 20,
        2 => (r.next() >> r.below(64)) as i64 * if r.chance(1, 2) { -1 } else { 1 },
        _ => r.next() as i64,
    }
}

pub fn gen_big(r: &mut Rng, wf: bool, huge: bool) -> BigInt {
    let len = match r.below(12) {
        0 => 1,
        1 => 8,
        2 => 9,
        3 if huge && r.chance(1, 3) => 255,
        4 if huge && r.chance(1, 3) => 256,
        5 if huge && r.chance(1, 3) => 300,
        6 if !wf => 0,
        _ => r.range(1, 20) as usize,
    };
    let mut d = r.bytes(len);
    if r.chance(1, 6) {
        for x in d.iter_mut() {
            *x = *r.pick(&[0u8, 0, 1, 255]);
        }
    }
    if wf {
        if let Some(l) = d.last_mut() {
            if *l == 0 {
                *l = 1 + r.below(255) as u8;
            }
        }
    }
    BigInt::new(r.chance(1, 2), d)
}

pub fn gen_float_bits(r: &mut Rng, wf: bool) -> u64 {
    match r.below(4) {
        0 => *r.pick(FLOAT_BITS),
        1 => {
            // small integers and halves as floats
            let v = (r.below(2000) as f64 - 1000.0) / 2.0;
            v.to_bits()
        }
        2 => {
            let i = gen_int(r);
            (i as f64).to_bits()
        }
        _ => {
            let b = r.next();
            let f = f64::from_bits(b);
            if wf && !f.is_finite() { 0x3ff0000000000000 } else { b }
        }
    }
}

pub fn gen_pid(r: &mut Rng, local: bool) -> ExternalPid {
    let p = ExternalPid::new(gen_node(r), gen_u32(r), gen_u32(r), gen_u32(r));
    if local && r.chance(1, 3) {
        let enc = erltf::encode(&OwnedTerm::Pid(p.clone())).unwrap();
        let mut b = r.bytes(8);
        b.extend_from_slice(&enc[1..]);
        ExternalPid::with_local_ext_bytes(p.node, p.id, p.serial, p.creation, b)
    } else {
        p
    }
}

pub fn gen_port(r: &mut Rng, local: bool) -> ExternalPort {
    let p = ExternalPort::new(gen_node(r), gen_u64(r), gen_u32(r));
    if local && r.chance(1, 3) {
        let enc = erltf::encode(&OwnedTerm::Port(p.clone())).unwrap();
        let mut b = r.bytes(8);
        b.extend_from_slice(&enc[1..]);
        ExternalPort::with_local_ext_bytes(p.node, p.id, p.creation, b)
    } else {
        p
    }
}

pub fn gen_ref(r: &mut Rng, local: bool, huge: bool) -> ExternalReference {
    let n = match r.below(10) {
        0 => 0,
        1 if huge && r.chance(1, 40) => 65535,
        2 => 5,
        _ => r.range(1, 5) as usize,
    };
    let ids: Vec<u32> = (0..n).map(|_| gen_u32(r)).collect();
    let p = ExternalReference::new(gen_node(r), gen_u32(r), ids);
    if local && r.chance(1, 3) {
        let enc = erltf::encode(&OwnedTerm::Reference(p.clone())).unwrap();
        let mut b = r.bytes(8);
        b.extend_from_slice(&enc[1..]);
        ExternalReference::with_local_ext_bytes(p.node, p.creation, p.ids, b)
    } else {
        p
    }
}

pub fn gen_leaf(r: &mut Rng, c: &Cfg) -> OwnedTerm {
    match r.below(15) {
        0 | 1 => OwnedTerm::Integer(gen_int(r)),
        2 => OwnedTerm::BigInt(gen_big(r, c.wf, c.huge)),
        3 => OwnedTerm::Float(f64::from_bits(gen_float_bits(r, c.wf))),
        4 | 5 => OwnedTerm::Atom(Atom::new(gen_atom_name(r, c.huge))),
        6 => {
            let n = if c.huge && r.chance(1, 200) { 70000 } else { r.below(12) as usize };
            OwnedTerm::Binary(r.bytes(n))
        }
        7 => {
            let bits = if c.wf { r.range(1, 8) as u8 } else { *r.pick(&[0u8, 1, 7, 8, 9, 255]) };
            let n = if c.wf { r.range(1, 6) as usize } else { r.below(4) as usize };
            let mut b = r.bytes(n);
            if c.wf {
                if let Some(l) = b.last_mut() {
                    // unused low bits zero (what Erlang emits)
                    *l &= 0xffu8 << (8 - bits);
                }
            }
            OwnedTerm::BitBinary { bytes: b, bits }
        }
        8 => OwnedTerm::String(gen_atom_name(r, false)),
        9 => OwnedTerm::Pid(gen_pid(r, c.local_ids)),
        10 => OwnedTerm::Port(gen_port(r, c.local_ids)),
        11 => OwnedTerm::Reference(gen_ref(r, c.local_ids, c.huge)),
        12 => OwnedTerm::ExternalFun(ExternalFun::new(
            Atom::new(gen_atom_name(r, false)),
            Atom::new(gen_atom_name(r, false)),
            *r.pick(&[0u8, 1, 2, 255]),
        )),
        13 => OwnedTerm::Nil,
        _ => OwnedTerm::List(vec![]),
    }
}

pub fn gen_term(r: &mut Rng, c: &Cfg, depth: u32) -> OwnedTerm {
    if depth >= c.max_depth || r.chance(2, 5) {
        return gen_leaf(r, c);
    }
    let n = match r.below(12) {
        0 => 0,
        1 if c.huge && depth == 0 => *r.pick(&[255usize, 256]),
        _ => r.range(1, 4) as usize,
    };
    let small = n > 10;
    let elems = |r: &mut Rng, k: usize| -> Vec<OwnedTerm> {
        (0..k)
            .map(|_| if small { OwnedTerm::Integer(r.below(3) as i64) } else { gen_term(r, c, depth + 1) })
            .collect()
    };
    match r.below(if c.funs { 6 } else { 5 }) {
        0 => OwnedTerm::Tuple(elems(r, n)),
        1 => OwnedTerm::List(elems(r, n)),
        2 => {
            let e = elems(r, n.min(5));
            let mut tail = gen_term(r, c, depth + 1);
            if c.wf {
                // a well-formed improper list has a non-list tail and at least one element
                while matches!(tail, OwnedTerm::Nil | OwnedTerm::List(_) | OwnedTerm::ImproperList { .. }) {
                    tail = gen_leaf(r, c);
                }
                if e.is_empty() {
                    return OwnedTerm::ImproperList { elements: vec![gen_leaf(r, c)], tail: Box::new(tail) };
                }
            }
            OwnedTerm::ImproperList { elements: e, tail: Box::new(tail) }
        }
        3 | 4 if c.maps => {
            let mut m = BTreeMap::new();
            for _ in 0..n.min(6) {
                let k = gen_term(r, c, depth + 1);
                let v = gen_term(r, c, depth + 1);
                m.insert(k, v);
            }
            OwnedTerm::Map(m)
        }
        3 | 4 => OwnedTerm::Tuple(elems(r, n)),
        _ => {
            let free = elems(r, n.min(3));
            let nf = if c.wf || r.chance(1, 2) { free.len() as u32 } else { gen_u32(r) };
            let (oi, ou) = if c.wf { (r.below(1 << 31) as u32, r.below(1 << 31) as u32) } else { (gen_u32(r), gen_u32(r)) };
            let mut uniq = [0u8; 16];
            uniq.copy_from_slice(&r.bytes(16));
            OwnedTerm::InternalFun(Box::new(InternalFun::new(
                *r.pick(&[0u8, 1, 3, 255]),
                uniq,
                gen_u32(r),
                nf,
                Atom::new(gen_atom_name(r, false)),
                oi,
                ou,
                gen_pid(r, c.local_ids),
                free,
            )))
        }
    }
}
