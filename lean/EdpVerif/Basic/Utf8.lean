import EdpVerif.Basic.Bytes
/- UTF-8 validity as `core::str::from_utf8` decides it, and decoding to code points. -/
namespace Edp

def isCont (b : UInt8) : Bool := b.toNat / 64 == 2

/-- decode UTF-8 to code points; `none` exactly when Rust's `str::from_utf8` fails
(overlong forms, surrogates and values above 0x10FFFF rejected) -/
def utf8Decode : Bytes → Option (List Nat)
  | [] => some []
  | b0 :: r =>
    let n0 := b0.toNat
    if n0 < 128 then (utf8Decode r).map (n0 :: ·)
    else if 194 ≤ n0 ∧ n0 ≤ 223 then
      match r with
      | b1 :: r' => if isCont b1 then (utf8Decode r').map (((n0 % 32) * 64 + b1.toNat % 64) :: ·) else none
      | _ => none
    else if 224 ≤ n0 ∧ n0 ≤ 239 then
      match r with
      | b1 :: b2 :: r' =>
        let cp := (n0 % 16) * 4096 + (b1.toNat % 64) * 64 + b2.toNat % 64
        if isCont b1 && isCont b2 && decide (2048 ≤ cp) && !(decide (55296 ≤ cp) && decide (cp ≤ 57343))
        then (utf8Decode r').map (cp :: ·) else none
      | _ => none
    else if 240 ≤ n0 ∧ n0 ≤ 244 then
      match r with
      | b1 :: b2 :: b3 :: r' =>
        let cp := (n0 % 8) * 262144 + (b1.toNat % 64) * 4096 + (b2.toNat % 64) * 64 + b3.toNat % 64
        if isCont b1 && isCont b2 && isCont b3 && decide (65536 ≤ cp) && decide (cp ≤ 1114111)
        then (utf8Decode r').map (cp :: ·) else none
      | _ => none
    else none

def validUtf8 (b : Bytes) : Bool := (utf8Decode b).isSome

/-- UTF-8 encoding of one code point (`char::encode_utf8`) -/
def utf8EncodeCp (c : Nat) : Bytes :=
  if c < 128 then [UInt8.ofNat c]
  else if c < 2048 then [UInt8.ofNat (192 + c / 64), UInt8.ofNat (128 + c % 64)]
  else if c < 65536 then [UInt8.ofNat (224 + c / 4096), UInt8.ofNat (128 + c / 64 % 64), UInt8.ofNat (128 + c % 64)]
  else [UInt8.ofNat (240 + c / 262144), UInt8.ofNat (128 + c / 4096 % 64), UInt8.ofNat (128 + c / 64 % 64), UInt8.ofNat (128 + c % 64)]

def utf8Encode (cs : List Nat) : Bytes := cs.flatMap utf8EncodeCp

/-- Latin-1 bytes as a Rust `String` (UTF-8): every byte is one character -/
def latin1ToUtf8 (b : Bytes) : Bytes := utf8Encode (b.map UInt8.toNat)

end Edp
