import EdpVerif.Lemmas.CmpSwap
import EdpVerif.Lemmas.OrderTrans
import EdpVerif.Lemmas.SortedInsert
import EdpVerif.Lemmas.EqCmp
/-
C11 — term comparison is a lawful total preorder consistent with equality and hashing.
`Term.cmp` is the model of `impl Ord for OwnedTerm` / `BorrowedTerm` (one Lean type for both; that they agree
is a correspondence obligation checked on all pairs of the universe by the harness); `Term.eqv` models the derived
`PartialEq`, `Term.hashBytes` the byte stream `Hash::hash` writes (Impl/EqHash.lean, both tied by the harness).

Guard `WFo`: every big integer in the term has minimal digits (no high-order zero digit).  The code compares two
big integers by digit COUNT first (`compare_magnitudes`) but a big integer with a float by VALUE, and the decoder
keeps the digits of SMALL_BIG_EXT/LARGE_BIG_EXT as they arrive, so without the guard the order is not
transitive (`C11_not_transitive_nonminimal_big`).  Nothing else is assumed: NaN, infinities, -0.0, invalid UTF-8,
unsorted maps, arbitrary `bits` fields are all covered.
-/
namespace Edp.Props.C11
open Edp Edp.Term

/-- comparing a with b is the reverse of comparing b with a — for every pair of terms, well-formed or not -/
theorem C11_swap (a b : Term) : Term.cmp a b = (Term.cmp b a).swap := cmp_swap a b

/-- consequently `cmp a b = eq` is symmetric and `lt`/`gt` are converse -/
theorem C11_eq_symm (a b : Term) : Term.cmp a b = .eq ↔ Term.cmp b a = .eq := by
  rw [C11_swap a b]; cases Term.cmp b a <;> simp

theorem C11_lt_iff_gt (a b : Term) : Term.cmp a b = .lt ↔ Term.cmp b a = .gt := by
  rw [C11_swap a b]; cases Term.cmp b a <;> simp

/-- different type ranks decide the comparison (number < atom < reference < fun < port < pid < tuple < map < list < bit-string) -/
theorem C11_rank_decides (a b : Term) (h : (norm a).rank ≠ (norm b).rank) :
    Term.cmp a b = compare (norm a).rank (norm b).rank := by
  exact cmpN_of_rank_ne _ _ h

example : (norm (.int 1)).rank ≠ (norm (.atom [97])).rank := by decide

/-- reflexive, for every term (a NaN float compares Equal to itself) -/
theorem C11_refl (a : Term) : Term.cmp a a = .eq := cmp_refl a

/-- transitive: `a ≤ b` and `b ≤ c` give `a ≤ c`, for all terms whose big integers have minimal digits -/
theorem C11_trans (a b c : Term) (ha : WFo a) (hb : WFo b) (hc : WFo c)
    (h1 : Term.cmp a b ≠ .gt) (h2 : Term.cmp b c ≠ .gt) : Term.cmp a c ≠ .gt :=
  cmp_trans_le ha hb hc h1 h2

/-- the strict and equal variants -/
theorem C11_trans_lt (a b c : Term) (ha : WFo a) (hb : WFo b) (hc : WFo c)
    (h1 : Term.cmp a b = .lt) (h2 : Term.cmp b c = .lt) : Term.cmp a c = .lt := cmp_trans_lt_lt ha hb hc h1 h2
theorem C11_trans_lt_eq (a b c : Term) (ha : WFo a) (hb : WFo b) (hc : WFo c)
    (h1 : Term.cmp a b = .lt) (h2 : Term.cmp b c = .eq) : Term.cmp a c = .lt := cmp_trans_lt_eq ha hb hc h1 h2
theorem C11_trans_eq_lt (a b c : Term) (ha : WFo a) (hb : WFo b) (hc : WFo c)
    (h1 : Term.cmp a b = .eq) (h2 : Term.cmp b c = .lt) : Term.cmp a c = .lt := cmp_trans_eq_lt ha hb hc h1 h2
theorem C11_trans_eq (a b c : Term) (ha : WFo a) (hb : WFo b) (hc : WFo c)
    (h1 : Term.cmp a b = .eq) (h2 : Term.cmp b c = .eq) : Term.cmp a c = .eq := cmp_trans_eq_eq ha hb hc h1 h2

/-- non-vacuity: nested terms with NaN, infinity, a big integer, an improper list and a map satisfy the guard -/
example : WFo (.tuple [.float 0x7FF8000000000000, .float 0x7FF0000000000000, .big true [0, 1],
    .ilist [.int 1] (.list [.int 2]), .map [(.float 0x3FF0000000000000, .nil), (.int 1, .atom [255])]]) = true := by
  simp [WFo, WFoL, WFoKV, minDigits]
example : Term.cmp (.int 1) (.big false [0, 1]) ≠ .gt ∧ Term.cmp (.big false [0, 1]) (.atom []) ≠ .gt := by
  constructor <;> simp [Term.cmp, norm, cmpN, rank, cmpIntBig, natDigits_one] <;> decide

/-- terms that compare Equal compare alike with every third term (the order is a congruence for its equivalence) -/
theorem C11_eq_congr (a b c : Term) (ha : WFo a) (hb : WFo b) (hc : WFo c) (h : Term.cmp a b = .eq) :
    Term.cmp a c = Term.cmp b c := by
  cases h2 : Term.cmp b c with
  | lt => exact cmp_trans_eq_lt ha hb hc h h2
  | eq => exact cmp_trans_eq_eq ha hb hc h h2
  | gt =>
    have h3 : Term.cmp c b = .lt := (C11_lt_iff_gt c b).mpr h2
    have h4 : Term.cmp b a = .eq := (C11_eq_symm a b).mp h
    exact (C11_lt_iff_gt c a).mp (cmp_trans_lt_eq hc hb ha h3 h4)

example : Term.cmp (.int 1) (.float 0x3FF0000000000000) = .eq := by
  simp [Term.cmp, norm, cmpN, cmpIntFloat, natDigits_one]; decide

/-- a lawful total preorder: reflexive, total and antisymmetric up to `Equal` (swap), transitive -/
theorem C11_total_preorder :
    (∀ a : Term, Term.cmp a a = .eq) ∧
    (∀ a b : Term, Term.cmp a b = (Term.cmp b a).swap) ∧
    (∀ a b c : Term, WFo a → WFo b → WFo c → Term.cmp a b ≠ .gt → Term.cmp b c ≠ .gt → Term.cmp a c ≠ .gt) ∧
    (∀ a b c : Term, WFo a → WFo b → WFo c → Term.cmp a b = .eq → Term.cmp a c = Term.cmp b c) :=
  ⟨C11_refl, C11_swap, fun a b c ha hb hc => C11_trans a b c ha hb hc, fun a b c ha hb hc => C11_eq_congr a b c ha hb hc⟩

/-- the guard is needed: with a high-order zero digit (accepted by the decoder: `131,110,2,0,1,0`) the value 1 compares
Equal to the float 1.0, which compares Equal to the minimal big integer 1, yet the two big integers are ordered by their
digit counts — the code's order is not transitive on such terms -/
theorem C11_not_transitive_nonminimal_big :
    Term.cmp (.big false [1, 0]) (.float 0x3FF0000000000000) = .eq ∧
    Term.cmp (.float 0x3FF0000000000000) (.big false [1]) = .eq ∧
    Term.cmp (.big false [1, 0]) (.big false [1]) = .gt := by
  refine ⟨?_, ?_, ?_⟩
  · simp [Term.cmp, norm, cmpN]; decide
  · simp [Term.cmp, norm, cmpN]; decide
  · simp [Term.cmp, norm, cmpN, cmpSignedMag, signum, allZero, cmpMag, thenO]; decide

/-- `a == b` (derived `PartialEq`) implies `cmp a b = Equal`, for all terms -/
theorem C11_eq_cmp (a b : Term) (h : Term.eqv a b) : Term.cmp a b = .eq := cmp_of_eqv a b h

example : Term.eqv (.tuple [.float 0, .pid ⟨[97], 1, 2, 3, some [9]⟩]) (.tuple [.float 0x8000000000000000, .pid ⟨[97], 1, 2, 3, none⟩]) = true := by
  simp [Term.eqv, Term.eqvL, floatEq, pidEq, f64, F64.isNaN, F64.isZero]

/-- the converse does not hold (and the property does not ask for it): `1` and `1.0` compare Equal but are not `==`;
neither are a NaN and itself -/
theorem C11_cmp_eq_not_eqv :
    Term.cmp (.int 1) (.float 0x3FF0000000000000) = .eq ∧ Term.eqv (.int 1) (.float 0x3FF0000000000000) = false ∧
    Term.cmp (.float 0x7FF8000000000000) (.float 0x7FF8000000000000) = .eq ∧
    Term.eqv (.float 0x7FF8000000000000) (.float 0x7FF8000000000000) = false := by
  refine ⟨?_, ?_, cmp_refl _, ?_⟩
  · simp [Term.cmp, norm, cmpN, cmpIntFloat, natDigits_one]; decide
  · simp [Term.eqv]
  · simp [Term.eqv, floatEq, f64, F64.isNaN]

/-- `a == b` implies equal hashes: the two terms feed the hasher the same byte stream -/
theorem C11_eq_hash (a b : Term) (h : Term.eqv a b) : Term.hashBytes a = Term.hashBytes b := hashBytes_of_eqv a b h

/-- ordered insertion (the model of `BTreeMap::insert` under this order) into strictly sorted keys: the keys stay strictly
sorted (so no two stored keys compare Equal: no duplicates), no stored key is lost, the inserted key is found with the
new value, and nothing else appears -/
theorem C11_sorted_insert_sound (m : List (Term × Term)) (k v : Term) (hk : WFo k) (hm : ∀ p ∈ m, WFo p.1)
    (hs : keysSorted m) :
    keysSorted (mapInsert m k v) ∧
    (∀ p ∈ m, ∃ q ∈ mapInsert m k v, q.1 = p.1) ∧
    (∃ q ∈ mapInsert m k v, Term.cmp k q.1 = .eq ∧ q.2 = v) ∧
    (∀ q ∈ mapInsert m k v, q ∈ m ∨ (Term.cmp k q.1 = .eq ∧ q.2 = v)) :=
  ⟨mapInsert_sorted m k v hk hm hs, mapInsert_keeps m k v, mapInsert_finds m k v, mapInsert_mem m k v⟩

example : keysSorted [(.int 1, .nil), (.atom [97], .nil)] := by
  simp [keysSorted, Term.cmp, norm, cmpN, rank]; decide

/-- strictly sorted keys hold no duplicates: two different positions never compare Equal -/
theorem C11_sorted_no_duplicates (m : List (Term × Term)) (hs : keysSorted m) :
    m.Pairwise (fun p q => Term.cmp p.1 q.1 ≠ .eq) :=
  List.Pairwise.imp (fun h => by rw [h]; simp) hs

/-- a collection built by inserting any sequence of entries is strictly sorted and contains a key Equal to every
inserted key -/
theorem C11_sorted_build (l : List (Term × Term)) (hl : ∀ p ∈ l, WFo p.1) :
    keysSorted (l.foldl (fun m kv => mapInsert m kv.1 kv.2) []) ∧
    ∀ p ∈ l, ∃ q ∈ l.foldl (fun m kv => mapInsert m kv.1 kv.2) [], Term.cmp p.1 q.1 = .eq := by
  suffices H : ∀ (l acc : List (Term × Term)), (∀ p ∈ l, WFo p.1) → (∀ p ∈ acc, WFo p.1) → keysSorted acc →
      keysSorted (l.foldl (fun m kv => mapInsert m kv.1 kv.2) acc) ∧
      (∀ p ∈ acc, ∃ q ∈ l.foldl (fun m kv => mapInsert m kv.1 kv.2) acc, q.1 = p.1) ∧
      ∀ p ∈ l, ∃ q ∈ l.foldl (fun m kv => mapInsert m kv.1 kv.2) acc, Term.cmp p.1 q.1 = .eq by
    obtain ⟨h1, _, h3⟩ := H l [] hl (by simp) (by simp [keysSorted])
    exact ⟨h1, h3⟩
  intro l
  induction l with
  | nil => intro acc _ _ hs; exact ⟨hs, fun p hp => ⟨p, hp, rfl⟩, by simp⟩
  | cons e r ih =>
    intro acc hl hacc hs
    have he : WFo e.1 := hl e (by simp)
    have hr : ∀ p ∈ r, WFo p.1 := fun p hp => hl p (List.mem_cons_of_mem _ hp)
    obtain ⟨s1, s2, s3⟩ := ih (mapInsert acc e.1 e.2) hr (mapInsert_wf acc e.1 e.2 he hacc)
      (mapInsert_sorted acc e.1 e.2 he hacc hs)
    simp only [List.foldl_cons]
    refine ⟨s1, ?_, ?_⟩
    · intro p hp
      obtain ⟨q, hq, e1⟩ := mapInsert_keeps acc e.1 e.2 p hp
      obtain ⟨q', hq', e2⟩ := s2 q hq
      exact ⟨q', hq', e2.trans e1⟩
    · intro p hp
      rcases List.mem_cons.mp hp with rfl | hp
      · obtain ⟨q, hq, e1, _⟩ := mapInsert_finds acc p.1 p.2
        obtain ⟨q', hq', e2⟩ := s2 q hq
        exact ⟨q', hq', by rw [e2]; exact e1⟩
      · exact s3 p hp

end Edp.Props.C11
