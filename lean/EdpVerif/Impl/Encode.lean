import EdpVerif.Impl.Term
/-
Model of crates/erltf/src/encoder.rs (`encode`, `encode_term_impl` and its helpers),
function by function.  `cache` is the atom-index map of `encode_with_dist_header_multi`
(an ordered list of atom names; the index is the position); `[]` is `None`.
-/
namespace Edp

inductive EncErr where
  | atomTooLarge | binaryTooLarge | listTooLarge | mapTooLarge | tupleTooLarge | refTooLarge | tooManyAtoms
  deriving Repr, BEq, DecidableEq

def u16max : Nat := 65535
def u32max : Nat := 4294967295

/-- little-endian digits of `n`, exactly `k` of them -/
def leN : Nat → Nat → Bytes
  | 0, _ => []
  | k+1, n => UInt8.ofNat (n % 256) :: leN k (n / 256)

/-- position of the last non-zero digit + 1, or 1 (`rposition(..).map_or(1, ..)`) -/
def sigLen (d : Bytes) : Nat :=
  match d.reverse.dropWhile (· == 0) with
  | [] => 1
  | r => r.length

def indexOf? (a : Bytes) : List Bytes → Option Nat
  | [] => none
  | x :: xs => if x == a then some 0 else (indexOf? a xs).map (· + 1)

/-- `encode_atom_impl` -/
def encAtom (cache : List Bytes) (a : Bytes) : Except EncErr Bytes :=
  match indexOf? a cache with
  | some i => .ok [82, UInt8.ofNat i]
  | none =>
    if a.length > u16max then .error .atomTooLarge
    else if a.length > 255 then .ok (118 :: be16 a.length ++ a)
    else .ok (119 :: be8 a.length ++ a)

/-- `encode_integer` (value taken as an `i64`) -/
def encInt (v : Int) : Bytes :=
  if 0 ≤ v ∧ v ≤ 255 then [97, UInt8.ofNat v.toNat]
  else if -2147483648 ≤ v ∧ v ≤ 2147483647 then 98 :: be32 (v % 4294967296).toNat
  else
    let le := leN 8 v.natAbs
    let n := sigLen le
    110 :: UInt8.ofNat n :: (if v ≥ 0 then 0 else 1) :: le.take n

/-- `encode_bigint` -/
def encBig (neg : Bool) (d : Bytes) : Bytes :=
  (if d.length ≤ 255 then 110 :: be8 d.length else 111 :: be32 d.length) ++ (if neg then 1 else 0) :: d

def encBinary (b : Bytes) : Except EncErr Bytes :=
  if b.length > u32max then .error .binaryTooLarge else .ok (109 :: be32 b.length ++ b)

def encBits (b : Bytes) (n : Nat) : Except EncErr Bytes :=
  if b.length > u32max then .error .binaryTooLarge else .ok (77 :: be32 b.length ++ UInt8.ofNat n :: b)

/-- `encode_pid_impl` -/
def encPid (cache : List Bytes) (p : PidF) : Except EncErr Bytes :=
  match p.loc with
  | some l => .ok (121 :: l)
  | none =>
    match encAtom cache p.node with
    | .ok a => .ok (88 :: a ++ be32 p.id ++ be32 p.serial ++ be32 p.creation)
    | .error e => .error e

def encPort (cache : List Bytes) (node : Bytes) (id creation : Nat) (loc : Option Bytes) : Except EncErr Bytes :=
  match loc with
  | some l => .ok (121 :: l)
  | none =>
    match encAtom cache node with
    | .ok a => .ok (120 :: a ++ be64 id ++ be32 creation)
    | .error e => .error e

def encRef (cache : List Bytes) (node : Bytes) (creation : Nat) (ids : List Nat) (loc : Option Bytes) : Except EncErr Bytes :=
  match loc with
  | some l => .ok (121 :: l)
  | none =>
    if ids.length > u16max then .error .refTooLarge else
    match encAtom cache node with
    | .ok a => .ok (90 :: be16 ids.length ++ a ++ be32 creation ++ (ids.map be32).flatten)
    | .error e => .error e

mutual
/-- `encode_term_impl` -/
def enc (cache : List Bytes) : Term → Except EncErr Bytes
  | .atom a => encAtom cache a
  | .int i => .ok (encInt i)
  | .float b => .ok (70 :: be64 b)
  | .bin b => encBinary b
  | .bits b n => encBits b n
  | .str s => encBinary s
  | .list l =>
    if l.isEmpty then .ok [106]
    else if l.length > u32max then .error .listTooLarge
    else match encL cache l with
      | .ok bs => .ok (108 :: be32 l.length ++ bs ++ [106])
      | .error e => .error e
  | .ilist l t =>
    if l.length > u32max then .error .listTooLarge
    else match encL cache l with
      | .ok bs => match enc cache t with
        | .ok tb => .ok (108 :: be32 l.length ++ bs ++ tb)
        | .error e => .error e
      | .error e => .error e
  | .map kvs =>
    if kvs.length > u32max then .error .mapTooLarge
    else match encKV cache kvs with
      | .ok bs => .ok (116 :: be32 kvs.length ++ bs)
      | .error e => .error e
  | .tuple l =>
    if l.length ≤ 255 then
      match encL cache l with
      | .ok bs => .ok (104 :: be8 l.length ++ bs)
      | .error e => .error e
    else if l.length > u32max then .error .tupleTooLarge
    else match encL cache l with
      | .ok bs => .ok (105 :: be32 l.length ++ bs)
      | .error e => .error e
  | .pid p => encPid cache p
  | .port n i c l => encPort cache n i c l
  | .ref n c ids l => encRef cache n c ids l
  | .big neg d => .ok (encBig neg d)
  | .nil => .ok [106]
  | .xfun m f a =>
    match encAtom cache m with
    | .ok mb => match encAtom cache f with
      | .ok fb => .ok (113 :: mb ++ fb ++ encInt a)
      | .error e => .error e
    | .error e => .error e
  | .ifun a u i nf m oi ou p fr =>
    match encAtom cache m with
    | .ok mb => match encPid cache p with
      | .ok pb => match encL cache fr with
        | .ok fb =>
          let body := UInt8.ofNat a :: u ++ be32 i ++ be32 nf ++ mb ++ encInt oi ++ encInt ou ++ pb ++ fb
          .ok (112 :: be32 (body.length + 4) ++ body)
        | .error e => .error e
      | .error e => .error e
    | .error e => .error e
def encL (cache : List Bytes) : List Term → Except EncErr Bytes
  | [] => .ok []
  | t :: ts => match enc cache t with
    | .ok a => match encL cache ts with
      | .ok b => .ok (a ++ b)
      | .error e => .error e
    | .error e => .error e
def encKV (cache : List Bytes) : List (Term × Term) → Except EncErr Bytes
  | [] => .ok []
  | (k, v) :: r => match enc cache k with
    | .ok a => match enc cache v with
      | .ok b => match encKV cache r with
        | .ok c => .ok (a ++ b ++ c)
        | .error e => .error e
      | .error e => .error e
    | .error e => .error e
end

/-- `erltf::encode` -/
def encode (t : Term) : Except EncErr Bytes :=
  match enc [] t with
  | .ok b => .ok (131 :: b)
  | .error e => .error e

end Edp
