import EdpVerif.Drv.Etf
import EdpVerif.Impl.Frag
import EdpVerif.Spec.Frag
namespace Edp.Drv
open Edp Edp.Frag

/-! Driver requests of property C09 (fragment reassembly).

`c09run <timeout> <op>…` — the model of `FragmentAssembler::with_timeout(timeout)` driven by the op words
  `s:<now>:<seq>:<fid>:<n|=hex>:=<hex>`  start_fragment     → `-` | `=<hex>`
  `a:<now>:<seq>:<fid>:=<hex>`           add_fragment       → `-` | `=<hex>`
  `c:<now>`                              cleanup_expired    → `c<removed>`
  `p`                                    pending_count      → `p<count>`
  `x`                                    clear              → `x`
  `fs:<now>:<seq>:<fid>:<n|=hex>:=<hex>` one received frame of a connection (`Assembler.onFrame`): cleanup_expired, then start_fragment
  `fa:<now>:<seq>:<fid>:=<hex>`          the same with add_fragment
  `ft:<now>`                             a frame that is no fragment (tick, message): cleanup_expired only → `-`
  results joined by `,`.
`c09spec <once|full> <seq> <n|=hex> =<msghex> <lens csv|-> <arrival csv> <outs csv>` — the protocol's reference receiver
  (`Spec.Frag.Ref`) run over the arrival (fragment ids of `Spec.Frag.split`, `j<id>` = junk continuation with that id),
  compared with the implementation's outputs: `once` compares where something is returned and how long it is, `full` the bytes.
-/

private def c09Hex (s : String) : Except String Bytes :=
  if s.startsWith "=" then getHex (if s.length == 1 then "" else (s.drop 1).toString) else .error "bad-hex-arg"

private def c09Opt (s : String) : Except String (Option Bytes) :=
  if s == "n" then .ok none else (c09Hex s).map some

private def c09Nat (s : String) : Except String Nat :=
  match s.toNat? with
  | some n => .ok n
  | none => .error ("bad-nat " ++ s)

private def c09Out : Option Bytes → String
  | none => "-"
  | some b => "=" ++ hexOf b

private def c09Step (a : Assembler) (w : String) : Except String (Assembler × String) :=
  match w.splitOn ":" with
  | ["s", now, q, fid, cache, data] => do
    let now ← c09Nat now
    let q ← c09Nat q
    let fid ← c09Nat fid
    let cache ← c09Opt cache
    let data ← c09Hex data
    let (a', o) := a.step (.start now q fid cache data)
    pure (a', c09Out o)
  | ["a", now, q, fid, data] => do
    let now ← c09Nat now
    let q ← c09Nat q
    let fid ← c09Nat fid
    let data ← c09Hex data
    let (a', o) := a.step (.add now q fid data)
    pure (a', c09Out o)
  | ["c", now] => do
    let now ← c09Nat now
    let (a', k) := a.cleanupExpired now
    pure (a', "c" ++ toString k)
  | ["fs", now, q, fid, cache, data] => do
    let now ← c09Nat now
    let q ← c09Nat q
    let fid ← c09Nat fid
    let cache ← c09Opt cache
    let data ← c09Hex data
    let (a', o) := a.onFrame now (some (.start now q fid cache data))
    pure (a', c09Out o)
  | ["fa", now, q, fid, data] => do
    let now ← c09Nat now
    let q ← c09Nat q
    let fid ← c09Nat fid
    let data ← c09Hex data
    let (a', o) := a.onFrame now (some (.add now q fid data))
    pure (a', c09Out o)
  | ["ft", now] => do
    let now ← c09Nat now
    let (a', o) := a.onFrame now none
    pure (a', c09Out o)
  | ["p"] => pure (a, "p" ++ toString a.pendingCount)
  | ["x"] => pure (a.clear, "x")
  | _ => .error ("bad-c09-op " ++ w)

private def c09Run (a : Assembler) : List String → List String → Except String (List String)
  | [], acc => .ok acc.reverse
  | w :: ws, acc =>
    match c09Step a w with
    | .ok (a', r) => c09Run a' ws (r :: acc)
    | .error e => .error e

private def c09Lens (s : String) : Except String (List Nat) :=
  if s == "-" then .ok [] else (s.splitOn ",").mapM c09Nat

private def c09Arrival (frags : List Spec.Frag.Frag) (q : Nat) (w : String) : Except String Spec.Frag.Frag :=
  if w.startsWith "j" then do
    let k ← c09Nat (w.drop 1).toString
    pure { seq := q, fid := k, hdr := false, cache := none, data := [0xee] }
  else do
    let k ← c09Nat w
    match frags.find? (·.fid == k) with
    | some f => pure f
    | none => .error ("no-fragment " ++ w)

private def c09ImplOut (w : String) : Except String (Option Bytes) :=
  if w == "-" then .ok none else (c09Hex w).map some

private def c09Cmp (full : Bool) : Nat → List (Option Bytes) → List (Option Bytes) → String
  | _, [], [] => "ok"
  | i, s :: ss, o :: os =>
    let same := if full then s == o else (s.map List.length) == (o.map List.length)
    if same then c09Cmp full (i + 1) ss os
    else "FAIL at " ++ toString i ++ " spec=" ++ c09Out s ++ " impl=" ++ c09Out o
  | i, _, _ => "FAIL length at " ++ toString i

def handleC09 : List String → Option String
  | "c09run" :: timeout :: ops => some <| run do
    let t ← c09Nat timeout
    let rs ← c09Run (Assembler.new t) ops []
    pure (",".intercalate rs)
  | ["c09spec", mode, q, cache, msg, lens, arrival, outs] => some <| run do
    let q ← c09Nat q
    let cache ← c09Opt cache
    let msg ← c09Hex msg
    let lens ← c09Lens lens
    let frags := Spec.Frag.split q cache msg lens
    let arr ← (arrival.splitOn ",").mapM (c09Arrival frags q)
    let impl ← (outs.splitOn ",").mapM c09ImplOut
    let spec := (Spec.Frag.Ref.run {} arr)
    pure (c09Cmp (mode == "full") 0 spec impl)
  | _ => none

end Edp.Drv
