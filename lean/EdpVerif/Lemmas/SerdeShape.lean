import EdpVerif.Impl.Serde
import EdpVerif.Spec.Serde
import EdpVerif.Spec.SerdeShape
/-! C15, the error clause: for every constructor of the type universe, the term shapes `from_term::<T>` can accept at all.
A term of another shape is an error — never a value made up from it. -/
namespace Edp.SerdeShape
open Edp Edp.Serde

theorem deL_short : ∀ (ts : List Ty) (l : List Term), l.length < ts.length → deL ts l = .error .err
  | [], l, h => by simp at h
  | _ :: _, [], _ => by simp [deL]
  | ty :: ts, x :: xs, h => by
    have ih := deL_short ts xs (by simpa using h)
    simp only [deL]
    cases de ty x with
    | error e => cases e; rfl
    | ok v => simp [ih]

theorem deVariant_unknown (en a : Bytes) : ∀ (vs : List (Bytes × Ty)) (rest : List Term),
    (vs.any fun v => v.1 == a) = false → deVariant en a vs rest = .error .err
  | [], _, _ => by simp [deVariant]
  | (vn, sh) :: vs, rest, h => by
    simp only [List.any_cons, Bool.or_eq_false_iff, beq_eq_false_iff_ne, ne_eq] at h
    simp only [deVariant, h.1, ↓reduceIte]
    exact deVariant_unknown en a vs rest h.2

/-- THE error clause, for every constructor of the universe and every term: a term that does not have one of the shapes
the type is written as is an error. -/
theorem wrong_shape_is_error : ∀ (ty : Ty) (t : Term), shapeOk ty t = false → de ty t = .error .err
  | .int k, t, h => by cases t <;> simp_all [shapeOk, de, deInt]
  | .f32, t, h => by cases t <;> simp_all [shapeOk, de]
  | .f64, t, h => by cases t <;> simp_all [shapeOk, de]
  | .bool, t, h => by
    cases t <;> simp_all [shapeOk, de]
  | .char, t, h => by cases t <;> simp_all [shapeOk, de, deChar]
  | .string, t, h => by cases t <;> simp_all [shapeOk, de, deStr]
  | .bytes, t, h => by cases t <;> simp_all [shapeOk, de]
  | .unit, t, h => by cases t <;> simp_all [shapeOk, de]
  | .option ty, t, h => by
    simp only [shapeOk, Bool.or_eq_false_iff] at h
    have ih := wrong_shape_is_error ty t h.2
    simp [de, h.1, ih]
  | .tuple ts, t, h => by
    cases t with
    | tuple l =>
      simp only [shapeOk, decide_eq_false_iff_not, Nat.not_le] at h
      simp [de, deL_short ts l h]
    | _ => simp [de]
  | .seq ty, t, h => by cases t <;> simp_all [shapeOk, de]
  | .map kt vt, t, h => by cases t <;> simp_all [shapeOk, de]
  | .struct n fs, t, h => by cases t <;> simp_all [shapeOk, de]
  | .unitStruct n, t, h => by cases t <;> simp_all [shapeOk, de]
  | .newtype n ty, t, h => by
    simp only [shapeOk] at h
    have ih := wrong_shape_is_error ty t h
    simp [de, ih]
  | .tupleStruct n ts, t, h => by
    cases t with
    | tuple l =>
      simp only [shapeOk, decide_eq_false_iff_not, Nat.not_le] at h
      simp [de, deL_short ts l h]
    | _ => simp [de]
  | .exStruct md fs, t, h => by cases t <;> simp_all [shapeOk, de]
  | .enum en vs, t, h => by
    cases t with
    | atom a =>
      simp only [shapeOk] at h
      simp [de, deVariant_unknown en a vs [] h]
    | tuple l =>
      cases l with
      | nil => simp [de]
      | cons x xs =>
        simp only [shapeOk, namesVariant] at h
        simp only [de]
        cases hs : deStr x with
        | error e => cases e; rfl
        | ok a =>
          simp only [hs] at h
          simp [deVariant_unknown en a vs xs h]
    | _ => simp [de]

end Edp.SerdeShape
