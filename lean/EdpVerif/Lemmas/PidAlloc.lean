import EdpVerif.Impl.PidAlloc
/-! Helper lemmas for C16 (pid allocator): the completion function, the inductive invariant of the small-step
semantics (n whole allocations done plus at most one in flight by the lock holder), the closed form of the
sequential run. -/
namespace Edp.Impl.PidAlloc

/-! ### the rest of the holder's call, run without interruption -/

def finOut (s : Sh) (id ser : Nat) : Res × Sh := (.ok ⟨id, ser, s.creation⟩, s)

def finWrap (s : Sh) (id : Nat) : Res × Sh :=
  if s.nextSerial + 1 ≥ U64 then
    (.panic, { s with nextSerial := (s.nextSerial + 1) % U64, poisoned := true })
  else finOut { s with nextSerial := (s.nextSerial + 1) % U64 } id ((s.nextSerial + 1) % U32)

def finSerial (s : Sh) (id su : Nat) : Res × Sh :=
  if id ≥ MAXP then finWrap { s with nextId := 1 } id else finOut { s with nextId := id + 1 } id (su % U32)

def finId (s : Sh) (id : Nat) : Res × Sh :=
  if id + 1 ≥ U32 then (.panic, { s with poisoned := true }) else finSerial s id s.nextSerial

def complete (s : Sh) : Pc → Res × Sh
  | .idle => (.err, s)
  | .locked => finId s s.nextId
  | .gotId id => finId s id
  | .gotSerial id su => finSerial s id su
  | .storedWrap id => finWrap s id
  | .gotOut id ser => finOut s id ser
  | .gotCreation p => (.ok p, s)

/-- program counters before the linearisation point of the call -/
def preLin : Pc → Prop
  | .locked | .gotId _ | .gotSerial _ _ | .storedWrap _ | .gotOut _ _ => True
  | _ => False

def Res.setC (c : Nat) : Res → Res
  | .ok p => .ok { p with creation := c }
  | r => r

def mapC (c : Nat) (x : Res × Sh) : Res × Sh := (x.1.setC c, x.2.setCreation c)

theorem alloc_eq_complete (s : Sh) (h : s.poisoned = false) : alloc s = complete s .locked := by
  by_cases h1 : s.nextId + 1 ≥ U32 <;> by_cases h2 : s.nextId ≥ MAXP <;> by_cases h3 : s.nextSerial + 1 ≥ U64 <;>
    simp [alloc, complete, finId, finSerial, finWrap, finOut, h, h1, h2, h3]

theorem alloc_poisoned (s : Sh) (h : s.poisoned = true) : alloc s = (.err, s) := by
  simp [alloc, h]

theorem hstep_cont {s s' : Sh} {pc pc' : Pc} (h : hstep s pc = .cont s' pc') (hp : preLin pc) :
    complete s' pc' = complete s pc ∧ s'.poisoned = s.poisoned := by
  cases pc with
  | idle => exact absurd hp (by simp [preLin])
  | gotCreation p => exact absurd hp (by simp [preLin])
  | locked =>
    simp only [hstep, HOut.cont.injEq] at h
    obtain ⟨rfl, rfl⟩ := h
    simp [complete]
  | gotId id =>
    simp only [hstep] at h
    split at h
    · cases h
    · simp only [HOut.cont.injEq] at h
      obtain ⟨rfl, rfl⟩ := h
      simp [complete, finId, *]
  | gotSerial id su =>
    simp only [hstep] at h
    split at h <;> simp only [HOut.cont.injEq] at h <;> obtain ⟨rfl, rfl⟩ := h <;> simp [complete, finSerial, *]
  | storedWrap id =>
    simp only [hstep] at h
    split at h
    · cases h
    · simp only [HOut.cont.injEq] at h
      obtain ⟨rfl, rfl⟩ := h
      simp [complete, finWrap, *]
  | gotOut id ser =>
    simp only [hstep, HOut.cont.injEq] at h
    obtain ⟨rfl, rfl⟩ := h
    simp [complete, finOut]

theorem hstep_done {s s' : Sh} {pc : Pc} {r : Res} (h : hstep s pc = .done s' r) :
    complete s pc = (r, s') ∧ ((preLin pc ∧ r = .panic) ∨ (∃ p, pc = .gotCreation p ∧ r = .ok p ∧ s' = s)) := by
  cases pc with
  | idle => simp [hstep] at h
  | locked => simp [hstep] at h
  | gotSerial id su => simp only [hstep] at h; split at h <;> cases h
  | gotOut id ser => simp [hstep] at h
  | gotId id =>
    simp only [hstep] at h
    split at h
    · simp only [HOut.done.injEq] at h
      obtain ⟨rfl, rfl⟩ := h
      simp [complete, finId, preLin, *]
    · cases h
  | storedWrap id =>
    simp only [hstep] at h
    split at h
    · simp only [HOut.done.injEq] at h
      obtain ⟨rfl, rfl⟩ := h
      simp [complete, finWrap, preLin, *]
    · cases h
  | gotCreation p =>
    simp only [hstep, HOut.done.injEq] at h
    obtain ⟨rfl, rfl⟩ := h
    simp [complete]

/-- the step from `gotOut` loads the creation: what the call returns is now fixed -/
theorem hstep_gotOut (s : Sh) (id ser : Nat) :
    hstep s (.gotOut id ser) = .cont s (.gotCreation ⟨id, ser, s.creation⟩) := rfl

theorem complete_setC (s : Sh) (c : Nat) (pc : Pc) (hp : preLin pc) :
    complete (s.setCreation c) pc = mapC c (complete s pc) := by
  cases pc with
  | idle => exact absurd hp (by simp [preLin])
  | gotCreation p => exact absurd hp (by simp [preLin])
  | locked =>
    by_cases h1 : s.nextId + 1 ≥ U32 <;> by_cases h2 : s.nextId ≥ MAXP <;> by_cases h3 : s.nextSerial + 1 ≥ U64 <;>
      simp [complete, finId, finSerial, finWrap, finOut, mapC, Sh.setCreation, Res.setC, h1, h2, h3]
  | gotId id =>
    by_cases h1 : id + 1 ≥ U32 <;> by_cases h2 : id ≥ MAXP <;> by_cases h3 : s.nextSerial + 1 ≥ U64 <;>
      simp [complete, finId, finSerial, finWrap, finOut, mapC, Sh.setCreation, Res.setC, h1, h2, h3]
  | gotSerial id su =>
    by_cases h2 : id ≥ MAXP <;> by_cases h3 : s.nextSerial + 1 ≥ U64 <;>
      simp [complete, finSerial, finWrap, finOut, mapC, Sh.setCreation, Res.setC, h2, h3]
  | storedWrap id =>
    by_cases h3 : s.nextSerial + 1 ≥ U64 <;>
      simp [complete, finWrap, finOut, mapC, Sh.setCreation, Res.setC, h3]
  | gotOut id ser => rfl

theorem alloc_setC (s : Sh) (c : Nat) : alloc (s.setCreation c) = mapC c (alloc s) := by
  cases h : s.poisoned with
  | true =>
    rw [alloc_poisoned s h, alloc_poisoned (s.setCreation c) (by simpa [Sh.setCreation] using h)]
    rfl
  | false =>
    rw [alloc_eq_complete s h, alloc_eq_complete (s.setCreation c) (by simpa [Sh.setCreation] using h)]
    exact complete_setC s c .locked (by simp [preLin])

theorem take_map_range {α : Type} (f : Nat → α) (n k : Nat) (h : n ≤ k) :
    ((List.range k).map f).take n = (List.range n).map f := by
  rw [← List.map_take, List.take_range, Nat.min_eq_left h]

theorem seqRun_snoc (s : Sh) (l : List Op) (op : Op) : seqRun s (l ++ [op]) = seqStep (seqRun s l) op := by
  simp [seqRun, List.foldl_append]


/-! ### the inductive invariant: whole allocations done, plus at most one in flight by the lock holder -/

structure Inv (s0 : Sh) (st : St) : Prop where
  acq : st.acq = st.out.map (·.1) ++ (match st.lock with | some t => [t] | none => [])
  idle : ∀ t, st.lock ≠ some t → st.pc t = .idle
  free : st.lock = none → st.sh = (seqRun s0 st.lin).2 ∧ st.out.map (·.2) = (seqRun s0 st.lin).1
  held : ∀ t, st.lock = some t → st.sh.poisoned = false ∧
    ((preLin (st.pc t) ∧ st.out.map (·.2) = (seqRun s0 st.lin).1 ∧
        complete st.sh (st.pc t) = alloc (seqRun s0 st.lin).2)
     ∨ (∃ p, st.pc t = .gotCreation p ∧ st.sh = (seqRun s0 st.lin).2 ∧
          st.out.map (·.2) ++ [.ok p] = (seqRun s0 st.lin).1))

theorem inv_init (s0 : Sh) : Inv s0 (St.init s0) := by
  refine ⟨rfl, fun _ _ => rfl, fun _ => ⟨rfl, rfl⟩, ?_⟩
  intro t h
  simp [St.init] at h

theorem inv_setCreation {s0 : Sh} {st : St} (c : Nat) (h : Inv s0 st) :
    Inv s0 { st with sh := st.sh.setCreation c, lin := st.lin ++ [.setCreation c] } := by
  refine ⟨h.acq, h.idle, ?_, ?_⟩
  · intro hl
    obtain ⟨h1, h2⟩ := h.free hl
    simp only [seqRun_snoc, seqStep]
    exact ⟨by rw [h1], h2⟩
  · intro t hl
    obtain ⟨hp, hc⟩ := h.held t hl
    refine ⟨by simpa [Sh.setCreation] using hp, ?_⟩
    simp only [seqRun_snoc, seqStep]
    rcases hc with ⟨hpre, ho, hcomp⟩ | ⟨p, hpc, hs, ho⟩
    · left
      refine ⟨hpre, ho, ?_⟩
      rw [complete_setC _ _ _ hpre, alloc_setC, hcomp]
    · right
      exact ⟨p, hpc, by rw [hs], ho⟩


theorem upd_same (f : Nat → Pc) (t : Nat) (v : Pc) : upd f t v t = v := by simp [upd]
theorem upd_other (f : Nat → Pc) (t t' : Nat) (v : Pc) (h : t' ≠ t) : upd f t v t' = f t' := by simp [upd, h]

/-- a thread that is not idle holds the lock -/
theorem Inv.holder {s0 : Sh} {st : St} (h : Inv s0 st) (t : Nat) (hpc : st.pc t ≠ .idle) : st.lock = some t := by
  apply Classical.byContradiction
  intro hl
  exact hpc (h.idle t hl)

/-- step of the lock holder that continues -/
theorem inv_cont {s0 : Sh} {st : St} (t : Nat) (h : Inv s0 st) (hl : st.lock = some t) (s' : Sh) (pc' : Pc)
    (hh : hstep st.sh (st.pc t) = .cont s' pc') (hpre : preLin (st.pc t)) :
    Inv s0 { st with sh := s', pc := upd st.pc t pc',
                     lin := if (st.pc t).isGotOut then st.lin ++ [.alloc] else st.lin } := by
  obtain ⟨hpois, hc⟩ := h.held t hl
  have hcomp := hstep_cont hh hpre
  refine ⟨h.acq, ?_, ?_, ?_⟩
  · intro t' ht'
    have : t' ≠ t := by intro e; subst e; exact ht' hl
    show upd st.pc t pc' t' = .idle
    rw [upd_other _ _ _ _ this]
    exact h.idle t' ht'
  · intro hn
    exact absurd (hn ▸ hl : (none : Option Nat) = some t) (by simp)
  · intro t' hl'
    have : t' = t := by
      have : some t' = some t := hl'.symm.trans hl
      exact Option.some.inj this
    subst this
    refine ⟨by show s'.poisoned = false; rw [hcomp.2]; exact hpois, ?_⟩
    dsimp only
    simp only [upd_same]
    rcases hc with ⟨_, ho, hq⟩ | ⟨p, hp, _, _⟩
    · cases hpc : st.pc t' with
      | idle => rw [hpc] at hpre; exact absurd hpre (by simp [preLin])
      | gotCreation p => rw [hpc] at hpre; exact absurd hpre (by simp [preLin])
      | gotOut id ser =>
        rw [hpc] at hh hq
        rw [hstep_gotOut] at hh
        simp only [HOut.cont.injEq] at hh
        obtain ⟨rfl, rfl⟩ := hh
        right
        refine ⟨_, rfl, ?_, ?_⟩
        · simp only [Pc.isGotOut, if_true, seqRun_snoc, seqStep]
          rw [← hq]; rfl
        · simp only [Pc.isGotOut, if_true, seqRun_snoc, seqStep]
          rw [← hq, ho]; rfl
      | locked =>
        left
        rw [hpc] at hh hq hcomp
        have hpl : preLin pc' := by
          simp only [hstep, HOut.cont.injEq] at hh
          rw [← hh.2]; simp [preLin]
        exact ⟨hpl, by simpa [Pc.isGotOut] using ho, by simpa [Pc.isGotOut, hcomp.1] using hq⟩
      | gotId id =>
        left
        rw [hpc] at hh hq hcomp
        have hpl : preLin pc' := by
          simp only [hstep] at hh
          split at hh
          · cases hh
          · simp only [HOut.cont.injEq] at hh
            rw [← hh.2]; simp [preLin]
        exact ⟨hpl, by simpa [Pc.isGotOut] using ho, by simpa [Pc.isGotOut, hcomp.1] using hq⟩
      | gotSerial id su =>
        left
        rw [hpc] at hh hq hcomp
        have hpl : preLin pc' := by
          simp only [hstep] at hh
          split at hh <;> simp only [HOut.cont.injEq] at hh <;> rw [← hh.2] <;> simp [preLin]
        exact ⟨hpl, by simpa [Pc.isGotOut] using ho, by simpa [Pc.isGotOut, hcomp.1] using hq⟩
      | storedWrap id =>
        left
        rw [hpc] at hh hq hcomp
        have hpl : preLin pc' := by
          simp only [hstep] at hh
          split at hh
          · cases hh
          · simp only [HOut.cont.injEq] at hh
            rw [← hh.2]; simp [preLin]
        exact ⟨hpl, by simpa [Pc.isGotOut] using ho, by simpa [Pc.isGotOut, hcomp.1] using hq⟩
    · rw [hp] at hpre; exact absurd hpre (by simp [preLin])


/-- step of the lock holder that ends its call (return, or unwinding after a panic) -/
theorem inv_done {s0 : Sh} {st : St} (t : Nat) (h : Inv s0 st) (hl : st.lock = some t) (s' : Sh) (r : Res)
    (hh : hstep st.sh (st.pc t) = .done s' r) :
    Inv s0 { st with sh := s', lock := none, pc := upd st.pc t .idle, out := st.out ++ [(t, r)],
                     lin := if r = .panic then st.lin ++ [.alloc] else st.lin } := by
  obtain ⟨hpois, hc⟩ := h.held t hl
  obtain ⟨hcomp, hkind⟩ := hstep_done hh
  refine ⟨?_, ?_, ?_, ?_⟩
  · have := h.acq
    rw [hl] at this
    simp [this]
  · intro t' _
    show upd st.pc t .idle t' = .idle
    by_cases e : t' = t
    · subst e; exact upd_same _ _ _
    · rw [upd_other _ _ _ _ e]
      exact h.idle t' (by intro hl'; exact e (Option.some.inj (hl'.symm.trans hl)))
  · intro _
    dsimp only
    rcases hkind with ⟨hpre, rfl⟩ | ⟨p, hp, rfl, rfl⟩
    · rcases hc with ⟨_, ho, hq⟩ | ⟨p, hp, _, _⟩
      · simp only [if_true, seqRun_snoc, seqStep, List.map_append, List.map_cons, List.map_nil]
        rw [← hq, hcomp, ho]
        exact ⟨rfl, rfl⟩
      · rw [hp] at hpre; exact absurd hpre (by simp [preLin])
    · rcases hc with ⟨hpre, _, _⟩ | ⟨p', hp', hs, ho⟩
      · rw [hp] at hpre; exact absurd hpre (by simp [preLin])
      · have : p' = p := by rw [hp] at hp'; exact (Pc.gotCreation.inj hp').symm
        subst this
        simp only [reduceCtorEq, if_false, List.map_append, List.map_cons, List.map_nil]
        exact ⟨hs, ho⟩
  · intro t' hl'
    simp at hl'

/-- `lock()` by an idle thread while the mutex is free -/
theorem inv_lock {s0 : Sh} {st : St} (t : Nat) (h : Inv s0 st) (hl : st.lock = none)
    (hp : st.sh.poisoned = false) :
    Inv s0 { st with lock := some t, pc := upd st.pc t .locked, acq := st.acq ++ [t] } := by
  obtain ⟨hs, ho⟩ := h.free hl
  refine ⟨?_, ?_, ?_, ?_⟩
  · have := h.acq
    rw [hl] at this
    simp [this]
  · intro t' ht'
    have e : t' ≠ t := by intro e; subst e; exact ht' rfl
    show upd st.pc t .locked t' = .idle
    rw [upd_other _ _ _ _ e]
    exact h.idle t' (by rw [hl]; simp)
  · intro hn
    simp at hn
  · intro t' hl'
    have e : t' = t := (Option.some.inj hl').symm
    subst e
    refine ⟨hp, Or.inl ?_⟩
    dsimp only
    simp only [upd_same]
    refine ⟨by simp [preLin], ho, ?_⟩
    rw [← hs, alloc_eq_complete _ hp]

/-- `lock()` on the poisoned mutex: the call returns `Err` -/
theorem inv_err {s0 : Sh} {st : St} (t : Nat) (h : Inv s0 st) (hl : st.lock = none)
    (hp : st.sh.poisoned = true) :
    Inv s0 { st with out := st.out ++ [(t, .err)], acq := st.acq ++ [t], lin := st.lin ++ [.alloc] } := by
  obtain ⟨hs, ho⟩ := h.free hl
  refine ⟨?_, h.idle, ?_, ?_⟩
  · have := h.acq
    rw [hl] at this
    simp [this, hl]
  · intro _
    dsimp only
    simp only [seqRun_snoc, seqStep, List.map_append, List.map_cons, List.map_nil]
    rw [← hs, alloc_poisoned _ hp, ho]
    exact ⟨rfl, rfl⟩
  · intro t' hl'
    exact absurd (hl.symm.trans hl') (by simp)

theorem inv_step {s0 : Sh} {st st' : St} (t : Nat) (h : Inv s0 st) (hs : step st t = some st') : Inv s0 st' := by
  unfold step at hs
  by_cases hpc : st.pc t = .idle
  · rw [hpc] at hs
    dsimp only at hs
    cases hl : st.lock with
    | some t' => rw [hl] at hs; cases hs
    | none =>
      rw [hl] at hs
      dsimp only at hs
      cases hp : st.sh.poisoned with
      | true =>
        rw [hp] at hs
        simp only [if_true, Option.some.injEq] at hs
        subst hs
        have := inv_err t h hl hp
        rw [hl] at this
        exact this
      | false =>
        rw [hp] at hs
        simp only [Bool.false_eq_true, if_false, Option.some.injEq] at hs
        subst hs
        exact inv_lock t h hl hp
  · have hl := h.holder t hpc
    obtain ⟨_, hc⟩ := h.held t hl
    cases hh : hstep st.sh (st.pc t) with
    | cont s' pc' =>
      have hpre : preLin (st.pc t) := by
        rcases hc with ⟨hpre, _, _⟩ | ⟨p, hp, _, _⟩
        · exact hpre
        · rw [hp] at hh; cases hh
      have := inv_cont t h hl s' pc' hh hpre
      generalize st.pc t = pc at hs hh this hpc
      cases pc
      · exact absurd rfl hpc
      all_goals
        dsimp only at hs
        rw [hh] at hs
        simp only [Option.some.injEq] at hs
        subst hs
        exact this
    | done s' r =>
      have := inv_done t h hl s' r hh
      generalize st.pc t = pc at hs hh this hpc
      cases pc
      · exact absurd rfl hpc
      all_goals
        dsimp only at hs
        rw [hh] at hs
        simp only [Option.some.injEq] at hs
        subst hs
        exact this

theorem inv_stepEv {s0 : Sh} {st st' : St} (e : Ev) (h : Inv s0 st) (hs : stepEv st e = some st') : Inv s0 st' := by
  cases e with
  | task t => exact inv_step t h hs
  | setCreation c =>
    simp only [stepEv, Option.some.injEq] at hs
    subst hs
    exact inv_setCreation c h

theorem inv_run {s0 : Sh} (evs : List Ev) : ∀ {st : St}, Inv s0 st → Inv s0 (run st evs) := by
  induction evs with
  | nil => intro st h; exact h
  | cons e evs ih =>
    intro st h
    show Inv s0 (run ((stepEv st e).getD st) evs)
    apply ih
    cases hs : stepEv st e with
    | none => exact h
    | some st' => exact inv_stepEv e h hs


/-! ### closed form of the sequential run -/

theorem MAXP_eq : MAXP = 1048576 := rfl

/-- the states reachable from `PidAllocator::new` by allocations that did not panic -/
def Good (s : Sh) : Prop := 1 ≤ s.nextId ∧ s.nextId ≤ MAXP ∧ s.poisoned = false

/-- position in the (id, serial) space counted in allocations -/
def pos (s : Sh) : Nat := (s.nextId - 1) + MAXP * s.nextSerial

theorem good_new (c : Nat) : Good (Sh.new c) := by simp [Good, Sh.new, MAXP_eq]

theorem alloc_good (s : Sh) (hg : Good s) :
    (∃ s', alloc s = (.panic, s') ∧ s'.poisoned = true ∧ U64 ≤ s.nextSerial + 1) ∨
    (∃ s', alloc s = (.ok ⟨pos s % MAXP + 1, ((pos s + 1) / MAXP) % U32, s.creation⟩, s') ∧ Good s' ∧
        pos s' = pos s + 1 ∧ s'.creation = s.creation) := by
  obtain ⟨h1, h2, h3⟩ := hg
  have hlt : ¬ (s.nextId + 1 ≥ U32) := by simp only [MAXP_eq] at h2; simp only [U32]; omega
  by_cases hw : s.nextId ≥ MAXP
  · by_cases ho : s.nextSerial + 1 ≥ U64
    · left
      refine ⟨{ s with nextId := 1, nextSerial := (s.nextSerial + 1) % U64, poisoned := true }, ?_, rfl, ho⟩
      simp [alloc, h3, hlt, hw, ho]
    · right
      refine ⟨{ s with nextId := 1, nextSerial := (s.nextSerial + 1) % U64 }, ?_, ?_, ?_, rfl⟩
      · simp only [alloc, h3, hlt, hw, ho, Bool.false_eq_true, if_false, if_true]
        have hid : s.nextId = MAXP := Nat.le_antisymm h2 hw
        have e1 : pos s % MAXP + 1 = s.nextId := by
          simp only [pos, hid, MAXP_eq]; omega
        have e2 : ((pos s + 1) / MAXP) % U32 = (s.nextSerial + 1) % U32 := by
          simp only [pos, hid, MAXP_eq, U32]; omega
        rw [e1, e2]
      · simp [Good, MAXP_eq, h3]
      · have hid : s.nextId = MAXP := Nat.le_antisymm h2 hw
        simp only [U64] at ho
        simp only [pos, hid, MAXP_eq, U64]; omega
  · right
    refine ⟨{ s with nextId := s.nextId + 1 }, ?_, ?_, ?_, rfl⟩
    · simp only [alloc, h3, hlt, hw, Bool.false_eq_true, if_false]
      have e1 : pos s % MAXP + 1 = s.nextId := by
        simp only [MAXP_eq] at hw; simp only [pos, MAXP_eq]; omega
      have e2 : ((pos s + 1) / MAXP) % U32 = s.nextSerial % U32 := by
        simp only [MAXP_eq] at hw; simp only [pos, MAXP_eq, U32]; omega
      rw [e1, e2]
    · simp only [MAXP_eq] at hw h2
      exact ⟨by show 1 ≤ s.nextId + 1; omega, by show s.nextId + 1 ≤ MAXP; simp only [MAXP_eq]; omega, h3⟩
    · simp only [pos]; omega

theorem seqState_good (s0 : Sh) (hg : Good s0) (i : Nat) :
    (Good (seqState s0 i) ∧ pos (seqState s0 i) = pos s0 + i ∧ (seqState s0 i).creation = s0.creation) ∨
    (seqState s0 i).poisoned = true := by
  induction i with
  | zero => left; exact ⟨hg, rfl, rfl⟩
  | succ i ih =>
    rcases ih with ⟨g, hp, hc⟩ | hpz
    · rcases alloc_good _ g with ⟨s', ha, hpz, _⟩ | ⟨s', ha, g', hp', hc'⟩
      · right; show (alloc (seqState s0 i)).2.poisoned = true; rw [ha]; exact hpz
      · left
        show Good (alloc (seqState s0 i)).2 ∧ pos (alloc (seqState s0 i)).2 = _ ∧ (alloc (seqState s0 i)).2.creation = _
        rw [ha]
        exact ⟨g', by rw [hp', hp]; omega, by rw [hc', hc]⟩
    · right
      show (alloc (seqState s0 i)).2.poisoned = true
      rw [alloc_poisoned _ hpz]; exact hpz

/-- closed form of a successful sequential allocation -/
theorem seqAlloc_ok (s0 : Sh) (hg : Good s0) (i : Nat) (p : Pid) (h : seqAlloc s0 i = .ok p) :
    p = ⟨(pos s0 + i) % MAXP + 1, ((pos s0 + i + 1) / MAXP) % U32, s0.creation⟩ := by
  unfold seqAlloc at h
  rcases seqState_good s0 hg i with ⟨g, hp, hc⟩ | hpz
  · rcases alloc_good _ g with ⟨s', ha, _, _⟩ | ⟨s', ha, _, _, _⟩
    · rw [ha] at h; cases h
    · rw [ha] at h
      simp only [Res.ok.injEq] at h
      rw [← h, hp, hc]
  · rw [alloc_poisoned _ hpz] at h; cases h

/-- the sequential run does not panic before the 64-bit serial is exhausted -/
theorem seqAlloc_is_ok (s0 : Sh) (hg : Good s0) (i : Nat) (hb : (pos s0 + i) / MAXP + 1 < U64) :
    ∃ p, seqAlloc s0 i = .ok p := by
  induction i with
  | zero =>
    rcases alloc_good _ hg with ⟨s', _, _, ho⟩ | ⟨s', ha, _, _, _⟩
    · exfalso
      simp only [pos, MAXP_eq, U64] at hb ho
      have := hg.1; have := hg.2.1; simp only [MAXP_eq] at this
      omega
    · exact ⟨_, by unfold seqAlloc seqState; rw [ha]⟩
  | succ i ih =>
    have hb' : (pos s0 + i) / MAXP + 1 < U64 := by
      simp only [MAXP_eq, U64] at hb ⊢; omega
    obtain ⟨p, hp⟩ := ih hb'
    rcases seqState_good s0 hg (i + 1) with ⟨g, hpos, _⟩ | hpz
    · rcases alloc_good _ g with ⟨s', _, _, ho⟩ | ⟨s', ha, _, _, _⟩
      · exfalso
        have h1 := g.1; have h2 := g.2.1
        simp only [pos, MAXP_eq, U64] at hb ho hpos h2
        omega
      · exact ⟨_, by unfold seqAlloc; rw [ha]⟩
    · exfalso
      -- the state after `i + 1` allocations is poisoned only if the `i`-th panicked
      rcases seqState_good s0 hg i with ⟨g, _, _⟩ | hpz'
      · rcases alloc_good _ g with ⟨s', ha, _, _⟩ | ⟨s', ha, g', _, _⟩
        · unfold seqAlloc at hp; rw [ha] at hp; cases hp
        · have : (seqState s0 (i + 1)) = s' := by show (alloc (seqState s0 i)).2 = s'; rw [ha]
          rw [this] at hpz; rw [g'.2.2] at hpz; cases hpz
      · unfold seqAlloc at hp; rw [alloc_poisoned _ hpz'] at hp; cases hp

/-- two successful sequential allocations less than `MAXP * 2^32` apart differ in (id, serial) -/
theorem seqAlloc_key_ne (s0 : Sh) (hg : Good s0) (i j : Nat) (hij : i < j) (hd : j - i < MAXP * U32)
    (p q : Pid) (hp : seqAlloc s0 i = .ok p) (hq : seqAlloc s0 j = .ok q) :
    (p.id, p.serial) ≠ (q.id, q.serial) := by
  rw [seqAlloc_ok s0 hg i p hp, seqAlloc_ok s0 hg j q hq]
  simp only [ne_eq, Prod.mk.injEq, not_and]
  simp only [MAXP_eq, U32] at hd ⊢
  generalize pos s0 = a
  omega


/-! ### any start state (counter positions only reachable through the `*_test_only` accessors included) -/

theorem seqState_shift (s : Sh) (i : Nat) : seqState s (i + 1) = seqState (alloc s).2 i := by
  induction i with
  | zero => rfl
  | succ i ih => show (alloc (seqState s (i + 1))).2 = (alloc (seqState (alloc s).2 i)).2; rw [ih]

theorem seqAlloc_shift (s : Sh) (i : Nat) : seqAlloc s (i + 1) = seqAlloc (alloc s).2 i := by
  unfold seqAlloc; rw [seqState_shift]

theorem seqAlloc_poisoned (s : Sh) (h : s.poisoned = true) (i : Nat) : seqAlloc s i = .err := by
  induction i generalizing s with
  | zero => unfold seqAlloc seqState; rw [alloc_poisoned s h]
  | succ i ih => rw [seqAlloc_shift, alloc_poisoned s h]; exact ih s h

/-- outside the well-formed range the first call hands out the out-of-range id (or panics) and the allocator is
well-formed afterwards -/
theorem alloc_bad (s : Sh) (hp : s.poisoned = false) (hb : s.nextId = 0 ∨ MAXP < s.nextId) :
    (∃ s', alloc s = (.panic, s') ∧ s'.poisoned = true) ∨
    (∃ ser s', alloc s = (.ok ⟨s.nextId, ser, s.creation⟩, s') ∧ Good s') := by
  by_cases h1 : s.nextId + 1 ≥ U32
  · left; exact ⟨{ s with poisoned := true }, by simp [alloc, hp, h1], rfl⟩
  · by_cases h2 : s.nextId ≥ MAXP
    · by_cases h3 : s.nextSerial + 1 ≥ U64
      · left
        exact ⟨{ s with nextId := 1, nextSerial := (s.nextSerial + 1) % U64, poisoned := true },
          by simp [alloc, hp, h1, h2, h3], rfl⟩
      · right
        refine ⟨(s.nextSerial + 1) % U32, { s with nextId := 1, nextSerial := (s.nextSerial + 1) % U64 }, ?_, ?_⟩
        · simp [alloc, hp, h1, h2, h3]
        · simp [Good, MAXP_eq, hp]
    · right
      have h0 : s.nextId = 0 := by
        rcases hb with h | h
        · exact h
        · exact absurd (Nat.le_of_lt h) h2
      refine ⟨s.nextSerial % U32, { s with nextId := s.nextId + 1 }, ?_, ?_⟩
      · simp [alloc, hp, h1, h2]
      · simp [Good, MAXP_eq, hp, h0]

theorem seqAlloc_key_ne_any (s0 : Sh) (i j : Nat) (hij : i < j) (hd : j - i < MAXP * U32)
    (p q : Pid) (hp : seqAlloc s0 i = .ok p) (hq : seqAlloc s0 j = .ok q) :
    (p.id, p.serial) ≠ (q.id, q.serial) := by
  cases hpz : s0.poisoned with
  | true => rw [seqAlloc_poisoned s0 hpz] at hp; cases hp
  | false =>
    by_cases hg : 1 ≤ s0.nextId ∧ s0.nextId ≤ MAXP
    · exact seqAlloc_key_ne s0 ⟨hg.1, hg.2, hpz⟩ i j hij hd p q hp hq
    · have hb : s0.nextId = 0 ∨ MAXP < s0.nextId := by omega
      obtain ⟨j', rfl⟩ : ∃ j', j = j' + 1 := ⟨j - 1, by omega⟩
      rw [seqAlloc_shift] at hq
      rcases alloc_bad s0 hpz hb with ⟨s', ha, hpois⟩ | ⟨ser, s', ha, hgood⟩
      · rw [ha] at hq
        rw [seqAlloc_poisoned s' hpois] at hq; cases hq
      · rw [ha] at hq
        cases i with
        | zero =>
          have hp0 : seqAlloc s0 0 = .ok ⟨s0.nextId, ser, s0.creation⟩ := by
            show (alloc s0).1 = _; rw [ha]
          rw [hp0] at hp
          simp only [Res.ok.injEq] at hp
          have hq' := seqAlloc_ok s' hgood j' q hq
          rw [← hp, hq']
          simp only [ne_eq, Prod.mk.injEq, not_and]
          intro hid
          exfalso
          simp only [MAXP_eq] at hb hid
          omega
        | succ i' =>
          rw [seqAlloc_shift, ha] at hp
          exact seqAlloc_key_ne s' hgood i' j' (by omega) (by omega) p q hp hq

/-! ### sequential run of a linearised history versus a plain row of allocations -/

theorem foldl_allocs (s0 : Sh) (lin : List Op) (hall : ∀ op ∈ lin, op = .alloc) (k : Nat) :
    lin.foldl seqStep ((List.range k).map (seqAlloc s0), seqState s0 k) =
      ((List.range (k + lin.length)).map (seqAlloc s0), seqState s0 (k + lin.length)) := by
  induction lin generalizing k with
  | nil => rfl
  | cons op lin ih =>
    have hop : op = .alloc := hall op (by simp)
    subst hop
    have hrest : ∀ op ∈ lin, op = .alloc := fun op h => hall op (by simp [h])
    have hstep : seqStep ((List.range k).map (seqAlloc s0), seqState s0 k) .alloc =
        ((List.range (k + 1)).map (seqAlloc s0), seqState s0 (k + 1)) := by
      simp only [seqStep, List.range_succ, List.map_append, List.map_cons, List.map_nil]
      rfl
    rw [List.foldl_cons, hstep, ih hrest (k + 1)]
    simp only [List.length_cons]
    have : k + 1 + lin.length = k + (lin.length + 1) := by omega
    rw [this]

theorem seqRun_allocs (s0 : Sh) (lin : List Op) (hall : ∀ op ∈ lin, op = .alloc) :
    seqRun s0 lin = ((List.range lin.length).map (seqAlloc s0), seqState s0 lin.length) := by
  have := foldl_allocs s0 lin hall 0
  simpa [seqRun, seqState] using this

theorem mapC_mapC (c d : Nat) (x : Res × Sh) : mapC c (mapC d x) = mapC c x := by
  obtain ⟨r, s⟩ := x
  cases r <;> rfl

theorem alloc_erase_congr (s s' : Sh) (h : s.setCreation 0 = s'.setCreation 0) :
    mapC 0 (alloc s) = mapC 0 (alloc s') := by
  rw [← alloc_setC, ← alloc_setC, h]

theorem foldl_erased (s0 : Sh) (lin : List Op) (acc : List Res × Sh) (k : Nat)
    (h1 : acc.1.map (Res.setC 0) = (List.range k).map (fun i => (seqAlloc s0 i).setC 0))
    (h2 : acc.2.setCreation 0 = (seqState s0 k).setCreation 0) :
    ∃ k', (lin.foldl seqStep acc).1.map (Res.setC 0) = (List.range k').map (fun i => (seqAlloc s0 i).setC 0) ∧
      (lin.foldl seqStep acc).2.setCreation 0 = (seqState s0 k').setCreation 0 := by
  induction lin generalizing acc k with
  | nil => exact ⟨k, h1, h2⟩
  | cons op lin ih =>
    rw [List.foldl_cons]
    cases op with
    | setCreation c => exact ih (seqStep acc (.setCreation c)) k h1 h2
    | alloc =>
      have hm := alloc_erase_congr _ _ h2
      have hm1 : (alloc acc.2).1.setC 0 = (seqAlloc s0 k).setC 0 := congrArg Prod.fst hm
      have hm2 : (alloc acc.2).2.setCreation 0 = (seqState s0 (k + 1)).setCreation 0 := congrArg Prod.snd hm
      apply ih (seqStep acc .alloc) (k + 1)
      · simp only [seqStep, List.map_append, List.map_cons, List.map_nil, List.range_succ]
        rw [h1, hm1]
      · exact hm2

/-- whatever `set_creation` calls are interleaved, the (id, serial) stream is that of a plain row of allocations -/
theorem seqRun_erased (s0 : Sh) (lin : List Op) :
    (seqRun s0 lin).1.map (Res.setC 0) =
      (List.range (seqRun s0 lin).1.length).map (fun i => (seqAlloc s0 i).setC 0) := by
  obtain ⟨k', h, _⟩ := foldl_erased s0 lin ([], s0) 0 rfl rfl
  have hl : (seqRun s0 lin).1.length = k' := by
    have := congrArg List.length h
    simpa [seqRun] using this
  rw [hl]; exact h

theorem key_setC (c : Nat) (r : Res) : (r.setC c).key = r.key := by cases r <;> rfl

/-! ### creation -/

theorem alloc_creation (s : Sh) : (alloc s).2.creation = s.creation ∧ ∀ p, (alloc s).1 = .ok p → p.creation = s.creation := by
  by_cases h0 : s.poisoned = true <;>
  by_cases h1 : s.nextId + 1 ≥ U32 <;> by_cases h2 : s.nextId ≥ MAXP <;> by_cases h3 : s.nextSerial + 1 ≥ U64 <;>
    simp [alloc, h0, h1, h2, h3] <;> intro p hp <;> rw [← hp]

def Op.creations : List Op → List Nat
  | [] => []
  | .alloc :: l => Op.creations l
  | .setCreation c :: l => c :: Op.creations l

theorem Op.creations_append (l l' : List Op) : Op.creations (l ++ l') = Op.creations l ++ Op.creations l' := by
  induction l with
  | nil => rfl
  | cons op l ih => cases op <;> simp [Op.creations, ih]

/-- every pid made by a sequential history carries the initial creation or one that was set -/
theorem foldl_creations (c0 : Nat) (lin : List Op) (acc : List Res × Sh) (cs : List Nat)
    (h1 : ∀ p, .ok p ∈ acc.1 → p.creation = c0 ∨ p.creation ∈ cs)
    (h2 : acc.2.creation = c0 ∨ acc.2.creation ∈ cs) :
    (∀ p, .ok p ∈ (lin.foldl seqStep acc).1 → p.creation = c0 ∨ p.creation ∈ cs ++ Op.creations lin) := by
  induction lin generalizing acc cs with
  | nil => simpa [Op.creations] using h1
  | cons op lin ih =>
    rw [List.foldl_cons]
    cases op with
    | alloc =>
      simp only [Op.creations]
      apply ih
      · intro p hp
        simp only [seqStep, List.mem_append, List.mem_singleton] at hp
        rcases hp with hp | hp
        · exact h1 p hp
        · rw [(alloc_creation acc.2).2 p hp.symm]; exact h2
      · show (alloc acc.2).2.creation = c0 ∨ (alloc acc.2).2.creation ∈ cs
        rw [(alloc_creation acc.2).1]; exact h2
    | setCreation c =>
      have := ih (seqStep acc (.setCreation c)) (cs ++ [c])
        (by intro p hp
            rcases h1 p hp with h | h
            · exact Or.inl h
            · exact Or.inr (by simp [h]))
        (by right; simp [seqStep, Sh.setCreation])
      simpa [Op.creations, List.append_assoc] using this

theorem seqRun_creations (s0 : Sh) (lin : List Op) (p : Pid) (h : .ok p ∈ (seqRun s0 lin).1) :
    p.creation = s0.creation ∨ p.creation ∈ Op.creations lin := by
  have := foldl_creations s0.creation lin ([], s0) [] (by simp) (Or.inl rfl) p h
  simpa using this

def Ev.creations : List Ev → List Nat
  | [] => []
  | .task _ :: l => Ev.creations l
  | .setCreation c :: l => c :: Ev.creations l

theorem Ev.mem_creations (evs : List Ev) (c : Nat) : c ∈ Ev.creations evs ↔ Ev.setCreation c ∈ evs := by
  induction evs with
  | nil => simp [Ev.creations]
  | cons e evs ih => cases e <;> simp [Ev.creations, ih]

/-- a thread step appends at most one `alloc` to the ghost history -/
theorem step_lin {st st' : St} (t : Nat) (h : step st t = some st') :
    st'.lin = st.lin ∨ st'.lin = st.lin ++ [.alloc] := by
  unfold step at h
  generalize st.pc t = pc at h
  cases pc
  case idle =>
    dsimp only at h
    split at h
    · cases h
    · split at h <;> simp only [Option.some.injEq] at h <;> subst h <;> simp
  all_goals
    dsimp only at h
    split at h <;> simp only [Option.some.injEq] at h <;> subst h <;> dsimp only <;> split <;> simp

theorem run_lin_creations (evs : List Ev) : ∀ (st : St),
    Op.creations (run st evs).lin = Op.creations st.lin ++ Ev.creations evs := by
  induction evs with
  | nil => intro st; simp [run, Ev.creations]
  | cons e evs ih =>
    intro st
    show Op.creations (run ((stepEv st e).getD st) evs).lin = _
    rw [ih]
    cases e with
    | setCreation c => simp [stepEv, Ev.creations, Op.creations_append, Op.creations]
    | task t =>
      simp only [stepEv, Ev.creations]
      cases hs : step st t with
      | none => rfl
      | some st' =>
        rcases step_lin t hs with h | h
        · simp [h]
        · simp [h, Op.creations_append, Op.creations]

end Edp.Impl.PidAlloc
