import EdpVerif.Spec.Etf
/-!
What a node owes its peer on the inbound side of a connection, written from the distribution protocol
(erl_dist_protocol, "Protocol between connected nodes") and not from the library's code. The oracle of C19.

A frame after the handshake is a 4-byte big-endian length and that many bytes; length 0 is a tick. Without a
distribution header (none was negotiated) a frame body is `112` (pass through), the control message as an external
term (with version byte), and for the operations that carry one, the message as a second external term.

Operations that address a local process or name and must reach it:
  SEND            {2, Unused, ToPid}                           + Message
  REG_SEND        {6, FromPid, Unused, ToName}                 + Message
  EXIT            {3, FromPid, ToPid, Reason}
  EXIT2           {8, FromPid, ToPid, Reason}
  SEND_TT         {12, Unused, ToPid, TraceToken}              + Message
  EXIT_TT         {13, FromPid, ToPid, TraceToken, Reason}
  REG_SEND_TT     {16, FromPid, Unused, ToName, TraceToken}    + Message
  EXIT2_TT        {18, FromPid, ToPid, TraceToken, Reason}
  MONITOR_P_EXIT  {21, FromProc, ToPid, Ref, Reason}
A SEND to the pid a remote call was made from answers that call. Everything else (link and monitor bookkeeping,
spawn requests, operations that need a capability this node does not offer, unknown operations, bodies that cannot
be read) asks for no delivery here — and none of it may cost the connection, because the length framing is intact.
The connection ends when the peer closes the stream, announces a frame above the limit, or stops in the middle of
a frame. A conforming peer sends a tick whenever it has been silent for a quarter of its tick time (15 s by default)
and may be given up after the whole tick time (60 s) of silence.
-/
namespace Edp.Spec.Receiver
open Edp

/-- what a local process finds in its mailbox -/
inductive Note where
  | message (body : Value)
  | exit (sender reason : Value)
  | down (monitored reference reason : Value)
  deriving Repr, Inhabited

def Note.same : Note → Note → Bool
  | .message a, .message b => Value.same a b
  | .exit s r, .exit s2 r2 => Value.same s s2 && Value.same r r2
  | .down m f r, .down m2 f2 r2 => Value.same m m2 && Value.same f f2 && Value.same r r2
  | _, _ => false

def Note.text : Note → String
  | .message b => "message " ++ b.text
  | .exit s r => "exit " ++ s.text ++ " " ++ r.text
  | .down m f r => "down " ++ m.text ++ " " ++ f.text ++ " " ++ r.text

/-- the node as the peer may know it -/
structure World where
  /-- own node name (code points) -/
  node : List Nat
  /-- pids of the live processes -/
  live : List Value
  /-- registered names and their owners -/
  names : List (List Nat × Value)
  /-- (id, serial, creation) of the pids outstanding remote calls were made from -/
  calls : List (Nat × Nat × Nat)

inductive Meaning where
  | toPid (pid : Value) (n : Note)
  | toName (name : List Nat) (n : Note)
  /-- nothing this property asks to be delivered; the frame must be survived -/
  | noise
  /-- well-formedness is debatable (bytes after the message, a sender that is not a pid, a pid of another node):
  the deliveries of such a history are not judged, survival still is -/
  | unclear
  deriving Repr

def isPid : Value → Bool
  | .pid .. => true
  | _ => false

def isRef : Value → Bool
  | .ref .. => true
  | _ => false

/-- the message that follows the control term: absent, exactly one term, or something else -/
inductive Msg where
  | absent
  | one (v : Value)
  | broken
  | trailing

def readMsg (env : Env) (rest : Bytes) : Msg :=
  match rest with
  | [] => .absent
  | _ =>
    match parseTop env rest with
    | some (v, []) => .one v
    | some (_, _ :: _) => .trailing
    | none => .broken

def meaning (env : Env) (w : World) (body : Bytes) : Meaning :=
  match body with
  | 112 :: r =>
    match parseTop env r with
    | none => .noise
    | some (ctl, rest) =>
      let msg := readMsg env rest
      let ofNode (p : Value) : Bool := match p with
        | .pid n _ _ _ => n == w.node
        | _ => false
      let send (to : Value) : Meaning :=
        match msg with
        | .one m => if !isPid to then .noise else if ofNode to then .toPid to (.message m) else .unclear
        | .absent => .noise
        | .broken => .noise
        | .trailing => .unclear
      let regSend (to : Value) : Meaning :=
        match msg, to with
        | .one m, .atom n => .toName n (.message m)
        | .trailing, _ => .unclear
        | _, _ => .noise
      let exit (sender to reason : Value) : Meaning :=
        match msg with
        | .absent =>
          if !isPid to then .noise else if !isPid sender then .unclear
          else if ofNode to then .toPid to (.exit sender reason) else .unclear
        | _ => .unclear
      match ctl with
      | .tuple [.int 2, _, to] => send to
      | .tuple [.int 12, _, to, _] => send to
      | .tuple [.int 6, _, _, to] => regSend to
      | .tuple [.int 16, _, _, to, _] => regSend to
      | .tuple [.int 3, s, to, reason] => exit s to reason
      | .tuple [.int 8, s, to, reason] => exit s to reason
      | .tuple [.int 13, s, to, _, reason] => exit s to reason
      | .tuple [.int 18, s, to, _, reason] => exit s to reason
      | .tuple [.int 21, s, to, rf, reason] =>
        match msg with
        | .absent =>
          if !isPid to then .noise else if !isPid s || !isRef rf then .unclear
          else if ofNode to then .toPid to (.down s rf reason) else .unclear
        | _ => .unclear
      | _ => .noise
  | _ => .noise

/-- the peer's side of a history -/
inductive Item where
  | frame (body : Bytes)
  | tick
  | quiet (ms : Nat)
  | overlong
  | cut
  | raw
  | close

/-- must the connection still be there afterwards? -/
inductive Fate where
  | alive
  | gone
  /-- either is acceptable (a peer that was silent for longer than a tick interval, bytes that are no frame) -/
  | either
  deriving Repr, DecidableEq

structure Expect where
  /-- per live process (in the order of `World.live`) what it must have received, oldest first -/
  boxes : List (List Note)
  /-- per outstanding call what it must have been given -/
  results : List (Option Value)
  fate : Fate
  /-- some frame was `unclear`: deliveries are not judged -/
  judged : Bool

def samePid (a b : Value) : Bool :=
  match a, b with
  | .pid n i s c, .pid n2 i2 s2 c2 => n == n2 && i == i2 && s == s2 && c == c2
  | _, _ => false

def indexOfPid (live : List Value) (p : Value) : Option Nat :=
  let rec go : List Value → Nat → Option Nat
    | [], _ => none
    | q :: r, i => if samePid q p then some i else go r (i + 1)
  go live 0

def push (boxes : List (List Note)) (i : Nat) (n : Note) : List (List Note) :=
  boxes.mapIdx fun j b => if j = i then b ++ [n] else b

/-- a peer's default tick interval (net_ticktime / 4) and the time after which it may be given up, in milliseconds -/
def tickIntervalMs : Nat := 15000
def tickTimeMs : Nat := 60000

/-- the outstanding call made from pid numbers `key` that has not been answered yet -/
def findCall (key : Nat × Nat × Nat) : List (Nat × Nat × Nat) → List Bool → Nat → Option Nat
  | k :: ks, o :: os, j => if k == key && o then some j else findCall key ks os (j + 1)
  | _, _, _ => none

def expectGo (env : Env) (w : World) : List Item → Expect → List Bool → Nat → Expect
  | [], e, _, _ => e
  | .tick :: r, e, open_, _ => expectGo env w r e open_ 0
  | .quiet ms :: r, e, open_, silent =>
    let s := silent + ms
    -- generous on both sides of the real limits: up to 20 s must be survived, from 75 s on the peer is gone
    if s ≤ tickIntervalMs + 5000 then expectGo env w r e open_ s
    else if s ≥ tickTimeMs + 15000 then { e with fate := .gone }
    else { e with fate := .either, judged := false }
  | .overlong :: _, e, _, _ => { e with fate := .gone }
  | .cut :: _, e, _, _ => { e with fate := .gone }
  | .close :: _, e, _, _ => { e with fate := .gone }
  | .raw :: _, e, _, _ => { e with fate := .either, judged := false }
  | .frame body :: r, e, open_, _ =>
    match meaning env w body with
    | .noise => expectGo env w r e open_ 0
    | .unclear => expectGo env w r { e with judged := false } open_ 0
    | .toName n note =>
      match w.names.find? (fun p => p.1 == n) with
      | some (_, pid) =>
        match indexOfPid w.live pid with
        | some i => expectGo env w r { e with boxes := push e.boxes i note } open_ 0
        | none => expectGo env w r e open_ 0
      | none => expectGo env w r e open_ 0
    | .toPid pid note =>
      match indexOfPid w.live pid with
      | some i => expectGo env w r { e with boxes := push e.boxes i note } open_ 0
      | none =>
        -- not a live process: the reply to an outstanding call made from this pid, if there is one
        match pid, note with
        | .pid _ i s c, .message m =>
          match findCall (i, s, c) w.calls open_ 0 with
          | some j =>
            expectGo env w r { e with results := e.results.mapIdx fun k x => if k = j then some m else x }
              (open_.mapIdx fun k o => if k = j then false else o) 0
          | none => expectGo env w r e open_ 0
        | _, _ => expectGo env w r e open_ 0

def expect (env : Env) (w : World) (h : List Item) : Expect :=
  expectGo env w h ⟨w.live.map fun _ => [], w.calls.map fun _ => none, .alive, true⟩ (w.calls.map fun _ => true) 0

end Edp.Spec.Receiver
