import EdpVerif.Lemmas.SerdeWire
import EdpVerif.Lemmas.SerdeBytes
import EdpVerif.Lemmas.SerdeInt
import EdpVerif.Lemmas.SerdeTables
import EdpVerif.Lemmas.SerdeNaN
import EdpVerif.Lemmas.SerdeAny
import EdpVerif.Lemmas.SerdeShape
/-
C15 — serde round trip returns the original Rust value, also across the wire.
Property theorems only; helper lemmas live in EdpVerif/Lemmas/Serde*.lean.

`ser`/`de` model `erltf_serde::{to_term, from_term}`, `toBytes`/`fromBytes` model `to_bytes`/`from_bytes` through the
encoder/decoder models (Impl/Encode.lean, Impl/Decode.lean).  `hasTy v ty`: `v` is a value of the Rust type `ty`;
`Ty.wf` / `Val.plain`: the shapes the property quantifies over (Spec/Serde.lean).
-/
namespace Edp.Props.C15
open Edp Edp.Serde Edp.Spec.Serde

/-- In memory: every value of every distinguishable type of the universe comes back unchanged (all integer widths over
their whole range, `u64` above `i64::MAX`, every non-NaN `f32`, every `char`, arbitrarily nested containers, structs,
Elixir structs, all four enum variant shapes). -/
theorem C15_mem (ty : Ty) (v : Val) (ht : hasTy v ty = true) (hd : distinguishable v ty = true) :
    de ty (ser v) = .ok v := by
  simp only [distinguishable, Bool.and_eq_true] at hd
  exact de_ser ty v ht hd.1 hd.2

example : hasTy (.tuple [.int .u64 18446744073709551615, .some (.char 128512)]) (.tuple [.int .u64, .option .char]) = true ∧
    distinguishable (.tuple [.int .u64 18446744073709551615, .some (.char 128512)]) (.tuple [.int .u64, .option .char]) = true := by
  decide

/-- In memory nothing is silently altered: whatever `from_term` returns for `to_term v` is `v`. -/
theorem C15_no_silent_change (ty : Ty) (v v' : Val) (ht : hasTy v ty = true) (hd : distinguishable v ty = true)
    (h : de ty (ser v) = .ok v') : v' = v := by
  rw [C15_mem ty v ht hd] at h
  exact (Except.ok.inj h).symm

example : de (.int .i64) (ser (.int .i64 1099511627776)) = .ok (.int .i64 1099511627776) := by rfl

/-- The exclusions are needed: a directly nested `Option` is not distinguishable (`Some(None)` reads back as `None`). -/
theorem C15_nested_option_not_distinguishable :
    ∃ ty v, hasTy v ty = true ∧ de ty (ser v) = .ok .none ∧ v = .some .none :=
  ⟨.option (.option .bool), .some .none, by decide, by rfl, rfl⟩

/-! ### across the wire

`wireT t` is the closed form of `erltf::decode (erltf::encode t)` on the terms the serialiser builds (integers outside the
i32 range come back as big integers, `OwnedTerm::String` as a binary, `List([])` as `Nil`, maps re-inserted).  It is tied
to the encoder/decoder models and to the real code on every generated case (driver request `c15wire`; notes/C15.md,
trusted assumptions). -/

/-- Across the wire, full strength: every value of every distinguishable type comes back unchanged — all integer widths
over their whole range (read back from either integer representation), every `char`, floats, strings, options,
containers, structs, Elixir structs, all variant shapes.  `distinguishableW` excludes only what the property excludes
(nested `Option`, `Option<()>`-like payloads, f32 NaN) and fixes the canonical listing of map entries (in memory and on
the wire form of the keys). -/
theorem C15_wire (ty : Ty) (v : Val) (ht : hasTy v ty = true) (hd : distinguishableW v ty = true) :
    de ty (wireT (ser v)) = .ok v := by
  simp only [distinguishableW, distinguishable, Val.plainW, Bool.and_eq_true] at hd
  exact deW ty v ht hd.1.1 hd.1.2 hd.2

example : hasTy (.struct [97] [([120], .int .i64 1099511627776), ([121], .seq [.char 128512]), ([122], .map [(.int .i64 (-4294967296), .unit)])])
      (.struct [97] [([120], .int .i64), ([121], .seq .char), ([122], .map (.int .i64) .unit)]) = true ∧
    distinguishableW (.struct [97] [([120], .int .i64 1099511627776), ([121], .seq [.char 128512]), ([122], .map [(.int .i64 (-4294967296), .unit)])])
      (.struct [97] [([120], .int .i64), ([121], .seq .char), ([122], .map (.int .i64) .unit)]) = true := by decide

/-- When every map key is wire-stable (strings, bytes, bool, integers within i32, `u64` above `i64::MAX` …) the in-memory
guard alone suffices: exactly the hypotheses of `C15_mem`. -/
theorem C15_wire_stable_keys (ty : Ty) (v : Val) (ht : hasTy v ty = true) (hd : distinguishable v ty = true)
    (hk : keysStable v = true) : de ty (wireT (ser v)) = .ok v := by
  apply C15_wire ty v ht
  simp only [distinguishableW, Bool.and_eq_true]
  refine ⟨hd, ?_⟩
  simp only [distinguishable, Bool.and_eq_true] at hd
  simp only [Val.plainW, plain_stable v hk]
  exact hd.2

example : keysStable (.tuple [.int .i64 (-9223372036854775808), .char 97, .map [(.string [97], .int .u32 3000000000)]]) = true ∧
    distinguishable (.tuple [.int .i64 (-9223372036854775808), .char 97, .map [(.string [97], .int .u32 3000000000)]])
      (.tuple [.int .i64, .char, .map .string (.int .u32)]) = true := by decide

/-- Across the wire nothing is silently altered. -/
theorem C15_wire_no_silent_change (ty : Ty) (v v' : Val) (ht : hasTy v ty = true) (hd : distinguishableW v ty = true)
    (h : de ty (wireT (ser v)) = .ok v') : v' = v := by
  rw [C15_wire ty v ht hd] at h
  exact (Except.ok.inj h).symm

example : de (.int .i64) (wireT (ser (.int .i64 1099511627776))) = .ok (.int .i64 1099511627776) := by rfl

/-- Every integer type over its whole range, in whichever representation the wire gives it. -/
theorem C15_wire_int_full_range (k : IntTy) (i : Int) (h : k.inRange i = true) :
    de (.int k) (wireT (ser (.int k i))) = .ok (.int k i) := by
  simp only [ser, de]
  exact deInt_wire k i h

example : IntTy.u64.inRange 18446744073709551615 = true ∧ IntTy.i64.inRange (-9223372036854775808) = true := by decide

/-- Every `char`. -/
theorem C15_wire_char (c : Nat) (h : isScalar c = true) : de .char (wireT (ser (.char c))) = .ok (.char c) := by
  simp [ser, wireT, de, deChar, utf8_one c h]

example : isScalar 1114111 = true := by decide

/-- `Option<()>` (which the property allows to be excluded) is carried too: `()` is the atom `nil`, `None` is `undefined`. -/
example : ∀ v, hasTy v (.option .unit) = true → de (.option .unit) (wireT (ser v)) = .ok v :=
  fun v h => C15_wire _ v h (by cases v <;> simp [hasTy] at h <;> first | decide | (rename_i x; cases x <;> simp [hasTy] at h; decide))

/-- The one exclusion among floats: an `f32` NaN (every payload, both signs) comes back as an `f32` NaN of the same sign —
a value that `==` cannot tell from the original (nor from itself); only the payload bits may differ (the signalling bit is
set by `as f64`).  Every other `f32` and every `f64` bit pattern, NaNs included, is covered by `C15_mem` / `C15_wire`. -/
theorem C15_f32_nan_stays_nan (b : Nat) (h : b < 2 ^ 32) (hn : f32IsNaN b = true) :
    ∃ b', de .f32 (wireT (ser (.f32 b))) = .ok (.f32 b') ∧ de .f32 (ser (.f32 b)) = .ok (.f32 b') ∧
      f32IsNaN b' = true ∧ b' / 2 ^ 31 = b / 2 ^ 31 := by
  refine ⟨f64to32 (f32to64 b), by simp [ser, wireT, de], by simp [ser, de], ?_⟩
  exact SerdeNaN.f32_nan_stays_nan b h hn

example : f32IsNaN 2139095041 = true ∧ de .f32 (ser (.f32 2139095041)) = .ok (.f32 2143289345) := by
  refine ⟨by decide, by rfl⟩

/-! ### through the bytes

The theorems above are about the closed form `wireT`; these are about the encoder and decoder models themselves
(`toBytes = encode ∘ ser`, `fromBytes ty = de ty ∘ decode`), by the codec round trip of Lemmas/RoundTrip.lean (`dec_enc`).
`decodable` (Spec/Serde.lean) states the decoder's own resource limits (lists/tuples ≤ 10^7, maps ≤ 10^6, binaries ≤ 10^8, atom
names valid UTF-8 of at most 65535 bytes, at most 256 levels of nested containers). -/

/-- Serialising to bytes succeeds and deserialising from those bytes gives back the value — for every value of every
distinguishable type whose term is within the decoder's limits, and every behaviour `x` of the decoder's external calls. -/
theorem C15_bytes_roundtrip (ty : Ty) (v : Val) (ht : hasTy v ty = true) (hd : distinguishableW v ty = true)
    (hdc : decodable (ser v) = true) :
    ∃ bs, toBytes v = .ok bs ∧ ∀ x : Ext, fromBytes x ty bs = .ok v := by
  simp only [decodable, Bool.and_eq_true, decide_eq_true_eq] at hdc
  obtain ⟨hf, hn⟩ := hdc
  have hdep : dep (ser v) ≤ MAX_NESTING_DEPTH := by rw [SerdeBytes.dep_eq _ hf]; exact hn
  obtain ⟨bs, he⟩ := SerdeBytes.encode_ok (ser v) hf
  refine ⟨bs, he, fun x => ?_⟩
  simp only [fromBytes, SerdeBytes.decode_encode x (ser v) bs hf hdep he]
  exact C15_wire ty v ht hd

example : hasTy (.tuple [.int .i64 (-9223372036854775808), .some (.char 128512), .seq []]) (.tuple [.int .i64, .option .char, .seq .f32]) = true ∧
    distinguishableW (.tuple [.int .i64 (-9223372036854775808), .some (.char 128512), .seq []]) (.tuple [.int .i64, .option .char, .seq .f32]) = true ∧
    decodable (ser (.tuple [.int .i64 (-9223372036854775808), .some (.char 128512), .seq []])) = true := by decide

/-- Whatever bytes `to_bytes` returns — also for a value beyond the decoder's limits — are read back as the value once the
decoder accepts the term's size; and `to_bytes` itself fails only for a size the format's length fields cannot hold
(`over e`, Lemmas/EncErr.lean: an atom name above 65535 bytes, a binary or a list/tuple/map above `u32::MAX`). -/
theorem C15_to_bytes_error_only_for_size (v : Val) (e : EncErr) (h : toBytes v = .error e) : over e (ser v) = true := by
  unfold toBytes encode at h
  cases h1 : enc [] (ser v) with
  | ok b => simp [h1] at h
  | error e' => simp [h1] at h; subst h; exact enc_err [] _ e' h1

example : ∃ n : Bytes, toBytes (.unitStruct n) = .error .atomTooLarge := by
  refine ⟨List.replicate 65536 97, ?_⟩
  have h : (List.replicate 65536 (97 : UInt8)).length = 65536 := List.length_replicate
  generalize List.replicate 65536 (97 : UInt8) = a at h
  simp [toBytes, ser, encode, enc, encAtom, indexOf?, u16max, h]

/-! ### integers are read exactly or not at all -/

/-- `from_term::<iN/uN>` on ANY term: the result is `ok` exactly when the term is an integer (in either representation, with
whatever padding of the digits) whose numeric value `intVal t` lies in the range of the requested type, and then it is that
value — never a truncated, wrapped or sign-changed one. -/
theorem C15_int_read_exactly (k : IntTy) (t : Term) (v : Val) :
    de (.int k) t = .ok v ↔ ∃ i, intVal t = some i ∧ k.inRange i = true ∧ v = .int k i := by
  simp only [de]
  exact SerdeInt.deInt_exact k t v

example : de (.int .u8) (.big false [44, 1]) = .error .err ∧ de (.int .u8) (.int 300) = .error .err ∧
    de (.int .i64) (.big true [0, 0, 0, 0, 0, 0, 0, 128, 0, 0]) = .ok (.int .i64 (-9223372036854775808)) := by
  refine ⟨by rfl, by rfl, by rfl⟩

/-- In particular an integer outside the requested type's range is an error. -/
theorem C15_int_out_of_range_is_error (k : IntTy) (t : Term) (i : Int) (hi : intVal t = some i) (hr : k.inRange i = false) :
    de (.int k) t = .error .err := by
  cases h : de (.int k) t with
  | error e => cases e; rfl
  | ok v =>
    obtain ⟨j, hj, hrj, _⟩ := (C15_int_read_exactly k t v).mp h
    rw [hi] at hj; cases hj; rw [hr] at hrj; cases hrj

example : intVal (.big false [0, 0, 0, 0, 0, 0, 0, 0, 1]) = some 18446744073709551616 ∧ IntTy.u64.inRange 18446744073709551616 = false := by
  decide

/-- 128-bit integers are not carried: both directions report an error, for every value and every term (neither ser.rs nor
de.rs overrides the 128-bit methods — `Gen.C15_WIDE_OVERRIDDEN`, re-extracted from the source on every run). -/
theorem C15_128_bit_is_an_error (w : WideTy) (i : Int) (t : Term) : serWide w i = .error .err ∧ deWide w t = .error .err := by
  constructor <;> rfl

example : Gen.C15_WIDE_OVERRIDDEN = [] := by decide

/-! ### the type-mapping tables of the source are the model's, and are consistent

`Gen.C15_SER_TOP` / `C15_SER_PARTS` / `C15_DE_ARMS` are extracted from ser.rs and de.rs by tools/gen_misc.py on every run;
`modelTop` / `modelParts` / `modelAccepts` (Lemmas/SerdeTables.lean) are computed from the model by evaluating `ser` / `de` on
probe values of every method.  Changing an arm in the source (or in the model) without the other fails these. -/

/-- which constructor every `serialize_*` method and every compound serializer builds -/
theorem C15_ser_arms_are_the_sources :
    Gen.C15_SER_TOP.all (fun r => SerdeTables.sameSet (SerdeTables.modelTop r.1) r.2) = true ∧
    Gen.C15_SER_PARTS.all (fun r => SerdeTables.sameSet (SerdeTables.modelParts r.1) r.2) = true ∧
    Gen.C15_SER_TOP.map (·.1) = SerdeTables.serProbes.map (·.1) ∧
    Gen.C15_SER_TRANSPARENT = ["some", "newtype_struct"] ∧ Gen.C15_STRUCT_FIELD_KEY_CTOR = "Binary" ∧
    Gen.C15_U64_SPLIT_AT_I64_MAX = true := by decide

/-- which constructors every `deserialize_*` method accepts -/
theorem C15_de_arms_are_the_sources :
    Gen.C15_DE_ARMS.all (fun r => SerdeTables.sameSet (SerdeTables.modelAccepts r.1) r.2) = true ∧
    Gen.C15_DE_ARMS.map (·.1) = SerdeTables.deAcc.map (·.1) ∧ maxBigDigits = 8 := by decide

/-- ON THE SOURCE TABLES ALONE: every constructor a `serialize_*` builds is matched by the `deserialize_*` that reads it back —
as it is (in memory) and in every form `decode ∘ encode` can give it (`Integer` ↦ `Integer`/`BigInt`, `String` ↦ `Binary`,
`List` ↦ `List`/`Nil`).  (The two former C15 findings were exactly violations of this.) -/
theorem C15_every_written_constructor_is_read :
    SerdeTables.allAccepted Gen.C15_SER_TOP Gen.C15_DE_ARMS = true := by decide

example : SerdeTables.allAccepted Gen.C15_SER_TOP
    (Gen.C15_DE_ARMS.map fun r => if r.1 = "char" then (r.1, ["String"]) else r) = false := by decide

/-- writer and reader use the same atom names; `()` and `None` are different atoms; the Elixir struct key and prefix -/
theorem C15_atom_names_agree :
    Gen.C15_ATOM_TRUE = Gen.C15_ATOM_DE_TRUE ∧ Gen.C15_ATOM_FALSE = Gen.C15_ATOM_DE_FALSE ∧
    Gen.C15_ATOM_UNIT = Gen.C15_ATOM_DE_UNIT ∧ Gen.C15_ATOM_NONE = Gen.C15_ATOM_DE_NONE ∧
    sTrue ≠ sFalse ∧ sNil ≠ sUndefined ∧ sTrue ≠ sUndefined ∧ sFalse ≠ sUndefined ∧
    sStructKey = [95, 95, 115, 116, 114, 117, 99, 116, 95, 95] ∧ sElixirDot = [69, 108, 105, 120, 105, 114, 46] := by decide

/-! ## `deserialize_any`: the entry point behind untagged / internally / adjacently tagged enums and `#[serde(flatten)]` -/

section Any
open Edp.SerdeAny

/-- Every integer of every width, over its whole range, is shown to a self-describing reader as the 64-bit integer it
is — `visit_i64` when it fits `i64`, `visit_u64` above — as the serialiser builds it AND as it comes back from the wire
(where everything outside the 32-bit encodings is a big integer). Before the repair of `deserialize_any` the big-integer
terms were `UnsupportedType`, so a `u64` above `i64::MAX` in memory and every integer beyond 32 bits across the wire
failed in every type that serde reads through `deserialize_any`. -/
theorem C15_any_reads_every_64bit_integer (k : IntTy) (i : Int) (h : k.inRange i = true) :
    content (ser (.int k i)) = .ok (rep i) ∧ content (wireT (ser (.int k i))) = .ok (rep i) := by
  have h64 : ¬ (k = .u64 ∧ i > i64Max) → IntTy.i64.inRange i = true := by
    intro hn
    simp only [IntTy.inRange, Bool.and_eq_true, decide_eq_true_eq] at h ⊢
    cases k <;> simp [IntTy.lo, IntTy.hi, i64Max] at h hn ⊢ <;> omega
  constructor
  · refine content_of_deInt k (ser (.int k i)) i (by simpa [ser] using deInt_serInt k i h) ?_
    intro j hj
    simp only [ser, serInt] at hj
    split at hj
    · simp at hj
    · rename_i hn
      injection hj with hj
      subst hj
      exact h64 hn
  · refine content_of_deInt k (wireT (ser (.int k i))) i (by simpa [ser] using deInt_wire k i h) ?_
    intro j hj
    simp only [ser, serInt] at hj
    split at hj
    · simp [wireT] at hj
    · rename_i hn
      simp only [wireT] at hj
      split at hj
      · injection hj with hj
        subst hj
        exact h64 hn
      · simp at hj

example : content (ser (.int .u64 18446744073709551615)) = .ok (.u64 18446744073709551615) ∧
    content (wireT (ser (.int .i64 (-1099511627776)))) = .ok (.i64 (-1099511627776)) :=
  ⟨(C15_any_reads_every_64bit_integer .u64 18446744073709551615 (by decide)).1,
   (C15_any_reads_every_64bit_integer .i64 (-1099511627776) (by decide)).2⟩

/-- …and never a fabricated number: for ANY big-integer term (any sign, any digits, padded, negative zero, 300 digits)
`deserialize_any` succeeds exactly when the term's numeric value fits 64 bits, and then shows exactly that value. -/
theorem C15_any_big_integer_exact (neg : Bool) (d : Bytes) (c : Content) :
    content (.big neg d) = .ok c ↔
      ∃ i, intVal (.big neg d) = some i ∧ (IntTy.i64.inRange i = true ∨ IntTy.u64.inRange i = true) ∧ c = rep i := by
  obtain ⟨i, hi⟩ : ∃ i, intVal (.big neg d) = some i := ⟨_, rfl⟩
  by_cases h : IntTy.i64.inRange i = true ∨ IntTy.u64.inRange i = true
  · rw [contentBig_of_intVal neg d i hi h]
    constructor
    · intro e
      injection e with e
      exact ⟨i, hi, h, e.symm⟩
    · rintro ⟨j, hj, _, hc⟩
      rw [hi] at hj
      injection hj with hj
      subst hj
      rw [hc]
  · have h1 : IntTy.i64.inRange i = false := by cases hh : IntTy.i64.inRange i <;> simp_all
    have h2 : IntTy.u64.inRange i = false := by cases hh : IntTy.u64.inRange i <;> simp_all
    rw [contentBig_out_of_range neg d i hi h1 h2]
    constructor
    · intro e; cases e
    · rintro ⟨j, hj, hr, _⟩
      rw [hi] at hj
      injection hj with hj
      subst hj
      exact absurd hr h

example : content (.big false [0, 0, 0, 0, 0, 0, 0, 0, 1]) = .error .err := by rfl

/-- The arms of the model ARE the arms of the source (regenerated from de.rs on every run): per `OwnedTerm` constructor the
`visit_*` calls in source order, computed from the model by evaluation on probe terms that reach every branch; the atoms
with a meaning of their own are the serialiser's `true` / `false` / `nil` / `undefined`; the big-integer arm goes through
`integer_term_as`; and what has no arm (a big integer beyond 64 bits, improper lists, bit strings, funs, ports,
references) is an error. -/
theorem C15_any_arms_are_the_sources :
    modelArms = Gen.C15_ANY_ARMS ∧
    Gen.C15_ANY_ATOM_BYTES = [sTrue, sFalse, sNil, sUndefined] ∧
    Gen.C15_ANY_ATOMS.map (fun a => (a.2.1, a.2.2)) = [("visit_bool", "true"), ("visit_bool", "false"), ("visit_unit", ""), ("visit_none", "")] ∧
    Gen.C15_ANY_VIA_INTEGER_TERM_AS = ["BigInt"] ∧
    unsupportedProbes.map (fun t => visitOf (content t)) = unsupportedProbes.map (fun _ => "error") := by
  refine ⟨by rfl, by decide, by decide, by decide, by rfl⟩

end Any

/-! ## the error clause, constructor by constructor -/

/-- A term of the wrong shape for the requested type is an error, never a fabricated value — for EVERY constructor of the
type universe and every term: integers are read from integer terms only (either representation), floats from floats,
`bool` from the atoms `true` / `false`, `char` from a string or binary, `String` from binary / string / atom, bytes from a
binary, `()` from `nil`, `Option<T>` from `undefined` or whatever `T` is read from, tuples and tuple structs from tuples
with at least as many elements, `Vec` from a list or `[]`, maps / structs / Elixir structs from maps, a unit struct from
the atom of its name, a newtype from whatever its content is read from, an enum from an atom naming a variant or a
non-empty tuple whose head names one. (`SerdeShape.shapeOk` is that table; it is written from the data model, not from
de.rs.) -/
theorem C15_wrong_shape_is_error (ty : Ty) (t : Term) (h : SerdeShape.shapeOk ty t = false) : de ty t = .error .err :=
  SerdeShape.wrong_shape_is_error ty t h

example : SerdeShape.shapeOk (.option (.newtype [78] (.int .u8))) (.float 0) = false ∧
    SerdeShape.shapeOk (.tuple [.bool, .bool, .bool]) (.tuple [.atom sTrue, .atom sTrue]) = false ∧
    SerdeShape.shapeOk (.enum [69] [([65], .unit)]) (.atom [66]) = false ∧
    SerdeShape.shapeOk (.enum [69] [([65], .unit)]) (.atom [65]) = true ∧
    SerdeShape.shapeOk (.seq .bool) .nil = true := by decide

end Edp.Props.C15
