import EdpVerif.Drv.Etf
namespace Edp.Drv
open Edp

def ordText : Ordering → String
  | .lt => "lt" | .eq => "eq" | .gt => "gt"

/-- C11 tie: the model of `Ord::cmp` -/
def handleC11 : List String → Option String
  | ["c11cmp", a, b] => some <| run do
    let a ← getTerm a
    let b ← getTerm b
    pure (ordText (Term.cmp a b))
  | _ => none

end Edp.Drv
