//! C10: identifiers received from a peer are re-emitted byte-for-byte, wherever nested and however converted.
use crate::canon::{hex, hexarg, term_text};
use crate::tgen::{gen_node, gen_pid, gen_port, gen_ref, gen_term, gen_u32, gen_u64, Cfg};
use crate::Ctx;
use erltf::types::{Atom, ExternalPid, ExternalPort, ExternalReference, InternalFun};
use erltf::{BorrowedTerm, OwnedTerm};
use std::collections::BTreeMap;
use std::hash::{Hash, Hasher};

fn put_atom(v: &mut Vec<u8>, a: &str) {
    v.push(119);
    v.push(a.len() as u8);
    v.extend_from_slice(a.as_bytes());
}

/// bytes of one identifier in a randomly chosen wire form (modern, legacy where the fields fit, LOCAL_EXT around either)
fn ident_bytes(ctx: &mut Ctx) -> (Vec<u8>, &'static str) {
    let r = &mut ctx.rng;
    let node = gen_node(r);
    let node = if node.as_str().len() > 200 { Atom::new("n@h") } else { node };
    let mut v = vec![];
    let kind;
    match r.below(3) {
        0 => {
            let (id, serial, creation) = (gen_u32(r), gen_u32(r), gen_u32(r));
            if r.chance(1, 4) {
                kind = "pid-legacy";
                v.push(103);
                put_atom(&mut v, node.as_str());
                v.extend_from_slice(&id.to_be_bytes());
                v.extend_from_slice(&serial.to_be_bytes());
                v.push(creation as u8);
            } else {
                kind = "pid";
                v.push(88);
                put_atom(&mut v, node.as_str());
                v.extend_from_slice(&id.to_be_bytes());
                v.extend_from_slice(&serial.to_be_bytes());
                v.extend_from_slice(&creation.to_be_bytes());
            }
        }
        1 => {
            let (id, creation) = (gen_u64(r), gen_u32(r));
            match r.below(4) {
                0 => {
                    kind = "port-legacy";
                    v.push(102);
                    put_atom(&mut v, node.as_str());
                    v.extend_from_slice(&(id as u32).to_be_bytes());
                    v.push(creation as u8);
                }
                1 => {
                    kind = "port-new";
                    v.push(89);
                    put_atom(&mut v, node.as_str());
                    v.extend_from_slice(&(id as u32).to_be_bytes());
                    v.extend_from_slice(&creation.to_be_bytes());
                }
                _ => {
                    kind = "port";
                    v.push(120);
                    put_atom(&mut v, node.as_str());
                    v.extend_from_slice(&id.to_be_bytes());
                    v.extend_from_slice(&creation.to_be_bytes());
                }
            }
        }
        _ => {
            let n = r.range(1, 5) as usize;
            let ids: Vec<u32> = (0..n).map(|_| gen_u32(r)).collect();
            let creation = gen_u32(r);
            if r.chance(1, 4) {
                kind = "ref-legacy";
                v.push(114);
                v.extend_from_slice(&(n as u16).to_be_bytes());
                put_atom(&mut v, node.as_str());
                v.push(creation as u8);
            } else {
                kind = "ref";
                v.push(90);
                v.extend_from_slice(&(n as u16).to_be_bytes());
                put_atom(&mut v, node.as_str());
                v.extend_from_slice(&creation.to_be_bytes());
            }
            for i in ids {
                v.extend_from_slice(&i.to_be_bytes());
            }
        }
    }
    (v, kind)
}

fn local_wrap(ctx: &mut Ctx, inner: &[u8]) -> Vec<u8> {
    let mut v = vec![121u8];
    v.extend(ctx.rng.bytes(8));
    v.extend_from_slice(inner);
    v
}

/// put the identifier bytes into a random container context (tuple, list, list tail, map key/value, fun environment)
fn in_context(ctx: &mut Ctx, id: &[u8], depth: u32) -> (Vec<u8>, &'static str) {
    let r = &mut ctx.rng;
    let mut v = vec![];
    let is_pid = matches!(id.first(), Some(88) | Some(103)) || (id.first() == Some(&121) && matches!(id.get(9), Some(88) | Some(103)));
    let k = r.below(8);
    let name = match k {
        6 if is_pid => {
            // NEW_FUN_EXT whose creator pid IS the identifier (a pid in the fun's Pid field, any form it arrived in)
            let mut body = vec![0u8];
            body.extend_from_slice(&[7u8; 16]);
            body.extend_from_slice(&[0, 0, 0, 2, 0, 0, 0, 0]);
            put_atom(&mut body, "mod");
            body.extend_from_slice(&[97, 5, 97, 6]);
            body.extend_from_slice(id);
            v.push(112);
            v.extend_from_slice(&((body.len() + 4) as u32).to_be_bytes());
            v.extend_from_slice(&body);
            "funpid"
        }
        0 => {
            v.extend_from_slice(&[104, 2, 97, 1]);
            v.extend_from_slice(id);
            "tuple"
        }
        1 => {
            v.extend_from_slice(&[108, 0, 0, 0, 2]);
            v.extend_from_slice(id);
            v.extend_from_slice(&[97, 7, 106]);
            "list"
        }
        2 => {
            v.extend_from_slice(&[108, 0, 0, 0, 1, 97, 1]);
            v.extend_from_slice(id);
            "tail"
        }
        3 => {
            v.extend_from_slice(&[116, 0, 0, 0, 1]);
            v.extend_from_slice(id);
            v.extend_from_slice(&[97, 1]);
            "mapkey"
        }
        4 => {
            v.extend_from_slice(&[116, 0, 0, 0, 1, 97, 1]);
            v.extend_from_slice(id);
            "mapval"
        }
        5 => {
            // NEW_FUN_EXT with the identifier as its only free variable
            let mut body = vec![2u8];
            body.extend_from_slice(&[9u8; 16]);
            body.extend_from_slice(&[0, 0, 0, 1, 0, 0, 0, 1]);
            put_atom(&mut body, "m");
            body.extend_from_slice(&[97, 3, 97, 4]);
            body.push(88);
            put_atom(&mut body, "a@h");
            body.extend_from_slice(&[0, 0, 0, 1, 0, 0, 0, 2, 0, 0, 0, 3]);
            body.extend_from_slice(id);
            v.push(112);
            v.extend_from_slice(&((body.len() + 4) as u32).to_be_bytes());
            v.extend_from_slice(&body);
            "funenv"
        }
        _ => {
            v.extend_from_slice(id);
            "bare"
        }
    };
    if depth > 0 && ctx.rng.chance(1, 2) {
        let (w, _) = in_context(ctx, &v, depth - 1);
        return (w, name);
    }
    (v, name)
}

fn h64<T: Hash>(t: &T) -> u64 {
    let mut s = std::collections::hash_map::DefaultHasher::new();
    t.hash(&mut s);
    s.finish()
}

/// a random sequence of clones, moves and conversions through the zero-copy representation; the letters name the steps
/// for the model (`c` clone, `v` From + to_owned, `w` From + clone of the tree + to_owned, `m` move)
fn convert(ctx: &mut Ctx, t: OwnedTerm) -> (OwnedTerm, String) {
    let mut t = t;
    let mut ops = String::new();
    let n = ctx.rng.below(7);
    for _ in 0..n {
        t = match ctx.rng.below(4) {
            0 => {
                ops.push('c');
                t.clone()
            }
            1 => {
                ops.push('v');
                BorrowedTerm::from(&t).to_owned()
            }
            2 => {
                ops.push('w');
                let b = BorrowedTerm::from(&t);
                let b2 = b.clone();
                b2.to_owned()
            }
            _ => {
                ops.push('m');
                let moved = t;
                moved
            }
        };
        ctx.count("conversions");
    }
    if ops.is_empty() {
        ops.push('-');
    }
    (t, ops)
}

/// the conversions tied to their models one by one: `From<&OwnedTerm>` (the tree and the ownership of every `Cow`),
/// `to_owned` and `is_borrowed` of that tree, and the whole sequence
fn tie_conversions(ctx: &mut Ctx, t: &OwnedTerm, t2: &OwnedTerm, ops: &str) {
    let tt = term_text(t);
    ctx.tie("gen", &format!("c10conv {} {}", tt, ops), &term_text(t2));
    let b = BorrowedTerm::from(t);
    let tree = crate::c13::tree_arg(&b);
    ctx.tie("gen", &format!("c10from {}", tt), &tree);
    ctx.tie("gen", &format!("c10own {}", tree), &term_text(&b.to_owned()));
    ctx.tie("gen", &format!("c10isb {}", tree), if b.is_borrowed() { "true" } else { "false" });
    // judged independently of the model: the tree borrows exactly when one of its `Cow`s is borrowed
    let fl = tree.rsplit(' ').next().unwrap_or("-");
    ctx.prop("c10-is-borrowed-wrong", &format!("c10cow {} {}", fl, b.is_borrowed()), "ok");
    ctx.count(if b.is_borrowed() { "from_tree_borrows" } else { "from_tree_owns_everything" });
}

/// the first identifier of a term that carries preserved bytes (depth first, in encoding order)
fn first_local(t: &OwnedTerm) -> Option<OwnedTerm> {
    match t {
        OwnedTerm::Pid(p) if p.local_ext_bytes.is_some() => Some(t.clone()),
        OwnedTerm::Port(p) if p.local_ext_bytes.is_some() => Some(t.clone()),
        OwnedTerm::Reference(p) if p.local_ext_bytes.is_some() => Some(t.clone()),
        OwnedTerm::Tuple(l) | OwnedTerm::List(l) => l.iter().find_map(first_local),
        OwnedTerm::ImproperList { elements, tail } => elements.iter().find_map(first_local).or_else(|| first_local(tail)),
        OwnedTerm::Map(m) => m.iter().find_map(|(k, v)| first_local(k).or_else(|| first_local(v))),
        OwnedTerm::InternalFun(f) => {
            if f.pid.local_ext_bytes.is_some() {
                Some(OwnedTerm::Pid(f.pid.clone()))
            } else {
                f.free_vars.iter().find_map(first_local)
            }
        }
        _ => None,
    }
}

fn atom(s: &str) -> OwnedTerm {
    OwnedTerm::Atom(Atom::new(s))
}

/// a term the application builds around a received identifier (the reply to a request, a monitor message, a state map)
fn reply_around(ctx: &mut Ctx, id: &OwnedTerm) -> (OwnedTerm, &'static str) {
    match ctx.rng.below(7) {
        0 => (OwnedTerm::Tuple(vec![atom("rex"), id.clone()]), "reply-tuple"),
        1 => (OwnedTerm::Tuple(vec![atom("$gen_call"), OwnedTerm::Tuple(vec![id.clone(), OwnedTerm::List(vec![atom("alias"), id.clone()])]), atom("req")]), "reply-gen-call"),
        2 => (OwnedTerm::List(vec![OwnedTerm::Integer(1), id.clone(), OwnedTerm::Nil]), "reply-list"),
        3 => (OwnedTerm::ImproperList { elements: vec![atom("h")], tail: Box::new(id.clone()) }, "reply-tail"),
        4 => {
            let mut m = BTreeMap::new();
            m.insert(id.clone(), atom("v"));
            m.insert(atom("k"), id.clone());
            (OwnedTerm::Map(m), "reply-map")
        }
        5 => {
            let pid = match id {
                OwnedTerm::Pid(p) => p.clone(),
                _ => ExternalPid::new(Atom::new("a@h"), 1, 2, 3),
            };
            (
                OwnedTerm::InternalFun(Box::new(InternalFun::new(1, [3u8; 16], 4, 1, Atom::new("m"), 5, 6, pid, vec![id.clone()]))),
                "reply-fun",
            )
        }
        _ => (id.clone(), "reply-bare"),
    }
}

/// control tuples around received identifiers: `from_term` then `to_term` / `into_term` must hand the identifiers on as they are
/// (tied to the control model through C08's `c08rt` request, which answers `=` when the text — preserved bytes included — is the same)
fn control_around(ctx: &mut Ctx, id: &OwnedTerm) {
    use edp_client::control::ControlMessage;
    let other = OwnedTerm::Pid(ExternalPid::new(Atom::new("b@h"), 7, 8, 9));
    let cands: Vec<OwnedTerm> = vec![
        OwnedTerm::Tuple(vec![OwnedTerm::Integer(1), id.clone(), other.clone()]),
        OwnedTerm::Tuple(vec![OwnedTerm::Integer(2), atom(""), id.clone()]),
        OwnedTerm::Tuple(vec![OwnedTerm::Integer(3), other.clone(), id.clone(), atom("normal")]),
        OwnedTerm::Tuple(vec![OwnedTerm::Integer(6), id.clone(), atom(""), atom("rex")]),
        OwnedTerm::Tuple(vec![OwnedTerm::Integer(22), other.clone(), id.clone()]),
        OwnedTerm::Tuple(vec![OwnedTerm::Integer(19), other.clone(), id.clone(), id.clone()]),
        OwnedTerm::Tuple(vec![OwnedTerm::Integer(21), id.clone(), other.clone(), id.clone(), atom("noproc")]),
        OwnedTerm::Tuple(vec![OwnedTerm::Integer(8), other, id.clone(), OwnedTerm::Tuple(vec![atom("shutdown"), id.clone()])]),
    ];
    let t = ctx.rng.pick(&cands).clone();
    let Ok(m) = ControlMessage::from_term(&t) else {
        ctx.count("control_not_parsed");
        return;
    };
    ctx.count("control_roundtrips");
    let to = m.to_term();
    let into = m.clone().into_term();
    let (a, b, c) = (erltf::encode(&t).ok(), erltf::encode(&to).ok(), erltf::encode(&into).ok());
    if a.is_none() || a != b || a != c {
        ctx.fail("c10-control-changes-identifier", &format!("{} to_term={} into_term={}", term_text(&t), term_text(&to), term_text(&into)));
    }
    let to_s = if term_text(&to) == term_text(&t) { "=".to_string() } else { term_text(&to) };
    let into_s = if term_text(&into) == term_text(&to) { "=".to_string() } else { term_text(&into) };
    ctx.tie("gen", &format!("c08rt {}", term_text(&t)), &format!("ok {} {} {}", crate::c08::msg_text(&m), to_s, into_s));
}

pub fn run(ctx: &mut Ctx) {
    let n = ctx.n(1500, 60000);
    for _ in 0..n {
        let (id, kind) = ident_bytes(ctx);
        let local = ctx.rng.chance(1, 2);
        let idb = if local { local_wrap(ctx, &id) } else { id.clone() };
        let (body, cname) = in_context(ctx, &idb, 2);
        ctx.count(&format!("kind_{}{}", kind, if local { "_local" } else { "" }));
        ctx.count(&format!("context_{}", cname));
        let mut bytes = vec![131u8];
        bytes.extend_from_slice(&body);
        let (dr, dt) = crate::c01::dec_result(&bytes);
        ctx.tie("gen", &format!("dec {} -", hexarg(&bytes)), &dr);
        let Some(t) = dt else {
            ctx.fail("c10-own-bytes-rejected", &format!("{} {}", hex(&bytes), dr));
            continue;
        };
        let (t2, ops) = convert(ctx, t.clone());
        tie_conversions(ctx, &t, &t2, &ops);
        let (er, eb) = crate::c01::enc_result(&t2);
        ctx.tie("gen", &format!("enc {}", term_text(&t2)), &er);
        // the received identifier, converted, put into a new term by the application and sent: the bytes as received
        // (`idb`) occur in what is written — judged by the driver's `c10occurs`
        if local {
            match first_local(&t2) {
                None => ctx.fail("c10-identifier-lost", &format!("in={} decoded={}", hex(&bytes), term_text(&t2))),
                Some(id) => {
                    let (reply, rname) = reply_around(ctx, &id);
                    ctx.count(&format!("context_{}", rname));
                    let (reply2, _) = convert(ctx, reply);
                    match crate::c01::enc_result(&reply2) {
                        (_, Some(out)) => ctx.prop("c10-not-reemitted", &format!("c10occurs {} {}", hex(&idb), hex(&out)), "ok"),
                        (e, None) => ctx.fail("c10-not-reemitted", &format!("reply {} not encoded: {}", term_text(&reply2), e)),
                    }
                    control_around(ctx, &id);
                }
            }
        }
        // the property: identifier-canonical input (modern form or LOCAL_EXT around anything) comes back byte for byte
        let canonical = local || !kind.ends_with("legacy") && kind != "port-new";
        if canonical {
            if eb.as_deref() != Some(&bytes[..]) {
                ctx.fail("c10-not-reemitted", &format!("in={} out={}", hex(&bytes), er));
            }
        } else {
            ctx.count("legacy_plain_form");
        }
        if t2 != t || h64(&t2) != h64(&t) || t2.cmp(&t) != std::cmp::Ordering::Equal {
            ctx.fail("c10-conversion-changes-term", &format!("{} vs {}", term_text(&t), term_text(&t2)));
        }
    }
    // identifiers compare and hash by their logical fields only
    for _ in 0..n / 3 {
        let p = gen_pid(&mut ctx.rng, false);
        let pl = ExternalPid::with_local_ext_bytes(p.node.clone(), p.id, p.serial, p.creation, ctx.rng.bytes(20));
        let q = gen_port(&mut ctx.rng, false);
        let ql = ExternalPort::with_local_ext_bytes(q.node.clone(), q.id, q.creation, ctx.rng.bytes(20));
        let r = gen_ref(&mut ctx.rng, false, false);
        let rl = ExternalReference::with_local_ext_bytes(r.node.clone(), r.creation, r.ids.clone(), ctx.rng.bytes(20));
        if p != pl || h64(&p) != h64(&pl) || p.cmp(&pl) != std::cmp::Ordering::Equal {
            ctx.fail("c10-logical-identity", &format!("pid {:?}", p));
        }
        if q != ql || h64(&q) != h64(&ql) || q.cmp(&ql) != std::cmp::Ordering::Equal {
            ctx.fail("c10-logical-identity", &format!("port {:?}", q));
        }
        if r != rl || h64(&r) != h64(&rl) || r.cmp(&rl) != std::cmp::Ordering::Equal {
            ctx.fail("c10-logical-identity", &format!("ref {:?}", r));
        }
        // and different logical fields are told apart
        let p2 = ExternalPid::with_local_ext_bytes(p.node.clone(), p.id.wrapping_add(1), p.serial, p.creation, pl.local_ext_bytes.clone().unwrap());
        if p2 == pl || OwnedTerm::Pid(p2.clone()).cmp(&OwnedTerm::Pid(pl.clone())) == std::cmp::Ordering::Equal {
            ctx.fail("c10-logical-identity", &format!("pid with different id equal {:?}", p2));
        }
        ctx.count("identity_checks");
        // model tie of the comparison
        let (a, b) = (OwnedTerm::Pid(pl.clone()), OwnedTerm::Pid(p2));
        let o = match a.cmp(&b) {
            std::cmp::Ordering::Less => "lt",
            std::cmp::Ordering::Equal => "eq",
            std::cmp::Ordering::Greater => "gt",
        };
        ctx.tie("gen", &format!("c11cmp {} {}", term_text(&a), term_text(&b)), o);
    }
    // identifiers that differ in exactly one logical field are different in every representation, and a map keyed by
    // both keeps both through the zero-copy representation and back
    for _ in 0..n / 3 {
        let p = gen_pid(&mut ctx.rng, true);
        let q = gen_port(&mut ctx.rng, true);
        let r = gen_ref(&mut ctx.rng, true, false);
        let mut variants: Vec<(OwnedTerm, OwnedTerm, &str)> = vec![];
        let mk_pid = |id, serial, creation| OwnedTerm::Pid(ExternalPid::new(p.node.clone(), id, serial, creation));
        variants.push((OwnedTerm::Pid(p.clone()), mk_pid(p.id ^ 1, p.serial, p.creation), "pid.id"));
        variants.push((OwnedTerm::Pid(p.clone()), mk_pid(p.id, p.serial ^ 1, p.creation), "pid.serial"));
        variants.push((OwnedTerm::Pid(p.clone()), mk_pid(p.id, p.serial, p.creation ^ 1), "pid.creation"));
        variants.push((OwnedTerm::Port(q.clone()), OwnedTerm::Port(ExternalPort::new(q.node.clone(), q.id ^ 1, q.creation)), "port.id"));
        variants.push((OwnedTerm::Port(q.clone()), OwnedTerm::Port(ExternalPort::new(q.node.clone(), q.id, q.creation ^ 1)), "port.creation"));
        variants.push((OwnedTerm::Port(q.clone()), OwnedTerm::Port(ExternalPort::new(Atom::new("other@node"), q.id, q.creation)), "port.node"));
        let mut ids2 = r.ids.clone();
        if let Some(x) = ids2.last_mut() {
            *x ^= 1;
        } else {
            ids2.push(1);
        }
        variants.push((OwnedTerm::Reference(r.clone()), OwnedTerm::Reference(ExternalReference::new(r.node.clone(), r.creation, ids2)), "ref.ids"));
        variants.push((OwnedTerm::Reference(r.clone()), OwnedTerm::Reference(ExternalReference::new(r.node.clone(), r.creation ^ 1, r.ids.clone())), "ref.creation"));
        // the same words followed / preceded by a zero word, and one word fewer: different identifiers (another word count)
        let mut longer = r.ids.clone();
        longer.push(0);
        variants.push((OwnedTerm::Reference(r.clone()), OwnedTerm::Reference(ExternalReference::new(r.node.clone(), r.creation, longer)), "ref.ids+zero-word"));
        let mut shifted = vec![0u32];
        shifted.extend_from_slice(&r.ids);
        variants.push((OwnedTerm::Reference(r.clone()), OwnedTerm::Reference(ExternalReference::new(r.node.clone(), r.creation, shifted)), "ref.zero-word+ids"));
        if r.ids.len() > 1 {
            let shorter = r.ids[..r.ids.len() - 1].to_vec();
            variants.push((OwnedTerm::Reference(r.clone()), OwnedTerm::Reference(ExternalReference::new(r.node.clone(), r.creation, shorter)), "ref.ids-last-word"));
        }
        for (a, b, what) in variants {
            ctx.count("one_field_pairs");
            let (ba, bb) = (BorrowedTerm::from(&a), BorrowedTerm::from(&b));
            if a == b || a.cmp(&b) == std::cmp::Ordering::Equal || ba == bb || ba.cmp(&bb) == std::cmp::Ordering::Equal {
                ctx.fail("c10-logical-identity", &format!("{}: {} vs {} not told apart (owned cmp {:?}, borrowed cmp {:?})", what, term_text(&a), term_text(&b), a.cmp(&b), ba.cmp(&bb)));
            }
            let mut m = BTreeMap::new();
            m.insert(a.clone(), OwnedTerm::Integer(1));
            m.insert(b.clone(), OwnedTerm::Integer(2));
            let map = OwnedTerm::Map(m);
            let Ok(bytes) = erltf::encode(&map) else { continue };
            let via_from = BorrowedTerm::from(&map).to_owned();
            let via_dec = erltf::decode_borrowed(&bytes).map(|t| t.to_owned());
            if erltf::encode(&via_from).ok().as_deref() != Some(&bytes[..]) {
                ctx.fail("c10-not-reemitted", &format!("{}: map keyed by both, through BorrowedTerm::from/to_owned: {}", what, term_text(&via_from)));
            }
            // the zero-copy decoder does not know LOCAL_EXT; only plain-form keys go through it
            if !bytes.contains(&121) {
                match via_dec {
                    Ok(t) if erltf::encode(&t).ok().as_deref() == Some(&bytes[..]) => {}
                    other => ctx.fail("c10-not-reemitted", &format!("{}: map keyed by both, through decode_borrowed: {:?}", what, other.map(|t| term_text(&t)))),
                }
            }
        }
    }
    // generated whole terms with identifiers in local form: encode/decode/encode
    let cfg = Cfg { huge: false, ..Cfg::default() };
    for _ in 0..n / 3 {
        let t = gen_term(&mut ctx.rng, &cfg, 0);
        let Ok(b) = erltf::encode(&t) else { continue };
        let (dr, Some(d)) = crate::c01::dec_result(&b) else {
            ctx.fail("c10-own-bytes-rejected", &hex(&b));
            continue;
        };
        ctx.tie("gen", &format!("dec {} -", hexarg(&b)), &dr);
        let (d2, ops) = convert(ctx, d.clone());
        tie_conversions(ctx, &d, &d2, &ops);
        if erltf::encode(&d2).ok().as_deref() != Some(&b[..]) {
            ctx.fail("c10-not-reemitted", &format!("term {}", term_text(&t)));
        }
    }
    let _ = (BTreeMap::<u8, u8>::new(), InternalFun::new);
}
