import EdpVerif.Drv.Common
namespace Edp.Drv

/-- driver requests of property C09 (stub: nothing handled yet) -/
def handleC09 : List String → Option String
  | _ => none

end Edp.Drv
