import EdpVerif.Impl.ReceiverBP
import EdpVerif.Lemmas.Receiver
/-! `Node::route_message` (`Receiver.route`) = decide what to do (`routeAct`), then do it (`applyAct`). Core Lean only.
(A file of its own: the case analysis over four term-valued fields is slow to elaborate.) -/
namespace Edp.ReceiverBP
open Edp Edp.Receiver Edp.Chan

theorem route_eq_applyAct (st : NodeSt) (m : Control.Msg) (p : Option Term) :
    route st m p = applyAct st (routeAct st m p) := by
  unfold route routeAct routeActG
  cases m with
  | generic a b => rfl
  | known v fs =>
    simp only
    cases armOf v with
    | send =>
      cases p with
      | none => rfl
      | some body =>
        cases fld fs "to_pid" with
        | none => rfl
        | some t =>
          cases t <;> simp only [] <;> (repeat' split) <;> rfl
    | regSend =>
      cases p with
      | none => rfl
      | some body =>
        cases fld fs "to_name" with
        | none => rfl
        | some t =>
          cases t <;> simp only [whereis] <;> (repeat' split) <;> simp_all [applyAct]
    | exit =>
      cases fld fs "from_pid" with
      | none => rfl
      | some a =>
        cases fld fs "to_pid" with
        | none => cases a <;> rfl
        | some b =>
          cases fld fs "reason" with
          | none => cases a <;> cases b <;> rfl
          | some c => cases a <;> cases b <;> simp only [] <;> (repeat' split) <;> rfl
    | monitorExit =>
      cases fld fs "from_proc" with
      | none => rfl
      | some a =>
        cases fld fs "to_pid" with
        | none => cases a <;> rfl
        | some b =>
          cases fld fs "reference" with
          | none => cases a <;> cases b <;> rfl
          | some c =>
            cases fld fs "reason" with
            | none => cases a <;> cases b <;> cases c <;> rfl
            | some d => cases a <;> cases b <;> cases c <;> simp only [] <;> (repeat' split) <;> rfl
    | ignored => rfl

end Edp.ReceiverBP
