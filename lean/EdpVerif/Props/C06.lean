import EdpVerif.Lemmas.Recv
import EdpVerif.Generated.Control
/-
C06 — receiving delivers each peer message exactly once, in order, and survives junk.

Property theorems only. The model of the receive path is EdpVerif/Impl/Recv.lean (`recv`: one iteration of the loop of
`Connection::receive_message` on a deframed body; `outs`/`recvAll`: what a frame history makes successive calls return;
`recvRH`/`recvAllRH`: the read-half copy the node's receiver task runs), the frames of a conforming peer are
EdpVerif/Spec/Peer.lean, the vocabulary (`Reads`, `Sent`, `HSent`, `Conforms`, `SelfContained`, `NoDecPanic`, `fragSeq`)
and the helper lemmas are EdpVerif/Lemmas/Recv.lean. Deframing (length prefix, segmentation) is C05; that the bytes an
encoder writes `Reads` as the term is C01/C03; the (segment, index) addressing of the atom cache is C14.

"`bs` are the bytes of term `t`" is `Reads x c bs t`: the term decoder reads `bs` as `t` under atom cache `c` wherever they
stand. Non-vacuity: `readsAt_nil`, `readsAt_small_int`, `readsAt_cache_ref`, `readsAt_tuple` (Lemmas/Recv.lean) and the
examples below.
-/
namespace Edp.Props.C06
open Edp Edp.Recv Edp.Spec.Peer

/-! ### ticks -/

/-- TICKS NEVER SURFACE: a tick (empty frame) ends no call and changes nothing, in every state. -/
theorem C06_tick_is_skipped (x : Ext) (tbl : Control.Table) (s : St) : recv x tbl s tick = (s, none) := rfl

/-- … and ticks anywhere in a history are invisible: any history returns exactly what it returns with its ticks removed
(every state, every frame list, valid or not), through both receive functions. -/
theorem C06_ticks_invisible (x : Ext) (tbl : Control.Table) (s : St) (fs : List Bytes) :
    recvAll x tbl s fs = recvAll x tbl s (fs.filter (fun f => !isTick f)) ∧
    recvAllRH x tbl fs = recvAllRH x tbl (fs.filter (fun f => !isTick f)) :=
  ⟨recvAll_ticks x tbl s fs, recvAllRH_ticks x tbl fs⟩

example : recvAll Ext.none Gen.controlTable St.init [[], [112], []] = recvAll Ext.none Gen.controlTable St.init [[112]] :=
  (C06_ticks_invisible _ _ _ _).1

/-! ### exactly once, in order -/

/-- EXACTLY ONCE, IN ORDER, PASS-THROUGH FORM: for every list of messages (any control tuple the library presents as
`msg`, any payload, any size) sent as `112, 131, control [, 131, payload]` with ticks anywhere, in every state of the
connection, successive `receive_message` calls return exactly the messages, each once, in order, payloads intact. -/
theorem C06_passthrough_exactly_once_in_order (x : Ext) (tbl : Control.Table) (s : St) (msgs : List Sent)
    (hconf : ∀ m ∈ msgs, m.Conforms x tbl []) (fs : List Bytes)
    (hfs : WithTicks fs (msgs.map fun m => passThrough m.wire)) :
    recvAll x tbl s fs = msgs.map Sent.expected := by
  rw [recvAll_ticks, hfs, recvAll, outs_passThrough x tbl s msgs hconf, filterMap_some_map, cutPanic_map_expected]

/-- the same through `receive_message_from_read_half` (the node's receiver task; `Node::connect` offers the default
flags, which lack DIST_HDR_ATOM_CACHE, so pass-through is the only form the negotiated flags allow there) -/
theorem C06_readhalf_exactly_once_in_order (x : Ext) (tbl : Control.Table) (msgs : List Sent)
    (hconf : ∀ m ∈ msgs, m.Conforms x tbl []) (fs : List Bytes)
    (hfs : WithTicks fs (msgs.map fun m => passThrough m.wire)) :
    recvAllRH x tbl fs = msgs.map Sent.expected := by
  rw [recvAllRH_ticks, hfs, recvAllRH, filterMap_recvRH_passThrough x tbl msgs hconf, cutPanic_map_expected]

/-- the NODE_LINK message `{5}` with payload `[]`, as bytes and as the library's message -/
def nodeLink : Sent := { cb := [104, 1, 97, 5], ct := .tuple [.int 5], msg := .known "NodeLink" [], pay := some ([106], .nil) }

theorem C06_witness_nodeLink_conforms (x : Ext) (c : Cache) : nodeLink.Conforms x Gen.controlTable c where
  ctl := readsAt_tuple x c 0 (by simp [MAX_NESTING_DEPTH]) [[97, 5]] [.int 5]
    (.cons (readsAt_small_int x c 1 (by simp [MAX_NESTING_DEPTH]) 5) .nil) (by simp)
  pay := by
    intro pb p h
    simp only [nodeLink, Option.some.injEq, Prod.mk.injEq] at h
    obtain ⟨rfl, rfl⟩ := h
    exact readsAt_nil x c 0 (by simp [MAX_NESTING_DEPTH])
  parse := by rfl

/-- non-vacuity: two such messages with a tick between them -/
example (x : Ext) (s : St) :
    recvAll x Gen.controlTable s [passThrough nodeLink.wire, [], passThrough nodeLink.wire] = [nodeLink.expected, nodeLink.expected] :=
  C06_passthrough_exactly_once_in_order x Gen.controlTable s [nodeLink, nodeLink]
    (by intro m hm; simp at hm; subst hm; exact C06_witness_nodeLink_conforms x []) _ rfl

/-- EXACTLY ONCE, IN ORDER, DISTRIBUTION-HEADER FORM: for every list of messages, each under its own distribution header
`131, 68, N, flags, refs…, control [, payload]` whose references are new entries addressed by position (the library's own
sender, any segment bits, short or long atom lengths, 0 to 255 atoms), the terms referring to the header's atoms by
`ATOM_CACHE_REF`, with ticks anywhere, in every state (whatever the cache held before): exactly the messages, each once,
in order. -/
theorem C06_header_exactly_once_in_order (x : Ext) (tbl : Control.Table) (s : St) (msgs : List HSent)
    (hconf : ∀ h ∈ msgs, h.Conforms x tbl) (fs : List Bytes) (hfs : WithTicks fs (msgs.map HSent.frame)) :
    recvAll x tbl s fs = msgs.map fun h => h.m.expected := by
  rw [recvAll_ticks, hfs, recvAll, outs_header x tbl msgs hconf s]
  have := filterMap_some_map (fun h : HSent => h.m.expected) msgs
  rw [this]
  have e : (msgs.map fun h => h.m.expected) = (msgs.map (·.m)).map Sent.expected := by simp
  rw [e, cutPanic_map_expected]

/-- `{5}` with payload `'a@h'`, the atom travelling in the header and referenced as `82, 0` -/
def nodeLinkH : HSent :=
  { m := { cb := [104, 1, 97, 5], ct := .tuple [.int 5], msg := .known "NodeLink" [], pay := some ([82, 0], .atom [97, 64, 104]) }
    atoms := [[97, 64, 104]], segs := [3], long := false }

theorem C06_witness_nodeLinkH_conforms (x : Ext) : nodeLinkH.Conforms x Gen.controlTable where
  count := by decide
  utf8 := by decide
  lens := by decide
  terms := by
    intro c hc
    refine ⟨(C06_witness_nodeLink_conforms x c).ctl, ?_, by rfl⟩
    intro pb p h
    simp only [nodeLinkH, Option.some.injEq, Prod.mk.injEq] at h
    obtain ⟨rfl, rfl⟩ := h
    exact readsAt_cache_ref x c 0 (by simp [MAX_NESTING_DEPTH]) 0 _ (by simpa [nodeLinkH] using hc 0 (by simp [nodeLinkH]))

example (x : Ext) (s : St) :
    recvAll x Gen.controlTable s [[], nodeLinkH.frame, nodeLinkH.frame, []] = [nodeLinkH.m.expected, nodeLinkH.m.expected] :=
  C06_header_exactly_once_in_order x Gen.controlTable s [nodeLinkH, nodeLinkH]
    (by intro m hm; simp at hm; subst hm; exact C06_witness_nodeLinkH_conforms x) _ rfl

/-- the frame really is the protocol's layout: `131, 68, N = 1, flags (new | segment 3; short atoms), index 0, len 3, a@h,
{5}, ref 0` -/
example : nodeLinkH.frame = [131, 68, 1, 0x0b, 0, 3, 97, 64, 104, 104, 1, 97, 5, 82, 0] := by decide

/-! ### fragments -/

/-- A MESSAGE SENT AS ONE FRAGMENT (`131, 69, seq, fragId = 1, N, flags, refs…, terms`) is handled exactly like the same
message without fragmentation — same result, same state — for ANY content (valid or junk), any sequence id the assembler
holds nothing for. With `C06_header_exactly_once_in_order` this delivers every single-fragment message of a peer. -/
theorem C06_single_fragment_as_unfragmented (x : Ext) (tbl : Control.Table) (s : St) (seq : Nat) (n : UInt8) (rest : Bytes)
    (hs : seq < 2 ^ 64) (h0 : Frag.lookup seq s.asm.pending = none) :
    recv x tbl s (fragFirst seq 1 [n] rest) = recv x tbl s (131 :: 68 :: n :: rest) := by
  have := recv_single_fragment x tbl s seq n rest hs h0
  simpa [fragFirst] using this

example (x : Ext) : (recv x Gen.controlTable St.init (fragFirst 7 1 [0] ([104, 1, 97, 5] ++ [106]))).2 = some nodeLink.expected := by
  rw [C06_single_fragment_as_unfragmented x _ _ 7 0 _ (by omega) rfl]
  have h : HSent.Conforms x Gen.controlTable { m := nodeLink, atoms := [], segs := [], long := false } :=
    ⟨by decide, by simp, by simp, fun c _ => C06_witness_nodeLink_conforms x c⟩
  exact congrArg Prod.snd (recv_header x Gen.controlTable St.init _ h)

/- THE PROPERTY FOR FRAGMENTED MESSAGES, full strength (NOT provable, see `C06_not_fragmented_delivered`):
   for every message, every cut `lens` of its terms' bytes, `outs x tbl s (fragmented seq hdr w lens)` is
   `none, …, none, some expected`.
   The assembler (fragmentation.rs) concatenates the pieces by ASCENDING fragment id, the protocol by descending id
   (KF-C09-ascending-order, pinned by the repository's tests), so a message in two or more fragments comes out scrambled. -/

/-- FRAGMENTED, PARTIAL (guard: two fragments, the second piece empty — the cuts that read the same in both orders):
nothing is returned at the first frame, and the second frame returns exactly what the unfragmented message returns and
leaves the same atom cache. -/
theorem C06_fragmented_partial (x : Ext) (tbl : Control.Table) (s : St) (seq : Nat) (n : UInt8) (rest : Bytes)
    (hs : seq < 2 ^ 64) (h0 : Frag.lookup seq s.asm.pending = none) :
    (recv x tbl s (fragFirst seq 2 [n] rest)).2 = none ∧
    (recv x tbl (recv x tbl s (fragFirst seq 2 [n] rest)).1 (fragCont seq 1 [])).2 = (recv x tbl s (131 :: 68 :: n :: rest)).2 ∧
    (recv x tbl (recv x tbl s (fragFirst seq 2 [n] rest)).1 (fragCont seq 1 [])).1.cache =
      (recv x tbl s (131 :: 68 :: n :: rest)).1.cache := by
  have := recv_two_fragments x tbl s seq n rest hs h0
  simpa [fragFirst] using this

/-- the guard is what `Spec.Peer.fragmented` produces for a cut that gives everything to the first fragment -/
example : fragmented 7 [0] nodeLink.wire [5] = [fragFirst 7 2 [0] [104, 1, 97, 5, 106], fragCont 7 1 []] := by decide

/-- DEFECT (negation of the full-strength property for fragmented messages; known finding KF-C06-multi-fragment-order):
the message `{5}` with payload `[]` cut after its control tuple into two fragments, which the protocol's receiver delivers
as NODE_LINK with payload `[]`, makes `receive_message` return one error at the second frame and nothing else. -/
theorem C06_not_fragmented_delivered :
    ∃ (seq : Nat) (hdr : Bytes) (m : Sent) (lens : List Nat), m.Conforms Ext.none Gen.controlTable [] ∧
      (outs Ext.none Gen.controlTable St.init (fragmented seq hdr m.wire lens)).map (Option.map Res.text) =
        [none, some "err"] ∧
      (outs Ext.none Gen.controlTable St.init [withHeader hdr m.wire]).map (Option.map Res.text) =
        [some "ok~NodeLink{}~N"] := by
  refine ⟨1, [0], nodeLink, [4], C06_witness_nodeLink_conforms _ _, by decide, ?_⟩
  have h : HSent.Conforms Ext.none Gen.controlTable { m := nodeLink, atoms := [], segs := [], long := false } :=
    ⟨by decide, by simp, by simp, fun c _ => C06_witness_nodeLink_conforms _ c⟩
  have := recv_header Ext.none Gen.controlTable St.init _ h
  have e : withHeader [0] nodeLink.wire = HSent.frame { m := nodeLink, atoms := [], segs := [], long := false } := by decide
  simp only [outs, e, this, List.map_cons, List.map_nil, Option.map_some]
  decide

/-! ### junk -/

/-- NO PANIC: whatever the frame and the state, `receive_message` does not panic (every slice and index site of the path
is a conditional panic in the model; the term decoder's own site is unreachable under the inflater's contract that it
never reports more input consumed than it was given). -/
theorem C06_no_panic (x : Ext) (hx : ∀ z out n, x.inflate z = some (out, n) → n ≤ z.length)
    (tbl : Control.Table) (htbl : Control.TableOK tbl) (s : St) (frame : Bytes) :
    (recv x tbl s frame).2 ≠ some .panic :=
  recv_ne_panic (noDecPanic_of_inflate x hx) htbl s frame

/-- … neither does `receive_message_from_read_half` -/
theorem C06_readhalf_no_panic (x : Ext) (hx : ∀ z out n, x.inflate z = some (out, n) → n ≤ z.length)
    (tbl : Control.Table) (htbl : Control.TableOK tbl) (frame : Bytes) : recvRH x tbl frame ≠ some .panic :=
  recvRH_ne_panic (noDecPanic_of_inflate x hx) htbl frame

/-- the table extracted from control.rs on this run satisfies the side condition -/
theorem C06_table_ok : Control.TableOK Gen.controlTable := by decide

/-- the term decoder never reaches its panic site, at any nesting depth, for every input, cache and fuel -/
theorem C06_decoder_no_panic (x : Ext) (hx : ∀ z out n, x.inflate z = some (out, n) → n ≤ z.length)
    (cfg : DecCfg) (fuel d : Nat) (bs : Bytes) : dec x cfg fuel d bs ≠ .error .panic :=
  dec_never_panics x hx cfg fuel d bs

/-- PASS-THROUGH FRAMES NEITHER READ NOR WRITE THE STATE: a frame that starts with the pass-through marker — valid or
junk — returns a result that depends on the frame alone and leaves atom cache and assembler as they were. -/
theorem C06_passthrough_stateless (x : Ext) (tbl : Control.Table) (s s' : St) (r : Bytes) :
    (recv x tbl s (112 :: r)).1 = s ∧ (recv x tbl s (112 :: r)).2 = (recv x tbl s' (112 :: r)).2 := by
  simp [recv_112]

/-- JUNK ISOLATION: insert ANY frame `junk` (random bytes, truncated terms, wrong markers, broken fragment headers,
a valid message — anything) at any position of a history; if the frames after it are self-contained (their result does not
depend on the state: `C06_selfcontained_frames`), then the frames before it return what they returned, the junk frame
returns its own result (an error, or nothing), and EVERY LATER FRAME RETURNS EXACTLY WHAT IT RETURNS WITHOUT THE JUNK. -/
theorem C06_junk_isolated (x : Ext) (tbl : Control.Table) (s : St) (good₁ good₂ : List Bytes) (junk : Bytes)
    (h₂ : ∀ f ∈ good₂, SelfContained x tbl f) :
    outs x tbl s (good₁ ++ junk :: good₂) =
      outs x tbl s good₁ ++ (recv x tbl (after x tbl s good₁) junk).2 :: outs x tbl (after x tbl s good₁) good₂ ∧
    outs x tbl s (good₁ ++ good₂) = outs x tbl s good₁ ++ outs x tbl (after x tbl s good₁) good₂ :=
  ⟨outs_insert x tbl s good₁ good₂ junk h₂, outs_append x tbl good₁ good₂ s⟩

/-- which frames are self-contained: ticks, every frame with the pass-through marker, and every message under the
distribution header of a positional sender (it carries all its atoms) — i.e. every frame a conforming peer sends
unfragmented -/
theorem C06_selfcontained_frames (x : Ext) (tbl : Control.Table) :
    SelfContained x tbl tick ∧ (∀ r, SelfContained x tbl (112 :: r)) ∧
    (∀ h : HSent, h.Conforms x tbl → SelfContained x tbl h.frame) :=
  ⟨selfContained_tick x tbl, selfContained_112 x tbl, selfContained_header x tbl⟩

/-- junk between two header-mode messages: both are delivered, whatever the junk frame is and does -/
example (x : Ext) (s : St) (junk : Bytes) :
    outs x Gen.controlTable s ([nodeLinkH.frame] ++ junk :: [nodeLinkH.frame]) =
      [some nodeLinkH.m.expected] ++ (recv x Gen.controlTable (after x Gen.controlTable s [nodeLinkH.frame]) junk).2 ::
        [some nodeLinkH.m.expected] := by
  have h := C06_witness_nodeLinkH_conforms x
  rw [(C06_junk_isolated x Gen.controlTable s _ _ junk
    (by intro f hf; simp at hf; subst hf; exact selfContained_header x _ _ h)).1]
  simp [outs, recv_header x Gen.controlTable _ nodeLinkH h]

/-- ON A PASS-THROUGH CONNECTION JUNK IS ISOLATED UNCONDITIONALLY: if every other frame carries the pass-through marker (or
is a tick) — valid or not —, a junk frame anywhere changes nothing but its own entry. -/
theorem C06_passthrough_junk_isolated (x : Ext) (tbl : Control.Table) (s : St) (good₁ good₂ : List Bytes) (junk : Bytes)
    (h₂ : ∀ f ∈ good₂, f = [] ∨ ∃ r, f = 112 :: r) :
    outs x tbl s (good₁ ++ junk :: good₂) =
      outs x tbl s good₁ ++ (recv x tbl (after x tbl s good₁) junk).2 :: outs x tbl s good₂ := by
  have hsc : ∀ f ∈ good₂, SelfContained x tbl f := by
    intro f hf
    rcases h₂ f hf with rfl | ⟨r, rfl⟩
    · exact selfContained_tick x tbl
    · exact selfContained_112 x tbl r
  rw [outs_insert x tbl s good₁ good₂ junk hsc, outs_selfContained x tbl good₂ hsc (after x tbl s good₁) s]

/-- WHAT A FRAME — in particular an erroring one — MAY CHANGE: the atom cache only gains entries in front (a half-parsed
distribution header keeps the references it read before the error), and in the fragment assembler no entry but that of the
sequence id the frame itself names is touched. Nothing else is state. -/
theorem C06_frame_effect (x : Ext) (tbl : Control.Table) (s : St) (frame : Bytes) :
    s.cache <:+ (recv x tbl s frame).1.cache ∧
    ∀ q, fragSeq frame ≠ some q → Frag.lookup q (recv x tbl s frame).1.asm.pending = Frag.lookup q s.asm.pending :=
  ⟨recv_cache x tbl s frame, fun q hq => recv_asm_other x tbl s frame q hq⟩

/-- frames that are no fragment frames (`fragSeq = none`) leave the whole assembler alone -/
example (x : Ext) (s : St) (q : Nat) :
    Frag.lookup q (recv x Gen.controlTable s [131, 68, 9, 9]).1.asm.pending = Frag.lookup q s.asm.pending :=
  (C06_frame_effect x Gen.controlTable s [131, 68, 9, 9]).2 q (by simp [fragSeq])

/-- MALFORMED FRAMES ARE ERRORS, NOT MESSAGES: a frame that is neither a tick nor starts with `112` or `131, 68 | 69 | 70`
is answered with an error, in every state, and changes nothing. -/
theorem C06_unmarked_frame_rejected (x : Ext) (tbl : Control.Table) (s : St) (a : UInt8) (r : Bytes)
    (h112 : a ≠ 112) (h131 : a = 131 → ∀ b r', r = b :: r' → b ≠ 68 ∧ b ≠ 69 ∧ b ≠ 70) :
    recv x tbl s (a :: r) = (s, some .err) := by
  cases r with
  | nil => simp [recv, h112]
  | cons b r' =>
    by_cases ha : a = 131
    · obtain ⟨h1, h2, h3⟩ := h131 ha b r' rfl
      simp [recv, h112, h1, h2, h3]
    · simp [recv, h112, ha]

example (x : Ext) (s : St) : recv x Gen.controlTable s [131, 104, 1, 97, 5] = (s, some .err) :=
  C06_unmarked_frame_rejected x _ s 131 _ (by decide) (by intro _ b r' h; simp at h; obtain ⟨rfl, _⟩ := h; decide)

/-- … and so is a pass-through frame with bytes left over after its payload term -/
theorem C06_trailing_bytes_rejected (x : Ext) (tbl : Control.Table) (s : St) (m : Sent) (hc : m.Conforms x tbl [])
    (pb : Bytes) (p : Term) (hp : m.pay = some (pb, p)) (extra : UInt8) (more : Bytes) :
    recv x tbl s (passThrough m.wire ++ extra :: more) = (s, some .err) := by
  obtain ⟨hctl, hpay, _⟩ := hc
  have e1 := decodeTrailing_reads x m.cb (131 :: (pb ++ extra :: more)) m.ct hctl
  have e2 := decodeTrailing_reads x pb (extra :: more) p (hpay pb p hp)
  simp [passThrough, Sent.wire, hp, recv, passThroughBody, e1, e2]

example (x : Ext) (s : St) : recv x Gen.controlTable s (passThrough nodeLink.wire ++ [106]) = (s, some .err) :=
  C06_trailing_bytes_rejected x _ s nodeLink (C06_witness_nodeLink_conforms x []) [106] .nil rfl 106 []

/-- a fragment with id 0 is answered with an error and leaves the state alone -/
theorem C06_fragment_id_zero_rejected (x : Ext) (tbl : Control.Table) (s : St) (seq : Nat) (hs : seq < 2 ^ 64) (n : UInt8)
    (rest : Bytes) :
    recv x tbl s (fragFirst seq 0 [n] rest) = (s, some .err) ∧ recv x tbl s (fragCont seq 0 rest) = (s, some .err) := by
  constructor
  · have := decodeFragmentHeader_ok seq 0 n rest hs (by omega)
    simp only [fragFirst, List.append_assoc, List.singleton_append] at this ⊢
    simp [recv, recvFragHeader, this]
  · have := decodeFragmentCont_ok seq 0 rest hs (by omega)
    simp only [fragCont, List.append_assoc] at this ⊢
    simp [recv, recvFragCont, this]

end Edp.Props.C06
