import EdpVerif.Lemmas.Procs
/-
C18 — local processes: ordered exactly-once delivery, exit notices, name lifecycle.
Property theorems only; the model is EdpVerif/Impl/Procs.lean (small-step semantics of the registry, the mailboxes, the
process tasks and the `Node` calls, one step per locked access), the inductive invariants are in EdpVerif/Lemmas/Procs.lean.

A schedule is a list of events: `Ev.start t op` (client task `t`, between calls, calls `op`), `Ev.cont t` (task `t` takes the
next atomic step of its call), `Ev.proc p k` (the task of process `p` takes its next step). Task and process ids are arbitrary
naturals; every task may make any number of calls. All statements quantify over every mailbox capacity and every schedule
unless a hypothesis says otherwise; a step that would block is skipped by `run`.

Known findings (full statement false of the code, witness proved, guarded version proved):
  C18_exit_notice_for_every_link / C18_monitor_notice_for_every_monitor — see `C18_not_…` below.
-/
namespace Edp.Props.C18
open Edp Edp.Impl.Procs

/-! ## A. delivery: exactly once, in order -/

/-- FIFO, exactly once: at every moment of every schedule, what a process's mailbox has accepted (a send returned Ok) is, in
order, what its handler has been given followed by what is still queued. So nothing is handled twice, nothing is invented,
nothing overtakes; a message that was accepted and is neither handled nor queued does not exist. -/
theorem C18_fifo_exactly_once (cap : Nat) (evs : List Ev) (p : Pid) :
    let st := run (St.init cap) evs
    (st.procs p).accepted.map (·.2) = (st.procs p).handled ++ (st.procs p).mailbox :=
  (allInv_run cap evs).fifo p

example : ((run (St.init 8) (callEvs 0 (.spawn true) ++ callEvs 0 (.send 0 5 false) ++ callEvs 0 (.send 0 6 false) ++
    [.proc 0 0])).procs 0).handled = [.regular 5 false] := by decide

/-- each message is handled at most as often as it was accepted, and the handled sequence is a prefix of the accepted one -/
theorem C18_handled_at_most_once (cap : Nat) (evs : List Ev) (p : Pid) (m : Msg) :
    let st := run (St.init cap) evs
    (st.procs p).handled.count m + (st.procs p).mailbox.count m = st.timesAccepted p m ∧
      (st.procs p).handled <+: (st.procs p).accepted.map (·.2) := by
  intro st
  have h := C18_fifo_exactly_once cap evs p
  simp only at h
  refine ⟨?_, ?_⟩
  · show _ = ((st.procs p).accepted.map (·.2)).count m
    rw [h, List.count_append]
  · rw [h]; exact List.prefix_append _ _

/-- per-sender order: the messages a process accepted from one client task are exactly the messages that task's sends
returned Ok for, in the order the task issued them (by pid or by name alike) -/
theorem C18_per_sender_order (cap : Nat) (evs : List Ev) (t : Tid) (p : Pid) :
    let st := run (St.init cap) evs
    st.acceptedFrom p t = st.sentTo t p :=
  (allInv_run cap evs).order t p

example : (run (St.init 8) (callEvs 0 (.spawn true) ++ callEvs 1 (.send 0 5 false) ++ callEvs 0 (.send 0 6 false) ++
    callEvs 1 (.send 0 7 false))).sentTo 1 0 = [.regular 5 false, .regular 7 false] := by decide

/-- progress: a process in its loop with a queued message can always take its step, and that step hands the OLDEST queued
message to the handler; it stays in the loop unless the handler fails on it -/
theorem C18_live_process_handles_head (st : St) (p : Pid) (k : Nat) (m : Msg) (rest : List Msg)
    (hpc : (st.procs p).pc = .recv) (hq : (st.procs p).mailbox = m :: rest) :
    ∃ st', procStep st p k = some st' ∧ (st'.procs p).handled = (st.procs p).handled ++ [m] ∧
      (st'.procs p).mailbox = rest ∧
      (st'.procs p).pc = (if m.fails (st.procs p).trap then .exiting else .recv) := by
  have hstep : procStep st p k = some (st.modP p fun q =>
      { q with mailbox := rest, handled := q.handled ++ [m], pc := if m.fails q.trap then .exiting else .recv }) := by
    unfold procStep; rw [hpc]; simp only [hq]
  exact ⟨_, hstep, by simp [St.modP], by simp [St.modP], by simp [St.modP]⟩

/-- what happens to messages still queued (or accepted later) when a process terminates: once a process has left its loop
its handled sequence never changes again, whatever happens afterwards — those messages are dropped with the mailbox -/
theorem C18_handled_frozen_after_loop (cap : Nat) (evs more : List Ev) (p : Pid)
    (h : ((run (St.init cap) evs).procs p).pc.terminating = true) :
    ((run (St.init cap) (evs ++ more)).procs p).handled = ((run (St.init cap) evs).procs p).handled := by
  rw [run_append]
  exact handled_frozen (allInv_run cap evs).reg h more

/-- the window is real (dismissed candidate, not a violation: the process is not live any more): a send to a process that
has left its loop but is still in the registry returns Ok and the message is never handled -/
theorem C18_send_to_terminating_is_accepted_and_dropped :
    ∃ evs : List Ev, let st := run (St.init 1000) evs
      st.out.getLast? = some (0, .ok) ∧ (st.procs 0).pc = .dead ∧ st.timesAccepted 0 (.regular 9 false) = 1 ∧
        (.regular 9 false) ∉ (st.procs 0).handled :=
  ⟨callEvs 0 (.spawn true) ++ callEvs 0 (.send 0 7 true) ++ [.proc 0 0, .proc 0 0] ++
      callEvs 0 (.send 0 9 false) ++ [.proc 0 0, .proc 0 0, .proc 0 0, .proc 0 0], by decide⟩

/-! ## B. exit notices -/

/-- at most once, and only to a process of the link set: under every schedule a mailbox accepts `Exit{from: p}` at most
once, and only if `p` has left its loop and the receiver was in `p`'s link set when `p` read it -/
theorem C18_exit_at_most_once (cap : Nat) (evs : List Ev) (p a : Pid) :
    let st := run (St.init cap) evs
    st.timesAccepted a (.exit p) ≤ 1 ∧
      (1 ≤ st.timesAccepted a (.exit p) → a ∈ (st.procs p).snapL ∧ (st.procs p).pc.startedL = true) := by
  dsimp only
  have hi := allInv_run cap evs
  generalize run (St.init cap) evs = st at hi ⊢
  have hc := hi.exitCount p a
  have hl := hi.linkCons p a
  have hn := nodup_count_le_one (hi.nodup p).2.1 a
  cases hs : (st.procs p).pc.startedL with
  | false =>
    have := (hl.2 hs).1
    have h0 : st.timesAccepted a (.exit p) = 0 := by rw [hc, this]; rfl
    exact ⟨by omega, by omega⟩
  | true =>
    have := hl.1 hs
    refine ⟨by omega, fun h1 => ⟨?_, rfl⟩⟩
    have : 1 ≤ (st.procs p).snapL.count a := by omega
    exact List.count_pos_iff.mp this

/-- exactly once to every live linked process (the guarded statement the code meets): when `p` is through with its links,
every process that was in `p`'s link set at the moment `p` read it has accepted exactly one `Exit{from: p}` — unless it
was not in the registry at that moment or has itself left the registry since -/
theorem C18_exit_notice_delivered_partial (cap : Nat) (evs : List Ev) (p a : Pid) :
    let st := run (St.init cap) evs
    (st.procs p).pc.linksDone = true → a ∈ (st.procs p).snapL →
      st.timesAccepted a (.exit p) = 1 ∨
        (st.timesAccepted a (.exit p) = 0 ∧ (a ∉ (st.procs p).liveL ∨ (st.procs a).pc.gone = true)) := by
  dsimp only
  have hi := allInv_run cap evs
  generalize run (St.init cap) evs = st at hi ⊢
  intro hd hm
  obtain ⟨hs, ht⟩ := linksDone_started hd
  have hc := hi.exitCount p a
  have hl := (hi.linkCons p a).1 hs
  have hn := nodup_count_le_one (hi.nodup p).2.1 a
  have h1 := count_pos_of_mem hm
  rw [ht] at hl
  simp only [List.count_nil, Nat.zero_add] at hl
  by_cases hsk : a ∈ (st.procs p).skipL
  · right
    have := count_pos_of_mem hsk
    exact ⟨by omega, hi.skip.1 p a hsk⟩
  · left
    have : (st.procs p).skipL.count a = 0 := List.count_eq_zero.mpr hsk
    omega

example : let st := run (St.init 8) (callEvs 0 (.spawn true) ++ callEvs 0 (.spawn true) ++ callEvs 0 (.link 0 1) ++
    callEvs 0 (.send 1 7 true) ++ List.replicate 5 (.proc 1 0))
    (st.procs 1).pc.linksDone = true ∧ st.timesAccepted 0 (.exit 1) = 1 := by decide

/-- the link set a terminating process notifies is its link set at the step that reads it (`get_links`), and "live" is
membership of `by_pid` at that same step -/
theorem C18_links_read_in_one_step (st : St) (p : Pid) (k : Nat) (h : (st.procs p).pc = .exiting) :
    ∃ st', procStep st p k = some st' ∧ (st'.procs p).snapL = (st.procs p).links ∧ (st'.procs p).liveL = st.byPid ∧
      (st'.procs p).pc = .notifyL (st.procs p).links := by
  have hstep : procStep st p k = some (st.modP p fun q => { q with pc := .notifyL q.links, snapL := q.links, liveL := st.byPid }) := by
    unfold procStep; rw [h]
  exact ⟨_, hstep, by simp [St.modP], by simp [St.modP], by simp [St.modP]⟩

/-- the same for monitors, with the monitor's own reference: a mailbox accepts `MonitorExit{monitored: p, reference: r}` at
most once, and only if the pair (receiver, r) was in `p`'s monitor set when `p` read it -/
theorem C18_monitor_at_most_once (cap : Nat) (evs : List Ev) (p a : Pid) (r : Ref) :
    let st := run (St.init cap) evs
    st.timesAccepted a (.monExit p r) ≤ 1 ∧
      (1 ≤ st.timesAccepted a (.monExit p r) → (a, r) ∈ (st.procs p).snapM ∧ (st.procs p).pc.linksDone = true) := by
  dsimp only
  have hi := allInv_run cap evs
  generalize run (St.init cap) evs = st at hi ⊢
  have hc := hi.monCount p a r
  have hl := hi.monCons p (a, r)
  have hn := nodup_count_le_one (hi.nodup p).2.2.2 (a, r)
  cases hs : (st.procs p).pc.linksDone with
  | false =>
    have := (hl.2 hs).1
    have h0 : st.timesAccepted a (.monExit p r) = 0 := by rw [hc, this]; rfl
    exact ⟨by omega, by omega⟩
  | true =>
    have := hl.1 hs
    refine ⟨by omega, fun h1 => ⟨?_, rfl⟩⟩
    have : 1 ≤ (st.procs p).snapM.count (a, r) := by omega
    exact List.count_pos_iff.mp this

/-- exactly once to every live monitoring process, with ITS reference (guarded as for links) -/
theorem C18_monitor_notice_delivered_partial (cap : Nat) (evs : List Ev) (p a : Pid) (r : Ref) :
    let st := run (St.init cap) evs
    (st.procs p).pc.monsDone = true → (a, r) ∈ (st.procs p).snapM →
      st.timesAccepted a (.monExit p r) = 1 ∨
        (st.timesAccepted a (.monExit p r) = 0 ∧ (a ∉ (st.procs p).liveM ∨ (st.procs a).pc.gone = true)) := by
  dsimp only
  have hi := allInv_run cap evs
  generalize run (St.init cap) evs = st at hi ⊢
  intro hd hm
  obtain ⟨hs, ht⟩ := monsDone_linksDone hd
  have hc := hi.monCount p a r
  have hl := (hi.monCons p (a, r)).1 hs
  have hn := nodup_count_le_one (hi.nodup p).2.2.2 (a, r)
  have h1 := count_pos_of_mem hm
  rw [ht] at hl
  simp only [List.count_nil, Nat.zero_add] at hl
  by_cases hsk : (a, r) ∈ (st.procs p).skipM
  · right
    have := count_pos_of_mem hsk
    exact ⟨by omega, hi.skipM.1 p (a, r) hsk⟩
  · left
    have : (st.procs p).skipM.count (a, r) = 0 := List.count_eq_zero.mpr hsk
    omega

example : let st := run (St.init 8) (callEvs 0 (.spawn true) ++ callEvs 0 (.spawn true) ++ callEvs 0 (.monitor 0 1) ++
    callEvs 0 (.monitor 0 1) ++ callEvs 0 (.send 1 7 true) ++ List.replicate 8 (.proc 1 0))
    (st.procs 1).pc.monsDone = true ∧ st.timesAccepted 0 (.monExit 1 0) = 1 ∧ st.timesAccepted 0 (.monExit 1 1) = 1 := by
  decide

/-
KNOWN FINDING (kf-c18-late-link). Full statement, false of the code:
  theorem C18_exit_notice_for_every_link : ∀ cap evs p a, let st := run (St.init cap) evs;
    (st.procs p).pc = .dead → a ∈ (st.procs p).links → a ∈ st.byPid → (st.procs a).pc = .recv → st.timesAccepted a (.exit p) = 1
(a link the node accepted while the process was still in the registry must be honoured). Guarded version:
`C18_exit_notice_delivered_partial` (guard: the link is in the set at the step that reads it).
-/
/-- witness: `link(0, 1)` completes, with Ok, after process 1 has read its link set and before it leaves the registry; process
0 is alive and in the registry at the end, linked on both sides, and no `Exit` was ever put into its mailbox -/
theorem C18_not_exit_notice_for_every_link :
    ∃ evs : List Ev, let st := run (St.init 1000) evs
      st.out.getLast? = some (0, .ok) ∧ (st.procs 1).pc = .dead ∧ 0 ∈ (st.procs 1).links ∧ 1 ∈ (st.procs 0).links ∧
        0 ∈ st.byPid ∧ (st.procs 0).pc = .recv ∧ st.timesAccepted 0 (.exit 1) = 0 :=
  ⟨callEvs 0 (.spawn true) ++ callEvs 0 (.spawn true) ++ callEvs 0 (.send 1 7 true) ++
      [.proc 1 0, .proc 1 0] ++ callEvs 0 (.link 0 1) ++ [.proc 1 0, .proc 1 0, .proc 1 0, .proc 1 0], by decide⟩

/-
KNOWN FINDING (kf-c18-late-monitor). Full statement, false of the code:
  theorem C18_monitor_notice_for_every_monitor : ∀ cap evs p a r, let st := run (St.init cap) evs;
    (st.procs p).pc = .dead → (a, r) ∈ (st.procs p).monitors → a ∈ st.byPid → (st.procs a).pc = .recv →
      st.timesAccepted a (.monExit p r) = 1
Guarded version: `C18_monitor_notice_delivered_partial`.
-/
/-- witness: `monitor(0, 1)` returns its reference after process 1 has read its monitor set and before it leaves the registry -/
theorem C18_not_monitor_notice_for_every_monitor :
    ∃ evs : List Ev, let st := run (St.init 1000) evs
      st.out.getLast? = some (0, .ref 0) ∧ (st.procs 1).pc = .dead ∧ (0, 0) ∈ (st.procs 1).monitors ∧
        0 ∈ st.byPid ∧ (st.procs 0).pc = .recv ∧ st.timesAccepted 0 (.monExit 1 0) = 0 :=
  ⟨callEvs 0 (.spawn true) ++ callEvs 0 (.spawn true) ++ callEvs 0 (.send 1 7 true) ++
      [.proc 1 0, .proc 1 0, .proc 1 0] ++ callEvs 0 (.monitor 0 1) ++ [.proc 1 0, .proc 1 0, .proc 1 0], by decide⟩

/-! ## C. names and pids -/

/-- at no time does a name map to two processes: `by_name` is a function under every schedule -/
theorem C18_name_unique (cap : Nat) (evs : List Ev) :
    ((run (St.init cap) evs).byName.map (·.1)).Nodup ∧
      ∀ n p q, (n, p) ∈ (run (St.init cap) evs).byName → (n, q) ∈ (run (St.init cap) evs).byName → p = q := by
  have hn := (allInv_run cap evs).names
  refine ⟨hn, fun n p q hp hq => ?_⟩
  have h1 := nameFind_of_mem hn hp
  have h2 := nameFind_of_mem hn hq
  rw [h1] at h2
  exact Option.some.inj h2

/-- `register` on an occupied name fails with `NameAlreadyRegistered` and changes neither table nor any process -/
theorem C18_register_occupied_fails_and_changes_nothing (st : St) (t : Tid) (n : Name) (p q : Pid)
    (hpc : st.cpc t = .reg2 n p) (hp : p ∈ st.byPid) (hocc : nameFind n st.byName = some q) :
    ∃ st', clientStep st t = some st' ∧ st'.out = st.out ++ [(t, .taken)] ∧ st'.byName = st.byName ∧
      st'.byPid = st.byPid ∧ st'.procs = st.procs ∧ st'.nameLock = none := by
  have hstep : clientStep st t = some ({ st with nameLock := none }.ret t .taken) := by
    unfold clientStep; rw [hpc]; simp only [hp, ↓reduceIte, hocc]
  exact ⟨_, hstep, rfl, rfl, rfl, rfl, rfl⟩

/-- `register` for a pid that is not in the registry (terminated, or never spawned) fails with `ProcessNotFound` and changes
nothing (this is the repaired behaviour, see notes/C18.md) -/
theorem C18_register_dead_pid_fails (st : St) (t : Tid) (n : Name) (p : Pid)
    (hpc : st.cpc t = .reg2 n p) (hp : p ∉ st.byPid) :
    ∃ st', clientStep st t = some st' ∧ st'.out = st.out ++ [(t, .noProc)] ∧ st'.byName = st.byName ∧
      st'.byPid = st.byPid ∧ st'.procs = st.procs := by
  have hstep : clientStep st t = some ({ st with nameLock := none }.ret t .noProc) := by
    unfold clientStep; rw [hpc]; simp only [hp, ↓reduceIte]
  exact ⟨_, hstep, rfl, rfl, rfl, rfl⟩

/-- under every schedule a registered name belongs to a process that is in the registry, or to one that is exactly between
the two accesses of `registry.remove` (out of `by_pid`, names not swept yet) -/
theorem C18_names_point_to_registered (cap : Nat) (evs : List Ev) (n : Name) (p : Pid) :
    let st := run (St.init cap) evs
    nameFind n st.byName = some p → p ∈ st.byPid ∨ (st.procs p).pc = .sweep := by
  intro st h
  exact (allInv_run cap evs).reg.names n p (nameFind_some_mem h)

/-- after termination: once the removal steps of a terminated process are complete, its pid does not resolve, no name resolves
to it, a send to it by pid fails — and all of this stays so under every continuation -/
theorem C18_terminated_unresolvable (cap : Nat) (evs more : List Ev) (p : Pid)
    (h : ((run (St.init cap) evs).procs p).pc.swept = true) :
    let st := run (St.init cap) (evs ++ more)
    (st.procs p).pc.swept = true ∧ p ∉ st.byPid ∧ ∀ n, nameFind n st.byName ≠ some p := by
  intro st
  have hi := allInv_run cap (evs ++ more)
  have hsw : (st.procs p).pc.swept = true := by
    show ((run (St.init cap) (evs ++ more)).procs p).pc.swept = true
    rw [run_append]
    exact swept_forever (allInv_run cap evs).reg h more
  have hg : (st.procs p).pc.gone = true := by
    revert hsw; cases (st.procs p).pc <;> simp [PPc.swept]
  have hout := (hi.reg.goneOut p hg).1
  refine ⟨hsw, hout, fun n hn => ?_⟩
  rcases hi.reg.names n p (nameFind_some_mem hn) with h1 | h1
  · exact hout h1
  · rw [h1] at hsw; cases hsw

example : let st := run (St.init 8) (callEvs 0 (.spawn true) ++ callEvs 0 (.register 3 0) ++ callEvs 0 (.send 0 7 true) ++
    List.replicate 6 (.proc 0 0))
    (st.procs 0).pc.swept = true ∧ nameFind 3 st.byName = none := by decide

/-- no resurrection: a process that has left `by_pid` never comes back, in particular not through the `registry.insert` of
`Node::spawn` running after the process task was started (the task cannot terminate before the insert: nobody can reach its
mailbox) -/
theorem C18_no_resurrection (cap : Nat) (evs more : List Ev) (p : Pid)
    (h : ((run (St.init cap) evs).procs p).pc.gone = true) :
    p ∉ (run (St.init cap) (evs ++ more)).byPid := by
  have hi := allInv_run cap (evs ++ more)
  have hg : ((run (St.init cap) (evs ++ more)).procs p).pc.gone = true := by
    rw [run_append]
    exact gone_forever (allInv_run cap evs).reg h more
  exact (hi.reg.goneOut p hg).1

/-- a process whose `spawn` has not yet reached `registry.insert` is in its loop with an empty mailbox: it cannot have
terminated, so the late insert never registers a dead handle -/
theorem C18_spawn_inserts_a_live_process (cap : Nat) (evs : List Ev) (t : Tid) (p : Pid) :
    let st := run (St.init cap) evs
    st.cpc t = .spawn2 p → (st.procs p).pc = .recv ∧ (st.procs p).mailbox = [] := by
  intro st h
  have hi := (allInv_run cap evs).reg
  have h1 := hi.spawn2 t p h
  exact ⟨h1.2, (hi.fresh p h1.1 (by rw [h1.2]; simp)).2.1⟩

/-- the name can be registered again: in any state where the name is free (as it is once the owner's names are swept), a
`register` of it for a process in the registry, run without interference on `by_name`, returns Ok and the name resolves -/
theorem C18_name_can_be_registered_again (st : St) (t : Tid) (n : Name) (q : Pid)
    (hidle : st.cpc t = .idle) (hlock : st.nameLock = none) (hq : q ∈ st.byPid) (hfree : nameFind n st.byName = none) :
    let st' := run st (callEvs t (.register n q))
    st'.out = st.out ++ [(t, .ok)] ∧ st'.byName = st.byName ++ [(n, q)] ∧ st'.cpc t = .idle := by
  simp [callEvs, run, stepEv, clientStep, hidle, Op.entry, St.setC, St.ret, hlock, hq, hfree, List.replicate]

/-- the sweep releases every name of the terminated process: after the `by_name.retain` step none of them resolves -/
theorem C18_sweep_releases_names (st : St) (p : Pid) (k : Nat) (hpc : (st.procs p).pc = .sweep) (hlock : st.nameLock = none) :
    ∃ st', procStep st p k = some st' ∧ (∀ n, nameFind n st'.byName ≠ some p) ∧
      ∀ n q, q ≠ p → (nameFind n st.byName = some q → (n, q) ∈ st'.byName) := by
  have hstep : procStep st p k = some ({ st with byName := nameSweep p st.byName }.modP p fun q => { q with pc := .closing }) := by
    unfold procStep; rw [hpc]; simp only [hlock]
  refine ⟨_, hstep, ?_, ?_⟩
  · intro n hn
    have := nameFind_some_mem hn
    simp [St.modP] at this
  · intro n q hq hn
    simp [St.modP]
    exact ⟨nameFind_some_mem hn, hq⟩

/-- the `by_name` lock is never held across calls: whenever it is held, the holder is inside `register` and its next step
(always enabled) releases it — `remove` cannot be blocked for good (lock order `by_name` → `by_pid` only) -/
theorem C18_name_lock_is_released (st : St) (t : Tid) (n : Name) (p : Pid) (hpc : st.cpc t = .reg2 n p) :
    ∃ st', clientStep st t = some st' ∧ st'.nameLock = none ∧ st'.cpc t = .idle := by
  unfold clientStep
  rw [hpc]
  simp only
  split
  · split <;> exact ⟨_, rfl, rfl, by simp [St.ret]⟩
  · exact ⟨_, rfl, rfl, by simp [St.ret]⟩

/-! ## D. behaviours -/

/-- a call is answered at most once, and only a call is answered -/
theorem C18_gen_call_answered_at_most_once (body : Term) (res : GsResult) :
    (gsReplies body res).length ≤ 1 := by
  unfold gsReplies
  split <;> simp

/-- a well-formed `{'$gen_call', {Pid, Ref}, Request}` is dispatched to `handle_call` with that request and caller -/
theorem C18_gen_call_wellformed_dispatch (fp : PidF) (node : Bytes) (cr : Nat) (ids : List Nat) (loc : Option Bytes) (req : Term) :
    gsDispatch (.tuple [.atom (atomBytes "$gen_call"), .tuple [.pid fp, .ref node cr ids loc], req]) =
      .call fp (.ref node cr ids loc) req := by
  simp [gsDispatch, isRef]

/-- each call the server replies to is answered exactly once: to the `from` pid of the call, with the call's reference -/
theorem C18_gen_call_reply_to_caller_with_reference (body : Term) (fp : PidF) (r req v : Term)
    (h : gsDispatch body = .call fp r req) :
    gsReplies body (.reply v) = [(fp, .tuple [r, v])] := by
  unfold gsReplies
  rw [h]

/-- casts and plain messages are never answered, and neither is a call the server defers (`NoReply`) or fails on -/
theorem C18_gen_cast_info_never_answered (body : Term) (res : GsResult)
    (h : (∃ q, gsDispatch body = .cast q) ∨ (∃ b, gsDispatch body = .info b) ∨ res = .noReply ∨ res = .err) :
    gsReplies body res = [] := by
  unfold gsReplies
  rcases h with ⟨q, h⟩ | ⟨b, h⟩ | h | h
  · rw [h]
  · rw [h]
  · subst h; split <;> simp_all
  · subst h; split <;> simp_all

example : gsDispatch (.tuple [.atom (atomBytes "$gen_cast"), .atom (atomBytes "stop")]) = .cast (.atom (atomBytes "stop")) := by
  simp [gsDispatch, atomBytes]

/-- the event manager answers each `{'$gen_call', {Pid, Ref}, HandlerId, Request}` exactly once, to the caller, with the
call's reference — also when the handler is missing or fails (`error`); `notify` is never answered -/
theorem C18_gen_event_call_answered_once (frm : Option PidF) (body : Term) (cr : Option Term) (ids : List Term) :
    (geReplies frm body cr ids).length ≤ 1 ∧
      ∀ fp r hid req, geDispatch body = .call fp r hid req →
        geReplies frm body cr ids = [(fp, .tuple [r, cr.getD (.atom (atomBytes "error"))])] := by
  refine ⟨?_, ?_⟩
  · unfold geReplies
    split <;> (try split) <;> simp
  · intro fp r hid req h
    unfold geReplies
    rw [h]

end Edp.Props.C18
