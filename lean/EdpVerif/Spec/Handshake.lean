import EdpVerif.Basic.Bytes
import EdpVerif.Basic.Utf8
import EdpVerif.Basic.Md5
/-
Specification of the distribution handshake as seen from the connecting side (DESIGN.md Appendix B.4,
erl_dist_protocol "Distribution Handshake"), written from the protocol and not from the Rust code:

  * the byte layout of every message (`n`/`N` send_name, `s` status, `N` challenge, `c` complement, `r` reply, `a` ack);
    messages this side SENDS carry their 2-byte length prefix (the state machine emits it itself),
    messages this side RECEIVES are given without it (the transport strips it);
  * the digest `MD5 (cookie ++ decimal challenge)` with the hash as a parameter;
  * the API vocabulary `Op` and, purely as a function of the history of API events, which challenge this side
    has issued in the handshake in progress, which challenge the peer sent, and the capability intersection.
Core Lean only (linked into the driver).
-/
namespace Edp.Spec.Handshake
open Edp

/-! ### digest -/

/-- `u32::to_string`: decimal digits, no sign, no padding -/
def decimal (n : Nat) : Bytes := (Nat.toDigits 10 n).map fun c => UInt8.ofNat c.toNat

/-- the handshake digest with the hash function as a parameter -/
def digestWith (hash : Bytes → Bytes) (cookie : Bytes) (challenge : Nat) : Bytes :=
  hash (cookie ++ decimal challenge)

/-- the handshake digest: MD5 (cookie ++ decimal challenge) -/
def digest (cookie : Bytes) (challenge : Nat) : Bytes := digestWith Md5.md5 cookie challenge

#guard decimal 0 == [48]
#guard decimal 4294967295 == [52, 50, 57, 52, 57, 54, 55, 50, 57, 53]

/-! ### layouts of the messages this side sends (with the 2-byte length) -/

/-- old-style send_name: `'n' version:u16(=5) flags:u32 name` (low 32 flag bits) -/
def sendNameOld (flags : Nat) (name : Bytes) : Bytes :=
  be16 (7 + name.length) ++ [110] ++ be16 5 ++ be32 (flags % 4294967296) ++ name

/-- new-style send_name: `'N' flags:u64 creation:u32 nlen:u16 name` -/
def sendNameNew (flags creation : Nat) (name : Bytes) : Bytes :=
  be16 (15 + name.length) ++ [78] ++ be64 flags ++ be32 creation ++ be16 name.length ++ name

/-- complement: `'c' flagsHigh:u32 creation:u32` -/
def complement (flags creation : Nat) : Bytes :=
  be16 9 ++ [99] ++ be32 (flags / 4294967296) ++ be32 creation

/-- challenge reply: `'r' challenge:u32 digest:16` -/
def reply (challenge : Nat) (dig : Bytes) : Bytes :=
  be16 21 ++ [114] ++ be32 challenge ++ dig

/-! ### layouts of the messages the accepting side sends (with the 2-byte length) -/

/-- status: `'s' status` with the status as text -/
def status (text : Bytes) : Bytes := be16 (1 + text.length) ++ [115] ++ text

/-- challenge: `'N' flags:u64 challenge:u32 creation:u32 nlen:u16 name` -/
def challenge (flags chal creation : Nat) (name : Bytes) : Bytes :=
  be16 (19 + name.length) ++ [78] ++ be64 flags ++ be32 chal ++ be32 creation ++ be16 name.length ++ name

/-- challenge ack: `'a' digest:16` -/
def ack (dig : Bytes) : Bytes := be16 17 ++ [97] ++ dig

/-! ### parsing received messages (length prefix already stripped) -/

inductive Status | ok | okSimultaneous | nok | notAllowed | alive
deriving DecidableEq, Repr

def Status.accepts : Status → Bool
  | .ok => true
  | .okSimultaneous => true
  | _ => false

def txtOk : Bytes := [111, 107]
def txtOkSimultaneous : Bytes := [111, 107, 95, 115, 105, 109, 117, 108, 116, 97, 110, 101, 111, 117, 115]
def txtNok : Bytes := [110, 111, 107]
def txtNotAllowed : Bytes := [110, 111, 116, 95, 97, 108, 108, 111, 119, 101, 100]
def txtAlive : Bytes := [97, 108, 105, 118, 101]

#guard txtOk == "ok".toUTF8.toList
#guard txtOkSimultaneous == "ok_simultaneous".toUTF8.toList
#guard txtNok == "nok".toUTF8.toList
#guard txtNotAllowed == "not_allowed".toUTF8.toList
#guard txtAlive == "alive".toUTF8.toList

/-- the status a connecting side that did not ask for a dynamic name can receive -/
def parseStatus : Bytes → Option Status
  | [] => none
  | t :: text =>
    if t ≠ 115 then none
    else if text = txtOk then some .ok
    else if text = txtOkSimultaneous then some .okSimultaneous
    else if text = txtNok then some .nok
    else if text = txtNotAllowed then some .notAllowed
    else if text = txtAlive then some .alive
    else none

structure ChallengeMsg where
  flags : Nat
  challenge : Nat
  creation : Nat
  name : Bytes
deriving DecidableEq, Repr

/-- `'N' flags:u64 challenge:u32 creation:u32 nlen:u16 name` (name: `nlen` bytes of UTF-8; later bytes ignored) -/
def parseChallenge : Bytes → Option ChallengeMsg
  | [] => none
  | t :: r =>
    if t ≠ 78 then none else
    match rdN 8 r with
    | none => none
    | some (flags, r1) =>
      match rdN 4 r1 with
      | none => none
      | some (chal, r2) =>
        match rdN 4 r2 with
        | none => none
        | some (cr, r3) =>
          match rdN 2 r3 with
          | none => none
          | some (nlen, r4) =>
            if nlen ≤ r4.length ∧ validUtf8 (r4.take nlen) = true then some ⟨flags, chal, cr, r4.take nlen⟩ else none

/-- `'a' digest:16` -/
def parseAck : Bytes → Option Bytes
  | [] => none
  | t :: r => if t = 97 ∧ 16 ≤ r.length then some (r.take 16) else none

/-! ### parsing what this side emitted (a peer's view; with the 2-byte length) -/

/-- a reply as a peer reads it: exactly `00 15 'r' challenge:4 digest:16` -/
def parseReply (bs : Bytes) : Option (Nat × Bytes) :=
  match rdN 2 bs with
  | some (len, t :: r) =>
    if len = 21 ∧ t = 114 ∧ r.length = 20 then
      match rdN 4 r with
      | some (c, d) => some (c, d)
      | none => none
    else none
  | _ => none

/-- an old-style send_name as a peer reads it: `(flags low 32, name)` -/
def parseSendNameOld (bs : Bytes) : Option (Nat × Bytes) :=
  match rdN 2 bs with
  | some (len, t :: r) =>
    if t = 110 ∧ len = 1 + r.length then
      match rdN 2 r with
      | some (ver, r1) =>
        match rdN 4 r1 with
        | some (fl, name) => if ver = 5 then some (fl, name) else none
        | none => none
      | none => none
    else none
  | _ => none

/-! ### the API vocabulary and the history functions -/

/-- one event per public method of the handshake API (the `chal` of `handleChallenge` is the value the
clock-derived generator returned inside that call) -/
inductive Op
  | beginConnect
  | prepareSendName
  | handleStatus (bytes : Bytes)
  | prepareComplement
  | handleChallenge (bytes : Bytes) (chal : Nat)
  | prepareChallengeReply
  | handleChallengeAck (bytes : Bytes)
  | disconnect
deriving DecidableEq, Repr

/-- what the history determines: the challenge this side generated for the handshake in progress, the
peer's challenge, and the capability intersection -/
structure Hist where
  our : Option Nat
  their : Option Nat
  neg : Option Nat
deriving DecidableEq, Repr

def Hist.empty : Hist := ⟨none, none, none⟩

/-- a well-formed challenge message starts a new round (fresh challenge of ours, the peer's challenge, the flag
intersection); `disconnect` ends the handshake; nothing else touches them -/
def histStep (ourFlags : Nat) (h : Hist) : Op → Hist
  | .disconnect => Hist.empty
  | .handleChallenge b c =>
    match parseChallenge b with
    | some m => ⟨some c, some m.challenge, some (m.flags &&& ourFlags)⟩
    | none => h
  | _ => h

def histFrom (ourFlags : Nat) (h : Hist) (ops : List Op) : Hist := ops.foldl (histStep ourFlags) h

/-- the history functions from the start -/
def hist (ourFlags : Nat) (ops : List Op) : Hist := histFrom ourFlags Hist.empty ops

/-- API events that cannot take an established connection out of `connected` -/
def Op.keepsConnected : Op → Bool
  | .beginConnect => true
  | .handleStatus _ => true
  | .prepareComplement => true
  | .handleChallengeAck _ => true
  | _ => false

/-- API events that leave the challenges of the handshake in progress alone: everything except `disconnect` and a
well-formed challenge message -/
def Op.keepsChallenge : Op → Bool
  | .disconnect => false
  | .handleChallenge b _ => (parseChallenge b).isNone
  | _ => true

end Edp.Spec.Handshake
