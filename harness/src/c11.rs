//! C11 / C12: the term order. One universe of well-formed terms; all pairs (and triples) of it.
use crate::canon::term_text;
use crate::tgen::{gen_term, Cfg};
use crate::Ctx;
use erltf::types::{Atom, BigInt, ExternalFun, ExternalPid, ExternalPort, ExternalReference, InternalFun};
use erltf::{BorrowedTerm, OwnedTerm};
use std::cmp::Ordering;
use std::collections::{BTreeMap, HashMap};
use std::hash::{Hash, Hasher};

fn big(neg: bool, mut v: u128) -> OwnedTerm {
    let mut d = vec![];
    while v > 0 {
        d.push((v & 0xff) as u8);
        v >>= 8;
    }
    OwnedTerm::BigInt(BigInt::new(neg, d))
}

fn int(i: i64) -> OwnedTerm {
    OwnedTerm::Integer(i)
}
fn fl(f: f64) -> OwnedTerm {
    OwnedTerm::Float(f)
}
fn atom(s: &str) -> OwnedTerm {
    OwnedTerm::Atom(Atom::new(s))
}
fn map(kv: Vec<(OwnedTerm, OwnedTerm)>) -> OwnedTerm {
    let mut m = BTreeMap::new();
    for (k, v) in kv {
        m.insert(k, v);
    }
    OwnedTerm::Map(m)
}
fn ifun(arity: u8, num_free: u32, index: u32, free: Vec<OwnedTerm>) -> OwnedTerm {
    OwnedTerm::InternalFun(Box::new(InternalFun::new(
        arity,
        [7u8; 16],
        index,
        num_free,
        Atom::new("m"),
        1,
        2,
        ExternalPid::new(Atom::new("a@h"), 1, 2, 3),
        free,
    )))
}

pub fn universe(ctx: &mut Ctx, extra: usize) -> Vec<OwnedTerm> {
    let mut u: Vec<OwnedTerm> = vec![];
    // numbers around every representation boundary, in every representation
    for &i in &[0i64, 1, -1, 2, 255, 256, -256, 2147483647, 2147483648, -2147483648, -2147483649,
        (1 << 53) - 1, 1 << 53, (1 << 53) + 1, (1 << 53) + 2, -(1 << 53) - 1, i64::MAX, i64::MAX - 1, i64::MIN, i64::MIN + 1] {
        u.push(int(i));
    }
    for &(n, v) in &[(false, 1u128 << 40), (false, (1u128 << 53) + 1), (false, 1u128 << 63), (false, (1u128 << 63) - 1),
        (true, 1u128 << 63), (true, (1u128 << 63) + 1), (false, 1u128 << 64), (false, (1u128 << 64) + 1),
        (false, (2u128 << 64) + 1), (false, (1u128 << 64) + 2), (true, (2u128 << 64) + 1), (true, (1u128 << 64) + 2),
        (false, 100000000000000000000u128), (true, 100000000000000000000u128), (false, 100000000000000000001u128),
        (false, 5), (true, 5), (false, 0), (false, 300), (false, 1u128 << 100), (false, (1u128 << 100) + 1)] {
        u.push(big(n, v));
    }
    for &f in &[0.0f64, -0.0, 0.5, 1.0, 1.5, -1.0, -0.5, 2.0, 255.0, 256.5, 9007199254740992.0, 9007199254740994.0,
        9007199254740991.0, -9007199254740992.0, 9223372036854775808.0, -9223372036854775808.0, 9223372036854777856.0,
        18446744073709551616.0, 1e20, -1e20, 1.0000000000000002e20, 1.2676506002282294e30, 5e-324, 2.2250738585072014e-308,
        f64::MAX, f64::MIN, 4294967296.0, 2147483648.0, 36893488147419103232.0, 300.0, 5.0, -5.0, 1099511627776.0] {
        u.push(fl(f));
    }
    // floats at every power-of-two boundary 2^52..2^64 (below, at, above), 2^1023, subnormals of both signs, NaN of both
    // signs and payloads, the infinities; integers and big integers that sit on those boundaries
    for e in [52u32, 53, 54, 55, 56, 62, 63, 64] {
        let p = 2f64.powi(e as i32);
        for f in [f64::from_bits(p.to_bits() - 1), p, f64::from_bits(p.to_bits() + 1)] {
            u.push(fl(f));
            if e >= 63 {
                u.push(fl(-f));
            }
        }
        if e < 63 {
            u.push(int((1i64 << e) + 1));
            u.push(int(-(1i64 << e)));
        } else {
            u.push(big(false, (1u128 << e) + 1));
            u.push(big(false, (1u128 << e) - 1));
            u.push(big(true, 1u128 << e));
        }
    }
    for f in [2f64.powi(1023), -(2f64.powi(1023)), f64::from_bits(1), -f64::from_bits(1), f64::from_bits(0x000f_ffff_ffff_ffff),
        -f64::MIN_POSITIVE, f64::NAN, -f64::NAN, f64::from_bits(0x7ff0_0000_0000_0001), f64::INFINITY, f64::NEG_INFINITY,
        2f64.powi(127), 2f64.powi(128), 2f64.powi(1016), 2f64.powi(1024 - 1) * 1.5] {
        u.push(fl(f));
    }
    // integers whose only bits below the float's unit are inside the byte the float's lowest mantissa bit falls into
    // (`compare_magnitude_float`: `low_bits_set` has a whole-byte part and a partial-byte part)
    u.push(big(false, (1u128 << 64) + (1 << 8)));
    u.push(big(false, (1u128 << 63) + (1 << 9)));
    u.push(big(true, (1u128 << 64) + (1 << 10)));
    u.push(big(false, (1u128 << 70) + (1 << 17)));
    u.push(big(false, (1u128 << 70) + (1 << 16)));
    u.push(big(false, 1u128 << 70));
    u.push(fl(2f64.powi(70)));
    u.push(fl(f64::from_bits(2f64.powi(70).to_bits() + 1)));
    // big integers of 8, 9, 128 and 129 digits: 2^1023 and 2^1024 exactly, their neighbours, a 129-digit number above f64::MAX
    u.push(big(false, u64::MAX as u128));
    u.push(big(false, (1u128 << 127) + 1));
    u.push(big(false, 1u128 << 127));
    u.push(big(true, 1u128 << 127));
    {
        let pow2 = |k: usize, low: u8| {
            let mut d = vec![0u8; k / 8 + 1];
            d[k / 8] = 1 << (k % 8);
            d[0] |= low;
            d
        };
        u.push(OwnedTerm::BigInt(BigInt::new(false, pow2(1023, 0))));
        u.push(OwnedTerm::BigInt(BigInt::new(false, pow2(1023, 1))));
        u.push(OwnedTerm::BigInt(BigInt::new(true, pow2(1023, 0))));
        u.push(OwnedTerm::BigInt(BigInt::new(false, pow2(1024, 0))));
        u.push(OwnedTerm::BigInt(BigInt::new(true, pow2(1024, 0))));
        u.push(OwnedTerm::BigInt(BigInt::new(false, pow2(1016, 0))));
        u.push(OwnedTerm::BigInt(BigInt::new(false, vec![0xff; 128])));
        // f64::MAX = (2^53 - 1) * 2^971 as an integer, and its successor
        let mut fmax = vec![0u8; 128];
        fmax[127] = 0xff;
        fmax[126] = 0xff;
        fmax[125] = 0xff;
        fmax[124] = 0xff;
        fmax[123] = 0xff;
        fmax[122] = 0xff;
        fmax[121] = 0xf8;
        u.push(OwnedTerm::BigInt(BigInt::new(false, fmax.clone())));
        fmax[0] = 1;
        u.push(OwnedTerm::BigInt(BigInt::new(false, fmax)));
    }
    for s in ["", "a", "ab", "b", "ok", "z", "é", "日本", "\u{10000}", "A"] {
        u.push(atom(s));
    }
    let n1 = Atom::new("a@h");
    let n2 = Atom::new("b@h");
    u.push(OwnedTerm::Reference(ExternalReference::new(n1.clone(), 1, vec![1, 2, 3])));
    u.push(OwnedTerm::Reference(ExternalReference::new(n1.clone(), 1, vec![1, 2])));
    u.push(OwnedTerm::Reference(ExternalReference::new(n1.clone(), 2, vec![1, 2, 3])));
    u.push(OwnedTerm::Reference(ExternalReference::new(n2.clone(), 1, vec![0])));
    // id vectors that differ only by trailing / leading zero words, and by length alone (seeded change S68: the shorter
    // vector compared as if padded with zero words)
    u.push(OwnedTerm::Reference(ExternalReference::new(n1.clone(), 1, vec![1, 2, 3, 0])));
    u.push(OwnedTerm::Reference(ExternalReference::new(n1.clone(), 1, vec![0, 1, 2, 3])));
    u.push(OwnedTerm::Reference(ExternalReference::new(n1.clone(), 1, vec![1, 2, 0])));
    u.push(OwnedTerm::Reference(ExternalReference::new(n2.clone(), 1, vec![0, 0])));
    u.push(OwnedTerm::Reference(ExternalReference::new(n2.clone(), 1, vec![])));
    u.push(OwnedTerm::Reference(ExternalReference::with_local_ext_bytes(n1.clone(), 1, vec![1, 2, 3], vec![1u8; 20])));
    u.push(OwnedTerm::ExternalFun(ExternalFun::new(Atom::new("m"), Atom::new("f"), 1)));
    u.push(OwnedTerm::ExternalFun(ExternalFun::new(Atom::new("m"), Atom::new("f"), 2)));
    u.push(OwnedTerm::ExternalFun(ExternalFun::new(Atom::new("m"), Atom::new("g"), 0)));
    u.push(ifun(1, 0, 5, vec![]));
    u.push(ifun(2, 0, 5, vec![])); // differs only in arity
    u.push(ifun(1, 0, 6, vec![]));
    u.push(ifun(1, 1, 5, vec![int(1)]));
    u.push(ifun(1, 1, 5, vec![fl(1.0)]));
    u.push(ifun(1, 2, 5, vec![int(1), int(2)]));
    u.push(ifun(1, 1, 5, vec![int(2)])); // free variables differing in an element
    u.push(ifun(1, 2, 5, vec![int(1), atom("x")]));
    u.push(OwnedTerm::Port(ExternalPort::new(n1.clone(), 5, 1)));
    u.push(OwnedTerm::Port(ExternalPort::new(n1.clone(), 1 << 40, 1)));
    u.push(OwnedTerm::Port(ExternalPort::new(n1.clone(), 5, 2)));
    u.push(OwnedTerm::Port(ExternalPort::with_local_ext_bytes(n1.clone(), 5, 1, vec![9u8; 12])));
    u.push(OwnedTerm::Pid(ExternalPid::new(n1.clone(), 1, 2, 3)));
    u.push(OwnedTerm::Pid(ExternalPid::new(n1.clone(), 1, 2, 4)));
    u.push(OwnedTerm::Pid(ExternalPid::new(n1.clone(), 2, 0, 0)));
    u.push(OwnedTerm::Pid(ExternalPid::new(n2.clone(), 0, 0, 0)));
    u.push(OwnedTerm::Pid(ExternalPid::with_local_ext_bytes(n1.clone(), 1, 2, 3, vec![3u8; 16])));
    // tuples
    u.push(OwnedTerm::Tuple(vec![]));
    u.push(OwnedTerm::Tuple(vec![int(1)]));
    u.push(OwnedTerm::Tuple(vec![fl(1.0)]));
    u.push(OwnedTerm::Tuple(vec![int(2)]));
    u.push(OwnedTerm::Tuple(vec![int(1), int(2)]));
    u.push(OwnedTerm::Tuple(vec![int(0), int(0), int(0)]));
    u.push(OwnedTerm::Tuple(vec![atom("a"), big(false, 1 << 64)]));
    u.push(OwnedTerm::Tuple(vec![atom("a"), fl(18446744073709551616.0)]));
    // maps
    u.push(map(vec![]));
    u.push(map(vec![(atom("a"), int(1))]));
    u.push(map(vec![(atom("a"), fl(1.0))]));
    u.push(map(vec![(atom("a"), int(2))]));
    u.push(map(vec![(atom("b"), int(0))]));
    u.push(map(vec![(atom("a"), int(2)), (atom("b"), int(1))]));
    u.push(map(vec![(atom("a"), int(1)), (atom("c"), int(0))]));
    u.push(map(vec![(atom("a"), int(1)), (atom("b"), int(5))]));
    u.push(map(vec![(int(1), atom("x")), (int(2), atom("y"))]));
    u.push(map(vec![(int(1), atom("x")), (atom("k"), atom("y"))]));
    u.push(map(vec![(OwnedTerm::Tuple(vec![int(1)]), atom("x"))]));
    u.push(map(vec![(fl(1.0), atom("x")), (int(2), atom("y"))]));
    u.push(map(vec![(OwnedTerm::Tuple(vec![fl(1.0)]), atom("x"))]));
    // lists: nil, empty list, proper, improper, strings of chars
    u.push(OwnedTerm::Nil);
    u.push(OwnedTerm::List(vec![]));
    u.push(OwnedTerm::List(vec![int(1)]));
    u.push(OwnedTerm::List(vec![int(3)]));
    u.push(OwnedTerm::List(vec![int(1), int(2)]));
    u.push(OwnedTerm::List(vec![int(1), int(5)]));
    u.push(OwnedTerm::List(vec![fl(1.0), int(2)]));
    u.push(OwnedTerm::List(vec![int(2)]));
    u.push(OwnedTerm::List(vec![OwnedTerm::List(vec![]), OwnedTerm::Nil]));
    u.push(OwnedTerm::ImproperList { elements: vec![int(1)], tail: Box::new(int(2)) });
    u.push(OwnedTerm::ImproperList { elements: vec![int(1)], tail: Box::new(int(3)) });
    u.push(OwnedTerm::ImproperList { elements: vec![int(2)], tail: Box::new(int(3)) });
    u.push(OwnedTerm::ImproperList { elements: vec![int(1), int(5)], tail: Box::new(atom("x")) });
    u.push(OwnedTerm::ImproperList { elements: vec![int(1)], tail: Box::new(OwnedTerm::Binary(vec![])) });
    u.push(OwnedTerm::ImproperList { elements: vec![int(1)], tail: Box::new(OwnedTerm::Tuple(vec![])) });
    u.push(OwnedTerm::ImproperList { elements: vec![int(1), int(2)], tail: Box::new(OwnedTerm::Binary(vec![1])) });
    // every representation of the same chain of cons cells: improper lists whose tail is itself a list, improper lists
    // without elements (what `LIST_EXT` of length zero decodes to: no cons cell at all, i.e. the tail itself), nested
    let il = |e: Vec<OwnedTerm>, t: OwnedTerm| OwnedTerm::ImproperList { elements: e, tail: Box::new(t) };
    u.push(il(vec![int(1)], OwnedTerm::List(vec![int(2)])));
    u.push(il(vec![int(1)], OwnedTerm::Nil));
    u.push(il(vec![int(1)], il(vec![int(5)], atom("x"))));
    u.push(il(vec![int(1)], OwnedTerm::List(vec![])));
    u.push(il(vec![], int(5)));
    u.push(il(vec![], atom("a")));
    u.push(il(vec![], OwnedTerm::Binary(vec![1])));
    u.push(il(vec![], OwnedTerm::Tuple(vec![int(1)])));
    u.push(il(vec![], OwnedTerm::Nil));
    u.push(il(vec![], OwnedTerm::List(vec![int(1), int(2)])));
    u.push(il(vec![], il(vec![], fl(5.0))));
    u.push(il(vec![], il(vec![int(1)], int(2))));
    u.push(il(vec![int(1)], il(vec![], int(2))));
    u.push(OwnedTerm::Tuple(vec![il(vec![], int(1))]));
    u.push(OwnedTerm::List(vec![il(vec![], int(1)), int(2)]));
    u.push(map(vec![(il(vec![], atom("a")), int(1))]));
    // binaries, strings, bit-strings (unused bits zero)
    for b in [vec![], vec![0u8], vec![1], vec![1, 2, 3], vec![1, 2, 4], vec![1, 2, 3, 4], vec![0x80], vec![0xc0], vec![0xff], vec![97]] {
        u.push(OwnedTerm::Binary(b));
    }
    u.push(OwnedTerm::String("a".to_string()));
    u.push(OwnedTerm::String("".to_string()));
    u.push(OwnedTerm::String("abc".to_string()));
    for (b, n) in [(vec![0x80u8], 1u8), (vec![0x80], 2), (vec![0xc0], 2), (vec![0x00], 1), (vec![1, 2, 0x00], 1), (vec![1, 2, 0x80], 1),
        (vec![1, 2, 3], 8), (vec![1, 0x80], 7), (vec![97, 0x40], 2), (vec![0xfe], 7), (vec![0xff, 0x80], 1)] {
        u.push(OwnedTerm::BitBinary { bytes: b, bits: n });
    }
    // generated well-formed terms
    let cfg = Cfg { max_depth: 3, huge: false, local_ids: true, ..Cfg::default() };
    for _ in 0..extra {
        u.push(gen_term(&mut ctx.rng, &cfg, 1));
    }
    u
}

fn ord(o: Ordering) -> &'static str {
    match o {
        Ordering::Less => "lt",
        Ordering::Equal => "eq",
        Ordering::Greater => "gt",
    }
}

/// records every byte the `Hash` impl writes (the default `write_*` methods all end in `write`)
struct Rec(Vec<u8>);
impl Hasher for Rec {
    fn finish(&self) -> u64 {
        0
    }
    fn write(&mut self, bytes: &[u8]) {
        self.0.extend_from_slice(bytes);
    }
}

fn hash_stream(t: &OwnedTerm) -> Vec<u8> {
    let mut r = Rec(vec![]);
    t.hash(&mut r);
    r.0
}

fn h(t: &OwnedTerm) -> u64 {
    let mut s = std::collections::hash_map::DefaultHasher::new();
    t.hash(&mut s);
    s.finish()
}

/// traversal-order markers of numeric kinds: terms that compare equal but differ here are distinct in Erlang's exact (`=:=`) sense
fn num_shape(t: &OwnedTerm, out: &mut String) {
    match t {
        OwnedTerm::Integer(_) | OwnedTerm::BigInt(_) => out.push('i'),
        OwnedTerm::Float(_) => out.push('f'),
        OwnedTerm::Tuple(l) | OwnedTerm::List(l) => l.iter().for_each(|e| num_shape(e, out)),
        OwnedTerm::ImproperList { elements, tail } => {
            elements.iter().for_each(|e| num_shape(e, out));
            num_shape(tail, out)
        }
        OwnedTerm::Map(m) => m.iter().for_each(|(k, v)| {
            num_shape(k, out);
            num_shape(v, out)
        }),
        OwnedTerm::InternalFun(f) => f.free_vars.iter().for_each(|e| num_shape(e, out)),
        _ => out.push('.'),
    }
}

fn map_keys<'a>(t: &'a OwnedTerm, out: &mut Vec<&'a OwnedTerm>) {
    match t {
        OwnedTerm::Tuple(l) | OwnedTerm::List(l) => l.iter().for_each(|e| map_keys(e, out)),
        OwnedTerm::ImproperList { elements, tail } => {
            elements.iter().for_each(|e| map_keys(e, out));
            map_keys(tail, out)
        }
        OwnedTerm::Map(m) => m.iter().for_each(|(k, v)| {
            out.push(k);
            map_keys(k, out);
            map_keys(v, out)
        }),
        OwnedTerm::InternalFun(f) => f.free_vars.iter().for_each(|e| map_keys(e, out)),
        _ => {}
    }
}

/// classifier of the recorded finding: map keys that are `==` but not `=:=` (1 vs 1.0) are ordered int-before-float by Erlang
pub fn key_tie(a: &OwnedTerm, b: &OwnedTerm) -> bool {
    let (mut ka, mut kb) = (vec![], vec![]);
    map_keys(a, &mut ka);
    map_keys(b, &mut kb);
    for x in &ka {
        for y in &kb {
            if x.cmp(y) == Ordering::Equal {
                let (mut sx, mut sy) = (String::new(), String::new());
                num_shape(x, &mut sx);
                num_shape(y, &mut sy);
                if sx != sy {
                    return true;
                }
            }
        }
    }
    false
}

/// does the term contain a big integer whose most significant stored digit is zero (non-minimal digits)?
pub fn has_nonminimal_big(t: &OwnedTerm) -> bool {
    match t {
        OwnedTerm::BigInt(b) => b.digits.last() == Some(&0),
        OwnedTerm::Tuple(l) | OwnedTerm::List(l) => l.iter().any(has_nonminimal_big),
        OwnedTerm::ImproperList { elements, tail } => elements.iter().any(has_nonminimal_big) || has_nonminimal_big(tail),
        OwnedTerm::Map(m) => m.iter().any(|(k, v)| has_nonminimal_big(k) || has_nonminimal_big(v)),
        OwnedTerm::InternalFun(f) => f.free_vars.iter().any(has_nonminimal_big),
        _ => false,
    }
}

/// does the term contain a NaN or an infinity (not Erlang values: the Erlang-order oracle says nothing about them)?
pub fn has_nonfinite(t: &OwnedTerm) -> bool {
    match t {
        OwnedTerm::Float(f) => !f.is_finite(),
        OwnedTerm::Tuple(l) | OwnedTerm::List(l) => l.iter().any(has_nonfinite),
        OwnedTerm::ImproperList { elements, tail } => elements.iter().any(has_nonfinite) || has_nonfinite(tail),
        OwnedTerm::Map(m) => m.iter().any(|(k, v)| has_nonfinite(k) || has_nonfinite(v)),
        OwnedTerm::InternalFun(f) => f.free_vars.iter().any(has_nonfinite),
        _ => false,
    }
}

/// Erlang type rank (number < atom < reference < fun < port < pid < tuple < map < list < bit-string)
fn type_rank(t: &OwnedTerm) -> u8 {
    match t {
        // an improper list without elements is its tail
        OwnedTerm::ImproperList { elements, tail } if elements.is_empty() => type_rank(tail),
        OwnedTerm::Integer(_) | OwnedTerm::BigInt(_) | OwnedTerm::Float(_) => 0,
        OwnedTerm::Atom(_) => 1,
        OwnedTerm::Reference(_) => 2,
        OwnedTerm::ExternalFun(_) | OwnedTerm::InternalFun(_) => 3,
        OwnedTerm::Port(_) => 4,
        OwnedTerm::Pid(_) => 5,
        OwnedTerm::Tuple(_) => 6,
        OwnedTerm::Map(_) => 7,
        OwnedTerm::Nil | OwnedTerm::List(_) | OwnedTerm::ImproperList { .. } => 8,
        OwnedTerm::Binary(_) | OwnedTerm::BitBinary { .. } | OwnedTerm::String(_) => 9,
    }
}

/// failure class of a law violation: the recorded finding only when the witness really involves a non-minimal big integer
fn law_class(base: &'static str, witness: &[&OwnedTerm]) -> &'static str {
    if witness.iter().any(|t| has_nonminimal_big(t)) { "kf-c11-nonminimal-big" } else { base }
}

/// big integers with high-order zero digits (the decoder keeps the digits of SMALL_BIG_EXT/LARGE_BIG_EXT as they arrive),
/// bare and nested, plus their minimal counterparts for reference
pub fn nonminimal_terms() -> Vec<OwnedTerm> {
    vec![
        OwnedTerm::BigInt(BigInt::new(false, vec![1, 0])),
        OwnedTerm::BigInt(BigInt::new(false, vec![0])),
        OwnedTerm::BigInt(BigInt::new(true, vec![0, 0])),
        OwnedTerm::BigInt(BigInt::new(false, vec![5, 0, 0])),
        OwnedTerm::BigInt(BigInt::new(true, vec![1, 0])),
        OwnedTerm::BigInt(BigInt::new(false, vec![0, 0, 0, 0, 0, 0, 0, 0, 1, 0])),
        OwnedTerm::BigInt(BigInt::new(false, vec![1, 0, 0])),
        OwnedTerm::Tuple(vec![OwnedTerm::BigInt(BigInt::new(false, vec![1, 0]))]),
        OwnedTerm::List(vec![OwnedTerm::BigInt(BigInt::new(false, vec![1, 0])), int(2)]),
        OwnedTerm::BigInt(BigInt::new(false, vec![1])),
    ]
}

pub fn run(ctx: &mut Ctx) {
    run_mode(ctx, false)
}

pub fn run_mode(ctx: &mut Ctx, c12: bool) {
    let extra = ctx.n(40, 140);
    let u = universe(ctx, extra);
    let n = u.len();
    ctx.add("universe", n as u64);
    let texts: Vec<String> = u.iter().map(term_text).collect();
    let nonfinite: Vec<bool> = u.iter().map(has_nonfinite).collect();
    let mut m = vec![Ordering::Equal; n * n];
    let mut panics = 0usize;
    for i in 0..n {
        for j in 0..n {
            if c12 && (nonfinite[i] || nonfinite[j]) {
                // NaN and the infinities denote no Erlang value; C11 covers their place in the order
                ctx.count("pairs_with_nonfinite_float_skipped");
                continue;
            }
            let o = match std::panic::catch_unwind(|| u[i].cmp(&u[j])) {
                Ok(o) => o,
                Err(_) => {
                    panics += 1;
                    if panics <= 8 {
                        ctx.fail("c11-cmp-panics", &format!("{} {}", texts[i], texts[j]));
                    }
                    Ordering::Equal
                }
            };
            m[i * n + j] = o;
            ctx.count(match o {
                Ordering::Less => "pairs_lt",
                Ordering::Equal => "pairs_eq",
                Ordering::Greater => "pairs_gt",
            });
            if c12 {
                let tag = if key_tie(&u[i], &u[j]) { "kf-c12-map-key-exact" } else { "gen" };
                ctx.prop(tag, &format!("c12cmp {} {}", texts[i], texts[j]), ord(o));
                // the zero-copy type has its own copy of the comparison: judged by the same oracle wherever it answers
                // differently from the owned type (where it answers alike, the line above has judged it)
                let ob = std::panic::catch_unwind(|| BorrowedTerm::from(&u[i]).cmp(&BorrowedTerm::from(&u[j])));
                ctx.count("pairs_borrowed_compared");
                match ob {
                    Ok(ob) if ob == o => {}
                    Ok(ob) => {
                        ctx.count("pairs_borrowed_differs_from_owned");
                        ctx.prop(tag, &format!("c12cmp {} {}", texts[i], texts[j]), ord(ob));
                    }
                    Err(_) => {
                        panics += 1;
                        if panics <= 8 {
                            ctx.fail("c12-borrowed-cmp-panics", &format!("{} {}", texts[i], texts[j]));
                        }
                    }
                }
            } else {
                // three models on one line: `Term.cmp` (the model the laws are proved about) against the owned comparison, and
                // the two arm-by-arm models `cmpOwned` / `cmpBorrowed`, each against its own implementation
                let ob = std::panic::catch_unwind(|| BorrowedTerm::from(&u[i]).cmp(&BorrowedTerm::from(&u[j])));
                match ob {
                    Ok(ob) => ctx.tie("gen", &format!("c11all {} {}", texts[i], texts[j]), &format!("{} {} {}", ord(o), ord(o), ord(ob))),
                    Err(_) => {
                        panics += 1;
                        if panics <= 8 {
                            ctx.fail("c11-borrowed-cmp-panics", &format!("{} {}", texts[i], texts[j]));
                        }
                    }
                }
            }
        }
    }
    ctx.add("exhaustive", 1);
    if panics > 0 {
        // a comparison that panics is reported with its input; the remaining checks call `cmp` unguarded (sort, BTreeMap)
        ctx.add("cmp_panics", panics as u64);
        return;
    }
    let nonmin = nonminimal_terms();
    if c12 {
        // the oracle also on big integers with high-order zero digits, against every term of the universe and each other;
        // a disagreement whose pair involves such a term is the recorded finding, anything else is an ordinary violation
        let nm_texts: Vec<String> = nonmin.iter().map(term_text).collect();
        for (a, ta) in nonmin.iter().zip(&nm_texts) {
            for (b, tb) in u.iter().zip(&texts).chain(nonmin.iter().zip(&nm_texts)) {
                if has_nonfinite(b) {
                    continue;
                }
                // terms of different type rank are ordered by the rank alone: a disagreement there is never the recorded finding
                let tag = if (has_nonminimal_big(a) || has_nonminimal_big(b)) && type_rank(a) == type_rank(b) {
                    "kf-c12-nonminimal-big"
                } else {
                    "gen"
                };
                ctx.prop(tag, &format!("c12cmp {} {}", ta, tb), ord(a.cmp(b)));
                ctx.prop(tag, &format!("c12cmp {} {}", tb, ta), ord(b.cmp(a)));
                ctx.count("nonminimal_big_pairs");
            }
        }
        // slice::sort and BTreeMap iteration order against the pairwise results
        let mut sorted: Vec<usize> = (0..n).collect();
        sorted.sort_by(|&a, &b| u[a].cmp(&u[b]));
        for w in sorted.windows(2) {
            if u[w[0]].cmp(&u[w[1]]) == Ordering::Greater {
                ctx.fail("c12-sort-misplaces", &format!("{} sorted before {}", texts[w[0]], texts[w[1]]));
            }
        }
        return;
    }
    // ties of the equality and hash models (Impl/EqHash.lean): `==` on every pair that compares Equal and on a
    // sample of the others; the hashed byte stream of every term
    for i in 0..n {
        ctx.tie("hash", &format!("c11hash {}", texts[i]), &crate::canon::hexarg(&hash_stream(&u[i])));
        for j in 0..n {
            if m[i * n + j] == Ordering::Equal || (i * 31 + j * 17) % 23 == 0 {
                ctx.tie("eqv", &format!("c11eqv {} {}", texts[i], texts[j]), if u[i] == u[j] { "true" } else { "false" });
                ctx.count("eqv_pairs");
            }
        }
    }
    // model tie on big integers with high-order zero digits (the code compares digit counts first, so these do not
    // compare by value), against every term of the universe and each other
    let nm_texts: Vec<String> = nonmin.iter().map(term_text).collect();
    for (a, ta) in nonmin.iter().zip(&nm_texts) {
        for (b, tb) in u.iter().zip(&texts) {
            ctx.tie("nonmin", &format!("c11cmp {} {}", ta, tb), ord(a.cmp(b)));
            ctx.tie("nonmin", &format!("c11cmp {} {}", tb, ta), ord(b.cmp(a)));
            ctx.count("nonminimal_big_pairs");
        }
        for (b, tb) in nonmin.iter().zip(&nm_texts) {
            ctx.tie("nonmin", &format!("c11cmp {} {}", ta, tb), ord(a.cmp(b)));
            ctx.tie("eqv", &format!("c11eqv {} {}", ta, tb), if a == b { "true" } else { "false" });
        }
        ctx.tie("hash", &format!("c11hash {}", ta), &crate::canon::hexarg(&hash_stream(a)));
    }
    // C11 laws on the implementation itself
    for i in 0..n {
        let bi = BorrowedTerm::from(&u[i]);
        for j in 0..n {
            let o = m[i * n + j];
            if m[j * n + i] != o.reverse() {
                ctx.fail(law_class("c11-not-antisymmetric", &[&u[i], &u[j]]), &format!("{} {} : {} / {}", texts[i], texts[j], ord(o), ord(m[j * n + i])));
            }
            let bj = BorrowedTerm::from(&u[j]);
            if bi.cmp(&bj) != o {
                ctx.fail("c11-borrowed-differs", &format!("{} {} : owned {} borrowed {}", texts[i], texts[j], ord(o), ord(bi.cmp(&bj))));
            }
            if u[i] == u[j] {
                if o != Ordering::Equal {
                    ctx.fail("c11-eq-not-cmp-equal", &format!("{} {}", texts[i], texts[j]));
                }
                if h(&u[i]) != h(&u[j]) {
                    ctx.fail("c11-eq-hash-differs", &format!("{} {}", texts[i], texts[j]));
                }
                ctx.count("pairs_structurally_equal");
            }
        }
    }
    // transitivity: all triples
    let mut bad = 0;
    'outer: for i in 0..n {
        for j in 0..n {
            if m[i * n + j] == Ordering::Greater {
                continue;
            }
            for k in 0..n {
                if m[j * n + k] != Ordering::Greater && m[i * n + k] == Ordering::Greater {
                    ctx.fail(law_class("c11-not-transitive", &[&u[i], &u[j], &u[k]]), &format!("{} <= {} <= {} but first > third", texts[i], texts[j], texts[k]));
                    bad += 1;
                    if bad > 5 {
                        break 'outer;
                    }
                }
                // equality must be a congruence for the order
                if m[i * n + j] == Ordering::Equal && m[i * n + k] != m[j * n + k] {
                    ctx.fail(law_class("c11-not-transitive", &[&u[i], &u[j], &u[k]]), &format!("{} = {} but they compare differently with {}", texts[i], texts[j], texts[k]));
                    bad += 1;
                    if bad > 5 {
                        break 'outer;
                    }
                }
            }
        }
    }
    ctx.add("triples", (n * n * n) as u64);
    // the same laws on the universe extended by the non-minimal big integers: every pair and every triple that contains at
    // least one of them. A violation is classified by inspecting its witness: the recorded finding only if a non-minimal big
    // integer takes part, otherwise the ordinary class.
    {
        let x: Vec<&OwnedTerm> = u.iter().chain(nonmin.iter()).collect();
        let xt: Vec<&String> = texts.iter().chain(nm_texts.iter()).collect();
        let nx = x.len();
        let mut mx = vec![Ordering::Equal; nx * nx];
        for i in 0..nx {
            for j in 0..nx {
                mx[i * nx + j] = if i < n && j < n { m[i * n + j] } else { x[i].cmp(x[j]) };
            }
        }
        let (mut kf, mut plain) = (0usize, 0usize);
        let mut report = |ctx: &mut Ctx, base: &'static str, w: &[&OwnedTerm], text: String| {
            let class = law_class(base, w);
            let seen = if class == base { &mut plain } else { &mut kf };
            *seen += 1;
            if *seen <= 8 {
                ctx.fail(class, &text);
            }
        };
        for i in 0..nx {
            for j in 0..nx {
                if i < n && j < n {
                    continue;
                }
                let o = mx[i * nx + j];
                if mx[j * nx + i] != o.reverse() {
                    report(ctx, "c11-not-antisymmetric", &[x[i], x[j]], format!("{} {} : {} / {}", xt[i], xt[j], ord(o), ord(mx[j * nx + i])));
                }
                let (bi, bj) = (BorrowedTerm::from(x[i]), BorrowedTerm::from(x[j]));
                if bi.cmp(&bj) != o {
                    ctx.fail("c11-borrowed-differs", &format!("{} {} : owned {} borrowed {}", xt[i], xt[j], ord(o), ord(bi.cmp(&bj))));
                }
                if x[i] == x[j] {
                    if o != Ordering::Equal {
                        ctx.fail("c11-eq-not-cmp-equal", &format!("{} {}", xt[i], xt[j]));
                    }
                    if h(x[i]) != h(x[j]) {
                        ctx.fail("c11-eq-hash-differs", &format!("{} {}", xt[i], xt[j]));
                    }
                }
            }
        }
        let mut triples = 0u64;
        for i in 0..nx {
            for j in 0..nx {
                if mx[i * nx + j] == Ordering::Greater {
                    continue;
                }
                for k in 0..nx {
                    if i < n && j < n && k < n {
                        continue;
                    }
                    triples += 1;
                    if mx[j * nx + k] != Ordering::Greater && mx[i * nx + k] == Ordering::Greater {
                        report(ctx, "c11-not-transitive", &[x[i], x[j], x[k]], format!("{} <= {} <= {} but first > third", xt[i], xt[j], xt[k]));
                    }
                    if mx[i * nx + j] == Ordering::Equal && mx[i * nx + k] != mx[j * nx + k] {
                        report(ctx, "c11-not-transitive", &[x[i], x[j], x[k]], format!("{} = {} but they compare differently with {}", xt[i], xt[j], xt[k]));
                    }
                }
            }
        }
        ctx.add("triples_with_nonminimal_big", triples);
        ctx.add("nonminimal_big_law_violations", kf as u64);
    }
    // ordered and hashed containers neither lose nor duplicate
    let mut bt: BTreeMap<OwnedTerm, usize> = BTreeMap::new();
    let mut hm: HashMap<OwnedTerm, usize> = HashMap::new();
    for (i, t) in u.iter().enumerate() {
        bt.insert(t.clone(), i);
        hm.insert(t.clone(), i);
    }
    for (i, t) in u.iter().enumerate() {
        match bt.get(t) {
            Some(&j) if m[i * n + j] == Ordering::Equal => {}
            other => ctx.fail("c11-btreemap-loses", &format!("{} -> {:?}", texts[i], other)),
        }
        // a NaN is `!=` itself (`f64 ==`), so a hashed container cannot find a key that contains one; the property speaks
        // of finite floats (the BTreeMap check above does cover NaN keys: `cmp` is reflexive on them)
        if format!("{:?}", t).contains("NaN") {
            ctx.count("hashmap_keys_with_nan_skipped");
            continue;
        }
        match hm.get(t) {
            Some(&j) if u[j] == *t => {}
            other => ctx.fail("c11-hashmap-loses", &format!("{} -> {:?}", texts[i], other)),
        }
    }
    let classes = {
        // number of equivalence classes of cmp == Equal
        let mut reps: Vec<usize> = vec![];
        for i in 0..n {
            if !reps.iter().any(|&r| m[i * n + r] == Ordering::Equal) {
                reps.push(i);
            }
        }
        reps.len()
    };
    if bt.len() != classes {
        ctx.fail("c11-btreemap-loses", &format!("BTreeMap holds {} keys for {} equivalence classes", bt.len(), classes));
    }
    let keys: Vec<&OwnedTerm> = bt.keys().collect();
    for w in keys.windows(2) {
        if w[0].cmp(w[1]) != Ordering::Less {
            ctx.fail("c11-btreemap-misplaces", &format!("{} before {}", term_text(w[0]), term_text(w[1])));
        }
    }
}
