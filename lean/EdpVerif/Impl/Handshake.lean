import EdpVerif.Basic.Bytes
import EdpVerif.Basic.Utf8
import EdpVerif.Spec.Handshake
import EdpVerif.Generated.MiscC04
/-
Model of crates/edp_client/src/{handshake.rs, state_machine.rs, digest.rs, flags.rs} — function by function.
(`Spec.Handshake` is imported only for the API vocabulary `Op`; nothing below uses a Spec layout or parser.)
The message tags, the version of the old send_name and the capability-flag constants are NOT transcribed here: they
are the values `tools/gen_misc.py` extracts from handshake.rs / state_machine.rs / flags.rs on every run
(`Generated/Misc.lean`).

  Rust                                              Lean
  bytes::Buf::get_u8 / get_u16/get_u32/get_u64       getU8 / getN (panic on short input, as `bytes` does)
  Buf::copy_to_slice(&mut [u8;16])                  copy16 (panics on short input)
  &buf[..n]                                         sliceTo (panics when n > len)
  SendName::encode / encode_old / decode            encodeSendName / encodeSendNameOld / decodeSendName
  StatusMessage::encode / decode                    encodeStatus / decodeStatus
  Challenge::encode / decode                        encodeChallenge / decodeChallenge
  ChallengeReply::new+encode / decode / verify      encodeReply / decodeReply / (digest equality)
  ChallengeAck::new+encode / decode / verify        encodeAck / decodeAck / (digest equality)
  digest::compute_digest                            parameter `dg : cookie → challenge → 16 bytes`
  digest::generate_challenge                        the `chal` argument of `Op.handleChallenge`
  HandshakeStateMachine::{begin_connect, …}         step (`expect_state` = the leading state test, `fail` = `state := failed`)
  DistributionFlags::{DEFAULT, DEFAULT_HIDDEN, …}   flagDefault, flagDefaultHidden, flagMandatory, flagConst
-/
namespace Edp.Impl.Handshake
open Edp
open Edp.Spec.Handshake (Op)

/-! ### constants regenerated from the source -/

/-- `HANDSHAKE_TAG_N` -/
def tagN : UInt8 := UInt8.ofNat Gen.HANDSHAKE_TAG_N
/-- `HANDSHAKE_TAG_N_OLD` -/
def tagNOld : UInt8 := UInt8.ofNat Gen.HANDSHAKE_TAG_N_OLD
/-- `HANDSHAKE_TAG_S` -/
def tagS : UInt8 := UInt8.ofNat Gen.HANDSHAKE_TAG_S
/-- `HANDSHAKE_TAG_A` -/
def tagA : UInt8 := UInt8.ofNat Gen.HANDSHAKE_TAG_A
/-- the literal `b'r'` in `ChallengeReply::encode` / `decode` -/
def tagR : UInt8 := UInt8.ofNat Gen.HANDSHAKE_TAG_R_LITERAL
/-- the literal `b'c'` in `prepare_complement` -/
def tagC : UInt8 := UInt8.ofNat Gen.HANDSHAKE_TAG_C_LITERAL
/-- `PROTOCOL_VERSION_5` -/
def version5 : Nat := Gen.PROTOCOL_VERSION_5

/-- `DistributionFlags::<NAME>.bits()` -/
def flagConst (name : String) : Option Nat := Gen.DIST_FLAGS.lookup name
/-- `DistributionFlags::MANDATORY_OTP26` -/
def flagMandatory : Nat := Gen.FLAGSET_MANDATORY_OTP26
/-- `DistributionFlags::DEFAULT` (`default()`, `default_otp26()`: what `ConnectionConfig::new` announces) -/
def flagDefault : Nat := Gen.FLAGSET_DEFAULT
/-- `DistributionFlags::DEFAULT_HIDDEN` (`default_hidden()`: what `ConnectionConfig::new_hidden` announces) -/
def flagDefaultHidden : Nat := Gen.FLAGSET_DEFAULT_HIDDEN

/-- a flag set of flags.rs evaluated from the member names its definition lists (members may be sets themselves) -/
def evalFlagSet (fuel : Nat) (name : String) : Nat :=
  match fuel with
  | 0 => 0
  | fuel + 1 =>
    match Gen.DIST_FLAGS.lookup name with
    | some v => v
    | none =>
      match Gen.DIST_FLAG_SETS.lookup name with
      | some ms => ms.foldl (fun acc m => acc ||| evalFlagSet fuel m) 0
      | none => 0

/-- error classes (one per `Error` variant the handshake code can return) -/
inductive Err
  | invalidTransition   -- Error::InvalidStateTransition
  | nameTooLong         -- Error::NodeNameTooLong
  | malformed           -- Error::InvalidHandshakeMessage
  | refused             -- Error::ConnectionRefused
  | auth                -- Error::AuthenticationFailed
  | stateMsg            -- Error::InvalidStateMessage
deriving DecidableEq, Repr

/-- result of a fallible Rust function that may also panic -/
inductive HRes (α : Type)
  | ok (a : α)
  | err (e : Err)
  | panic
deriving Repr

def HRes.bind {α β : Type} (x : HRes α) (f : α → HRes β) : HRes β :=
  match x with
  | .ok a => f a
  | .err e => .err e
  | .panic => .panic

@[simp] theorem HRes.bind_ok {α β : Type} (a : α) (f : α → HRes β) : (HRes.ok a).bind f = f a := rfl
@[simp] theorem HRes.bind_err {α β : Type} (e : Err) (f : α → HRes β) : (HRes.err e : HRes α).bind f = .err e := rfl
@[simp] theorem HRes.bind_panic {α β : Type} (f : α → HRes β) : (HRes.panic : HRes α).bind f = .panic := rfl

/-- `Buf::get_uN`: panics when fewer than `k` bytes remain -/
def getN (k : Nat) (bs : Bytes) : HRes (Nat × Bytes) :=
  match rdN k bs with
  | some p => .ok p
  | none => .panic

/-- `Buf::get_u8`: panics on an empty buffer -/
def getU8 : Bytes → HRes (UInt8 × Bytes)
  | [] => .panic
  | b :: r => .ok (b, r)

/-- `Buf::copy_to_slice(&mut [0u8; 16])`: panics when fewer than 16 bytes remain -/
def copy16 (bs : Bytes) : HRes (Bytes × Bytes) :=
  if 16 ≤ bs.length then .ok (bs.take 16, bs.drop 16) else .panic

/-- `&buf[..n]`: panics when `n > buf.len()` -/
def sliceTo (n : Nat) (bs : Bytes) : HRes Bytes :=
  if n ≤ bs.length then .ok (bs.take n) else .panic

/-! ### message structs -/

structure NameMsg where
  flags : Nat
  creation : Nat
  name : Bytes
deriving DecidableEq, Repr

structure ChallengeMsg where
  flags : Nat
  challenge : Nat
  creation : Nat
  name : Bytes
deriving DecidableEq, Repr

inductive Status | ok | okSimultaneous | nok | notAllowed | alive
deriving DecidableEq, Repr

/-- `Status::is_ok` -/
def Status.isOk : Status → Bool
  | .ok => true
  | .okSimultaneous => true
  | _ => false

/-- `status as u16` -/
def Status.code : Status → Nat
  | .ok => 0
  | .okSimultaneous => 1
  | .nok => 2
  | .notAllowed => 3
  | .alive => 4

/-- `SendName::encode` (new format) -/
def encodeSendName (m : NameMsg) : HRes Bytes :=
  if m.name.length > 255 then .err .nameTooLong
  else .ok (be16 (1 + 8 + 4 + 2 + m.name.length) ++ [tagN] ++ be64 m.flags ++ be32 m.creation ++ be16 m.name.length ++ m.name)

/-- `SendName::encode_old` -/
def encodeSendNameOld (m : NameMsg) : HRes Bytes :=
  if m.name.length > 255 then .err .nameTooLong
  else .ok (be16 (1 + 2 + 4 + m.name.length) ++ [tagNOld] ++ be16 version5 ++ be32 (m.flags % 4294967296) ++ m.name)

/-- `SendName::decode` -/
def decodeSendName (data : Bytes) : HRes NameMsg :=
  if data.length < 1 then .err .malformed else
  (getU8 data).bind fun (tag, buf) =>
  if tag ≠ tagN then .err .malformed else
  if buf.length < 8 + 4 + 2 then .err .malformed else
  (getN 8 buf).bind fun (flags, b1) =>
  (getN 4 b1).bind fun (creation, b2) =>
  (getN 2 b2).bind fun (nlen, b3) =>
  if b3.length < nlen then .err .malformed else
  (sliceTo nlen b3).bind fun name =>
  if validUtf8 name then .ok ⟨flags, creation, name⟩ else .err .malformed

/-- `impl Display for Status` (as UTF-8 bytes) -/
def Status.text : Status → Bytes
  | .ok => [111, 107]
  | .okSimultaneous => [111, 107, 95, 115, 105, 109, 117, 108, 116, 97, 110, 101, 111, 117, 115]
  | .nok => [110, 111, 107]
  | .notAllowed => [110, 111, 116, 95, 97, 108, 108, 111, 119, 101, 100]
  | .alive => [97, 108, 105, 118, 101]

/-- `StatusMessage::encode`: length of tag plus text, the tag, the status as `Display` prints it -/
def encodeStatus (s : Status) : Bytes := be16 (1 + s.text.length) ++ [tagS] ++ s.text

/-- `StatusMessage::decode` -/
def decodeStatus (data : Bytes) : HRes Status :=
  if data.length < 1 then .err .malformed else
  (getU8 data).bind fun (tag, buf) =>
  if tag ≠ tagS then .err .malformed else
  if !validUtf8 buf then .err .malformed
  else if buf = [111, 107] then .ok .ok
  else if buf = [111, 107, 95, 115, 105, 109, 117, 108, 116, 97, 110, 101, 111, 117, 115] then .ok .okSimultaneous
  else if buf = [110, 111, 107] then .ok .nok
  else if buf = [110, 111, 116, 95, 97, 108, 108, 111, 119, 101, 100] then .ok .notAllowed
  else if buf = [97, 108, 105, 118, 101] then .ok .alive
  else .err .malformed

/-- `Challenge::encode` -/
def encodeChallenge (m : ChallengeMsg) : HRes Bytes :=
  if m.name.length > 255 then .err .nameTooLong
  else .ok (be16 (1 + 8 + 4 + 4 + 2 + m.name.length) ++ [tagN] ++ be64 m.flags ++ be32 m.challenge ++ be32 m.creation
            ++ be16 m.name.length ++ m.name)

/-- `Challenge::decode` -/
def decodeChallenge (data : Bytes) : HRes ChallengeMsg :=
  if data.length < 1 then .err .malformed else
  (getU8 data).bind fun (tag, buf) =>
  if tag ≠ tagN then .err .malformed else
  if buf.length < 8 + 4 + 4 + 2 then .err .malformed else
  (getN 8 buf).bind fun (flags, b1) =>
  (getN 4 b1).bind fun (chal, b2) =>
  (getN 4 b2).bind fun (creation, b3) =>
  (getN 2 b3).bind fun (nlen, b4) =>
  if b4.length < nlen then .err .malformed else
  (sliceTo nlen b4).bind fun name =>
  if validUtf8 name then .ok ⟨flags, chal, creation, name⟩ else .err .malformed

/-- `ChallengeReply::encode` of `ChallengeReply { challenge, digest }` -/
def encodeReply (challenge : Nat) (digest : Bytes) : Bytes :=
  be16 21 ++ [tagR] ++ be32 challenge ++ digest

/-- `ChallengeReply::decode` -/
def decodeReply (data : Bytes) : HRes (Nat × Bytes) :=
  if data.length < 1 then .err .malformed else
  (getU8 data).bind fun (tag, buf) =>
  if tag ≠ tagR then .err .malformed else
  if buf.length < 4 + 16 then .err .malformed else
  (getN 4 buf).bind fun (chal, b1) =>
  (copy16 b1).bind fun (d, _) => .ok (chal, d)

/-- `ChallengeAck::encode` -/
def encodeAck (digest : Bytes) : Bytes := be16 17 ++ [tagA] ++ digest

/-- `ChallengeAck::decode` -/
def decodeAck (data : Bytes) : HRes Bytes :=
  if data.length < 1 then .err .malformed else
  (getU8 data).bind fun (tag, buf) =>
  if tag ≠ tagA then .err .malformed else
  if buf.length < 16 then .err .malformed else
  (copy16 buf).bind fun (d, _) => .ok d

/-! ### the state machine -/

inductive ConnState
  | disconnected | connecting | sendingName | awaitingStatus | awaitingChallenge
  | sendingChallengeReply | awaitingChallengeAck | connected | failed
deriving DecidableEq, Repr

/-- the immutable fields of `HandshakeStateMachine` (`remote_node_name` is never read) -/
structure Cfg where
  name : Bytes
  cookie : Bytes
  flags : Nat
  creation : Nat
deriving Repr

/-- the mutable fields of `HandshakeStateMachine` -/
structure State where
  state : ConnState
  our : Option Nat
  their : Option Nat
  neg : Option Nat
deriving DecidableEq, Repr

/-- `HandshakeStateMachine::new` -/
def State.init : State := ⟨.disconnected, none, none, none⟩

/-- what a method call returns -/
inductive Out
  | unit
  | bytes (b : Bytes)
  | err (e : Err)
  | panic
deriving DecidableEq, Repr

def Out.isErr : Out → Bool
  | .err _ => true
  | _ => false

/-- one public method call, exactly as written in state_machine.rs (`dg` is `digest::compute_digest`).
Every method starts with `expect_state(<the state the previous step leaves>, _)?` — an `InvalidStateTransition` that
changes nothing; `self.fail(e)` sets `Failed` and hands the error on. -/
def step (cfg : Cfg) (dg : Bytes → Nat → Bytes) (s : State) : Op → State × Out
  | .beginConnect =>
    if s.state ≠ .disconnected then (s, .err .invalidTransition)
    else ({ s with state := .connecting }, .unit)
  | .prepareSendName =>
    if s.state ≠ .connecting then (s, .err .invalidTransition) else
    -- state = SendingName; encode_old()?; state = AwaitingStatus
    match encodeSendNameOld ⟨cfg.flags, cfg.creation, cfg.name⟩ with
    | .ok b => ({ s with state := .awaitingStatus }, .bytes b)
    | .err e => ({ s with state := .sendingName }, .err e)
    | .panic => ({ s with state := .sendingName }, .panic)
  | .handleStatus data =>
    if s.state ≠ .awaitingStatus then (s, .err .invalidTransition) else
    match decodeStatus data with
    | .ok st =>
      if st.isOk then ({ s with state := .awaitingChallenge }, .unit)
      else ({ s with state := .failed }, .err .refused)
    | .err e => ({ s with state := .failed }, .err e)
    | .panic => (s, .panic)
  | .prepareComplement =>
    if s.state ≠ .awaitingChallenge then (s, .err .invalidTransition) else
    (s, .bytes (be16 9 ++ [tagC] ++ be32 (cfg.flags / 4294967296) ++ be32 cfg.creation))
  | .handleChallenge data chal =>
    if s.state ≠ .awaitingChallenge then (s, .err .invalidTransition) else
    -- decode().map_err(fail)?; negotiated, their, our; state = SendingChallengeReply
    match decodeChallenge data with
    | .ok m => ({ state := .sendingChallengeReply, our := some chal, their := some m.challenge,
                  neg := some (m.flags &&& cfg.flags) }, .unit)
    | .err e => ({ s with state := .failed }, .err e)
    | .panic => (s, .panic)
  | .prepareChallengeReply =>
    if s.state ≠ .sendingChallengeReply then (s, .err .invalidTransition) else
    -- our?; their?; encode; state = AwaitingChallengeAck
    match s.our, s.their with
    | some o, some t => ({ s with state := .awaitingChallengeAck }, .bytes (encodeReply o (dg cfg.cookie t)))
    | _, _ => (s, .err .stateMsg)
  | .handleChallengeAck data =>
    if s.state ≠ .awaitingChallengeAck then (s, .err .invalidTransition) else
    match decodeAck data with
    | .ok d =>
      match s.our with
      | none => (s, .err .stateMsg)
      | some o =>
        if d = dg cfg.cookie o then ({ s with state := .connected }, .unit)
        else ({ s with state := .failed }, .err .auth)
    | .err e => ({ s with state := .failed }, .err e)
    | .panic => (s, .panic)
  | .disconnect => (⟨.disconnected, none, none, none⟩, .unit)

/-- the state after a sequence of calls -/
def runFrom (cfg : Cfg) (dg : Bytes → Nat → Bytes) (s : State) (ops : List Op) : State :=
  ops.foldl (fun s op => (step cfg dg s op).1) s

def run (cfg : Cfg) (dg : Bytes → Nat → Bytes) (ops : List Op) : State := runFrom cfg dg State.init ops

/-- what each call of a sequence returned -/
def outsFrom (cfg : Cfg) (dg : Bytes → Nat → Bytes) : State → List Op → List Out
  | _, [] => []
  | s, op :: rest => (step cfg dg s op).2 :: outsFrom cfg dg (step cfg dg s op).1 rest

/-- a caller that stops at the first error, as `Connection::connect` does with `?`:
the state reached and the first non-success result, if any -/
def runStop (cfg : Cfg) (dg : Bytes → Nat → Bytes) : State → List Op → State × Option Out
  | s, [] => (s, none)
  | s, op :: rest =>
    match step cfg dg s op with
    | (s', .err e) => (s', some (.err e))
    | (s', .panic) => (s', some .panic)
    | (s', _) => runStop cfg dg s' rest

/-- the in-process part of `Connection::connect` (connection.rs l.192-232) given what the peer sends -/
def connectScript (statusMsg challengeMsg : Bytes) (chal : Nat) (ackMsg : Bytes) : List Op :=
  [.beginConnect, .prepareSendName, .handleStatus statusMsg, .prepareComplement,
   .handleChallenge challengeMsg chal, .prepareChallengeReply, .handleChallengeAck ackMsg]

end Edp.Impl.Handshake
