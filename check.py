#!/usr/bin/env python3
"""Orchestrator: `python3 check.py <Cxx> <quick|thorough> [--replay <file>]`  (cwd /verif)

Per run (DESIGN.md section 5):
  1. regenerate the table-like parts of the model from /repo's working tree (tools/gen_tables.py)
  2. prove: `lake build` of the property's Props module, axiom audit, sorry/axiom grep
  3. tie: build the Rust harness against /repo (cfg edp_rs_verif), run it, pipe every request line to the
     compiled Lean driver, compare (T lines = model-vs-code correspondence)
  4. oracle: P lines (Lean Spec evaluated on the implementation's output) and X lines (property failures the
     harness found on the implementation itself)
  5. verdict, evidence/<id>.json, replay file under runs/
"""
import fcntl
import hashlib
import json
import os
import re
import subprocess
import sys
import time

ROOT = os.path.dirname(os.path.abspath(__file__))
LEAN = os.path.join(ROOT, "lean")
HARNESS = os.path.join(ROOT, "harness")
RUNS = os.path.join(ROOT, "runs")
CACHE = os.path.join(ROOT, ".cache")
DRIVE = os.path.join(CACHE, "target", "debug", "drive")
EDPDRV = os.path.join(LEAN, ".lake", "build", "bin", "edpdrv")
ALLOWED_AXIOMS = {"propext", "Classical.choice", "Quot.sound"}

sys.path.insert(0, os.path.join(ROOT, "tools"))
from props import PROPS  # noqa: E402


def sh(cmd, cwd=None, env=None, timeout=None, inp=None):
    e = dict(os.environ)
    e["CARGO_NET_OFFLINE"] = "true"
    e["CARGO_TARGET_DIR"] = os.path.join(CACHE, "target")
    if env:
        e.update(env)
    p = subprocess.run(cmd, cwd=cwd, env=e, stdout=subprocess.PIPE, stderr=subprocess.STDOUT,
                       timeout=timeout, input=inp, text=True)
    return p.returncode, p.stdout


class Lock:
    """A file lock serialises builds so that checks may be launched concurrently."""

    def __init__(self, name):
        os.makedirs(CACHE, exist_ok=True)
        self.path = os.path.join(CACHE, name + ".lock")

    def __enter__(self):
        self.f = open(self.path, "w")
        fcntl.flock(self.f, fcntl.LOCK_EX)

    def __exit__(self, *a):
        fcntl.flock(self.f, fcntl.LOCK_UN)
        self.f.close()


_T0 = time.time()


def lap(what):
    if os.environ.get("VERIF_TIMING"):
        print(f"  [timing] {what}: {time.time() - _T0:.1f}s", file=sys.stderr)


def regenerate_tables():
    rc, out = sh([sys.executable, os.path.join(ROOT, "tools", "gen_tables.py")], cwd=ROOT)
    broken = [l[len("BROKEN "):] for l in out.splitlines() if l.startswith("BROKEN ")]
    shas = {}
    for l in out.splitlines():
        if l.startswith("TABLE "):
            _, name, sha = l.split()
            shas[name] = sha
    return rc, broken, shas, out


def generated_deps(module):
    """names of the Generated/* modules in the import closure of `module` (the regenerated tables its theorems read)"""
    seen, todo, gen = set(), [module], set()
    while todo:
        m = todo.pop()
        if m in seen:
            continue
        seen.add(m)
        if m.startswith("EdpVerif.Generated."):
            gen.add(m.split(".")[-1])
        path = os.path.join(LEAN, m.replace(".", "/") + ".lean")
        if not os.path.exists(path):
            continue
        for l in open(path):
            mm = re.match(r"^import\s+(EdpVerif\.[A-Za-z0-9_.]+)", l)
            if mm:
                todo.append(mm.group(1))
            elif l.strip() and not l.startswith("import") and not l.startswith("--") and not l.startswith("/-"):
                break
    return gen


def theorems_of(module):
    path = os.path.join(LEAN, module.replace(".", "/") + ".lean")
    names = []
    if os.path.exists(path):
        for l in open(path):
            m = re.match(r"^theorem\s+([A-Za-z0-9_.']+)", l)
            if m:
                names.append(m.group(1))
    return names, path


def grep_forbidden(paths):
    bad = []
    pat = re.compile(r"\bsorry\b|\badmit\b|^\s*axiom\s|native_decide|bv_decide|implemented_by|\bunsafe\s|maxHeartbeats\s+0")
    for p in paths:
        in_block = 0
        for i, l in enumerate(open(p), 1):
            s = l
            # strip block and line comments (good enough for our own sources)
            if "/-" in s and "-/" not in s:
                in_block += 1
                continue
            if in_block:
                if "-/" in s:
                    in_block -= 1
                continue
            s = re.sub(r"/-.*?-/", "", s)
            s = s.split("--")[0]
            if pat.search(s):
                bad.append(f"{p}:{i}: {l.strip()}")
    return bad


def lean_sources():
    out = []
    for d, _, fs in os.walk(os.path.join(LEAN, "EdpVerif")):
        for f in fs:
            if f.endswith(".lean"):
                out.append(os.path.join(d, f))
    out.append(os.path.join(LEAN, "Main.lean"))
    return out


def prove(pid, cfg, thorough):
    """Build the Props module and the driver; audit axioms. Returns dict."""
    module = cfg["module"]
    res = {"module": module, "obligations": 0, "discharged": 0, "theorems": {}, "errors": []}
    names, path = theorems_of(module)
    res["obligations"] = len(names)
    with Lock("lake"):
        if thorough:
            # rebuild the module closure from clean
            sh(["rm", "-rf", os.path.join(LEAN, ".lake", "build", "lib", "lean", "EdpVerif", "Props", pid + ".olean")])
        t0 = time.time()
        rc, out = sh(["lake", "build", module, "edpdrv"], cwd=LEAN, timeout=3000)
        res["build_s"] = round(time.time() - t0, 1)
        if rc != 0:
            res["errors"].append("lake build failed: " + "\n".join(
                l for l in out.splitlines() if "error" in l.lower())[:2000])
            # the driver may still be buildable on its own (needed for the search)
            sh(["lake", "build", "edpdrv"], cwd=LEAN, timeout=3000)
            return res
        bad = grep_forbidden(lean_sources())
        if bad:
            res["errors"].append("forbidden construct: " + "; ".join(bad[:5]))
        # #print axioms for every property theorem
        audit = os.path.join(CACHE, f"audit_{pid}.lean")
        with open(audit, "w") as f:
            f.write(f"import {module}\nopen Edp.Props.{pid}\n")
            for n in names:
                f.write(f"#print axioms {n}\n")
        rc, out = sh(["lake", "env", "lean", audit], cwd=LEAN, timeout=1200)
        cur = None
        axioms = {}
        for l in out.splitlines():
            m = re.match(r"^'([^']+)' depends on axioms: \[(.*)\]", l)
            m2 = re.match(r"^'([^']+)' does not depend on any axioms", l)
            if m:
                axioms[m.group(1)] = [a.strip() for a in m.group(2).split(",") if a.strip()]
                cur = m.group(1) if not l.rstrip().endswith("]") else None
            elif m2:
                axioms[m2.group(1)] = []
            elif "depends on axioms" in l:
                # multi-line list
                mm = re.match(r"^'([^']+)' depends on axioms: \[(.*)", l)
                if mm:
                    cur = mm.group(1)
                    axioms[cur] = [a.strip() for a in mm.group(2).split(",") if a.strip()]
            elif cur is not None:
                axioms[cur] += [a.strip().rstrip("]") for a in l.split(",") if a.strip().rstrip("]")]
                if l.rstrip().endswith("]"):
                    cur = None
        for n in names:
            short = n
            ax = None
            for k, v in axioms.items():
                if k == n or k.endswith("." + n):
                    ax = v
            if ax is None:
                res["errors"].append(f"no axiom report for {n}: {out[-300:]}")
                continue
            res["theorems"][short] = ax
            extra = [a for a in ax if a not in ALLOWED_AXIOMS]
            if extra:
                res["errors"].append(f"{n} depends on non-allowed axioms {extra}")
            else:
                res["discharged"] += 1
        if thorough and not res["errors"]:
            rc, out = sh(["lake", "env", "leanchecker", module], cwd=LEAN, timeout=3000)
            res["leanchecker_rc"] = rc
            if rc != 0:
                res["errors"].append("leanchecker: " + out[-500:])
    return res


def build_harness():
    with Lock("cargo"):
        lock_src = "/repo/Cargo.lock"
        lock_dst = os.path.join(HARNESS, "Cargo.lock")
        if not os.path.exists(lock_dst):
            sh(["cp", lock_src, lock_dst])
        rc, out = sh(["cargo", "build", "--offline", "--bins"], cwd=HARNESS, timeout=3000)
        if rc != 0:
            # a stale lock file is the usual reason after dependency edits; retry once from /repo's
            sh(["cp", lock_src, lock_dst])
            rc, out = sh(["cargo", "build", "--offline", "--bins"], cwd=HARNESS, timeout=3000)
        return rc, out


def run_domain(domain, tier, seed, rundir, extra=None):
    ops = os.path.join(rundir, f"{domain}.ops")
    cmd = [DRIVE, domain, tier, str(seed), ops] + (extra or [])
    rc, out = sh(cmd, cwd=rundir, timeout=7200)
    return rc, out, ops


def drive_model(reqs):
    """Pipe request lines through the Lean driver; returns list of result lines."""
    if not reqs:
        return []
    p = subprocess.run([EDPDRV], input="\n".join(reqs) + "\n", stdout=subprocess.PIPE,
                       stderr=subprocess.PIPE, text=True, timeout=7200)
    res = p.stdout.split("\n")
    if res and res[-1] == "":
        res.pop()
    return res


def evaluate(ops_path):
    """Split the harness output, run the driver, classify. Returns dict."""
    ties, props, xs, stats = [], [], [], {}
    with open(ops_path, errors="replace") as f:
        for no, line in enumerate(f, 1):
            line = line.rstrip("\n")
            if not line:
                continue
            k = line[0]
            if k in "TP":
                body, _, exp = line[2:].rpartition(" ## ")
                tag, _, req = body.partition(" ")
                (ties if k == "T" else props).append((no, tag, req, exp))
            elif k == "X":
                _, cls, text = (line.split(" ", 2) + [""])[:3]
                xs.append((no, cls, text))
            elif k == "S":
                _, key, val = line.split(" ", 2)
                try:
                    stats[key] = int(val)
                except ValueError:
                    stats[key] = val
    reqs = [t[2] for t in ties] + [p[2] for p in props]
    got = drive_model(reqs)
    out = {"ties": len(ties), "props": len(props), "stats": stats,
           "tie_mismatch": [], "oracle_fail": [], "distinct": 0, "samples": []}
    if len(got) != len(reqs):
        out["tie_mismatch"].append({"line": 0, "tag": "driver", "req": "driver produced %d lines for %d requests" % (len(got), len(reqs)),
                                    "impl": "", "model": ""})
        got = got + ["<no-output>"] * (len(reqs) - len(got))
    seen = set()
    for (no, tag, req, exp), g in zip(ties, got[:len(ties)]):
        h = hashlib.sha1(req.encode()).digest()[:8]
        if h not in seen:
            seen.add(h)
        if g != exp:
            out["tie_mismatch"].append({"line": no, "tag": tag, "req": req[:4000], "impl": exp[:2000], "model": g[:2000]})
    for (no, tag, req, exp), g in zip(props, got[len(ties):]):
        h = hashlib.sha1(req.encode()).digest()[:8]
        seen.add(h)
        if g != exp:
            out["oracle_fail"].append({"line": no, "class": tag, "req": req[:4000], "expected": exp[:2000], "spec": g[:2000]})
    for (no, cls, text) in xs:
        out["oracle_fail"].append({"line": no, "class": cls, "req": text[:4000], "expected": "", "spec": "harness"})
    out["distinct"] = len(seen)
    for t in (ties[:2] + props[:2]):
        out["samples"].append((t[2] + " ## " + t[3])[:300])
    return out


def load_known():
    p = os.path.join(ROOT, "known_findings.json")
    if not os.path.exists(p):
        return []
    return [f for f in json.load(open(p)).get("findings", []) if f.get("status") == "open"]


def write_replay(rundir, pid, payload):
    path = os.path.join(rundir, "replay.json")
    payload = dict(payload)
    payload["property"] = pid
    with open(path, "w") as f:
        json.dump(payload, f, indent=1)
    return path


def main():
    if len(sys.argv) < 3:
        print(__doc__)
        return 2
    pid = sys.argv[1]
    replay = None
    if sys.argv[2] == "--replay":
        replay = json.load(open(sys.argv[3]))
        tier = replay.get("tier", "quick")
    else:
        tier = os.environ.get("VERIF_TIER") or sys.argv[2]
        if "--replay" in sys.argv:
            replay = json.load(open(sys.argv[sys.argv.index("--replay") + 1]))
    thorough = tier == "thorough"
    seed = int(replay["seed"]) if replay and "seed" in replay else int(os.environ.get("VERIF_SEED", "1") or 1)
    cfg = PROPS[pid]
    t0 = time.time()
    rundir = os.path.join(RUNS, f"{pid}-{tier}-{seed}")
    os.makedirs(rundir, exist_ok=True)
    known = [k for k in load_known() if k["property"] == pid]

    # 1. tables
    rc, broken_tables, table_shas, tout = regenerate_tables()
    # a broken extraction counts for the properties whose theorems (or the models and lemmas they import) read that table
    deps = generated_deps(cfg["module"])
    broken_tables = [b for b in broken_tables if b.split(":")[0] in deps or b.split(":")[0] in cfg.get("tables", [])]
    table_shas = {k: v for k, v in table_shas.items() if k in deps}
    lap("tables")
    # 2. prove
    pr = prove(pid, cfg, thorough)
    lap("prove")
    proof_ok = not pr["errors"] and pr["obligations"] > 0 and pr["discharged"] == pr["obligations"] and not broken_tables
    # 3. harness
    hrc, hout = build_harness()
    lap("harness build")
    results = []
    harness_err = None
    if hrc != 0:
        harness_err = "harness build failed:\n" + "\n".join(l for l in hout.splitlines() if l.startswith("error"))[:3000]
    else:
        for dom in cfg["domains"]:
            rc, out, ops = run_domain(dom, tier, seed, rundir, cfg.get("extra_args"))
            if rc != 0:
                harness_err = f"harness domain {dom} exited {rc}: {out[-2000:]}"
                break
            lap("harness run " + dom)
            ev = evaluate(ops)
            lap("driver + compare " + dom)
            ev["domain"] = dom
            results.append(ev)

    tie_mismatch = [dict(m, domain=r["domain"]) for r in results for m in r["tie_mismatch"]]
    oracle_fail = [dict(m, domain=r["domain"]) for r in results for m in r["oracle_fail"]]
    known_classes = {k["classifier"]: k for k in known}
    new_fail = [f for f in oracle_fail if f["class"] not in known_classes]
    known_hit = {}
    for f in oracle_fail:
        if f["class"] in known_classes:
            known_hit.setdefault(f["class"], []).append(f)
    tie_ok = harness_err is None and not tie_mismatch

    # 4. intensified search when a proof obligation or the correspondence broke and nothing failed yet
    searched = 0
    if (not proof_ok or not tie_ok) and not new_fail and harness_err is None and not replay:
        for extra_seed in range(seed + 1000, seed + 1000 + (4 if thorough else 2)):
            sdir = os.path.join(rundir, f"search-{extra_seed}")
            os.makedirs(sdir, exist_ok=True)
            for dom in cfg["domains"]:
                rc, out, ops = run_domain(dom, tier, extra_seed, sdir, cfg.get("extra_args"))
                if rc != 0:
                    continue
                ev = evaluate(ops)
                searched += ev["ties"] + ev["props"]
                nf = [dict(m, domain=dom, seed=extra_seed) for m in ev["oracle_fail"] if m["class"] not in known_classes]
                if nf:
                    new_fail = nf
                    break
            if new_fail:
                break

    # 5. verdict
    violations = 0
    lines = []
    for cls, fs in sorted(known_hit.items()):
        lines.append(f"KNOWN-FINDING: property={pid} {known_classes[cls]['what_fails']} ({len(fs)} case(s) this run, class {cls})")
    # a listed finding whose witness class no longer fails is reported for information only
    for cls, k in known_classes.items():
        if cls not in known_hit and k.get("expect_every_run"):
            lines.append(f"NOTE: known finding {k['id']} did not reproduce in this run")
    replay_path = None
    if new_fail:
        violations = len(new_fail)
        first = new_fail[0]
        replay_path = write_replay(rundir, pid, {"kind": "failing-input", "tier": tier, "seed": first.get("seed", seed),
                                                 "domain": first["domain"], "line": first["line"], "class": first["class"],
                                                 "case": first["req"], "expected": first["expected"], "got": first["spec"],
                                                 "all_failures": new_fail[:50],
                                                 "how": f"python3 check.py {pid} --replay <this file>"})
        lines.append(f"VIOLATION property={pid} replay={replay_path}")
    elif not proof_ok or not tie_ok:
        violations = 1
        what = []
        if pr["errors"]:
            what.append({"broken_proof": pr["errors"]})
        if pr["obligations"] == 0:
            what.append({"broken_proof": "no theorems found in " + pr["module"]})
        if broken_tables:
            what.append({"broken_translator_obligation": broken_tables})
        if harness_err:
            what.append({"broken_correspondence": harness_err})
        if tie_mismatch:
            what.append({"broken_correspondence": tie_mismatch[:20]})
        replay_path = write_replay(rundir, pid, {"kind": "no-failing-input-found", "tier": tier, "seed": seed,
                                                 "no_longer_checks": what, "search_cases": searched,
                                                 "how": f"python3 check.py {pid} {tier}  (VERIF_SEED={seed})"})
        lines.append(f"VIOLATION property={pid} replay={replay_path} no-failing-input-found")

    # 6. evidence
    evals = sum(r["ties"] + r["props"] for r in results)
    distinct = sum(r["distinct"] for r in results)
    stats = {}
    for r in results:
        for k, v in r["stats"].items():
            if isinstance(v, int):
                stats[k] = stats.get(k, 0) + v
    samples = [s for r in results for s in r["samples"]][:6] or ["(no cases: harness did not run)"]
    evidence = {
        "property_id": pid,
        "tier": tier,
        "seed": seed,
        "level": "proof",
        "coverage": {
            "obligations": pr["obligations"],
            "discharged": pr["discharged"],
            "checker_cmd": f"cd lean && lake build {cfg['module']} && lake env lean <#print axioms of every theorem in {cfg['module']}>"
                           + (" && lake env leanchecker " + cfg["module"] if thorough else ""),
            "trusted_base": ["Lean 4.33.0 kernel", "axioms allowed: propext, Classical.choice, Quot.sound",
                             "Spec modules (lean/EdpVerif/Spec) as the oracle",
                             "hand-written Impl model tied to the code by the correspondence run below",
                             "tools/gen_tables.py (regex extraction of tables)",
                             "harness/ (Rust) and canonical text forms"] + cfg.get("trusted", []),
            "theorems": pr["theorems"],
            "proof_errors": pr["errors"],
            "tables_regenerated": table_shas,
            "broken_table_extractions": broken_tables,
            "evaluations": evals,
            "distinct_nontrivial": distinct,
            "rule": cfg.get("rule", "one evaluation = one T (model-vs-code) or P (Spec oracle on the implementation's output) line; "
                                    "distinct = distinct request lines by SHA-1"),
            "samples": samples,
            "traces_validated_against_impl": stats.get("traces_validated", 0),
            "exhaustive": bool(stats.get("exhaustive", 0)),
            "generator_distribution": stats,
            "model_vs_code_disagreements": tie_mismatch[:20],
            "oracle_failures": oracle_fail[:20],
            "known_findings_replayed": {c: len(f) for c, f in known_hit.items()},
            "search_cases_after_break": searched,
            "partial_for": cfg.get("partial", ""),
        },
        "assumptions": cfg.get("assumptions", []),
        "wall_s": round(time.time() - t0, 2),
        "violations": violations,
    }
    os.makedirs(os.path.join(ROOT, "evidence"), exist_ok=True)
    with open(os.path.join(ROOT, "evidence", pid + ".json"), "w") as f:
        json.dump(evidence, f, indent=1)
    print(f"{pid} {tier} seed={seed}: proofs {pr['discharged']}/{pr['obligations']}"
          f"{'' if proof_ok else ' BROKEN'}, tie {'ok' if tie_ok else 'BROKEN'} ({sum(r['ties'] for r in results)} lines), "
          f"oracle {sum(r['props'] for r in results)} lines, failures {len(oracle_fail)} ({len(new_fail)} new), "
          f"{evidence['wall_s']}s")
    for e in pr["errors"][:5]:
        print("  proof: " + e[:500])
    if harness_err:
        print("  harness: " + harness_err[:800])
    for m in tie_mismatch[:3]:
        print("  tie: " + json.dumps(m)[:600])
    for l in lines:
        print(l)
    return 1 if violations else 0


if __name__ == "__main__":
    sys.exit(main())
