#!/usr/bin/env python3
"""Which lines of the Rust functions a property is anchored in does the correspondence run never execute?

The model is tied to the code only on the inputs the harness produces.  A branch of a modelled function that no harness
case reaches is a place where model and code may differ without the diff noticing (that is how a stale model of the
distribution-header reader survived, DESIGN.md 13.5).  This tool measures it: it builds the harness with
`-C instrument-coverage` (nightly toolchain, separate target directory), runs the property's domains, and reports, per
source file of /repo/crates the property is anchored in, the functions and line ranges that were never executed.

usage: tools/tie_coverage.py <Cxx>|all [quick|thorough]      writes notes/tie-coverage/<Cxx>.txt, prints a summary
Not part of the registered checks (it needs ~2 min for the instrumented build); a review tool for generator quality.
"""
import json
import os
import re
import subprocess
import sys

ROOT = os.path.dirname(os.path.dirname(os.path.abspath(__file__)))
sys.path.insert(0, os.path.join(ROOT, "tools"))
from props import PROPS  # noqa: E402

TARGET = os.path.join(ROOT, ".cache", "target-cov")
BIN = os.path.join(TARGET, "debug", "drive")
TOOLS = os.path.expanduser("~/.rustup/toolchains/nightly-x86_64-unknown-linux-gnu/lib/rustlib/x86_64-unknown-linux-gnu/bin")


def sh(cmd, **kw):
    return subprocess.run(cmd, stdout=subprocess.PIPE, stderr=subprocess.STDOUT, text=True, **kw)


def build():
    env = dict(os.environ, CARGO_NET_OFFLINE="true", CARGO_TARGET_DIR=TARGET,
               RUSTFLAGS="--cfg edp_rs_verif -C instrument-coverage",
               # build scripts and proc macros are instrumented too: keep their profiles out of the source trees
               LLVM_PROFILE_FILE=os.path.join(TARGET, "build-profiles", "%p-%m.profraw"))
    p = sh(["cargo", "+nightly", "build", "--offline", "--bins"], cwd=os.path.join(ROOT, "harness"), env=env)
    if p.returncode:
        print(p.stdout[-3000:])
        sys.exit(2)


def anchors():
    out = {}
    for l in open(os.path.join(ROOT, "properties.jsonl")):
        p = json.loads(l)
        out[p["id"]] = p["anchors"].get("files", [])
    return out


def ranges(lines):
    lines = sorted(lines)
    out, start, prev = [], None, None
    for n in lines:
        if start is None:
            start = prev = n
        elif n == prev + 1:
            prev = n
        else:
            out.append((start, prev))
            start = prev = n
    if start is not None:
        out.append((start, prev))
    return out


def run(pid, tier):
    cfg = PROPS[pid]
    rundir = os.path.join(ROOT, "runs", f"cov-{pid}")
    os.makedirs(rundir, exist_ok=True)
    for f in os.listdir(rundir):
        if f.endswith(".profraw"):
            os.remove(os.path.join(rundir, f))
    env = dict(os.environ, LLVM_PROFILE_FILE=os.path.join(rundir, "%p-%m.profraw"))
    for dom in cfg["domains"]:
        p = sh([BIN, dom, tier, "1", os.path.join(rundir, dom + ".ops")] + cfg.get("extra_args", []), cwd=rundir, env=env)
        if p.returncode:
            print(f"{pid}: domain {dom} exited {p.returncode}: {p.stdout[-500:]}")
    raws = [os.path.join(rundir, f) for f in os.listdir(rundir) if f.endswith(".profraw")]
    prof = os.path.join(rundir, "cov.profdata")
    p = sh([os.path.join(TOOLS, "llvm-profdata"), "merge", "-sparse", "-o", prof] + raws)
    if p.returncode:
        print(p.stdout[-1000:])
        return None
    files = ["/repo/" + f for f in anchors()[pid]]
    p = subprocess.run([os.path.join(TOOLS, "llvm-cov"), "export", "--format=lcov", "--instr-profile", prof, BIN] + files,
                       stdout=subprocess.PIPE, stderr=subprocess.PIPE, text=True)
    cur, data = None, {}
    for l in p.stdout.splitlines():
        if l.startswith("SF:"):
            cur = l[3:]
            data[cur] = {"fn": {}, "fnda": {}, "da": {}}
        elif l.startswith("FN:") and cur:
            ln, name = l[3:].split(",", 1)
            data[cur]["fn"][name] = int(ln)
        elif l.startswith("FNDA:") and cur:
            cnt, name = l[5:].split(",", 1)
            data[cur]["fnda"][name] = data[cur]["fnda"].get(name, 0) + int(cnt)
        elif l.startswith("DA:") and cur:
            ln, cnt = l[3:].split(",")[:2]
            data[cur]["da"][int(ln)] = data[cur]["da"].get(int(ln), 0) + int(cnt)
    os.makedirs(os.path.join(ROOT, "notes", "tie-coverage"), exist_ok=True)
    rep = [f"# {pid} ({tier}): lines of the anchored source files never executed by the correspondence run",
           "# (monomorphised/generic functions are merged per line; a line counts as executed if any instance ran it)", ""]
    summary = []
    for f in files:
        d = data.get(f)
        if not d:
            rep.append(f"{f}: no coverage data (file not linked into the harness or not instrumented)")
            continue
        src = open(f).read().split("\n")
        total = len(d["da"])
        missed = [n for n, c in d["da"].items() if c == 0]
        rep.append(f"## {f}: {total - len(missed)}/{total} instrumented lines executed")
        summary.append((f.replace("/repo/crates/", ""), total - len(missed), total))
        # function starts, to name the function a missed range lies in
        starts = sorted((ln, demangle(n)) for n, ln in d["fn"].items())
        for a, b in ranges(missed):
            fn = ""
            for ln, n in starts:
                if ln <= a:
                    fn = n
            text = src[a - 1].strip()[:110] if a - 1 < len(src) else ""
            rep.append(f"  {a}-{b}  [{fn}]  {text}")
        rep.append("")
    path = os.path.join(ROOT, "notes", "tie-coverage", pid + ".txt")
    open(path, "w").write("\n".join(rep) + "\n")
    return summary, path


def demangle(n):
    """last two path components of a (v0 or legacy) mangled Rust symbol: length-prefixed identifiers"""
    ids, i = [], 0
    while i < len(n):
        if n[i].isdigit():
            j = i
            while j < len(n) and n[j].isdigit():
                j += 1
            k = int(n[i:j])
            if j < len(n) and n[j] == "_":
                j += 1
            w = n[j:j + k]
            if k > 0 and len(w) == k and (w[0].isalpha() or w[0] == "_") and re.fullmatch(r"\w+", w):
                ids.append(w)
                i = j + k
                continue
            i = j
        else:
            i += 1
    ids = [x for x in ids if not re.fullmatch(r"h[0-9a-f]{16}", x) and x not in ("drive", "alloc", "string", "String")]
    return "::".join(ids[1:3]) if len(ids) >= 3 else "::".join(ids) if ids else n[:40]


def union(pids):
    """lines of the library crates that NO property's correspondence run executes"""
    profs = [os.path.join(ROOT, "runs", f"cov-{p}", "cov.profdata") for p in pids]
    profs = [p for p in profs if os.path.exists(p)]
    allp = os.path.join(ROOT, "runs", "cov-union.profdata")
    if sh([os.path.join(TOOLS, "llvm-profdata"), "merge", "-sparse", "-o", allp] + profs).returncode:
        return
    files = []
    for crate in ("erltf", "edp_client", "edp_node", "erltf_serde", "edp_elixir_terms"):
        d = f"/repo/crates/{crate}/src"
        files += sorted(os.path.join(d, f) for f in os.listdir(d) if f.endswith(".rs") and f != "verif_hooks.rs")
    p = subprocess.run([os.path.join(TOOLS, "llvm-cov"), "export", "--format=lcov", "--instr-profile", allp, BIN] + files,
                       stdout=subprocess.PIPE, stderr=subprocess.PIPE, text=True)
    cur, da = None, {}
    for l in p.stdout.splitlines():
        if l.startswith("SF:"):
            cur = l[3:]
            da[cur] = {}
        elif l.startswith("DA:") and cur:
            ln, cnt = l[3:].split(",")[:2]
            da[cur][int(ln)] = da[cur].get(int(ln), 0) + int(cnt)
    rep = ["# lines of the library crates that no property's correspondence run (quick tier, seed 1) executes", ""]
    tot_a = tot_t = 0
    for f in files:
        d = da.get(f)
        if not d:
            rep.append(f"## {f}: not linked into the harness")
            continue
        src = open(f).read().split("\n")
        missed = [n for n, c in d.items() if c == 0]
        tot_a += len(d) - len(missed)
        tot_t += len(d)
        rep.append(f"## {f}: {len(d) - len(missed)}/{len(d)}")
        for a, b in ranges(missed):
            rep.append(f"  {a}-{b}  {src[a - 1].strip()[:120] if a - 1 < len(src) else ''}")
        rep.append("")
    rep.insert(1, f"# total: {tot_a}/{tot_t} instrumented lines executed by at least one property")
    path = os.path.join(ROOT, "notes", "tie-coverage", "UNION.txt")
    open(path, "w").write("\n".join(rep) + "\n")
    print(f"union: {tot_a}/{tot_t} -> {path}")


def main():
    which = sys.argv[1] if len(sys.argv) > 1 else "all"
    tier = sys.argv[2] if len(sys.argv) > 2 else "quick"
    build()
    pids = sorted(PROPS) if which == "all" else [which]
    for pid in pids:
        r = run(pid, tier)
        if r:
            summary, path = r
            print(pid, " ".join(f"{f}:{a}/{t}" for f, a, t in summary), "->", path)
    if which == "all":
        union(pids)


if __name__ == "__main__":
    main()
