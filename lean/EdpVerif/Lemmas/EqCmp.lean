import EdpVerif.Lemmas.CmpSwap
import EdpVerif.Impl.EqHash
/-!
Consistency of the three derived notions on terms (C11): `a == b` (`Term.eqv`) implies `cmp a b = Equal` and
equal hashed byte streams.  No well-formedness is needed.
-/
open Edp Edp.Term
namespace Edp

theorem cmpMag_refl (a : Bytes) : cmpMag a a = .eq := by
  simp [cmpMag, thenO, bytesCmp_refl]

theorem cmpSignedMag_refl (n : Bool) (d : Bytes) : cmpSignedMag n d n d = .eq := by
  simp [cmpSignedMag, thenO, cmpMag_refl]

theorem pidCmp_of_pidEq {p q : PidF} (h : pidEq p q) : pidCmp p q = .eq := by
  simp only [pidEq, Bool.and_eq_true, beq_iff_eq] at h
  obtain ⟨⟨⟨h1, h2⟩, h3⟩, h4⟩ := h
  simp [pidCmp, thenO, h1, h2, h3, h4, bytesCmp_refl]

theorem cmpFloat_of_floatEq {a b : Nat} (h : floatEq a b) : cmpFloat a b = .eq := by
  simp only [floatEq, Bool.and_eq_true, Bool.or_eq_true, Bool.not_eq_true', beq_iff_eq] at h
  obtain ⟨⟨ha, hb⟩, h⟩ := h
  unfold cmpFloat
  simp only [ha, hb, Bool.false_and, Bool.false_eq_true, if_false]
  unfold cmpNonNaN F64.sign thenO
  rcases h with ⟨za, zb⟩ | ⟨⟨hn, he⟩, hf⟩
  · simp [za, zb]
  · have hz : (f64 a).isZero = (f64 b).isZero := by simp [F64.isZero, he, hf]
    rw [hz, hn, he, hf]
    simp

theorem lexCmp_self (a : List Nat) : lexCmp a a = .eq := lexCmp_refl a

mutual
theorem cmpN_of_eqv (a b : Term) (h : eqv a b) : cmpN a b = .eq := by
  cases a <;> cases b <;> simp only [eqv, Bool.false_eq_true, Bool.and_eq_true, beq_iff_eq] at h <;>
    simp only [cmpN, rank, ne_eq, not_true_eq_false, if_false, bitParts, thenO, listRank]
  case atom.atom => subst h; exact bytesCmp_refl _
  case int.int => subst h; simp
  case float.float => exact cmpFloat_of_floatEq h
  case pid.pid => exact pidCmp_of_pidEq h
  case port.port => obtain ⟨⟨h1, h2⟩, h3⟩ := h; subst h1 h2 h3; simp [bytesCmp_refl]
  case ref.ref => obtain ⟨⟨h1, h2⟩, h3⟩ := h; subst h1 h2 h3; simp [bytesCmp_refl, lexCmp_refl]
  case bin.bin => subst h; simp [bytesCmp_refl]
  case bits.bits => obtain ⟨h1, h2⟩ := h; subst h1 h2; simp [bytesCmp_refl]
  case str.str => subst h; simp [bytesCmp_refl]
  case list.list x y => exact cmpZip_of_eqvL x y _ _ _ h
  case ilist.ilist x t y u => rw [cmpZip_of_eqvL x y _ _ _ h.1]; exact cmpN_of_eqv t u h.2
  case map.map x y => simp [eqvKV_length x y h, cmpKeys_of_eqvKV x y h, cmpVals_of_eqvKV x y h]
  case tuple.tuple x y => simp [eqvL_length x y h, cmpZip_of_eqvL x y _ _ _ h]
  case big.big => obtain ⟨h1, h2⟩ := h; subst h1 h2; exact cmpSignedMag_refl _ _
  case xfun.xfun => obtain ⟨⟨h1, h2⟩, h3⟩ := h; subst h1 h2 h3; simp [bytesCmp_refl]
  case ifun.ifun =>
    obtain ⟨⟨⟨⟨⟨⟨⟨⟨h1, h2⟩, h3⟩, h4⟩, h5⟩, h6⟩, h7⟩, h8⟩, h9⟩ := h
    subst h1 h2 h3 h4 h5 h6 h7
    simp [bytesCmp_refl, pidCmp_of_pidEq h8, cmpZip_of_eqvL _ _ _ _ _ h9]
termination_by sizeOf a
decreasing_by all_goals (simp_wf; subst_vars; (try simp); (try omega))
theorem cmpZip_of_eqvL : ∀ (x y : List Term) (both ao bo : Ordering), eqvL x y → cmpZip x y both ao bo = both
  | [], [], _, _, _, _ => by simp [cmpZip]
  | [], _ :: _, _, _, _, h => by simp [eqvL] at h
  | _ :: _, [], _, _, _, h => by simp [eqvL] at h
  | a :: x, b :: y, both, ao, bo, h => by
    simp only [eqvL, Bool.and_eq_true] at h
    simp [cmpZip, thenO, cmpN_of_eqv a b h.1, cmpZip_of_eqvL x y both ao bo h.2]
termination_by x => sizeOf x
decreasing_by all_goals (simp_wf; try omega)
theorem cmpKeys_of_eqvKV : ∀ (x y : List (Term × Term)), eqvKV x y → cmpKeys x y = .eq
  | [], [], _ => by simp [cmpKeys]
  | [], _ :: _, h => by simp [eqvKV] at h
  | _ :: _, [], h => by simp [eqvKV] at h
  | (k, v) :: x, (k2, v2) :: y, h => by
    simp only [eqvKV, Bool.and_eq_true] at h
    simp [cmpKeys, thenO, cmpN_of_eqv k k2 h.1.1, cmpKeys_of_eqvKV x y h.2]
termination_by x => sizeOf x
decreasing_by all_goals (simp_wf; try omega)
theorem cmpVals_of_eqvKV : ∀ (x y : List (Term × Term)), eqvKV x y → cmpVals x y = .eq
  | [], [], _ => by simp [cmpVals]
  | [], _ :: _, h => by simp [eqvKV] at h
  | _ :: _, [], h => by simp [eqvKV] at h
  | (k, v) :: x, (k2, v2) :: y, h => by
    simp only [eqvKV, Bool.and_eq_true] at h
    simp [cmpVals, thenO, cmpN_of_eqv v v2 h.1.2, cmpVals_of_eqvKV x y h.2]
termination_by x => sizeOf x
decreasing_by all_goals (simp_wf; try omega)
theorem eqvL_length : ∀ (x y : List Term), eqvL x y → x.length = y.length
  | [], [], _ => rfl
  | [], _ :: _, h => by simp [eqvL] at h
  | _ :: _, [], h => by simp [eqvL] at h
  | _ :: x, _ :: y, h => by
    simp only [eqvL, Bool.and_eq_true] at h
    simp [eqvL_length x y h.2]
termination_by x => sizeOf x
decreasing_by all_goals (simp_wf; try omega)
theorem eqvKV_length : ∀ (x y : List (Term × Term)), eqvKV x y → x.length = y.length
  | [], [], _ => rfl
  | [], _ :: _, h => by simp [eqvKV] at h
  | _ :: _, [], h => by simp [eqvKV] at h
  | (_, _) :: x, (_, _) :: y, h => by
    simp only [eqvKV, Bool.and_eq_true] at h
    simp [eqvKV_length x y h.2]
termination_by x => sizeOf x
decreasing_by all_goals (simp_wf; try omega)
end


/-- what `norm` makes of an improper list whose parts are already normalised -/
def mkIlist (l : List Term) (t : Term) : Term :=
  match l, t with
  | [], t' => t'
  | l', .nil => .list l'
  | l', .list l2 => .list (l' ++ l2)
  | l', .ilist l2 t2 => .ilist (l' ++ l2) t2
  | l', t' => .ilist l' t'

theorem norm_ilist (l : List Term) (t : Term) : norm (.ilist l t) = mkIlist (normL l) (norm t) := by
  simp only [norm, mkIlist]
  split <;> split <;> simp_all

def mkList (l : List Term) : Term :=
  match l with
  | [] => .nil
  | l' => .list l'

theorem norm_list (l : List Term) : norm (.list l) = mkList (normL l) := by
  simp only [norm, mkList]
  split <;> split <;> simp_all

theorem eqvL_append : ∀ (a b c d : List Term), eqvL a b → eqvL c d → eqvL (a ++ c) (b ++ d)
  | [], [], _, _, _, h => by simpa using h
  | [], _ :: _, _, _, h, _ => by simp [eqvL] at h
  | _ :: _, [], _, _, h, _ => by simp [eqvL] at h
  | x :: a, y :: b, c, d, h, h' => by
    simp only [eqvL, Bool.and_eq_true, List.cons_append] at h ⊢
    exact ⟨h.1, eqvL_append a b c d h.2 h'⟩

theorem eqv_mkList (x y : List Term) (h : eqvL x y) : eqv (mkList x) (mkList y) := by
  cases x <;> cases y <;> simp [eqvL] at h <;> simp [mkList, eqv, eqvL, h]

theorem eqv_mkIlist (x y : List Term) (t u : Term) (h : eqvL x y) (h2 : eqv t u) :
    eqv (mkIlist x t) (mkIlist y u) := by
  cases x <;> cases y <;> simp [eqvL] at h
  · simpa [mkIlist] using h2
  · rename_i a x b y
    have hc : eqvL (a :: x) (b :: y) := by simp [eqvL, h]
    cases t <;> cases u <;> simp only [eqv, Bool.false_eq_true] at h2 <;> simp only [mkIlist, eqv, Bool.and_eq_true]
    all_goals first
      | exact hc
      | exact ⟨hc, by simpa [eqv] using h2⟩
      | exact eqvL_append _ _ _ _ hc h2
      | (simp only [Bool.and_eq_true] at h2; exact ⟨eqvL_append _ _ _ _ hc h2.1, h2.2⟩)


mutual
theorem eqv_norm (a b : Term) (h : eqv a b) : eqv (norm a) (norm b) := by
  cases a <;> cases b <;> simp only [eqv, Bool.false_eq_true] at h
  case list.list x y => rw [norm_list, norm_list]; exact eqv_mkList _ _ (eqvL_normL x y h)
  case ilist.ilist x t y u =>
    simp only [Bool.and_eq_true] at h
    rw [norm_ilist, norm_ilist]; exact eqv_mkIlist _ _ _ _ (eqvL_normL x y h.1) (eqv_norm t u h.2)
  case map.map x y => simp only [norm, eqv]; exact eqvKV_normKV x y h
  case tuple.tuple x y => simp only [norm, eqv]; exact eqvL_normL x y h
  case ifun.ifun =>
    simp only [Bool.and_eq_true] at h
    simp only [norm, eqv, Bool.and_eq_true]
    exact ⟨h.1, eqvL_normL _ _ h.2⟩
  all_goals (simp only [norm, eqv] <;> exact h)
termination_by sizeOf a
decreasing_by all_goals (simp_wf; subst_vars; (try simp); (try omega))
theorem eqvL_normL : ∀ (x y : List Term), eqvL x y → eqvL (normL x) (normL y)
  | [], [], _ => by simp [normL, eqvL]
  | [], _ :: _, h => by simp [eqvL] at h
  | _ :: _, [], h => by simp [eqvL] at h
  | a :: x, b :: y, h => by
    simp only [eqvL, Bool.and_eq_true, normL] at h ⊢
    exact ⟨eqv_norm a b h.1, eqvL_normL x y h.2⟩
termination_by x => sizeOf x
decreasing_by all_goals (simp_wf; try omega)
theorem eqvKV_normKV : ∀ (x y : List (Term × Term)), eqvKV x y → eqvKV (normKV x) (normKV y)
  | [], [], _ => by simp [normKV, eqvKV]
  | [], _ :: _, h => by simp [eqvKV] at h
  | _ :: _, [], h => by simp [eqvKV] at h
  | (k, v) :: x, (k2, v2) :: y, h => by
    simp only [eqvKV, Bool.and_eq_true, normKV] at h ⊢
    exact ⟨⟨eqv_norm k k2 h.1.1, eqv_norm v v2 h.1.2⟩, eqvKV_normKV x y h.2⟩
termination_by x => sizeOf x
decreasing_by all_goals (simp_wf; try omega)
end

namespace Term
/-- `a == b` implies `cmp a b = Equal` -/
theorem cmp_of_eqv (a b : Term) (h : eqv a b) : cmp a b = .eq := cmpN_of_eqv _ _ (eqv_norm a b h)
end Term

/-! ### equal terms feed the hasher the same bytes -/

theorem leB_congr : ∀ (k a b : Nat), a % 256 ^ k = b % 256 ^ k → leB k a = leB k b
  | 0, _, _, _ => rfl
  | k + 1, a, b, h => by
    rw [Nat.pow_succ', Nat.mod_mul, Nat.mod_mul] at h
    have h1 : a % 256 < 256 := Nat.mod_lt _ (by decide)
    have h2 : b % 256 < 256 := Nat.mod_lt _ (by decide)
    simp only [leB]
    rw [leB_congr k (a / 256) (b / 256) (by omega), show a % 256 = b % 256 by omega]

theorem hU64_congr {a b : Nat} (h : a % 2 ^ 64 = b % 2 ^ 64) : hU64 a = hU64 b :=
  leB_congr 8 a b (by simpa using h)

theorem f64_bits (b : Nat) : b % 2 ^ 64 = (if (f64 b).neg then 2 ^ 63 else 0) + (f64 b).exp * 2 ^ 52 + (f64 b).frac := by
  simp only [f64, beq_iff_eq]
  split <;> omega

theorem hashFloat_of_floatEq {a b : Nat} (h : floatEq a b) :
    hU64 (if (f64 a).isZero then 0 else a) = hU64 (if (f64 b).isZero then 0 else b) := by
  simp only [floatEq, Bool.and_eq_true, Bool.or_eq_true, Bool.not_eq_true', beq_iff_eq] at h
  obtain ⟨_, h⟩ := h
  rcases h with ⟨za, zb⟩ | ⟨⟨hn, he⟩, hf⟩
  · simp [za, zb]
  · have hz : (f64 a).isZero = (f64 b).isZero := by simp [F64.isZero, he, hf]
    rw [hz]
    split
    · rfl
    · apply hU64_congr
      rw [f64_bits a, f64_bits b, hn, he, hf]


theorem hPid_of_pidEq {p q : PidF} (h : pidEq p q) : hPid p = hPid q := by
  simp only [pidEq, Bool.and_eq_true, beq_iff_eq] at h
  obtain ⟨⟨⟨h1, h2⟩, h3⟩, h4⟩ := h
  simp [hPid, h1, h2, h3, h4]

mutual
theorem hashBytes_of_eqv (a b : Term) (h : eqv a b) : hashBytes a = hashBytes b := by
  cases a <;> cases b <;> simp only [eqv, Bool.false_eq_true, Bool.and_eq_true, beq_iff_eq] at h <;>
    simp only [hashBytes]
  case atom.atom => subst h; rfl
  case int.int => subst h; rfl
  case float.float => rw [hashFloat_of_floatEq h]
  case pid.pid => rw [hPid_of_pidEq h]
  case port.port => obtain ⟨⟨h1, h2⟩, h3⟩ := h; subst h1 h2 h3; rfl
  case ref.ref => obtain ⟨⟨h1, h2⟩, h3⟩ := h; subst h1 h2 h3; rfl
  case bin.bin => subst h; rfl
  case bits.bits => obtain ⟨h1, h2⟩ := h; subst h1 h2; rfl
  case str.str => subst h; rfl
  case list.list x y => rw [eqvL_length x y h, hashL_of_eqvL x y h]
  case ilist.ilist x t y u => rw [eqvL_length x y h.1, hashL_of_eqvL x y h.1, hashBytes_of_eqv t u h.2]
  case map.map x y => rw [eqvKV_length x y h, hashKV_of_eqvKV x y h]
  case tuple.tuple x y => rw [eqvL_length x y h, hashL_of_eqvL x y h]
  case big.big => obtain ⟨h1, h2⟩ := h; subst h1 h2; rfl
  case xfun.xfun => obtain ⟨⟨h1, h2⟩, h3⟩ := h; subst h1 h2 h3; rfl
  case ifun.ifun =>
    obtain ⟨⟨⟨⟨⟨⟨⟨⟨h1, h2⟩, h3⟩, h4⟩, h5⟩, h6⟩, h7⟩, h8⟩, h9⟩ := h
    subst h1 h2 h3 h4 h5 h6 h7
    rw [hPid_of_pidEq h8, hashL_of_eqvL _ _ h9]
termination_by sizeOf a
decreasing_by all_goals (simp_wf; subst_vars; (try simp); (try omega))
theorem hashL_of_eqvL : ∀ (x y : List Term), eqvL x y → hashL x = hashL y
  | [], [], _ => rfl
  | [], _ :: _, h => by simp [eqvL] at h
  | _ :: _, [], h => by simp [eqvL] at h
  | a :: x, b :: y, h => by
    simp only [eqvL, Bool.and_eq_true] at h
    simp only [hashL]; rw [hashBytes_of_eqv a b h.1, hashL_of_eqvL x y h.2]
termination_by x => sizeOf x
decreasing_by all_goals (simp_wf; try omega)
theorem hashKV_of_eqvKV : ∀ (x y : List (Term × Term)), eqvKV x y → hashKV x = hashKV y
  | [], [], _ => rfl
  | [], _ :: _, h => by simp [eqvKV] at h
  | _ :: _, [], h => by simp [eqvKV] at h
  | (k, v) :: x, (k2, v2) :: y, h => by
    simp only [eqvKV, Bool.and_eq_true] at h
    simp only [hashKV]; rw [hashBytes_of_eqv k k2 h.1.1, hashBytes_of_eqv v v2 h.1.2, hashKV_of_eqvKV x y h.2]
termination_by x => sizeOf x
decreasing_by all_goals (simp_wf; try omega)
end

end Edp
