import EdpVerif.Lemmas.DecMono
import EdpVerif.Spec.ModernShape
/-!
C13, clause 2: on every input laid out with the tags current OTP releases emit over distribution only
(`Spec.modernOnly`, an independent recogniser of the layout), the zero-copy decoder accepts whenever the owned decoder
accepts — with the same term.  One lemma per modern tag (`acc_<tag>`), `dec_accepts_modern` dispatches.
Every lemma also shows that the recogniser and the decoders consumed the same bytes, which is what lets the guard,
stated on the whole input, reach the sub-terms.
-/
set_option linter.unusedSectionVars false
namespace Edp
open Spec Spec.Modern

def AccT (x : Ext) (c : List (Nat × Bytes)) (fuel : Nat) : Prop :=
  ∀ d bs t r f' r', dec x (cO c) fuel d bs = .ok (t, r) → shape f' bs = some r' →
    r' = r ∧ dec x (cB c) fuel d bs = .ok (t, r)

set_option hygiene false in
macro "open_m" n:num : tactic => `(tactic| (
  rw [dec.eq_3] at h1; rw [Spec.Modern.shape.eq_3] at h2; rw [dec.eq_3]
  simp only [show ($n : UInt8).toNat = $n by decide] at h1 h2 ⊢
  split at h1
  · simp at h1
  rename_i hdepth
  simp only [hdepth, ↓reduceIte, cO, cB, Bool.false_and, Bool.true_and, Bool.false_eq_true,
    show ownedOnlyTags.contains $n = false by decide] at h1 ⊢))

def AccN (x : Ext) (c : List (Nat × Bytes)) (fuel : Nat) : Prop :=
  ∀ d n bs ts r f' r', decN x (cO c) fuel d n bs = .ok (ts, r) → shapeN f' n bs = some r' →
    r' = r ∧ decN x (cB c) fuel d n bs = .ok (ts, r)
def AccKV (x : Ext) (c : List (Nat × Bytes)) (fuel : Nat) : Prop :=
  ∀ d n bs acc m r f' r', decKV x (cO c) fuel d n bs acc = .ok (m, r) → shapeKV f' n bs = some r' →
    r' = r ∧ decKV x (cB c) fuel d n bs acc = .ok (m, r)

variable {x : Ext} {c : List (Nat × Bytes)} {fuel : Nat}
variable {d : Nat} {bs : Bytes} {t : Term} {r : Bytes} {f' : Nat} {r' : Bytes}


set_option hygiene false in
macro "leaf_m" : tactic => `(tactic| (
  refine ⟨?_, h1⟩
  try simp only [rdU, takeE, decAtomBody, decBig] at h1
  repeat' (split at h2 <;> try (simp at h2; done))
  all_goals (try simp_all)
  all_goals (repeat' (split at h1 <;> try (simp at h1; done)))
  all_goals (try simp_all)))

theorem acc_97 (h1 : dec x (cO c) (fuel + 1) d (97 :: bs) = .ok (t, r)) (h2 : shape (f' + 1) (97 :: bs) = some r') :
    r' = r ∧ dec x (cB c) (fuel + 1) d (97 :: bs) = .ok (t, r) := by
  open_m 97
  leaf_m

theorem acc_98 (h1 : dec x (cO c) (fuel + 1) d (98 :: bs) = .ok (t, r)) (h2 : shape (f' + 1) (98 :: bs) = some r') :
    r' = r ∧ dec x (cB c) (fuel + 1) d (98 :: bs) = .ok (t, r) := by
  open_m 98
  leaf_m

theorem acc_70 (h1 : dec x (cO c) (fuel + 1) d (70 :: bs) = .ok (t, r)) (h2 : shape (f' + 1) (70 :: bs) = some r') :
    r' = r ∧ dec x (cB c) (fuel + 1) d (70 :: bs) = .ok (t, r) := by
  open_m 70
  leaf_m

theorem acc_118 (h1 : dec x (cO c) (fuel + 1) d (118 :: bs) = .ok (t, r)) (h2 : shape (f' + 1) (118 :: bs) = some r') :
    r' = r ∧ dec x (cB c) (fuel + 1) d (118 :: bs) = .ok (t, r) := by
  open_m 118
  leaf_m

theorem acc_119 (h1 : dec x (cO c) (fuel + 1) d (119 :: bs) = .ok (t, r)) (h2 : shape (f' + 1) (119 :: bs) = some r') :
    r' = r ∧ dec x (cB c) (fuel + 1) d (119 :: bs) = .ok (t, r) := by
  open_m 119
  leaf_m

theorem acc_110 (h1 : dec x (cO c) (fuel + 1) d (110 :: bs) = .ok (t, r)) (h2 : shape (f' + 1) (110 :: bs) = some r') :
    r' = r ∧ dec x (cB c) (fuel + 1) d (110 :: bs) = .ok (t, r) := by
  open_m 110
  leaf_m

theorem acc_111 (h1 : dec x (cO c) (fuel + 1) d (111 :: bs) = .ok (t, r)) (h2 : shape (f' + 1) (111 :: bs) = some r') :
    r' = r ∧ dec x (cB c) (fuel + 1) d (111 :: bs) = .ok (t, r) := by
  open_m 111
  leaf_m

theorem acc_106 (h1 : dec x (cO c) (fuel + 1) d (106 :: bs) = .ok (t, r)) (h2 : shape (f' + 1) (106 :: bs) = some r') :
    r' = r ∧ dec x (cB c) (fuel + 1) d (106 :: bs) = .ok (t, r) := by
  open_m 106
  leaf_m

theorem acc_107 (h1 : dec x (cO c) (fuel + 1) d (107 :: bs) = .ok (t, r)) (h2 : shape (f' + 1) (107 :: bs) = some r') :
    r' = r ∧ dec x (cB c) (fuel + 1) d (107 :: bs) = .ok (t, r) := by
  open_m 107
  leaf_m

theorem acc_109 (h1 : dec x (cO c) (fuel + 1) d (109 :: bs) = .ok (t, r)) (h2 : shape (f' + 1) (109 :: bs) = some r') :
    r' = r ∧ dec x (cB c) (fuel + 1) d (109 :: bs) = .ok (t, r) := by
  open_m 109
  leaf_m

theorem acc_77 (h1 : dec x (cO c) (fuel + 1) d (77 :: bs) = .ok (t, r)) (h2 : shape (f' + 1) (77 :: bs) = some r') :
    r' = r ∧ dec x (cB c) (fuel + 1) d (77 :: bs) = .ok (t, r) := by
  open_m 77
  leaf_m

set_option hygiene false in
macro "rd_m" : tactic => `(tactic| (
  split at h2 <;> try (simp at h2; done)
  rename_i hr
  simp only [rdU, takeE, hr] at h1 ⊢))

set_option hygiene false in
macro "if_m" : tactic => `(tactic| (
  split at h1 <;> try (simp at h1; done)
  rename_i hlim
  simp only [hlim, ↓reduceIte]))

set_option hygiene false in
macro "sub_m" : tactic => `(tactic| (
  split at h2 <;> try (simp at h2; done)
  rename_i hs
  split at h1 <;> try (simp at h1; done)
  rename_i hd
  obtain ⟨hrr, hb⟩ := ih _ _ _ _ _ _ hd hs
  subst hrr
  simp only [hb]))

set_option hygiene false in
macro "fin_m" : tactic => `(tactic| (
  refine ⟨?_, h1⟩
  try simp only [rdU, takeE] at h1
  repeat' (split at h2 <;> try (simp at h2; done))
  all_goals (try simp_all)
  all_goals (repeat' (split at h1 <;> try (simp at h1; done)))
  all_goals (try simp_all)))


theorem words_m : ∀ (n : Nat) (bs : Bytes) (ids : List Nat) (r r' : Bytes),
    rdWords n bs = .ok (ids, r) → skipWords n bs = some r' → r' = r := by
  intro n
  induction n with
  | zero => intro bs ids r r' h1 h2; simp [rdWords] at h1; simp [skipWords] at h2; simp_all
  | succ n ihn =>
    intro bs ids r r' h1 h2
    simp only [rdWords, rdU] at h1
    simp only [skipWords] at h2
    cases hr : rdN 4 bs with
    | none => simp [hr] at h2
    | some p =>
      obtain ⟨w, b⟩ := p
      simp only [hr] at h1 h2
      cases hw : rdWords n b with
      | error e => simp [hw] at h1
      | ok q =>
        obtain ⟨ws, b'⟩ := q
        simp [hw] at h1
        have := ihn b ws b' r' hw h2
        simp_all

set_option hygiene false in
macro "subN_m" : tactic => `(tactic| (
  split at h2 <;> try (simp at h2; done)
  rename_i hs
  split at h1 <;> try (simp at h1; done)
  rename_i hd
  obtain ⟨hrr, hb⟩ := ihN _ _ _ _ _ _ _ hd hs
  subst hrr
  simp only [hb]))

set_option hygiene false in
macro "sub_last" : tactic => `(tactic| (
  split at h1 <;> try (simp at h1; done)
  all_goals (rename_i hd; obtain ⟨hrr, hb⟩ := ih _ _ _ _ _ _ hd h2; subst hrr; simp only [hb]; simp_all)
  all_goals (try (split at h1 <;> simp_all))))

set_option hygiene false in
macro "subN_last" : tactic => `(tactic| (
  split at h1 <;> try (simp at h1; done)
  rename_i hd
  obtain ⟨hrr, hb⟩ := ihN _ _ _ _ _ _ _ hd h2
  subst hrr
  simp only [hb]
  simp_all))

section
variable (ih : AccT x c fuel)
include ih

theorem acc_88 (h1 : dec x (cO c) (fuel + 1) d (88 :: bs) = .ok (t, r)) (h2 : shape (f' + 1) (88 :: bs) = some r') :
    r' = r ∧ dec x (cB c) (fuel + 1) d (88 :: bs) = .ok (t, r) := by
  open_m 88
  sub_m
  fin_m

theorem acc_120 (h1 : dec x (cO c) (fuel + 1) d (120 :: bs) = .ok (t, r)) (h2 : shape (f' + 1) (120 :: bs) = some r') :
    r' = r ∧ dec x (cB c) (fuel + 1) d (120 :: bs) = .ok (t, r) := by
  open_m 120
  sub_m
  fin_m

theorem acc_89 (h1 : dec x (cO c) (fuel + 1) d (89 :: bs) = .ok (t, r)) (h2 : shape (f' + 1) (89 :: bs) = some r') :
    r' = r ∧ dec x (cB c) (fuel + 1) d (89 :: bs) = .ok (t, r) := by
  open_m 89
  sub_m
  fin_m

theorem acc_113 (h1 : dec x (cO c) (fuel + 1) d (113 :: bs) = .ok (t, r)) (h2 : shape (f' + 1) (113 :: bs) = some r') :
    r' = r ∧ dec x (cB c) (fuel + 1) d (113 :: bs) = .ok (t, r) := by
  open_m 113
  sub_m
  sub_m
  sub_last

theorem acc_90 (h1 : dec x (cO c) (fuel + 1) d (90 :: bs) = .ok (t, r)) (h2 : shape (f' + 1) (90 :: bs) = some r') :
    r' = r ∧ dec x (cB c) (fuel + 1) d (90 :: bs) = .ok (t, r) := by
  open_m 90
  rd_m
  sub_m
  rd_m
  refine ⟨?_, h1⟩
  split at h1 <;> try (simp at h1; done)
  rename_i hw
  have := words_m _ _ _ _ _ hw h2
  simp_all

variable (ihN : AccN x c fuel)
include ihN

theorem acc_104 (h1 : dec x (cO c) (fuel + 1) d (104 :: bs) = .ok (t, r)) (h2 : shape (f' + 1) (104 :: bs) = some r') :
    r' = r ∧ dec x (cB c) (fuel + 1) d (104 :: bs) = .ok (t, r) := by
  open_m 104
  rd_m
  subN_last

theorem acc_105 (h1 : dec x (cO c) (fuel + 1) d (105 :: bs) = .ok (t, r)) (h2 : shape (f' + 1) (105 :: bs) = some r') :
    r' = r ∧ dec x (cB c) (fuel + 1) d (105 :: bs) = .ok (t, r) := by
  open_m 105
  rd_m
  if_m
  subN_last

theorem acc_108 (h1 : dec x (cO c) (fuel + 1) d (108 :: bs) = .ok (t, r)) (h2 : shape (f' + 1) (108 :: bs) = some r') :
    r' = r ∧ dec x (cB c) (fuel + 1) d (108 :: bs) = .ok (t, r) := by
  open_m 108
  rd_m
  if_m
  subN_m
  sub_last

theorem acc_112 (h1 : dec x (cO c) (fuel + 1) d (112 :: bs) = .ok (t, r)) (h2 : shape (f' + 1) (112 :: bs) = some r') :
    r' = r ∧ dec x (cB c) (fuel + 1) d (112 :: bs) = .ok (t, r) := by
  open_m 112
  rd_m
  rd_m
  rd_m
  rd_m
  rd_m
  sub_m
  sub_m
  if_m
  sub_m
  if_m
  sub_m
  subN_last

omit ih ihN
variable (ihKV : AccKV x c fuel)
include ihKV

theorem acc_116 (h1 : dec x (cO c) (fuel + 1) d (116 :: bs) = .ok (t, r)) (h2 : shape (f' + 1) (116 :: bs) = some r') :
    r' = r ∧ dec x (cB c) (fuel + 1) d (116 :: bs) = .ok (t, r) := by
  open_m 116
  rd_m
  if_m
  split at h1 <;> try (simp at h1; done)
  rename_i hd
  obtain ⟨hrr, hb⟩ := ihKV _ _ _ _ _ _ _ _ hd h2
  subst hrr
  simp only [hb]
  simp_all

end

/-- whenever the owned decoder accepts an input that is laid out with modern tags only, the zero-copy decoder accepts
it with the same term and the same rest, and the layout recogniser consumed exactly the bytes the decoders consumed —
for every fuel, depth, atom cache and behaviour of the external calls -/
theorem dec_accepts_modern (x : Ext) (c : List (Nat × Bytes)) :
    ∀ fuel, AccT x c fuel ∧ AccN x c fuel ∧ AccKV x c fuel := by
  intro fuel
  induction fuel with
  | zero =>
    refine ⟨?_, ?_, ?_⟩
    · intro d bs t r f' r' h1 _; simp [dec] at h1
    · intro d n bs ts r f' r' h1 h2
      cases n with
      | zero =>
        simp [decN] at h1 ⊢
        cases f' <;> simp [shapeN] at h2 <;> simp_all
      | succ n => simp [decN] at h1
    · intro d n bs acc m r f' r' h1 h2
      cases n with
      | zero =>
        simp [decKV] at h1 ⊢
        cases f' <;> simp [shapeKV] at h2 <;> simp_all
      | succ n => simp [decKV] at h1
  | succ fuel ihh =>
    obtain ⟨ih, ihN, ihKV⟩ := ihh
    refine ⟨?_, ?_, ?_⟩
    · intro d bs t r f' r' h1 h2
      cases bs with
      | nil => simp [dec] at h1
      | cons tagB bs =>
        cases f' with
        | zero => simp [shape] at h2
        | succ f' =>
        have h2' := h2
        rw [Spec.Modern.shape.eq_3] at h2
        split at h2
        · rename_i heq
          have ht : tagB = 97 := UInt8.toNat_inj.mp (by simpa using heq)
          subst ht
          exact acc_97 h1 h2'
        · rename_i heq
          have ht : tagB = 98 := UInt8.toNat_inj.mp (by simpa using heq)
          subst ht
          exact acc_98 h1 h2'
        · rename_i heq
          have ht : tagB = 70 := UInt8.toNat_inj.mp (by simpa using heq)
          subst ht
          exact acc_70 h1 h2'
        · rename_i heq
          have ht : tagB = 118 := UInt8.toNat_inj.mp (by simpa using heq)
          subst ht
          exact acc_118 h1 h2'
        · rename_i heq
          have ht : tagB = 119 := UInt8.toNat_inj.mp (by simpa using heq)
          subst ht
          exact acc_119 h1 h2'
        · rename_i heq
          have ht : tagB = 110 := UInt8.toNat_inj.mp (by simpa using heq)
          subst ht
          exact acc_110 h1 h2'
        · rename_i heq
          have ht : tagB = 111 := UInt8.toNat_inj.mp (by simpa using heq)
          subst ht
          exact acc_111 h1 h2'
        · rename_i heq
          have ht : tagB = 104 := UInt8.toNat_inj.mp (by simpa using heq)
          subst ht
          exact acc_104 ih ihN h1 h2'
        · rename_i heq
          have ht : tagB = 105 := UInt8.toNat_inj.mp (by simpa using heq)
          subst ht
          exact acc_105 ih ihN h1 h2'
        · rename_i heq
          have ht : tagB = 106 := UInt8.toNat_inj.mp (by simpa using heq)
          subst ht
          exact acc_106 h1 h2'
        · rename_i heq
          have ht : tagB = 107 := UInt8.toNat_inj.mp (by simpa using heq)
          subst ht
          exact acc_107 h1 h2'
        · rename_i heq
          have ht : tagB = 108 := UInt8.toNat_inj.mp (by simpa using heq)
          subst ht
          exact acc_108 ih ihN h1 h2'
        · rename_i heq
          have ht : tagB = 109 := UInt8.toNat_inj.mp (by simpa using heq)
          subst ht
          exact acc_109 h1 h2'
        · rename_i heq
          have ht : tagB = 77 := UInt8.toNat_inj.mp (by simpa using heq)
          subst ht
          exact acc_77 h1 h2'
        · rename_i heq
          have ht : tagB = 116 := UInt8.toNat_inj.mp (by simpa using heq)
          subst ht
          exact acc_116 ihKV h1 h2'
        · rename_i heq
          have ht : tagB = 88 := UInt8.toNat_inj.mp (by simpa using heq)
          subst ht
          exact acc_88 ih h1 h2'
        · rename_i heq
          have ht : tagB = 120 := UInt8.toNat_inj.mp (by simpa using heq)
          subst ht
          exact acc_120 ih h1 h2'
        · rename_i heq
          have ht : tagB = 89 := UInt8.toNat_inj.mp (by simpa using heq)
          subst ht
          exact acc_89 ih h1 h2'
        · rename_i heq
          have ht : tagB = 90 := UInt8.toNat_inj.mp (by simpa using heq)
          subst ht
          exact acc_90 ih h1 h2'
        · rename_i heq
          have ht : tagB = 113 := UInt8.toNat_inj.mp (by simpa using heq)
          subst ht
          exact acc_113 ih h1 h2'
        · rename_i heq
          have ht : tagB = 112 := UInt8.toNat_inj.mp (by simpa using heq)
          subst ht
          exact acc_112 ih ihN h1 h2'
        · simp at h2
    · intro d n bs ts r f' r' h1 h2
      cases n with
      | zero =>
        simp [decN] at h1 ⊢
        cases f' <;> simp [shapeN] at h2 <;> simp_all
      | succ n =>
        cases f' with
        | zero => simp [shapeN] at h2
        | succ f' =>
          simp only [decN] at h1 ⊢
          simp only [shapeN] at h2
          sub_m
          subN_last
    · intro d n bs acc m r f' r' h1 h2
      cases n with
      | zero =>
        simp [decKV] at h1 ⊢
        cases f' <;> simp [shapeKV] at h2 <;> simp_all
      | succ n =>
        cases f' with
        | zero => simp [shapeKV] at h2
        | succ f' =>
          simp only [decKV] at h1 ⊢
          simp only [shapeKV] at h2
          sub_m
          sub_m
          obtain ⟨hrr, hb⟩ := ihKV _ _ _ _ _ _ _ _ h1 h2
          exact ⟨hrr, hb⟩

end Edp
