import EdpVerif.Basic.Bytes
import EdpVerif.Basic.Utf8
/-
The two EPMD exchanges on the way to a connection, written from the protocol description (erl_dist_protocol,
"EPMD Protocol"): PORT_PLEASE2_REQ / PORT2_RESP (lookup of the peer's listening port) and ALIVE2_REQ / ALIVE2_RESP /
ALIVE2_X_RESP (registration). Independent of `Impl/Epmd.lean`: layouts as byte strings and a reader of a PORT2_RESP.
-/
namespace Edp.Spec.Epmd
open Edp

/-- the fields of a PORT2_RESP with result 0 -/
structure NodeInfo where
  port : Nat
  type : Nat
  proto : Nat
  hi : Nat
  lo : Nat
  name : Bytes
  extra : Bytes
deriving DecidableEq, Repr

/-- `2:Length 1:122 N:NodeName` -/
def portPlease2Req (name : Bytes) : Bytes := be16 (1 + name.length) ++ [122] ++ name

/-- `1:119 1:Result=0 2:PortNo 1:NodeType 1:Protocol 2:HighestVersion 2:LowestVersion 2:Nlen Nlen:NodeName 2:Elen Elen:Extra` -/
def port2Resp (i : NodeInfo) : Bytes :=
  [119, 0] ++ be16 i.port ++ [UInt8.ofNat i.type, UInt8.ofNat i.proto] ++ be16 i.hi ++ be16 i.lo ++
    be16 i.name.length ++ i.name ++ be16 i.extra.length ++ i.extra

/-- `1:119 1:Result>0` -/
def port2RespError (code : Nat) : Bytes := [119, UInt8.ofNat code]

/-- `2:Length 1:120 2:PortNo 1:NodeType 1:Protocol 2:HighestVersion 2:LowestVersion 2:Nlen Nlen:NodeName 2:Elen Elen:Extra` -/
def alive2Req (port type proto hi lo : Nat) (name extra : Bytes) : Bytes :=
  be16 (13 + name.length + extra.length) ++ [120] ++ be16 port ++ [UInt8.ofNat type, UInt8.ofNat proto] ++ be16 hi ++ be16 lo ++
    be16 name.length ++ name ++ be16 extra.length ++ extra

/-- `1:121 1:Result 2:Creation` -/
def alive2Resp (creation : Nat) : Bytes := [121, 0] ++ be16 creation
/-- `1:118 1:Result 4:Creation` -/
def alive2XResp (creation : Nat) : Bytes := [118, 0] ++ be32 creation

/-- node types of the protocol: 77 normal, 72 hidden (and the historic 104) -/
def nodeTypes : List Nat := [77, 72, 104]
/-- protocol 0 = TCP/IPv4 -/
def protoTcp : Nat := 0

/-- a reader of a PORT2_RESP with result 0 from the front of a byte string: the fields and what follows -/
def readPort2Resp (bs : Bytes) : Option (NodeInfo × Bytes) :=
  match bs with
  | 119 :: 0 :: r =>
    (rdN 2 r).bind fun (port, r) => (rdN 1 r).bind fun (ty, r) => (rdN 1 r).bind fun (pr, r) =>
    (rdN 2 r).bind fun (hi, r) => (rdN 2 r).bind fun (lo, r) => (rdN 2 r).bind fun (nlen, r) =>
    (takeN nlen r).bind fun (name, r) => (rdN 2 r).bind fun (elen, r) => (takeN elen r).bind fun (extra, r) =>
    some (⟨port, ty, pr, hi, lo, name, extra⟩, r)
  | _ => none

/-- the least number of bytes of a PORT2_RESP with result 0 -/
def port2RespMin : Nat := 14

end Edp.Spec.Epmd
