import EdpVerif.Drv.Etf
import EdpVerif.Impl.EqHash
namespace Edp.Drv
open Edp

def ordText : Ordering → String
  | .lt => "lt" | .eq => "eq" | .gt => "gt"

/-- C11 tie: the model of `Ord::cmp` -/
def handleC11 : List String → Option String
  | ["c11cmp", a, b] => some <| run do
    let a ← getTerm a
    let b ← getTerm b
    pure (ordText (Term.cmp a b))
  -- tie: the model of the derived `PartialEq`
  | ["c11eqv", a, b] => some <| run do
    let a ← getTerm a
    let b ← getTerm b
    pure (if Term.eqv a b then "true" else "false")
  -- tie: the byte stream `Hash::hash` feeds to the hasher
  | ["c11hash", a] => some <| run do
    let a ← getTerm a
    pure (hexOf (Term.hashBytes a))
  | _ => none

end Edp.Drv
