import EdpVerif.Impl.DecodeMeter
import EdpVerif.Lemmas.DecCtx
/-! What the term decoder hands back is never longer than what it was given (every configuration, cache, depth):
the rest of a parser is a piece of its input.  Used by the resource model (Lemmas/DecMeter.lean). -/
namespace Edp

theorem decAtomBody_len {k : Nat} {bs : Bytes} {t : Term} {r : Bytes} (h : decAtomBody k bs = .ok (t, r)) :
    r.length ≤ bs.length := by
  unfold decAtomBody at h
  split at h
  · simp at h
  · rename_i len r0 h0
    have := rdU_len h0
    split at h
    · simp at h
    · split at h
      · simp at h
      · rename_i name r1 h1
        have := takeE_len h1
        split at h <;> simp at h
        obtain ⟨_, rfl⟩ := h; omega

theorem decLatin1Body_len {k : Nat} {bs : Bytes} {t : Term} {r : Bytes} (h : decLatin1Body k bs = .ok (t, r)) :
    r.length ≤ bs.length := by
  unfold decLatin1Body at h
  split at h
  · simp at h
  · rename_i len r0 h0
    have := rdU_len h0
    split at h
    · simp at h
    · split at h
      · simp at h
      · rename_i name r1 h1
        have := takeE_len h1
        simp at h
        obtain ⟨_, rfl⟩ := h; omega

theorem decBig_len {k : Nat} {bs : Bytes} {t : Term} {r : Bytes} (h : decBig k bs = .ok (t, r)) :
    r.length ≤ bs.length := by
  unfold decBig at h
  split at h
  · simp at h
  · rename_i n r0 h0
    have := rdU_len h0
    split at h
    · simp at h
    · rename_i sign r1 h1
      have := rdU_len h1
      split at h
      · simp at h
      · rename_i d r2 h2
        have := takeE_len h2
        simp at h
        obtain ⟨_, rfl⟩ := h; omega

set_option hygiene false in
macro "lstep" : tactic => `(tactic| (
  split at h <;> (first
    | (simp at h; done)
    | (rename_i heq; first
        | (have := rdU_len heq)
        | (have := takeE_len heq)
        | (have := rdWords_len _ _ _ _ heq)
        | (have := ih1 _ _ _ _ heq)
        | (have := ih2 _ _ _ _ _ heq)
        | (have := ih3 _ _ _ _ _ _ heq)
        | skip)
    | skip)))

set_option maxHeartbeats 4000000 in
theorem dec_len (x : Ext) (cfg : DecCfg) : ∀ (fuel : Nat),
    (∀ d bs t r, dec x cfg fuel d bs = .ok (t, r) → r.length ≤ bs.length) ∧
    (∀ d n bs l r, decN x cfg fuel d n bs = .ok (l, r) → r.length ≤ bs.length) ∧
    (∀ d n bs m m' r, decKV x cfg fuel d n bs m = .ok (m', r) → r.length ≤ bs.length) := by
  intro fuel
  induction fuel with
  | zero =>
    refine ⟨?_, ?_, ?_⟩
    · intro d bs t r h; simp [dec] at h
    · intro d n bs l r h; cases n <;> simp [decN] at h; simp [h.2]
    · intro d n bs m m' r h; cases n <;> simp [decKV] at h; simp [h.2]
  | succ f ih =>
    obtain ⟨ih1, ih2, ih3⟩ := ih
    refine ⟨?_, ?_, ?_⟩
    · intro d bs t r h
      cases bs with
      | nil => simp [dec] at h
      | cons tg bs =>
        simp only [dec] at h
        by_cases hd : d > MAX_NESTING_DEPTH
        · simp [hd] at h
        · simp only [hd, ↓reduceIte] at h
          split at h
          · simp at h
          · split at h
            all_goals (repeat lstep)
            all_goals (first
              | (have := decLatin1Body_len h; simp only [List.length_cons]; omega)
              | (have := decAtomBody_len h; simp only [List.length_cons]; omega)
              | (have := decBig_len h; simp only [List.length_cons]; omega)
              | (simp at h; done)
              | (simp only [Except.ok.injEq, Prod.mk.injEq] at h
                 obtain ⟨_, rfl⟩ := h
                 simp only [List.length_cons, List.length_drop] at *
                 omega))
    · intro d n bs l r h
      cases n with
      | zero => simp [decN] at h; simp [h.2]
      | succ n =>
        simp only [decN] at h
        repeat lstep
        simp only [Except.ok.injEq, Prod.mk.injEq] at h
        obtain ⟨_, rfl⟩ := h
        omega
    · intro d n bs m m' r h
      cases n with
      | zero => simp [decKV] at h; simp [h.2]
      | succ n =>
        simp only [decKV] at h
        repeat lstep
        have := ih3 _ _ _ _ _ _ h
        omega

/-- the rest of a term is never longer than the input it was parsed from -/
theorem dec_rest_le (x : Ext) (cfg : DecCfg) (fuel d : Nat) (bs : Bytes) (t : Term) (r : Bytes)
    (h : dec x cfg fuel d bs = .ok (t, r)) : r.length ≤ bs.length := (dec_len x cfg fuel).1 d bs t r h

theorem decN_rest_le (x : Ext) (cfg : DecCfg) (fuel d n : Nat) (bs : Bytes) (l : List Term) (r : Bytes)
    (h : decN x cfg fuel d n bs = .ok (l, r)) : r.length ≤ bs.length := (dec_len x cfg fuel).2.1 d n bs l r h

end Edp
