#!/usr/bin/env python3
"""Runs the repository's test suite (guard off) in the given checkout and compares with BASELINE.json's stable_pass.
usage: tools/baseline.py [repo_dir]   exit 0 iff every stable_pass test passes."""
import json, os, re, subprocess, sys
repo = sys.argv[1] if len(sys.argv) > 1 else "/repo"
base = json.load(open("/root/.vp/BASELINE.json"))
want = set(base["stable_pass"])
env = dict(os.environ, CARGO_NET_OFFLINE="true")
env.pop("RUSTFLAGS", None)
p = subprocess.run(["cargo", "nextest", "run", "--workspace", "--no-fail-fast", "--offline", "--test-threads", "8"],
                   cwd=repo, env=env, stdout=subprocess.PIPE, stderr=subprocess.STDOUT, text=True)
passed, failed = set(), set()
for l in p.stdout.splitlines():
    m = re.match(r"\s*(PASS|FAIL|SIGABRT|TIMEOUT|LEAK)\s+\[[^\]]*\]\s+(?:\([^)]*\)\s+)?(\S+)\s+(\S+)", l)
    if m:
        crate_bin = m.group(2)
        name = m.group(3)
        # nextest prints "crate::binary" or "crate"; baseline uses crate::binary::test (binary omitted for lib tests)
        key = crate_bin + "::" + name
        (passed if m.group(1) == "PASS" else failed).add(key)
missing = sorted(t for t in want if t not in passed)
print(f"passed {len(passed)}, failed {len(failed)}, baseline stable_pass {len(want)}, baseline tests not passing now: {len(missing)}")
for t in missing[:40]:
    print("  NOT PASSING:", t)
sys.exit(1 if missing else 0)
