#!/bin/sh
# usage: tools/try_patch.sh <patch.diff> <Cxx> [more Cxx...]   apply to /repo, run the quick checks, undo, restore evidence/
patch=$1; shift
git -C /repo apply $patch || { echo "patch does not apply to /repo"; exit 1; }
for p in "$@"; do
  (cd /verif && python3 check.py $p quick 2>&1 | grep -v "^WARNING" | cut -c1-400 | grep -E "quick seed|VIOLATION|KNOWN-FINDING|^  (tie|proof|harness)" | head -8)
done
git -C /repo checkout -- .
git -C /verif checkout -- evidence/ 2>/dev/null
git -C /repo status --short | head -3
