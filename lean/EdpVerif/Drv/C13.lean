import EdpVerif.Drv.Etf
import EdpVerif.Impl.DecodeCtx
import EdpVerif.Spec.ModernShape
namespace Edp.Drv
open Edp

def showCtx : BTop → String
  | .ok t => "ok " ++ t.text
  | .fail .err off p => "err " ++ toString off ++ " " ++ hexOf (displayPath p)
  | .fail (.trailing n) off p => "trailing " ++ toString n ++ " " ++ toString off ++ " " ++ hexOf (displayPath p)
  | .fail .panic _ _ => "panic"
  | .panic => "panic"

/-- driver requests of property C13 -/
def handleC13 : List String → Option String
  -- tie: the zero-copy decoder with its error context (offset, path)
  | ["c13ctx", h, o] => some <| run do
    let b ← getHex h
    pure (showCtx (decodeBorrowedCtx (parseOracle o).ext b))
  -- oracle (clause 2): an input laid out with modern tags only that the owned decoder accepts is accepted
  | ["c13modern", h, owned, borrowed] => some <| run do
    let b ← getHex h
    if Spec.Modern.modernOnly b && owned == "ok" && borrowed != "ok" then pure "FAIL modern-tags-only input refused by the zero-copy decoder"
    else pure "ok"
  -- the guard is not vacuous: what the encoder writes for a term without node-local identifiers is modern-only
  | ["c13shape", h] => some <| run do
    let b ← getHex h
    pure (if Spec.Modern.modernOnly b then "modern" else "other")
  -- oracle (clause 3, what more is true): the reported offset is a position where a term starts
  | ["c13start", h, kind, off] => some <| run do
    let b ← getHex h
    if Spec.Modern.isTermStart b off.toNat! (kind == "trailing") then pure "ok"
    else pure ("FAIL offset " ++ off ++ " is not the start of a term")
  | _ => none

end Edp.Drv
