import EdpVerif.Props.C01
