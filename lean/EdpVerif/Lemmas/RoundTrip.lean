import EdpVerif.Lemmas.Codec
/-!
Round trip of the codec model: `dec (enc t ++ r) = (wire t, r)`.
`wire t` is what comes back from the wire (integers beyond 32 bits as big integers, strings as binaries,
the empty list as nil, maps re-inserted in arrival order); `wfT` states exactly what the Rust types do not enforce.
-/
namespace Edp

/-- `mapInsert` folded over the pairs in arrival order (what `parse_map` builds) -/
def insertAll (m : List (Term × Term)) : List (Term × Term) → List (Term × Term)
  | [] => m
  | (k, v) :: r => insertAll (mapInsert m k v) r

def inI64 (i : Int) : Prop := -9223372036854775808 ≤ i ∧ i ≤ 9223372036854775807
def inI32 (i : Int) : Prop := -2147483648 ≤ i ∧ i ≤ 2147483647

def wirePid (p : PidF) : PidF := p

mutual
/-- the term `decode (encode t)` returns -/
def wire : Term → Term
  | .int i =>
    if -2147483648 ≤ i ∧ i ≤ 2147483647 then .int i
    else .big (decide (i < 0)) ((leN 8 i.natAbs).take (sigLen (leN 8 i.natAbs)))
  | .str s => .bin s
  | .list l => match l with
    | [] => .nil
    | _ => .list (wireL l)
  | .ilist l t => match wire t with
    | .nil => .list (wireL l)
    | t' => .ilist (wireL l) t'
  | .map kvs => .map (insertAll [] (wireKV kvs))
  | .tuple l => .tuple (wireL l)
  | .ifun a u i nf m oi ou p fr => .ifun a u i nf m oi ou p (wireL fr)
  | t => t
def wireL : List Term → List Term
  | [] => []
  | t :: ts => wire t :: wireL ts
def wireKV : List (Term × Term) → List (Term × Term)
  | [] => []
  | (k, v) :: r => (wire k, wire v) :: wireKV r
end

def wfPid (p : PidF) : Bool :=
  validUtf8 p.node && decide (p.id < 4294967296) && decide (p.serial < 4294967296) &&
    decide (p.creation < 4294967296) && p.loc.isNone

mutual
/-- well-formedness: what the Rust types do not already enforce (plus: identifiers in plain form) -/
def wfT : Term → Bool
  | .atom a => validUtf8 a
  | .int i => decide (-9223372036854775808 ≤ i ∧ i ≤ 9223372036854775807)
  | .float b => decide (b < 18446744073709551616)
  | .pid p => wfPid p
  | .port n i c l => validUtf8 n && decide (i < 18446744073709551616) && decide (c < 4294967296) && l.isNone
  | .ref n c ids l => validUtf8 n && decide (c < 4294967296) && ids.all (fun i => decide (i < 4294967296)) && l.isNone
  | .bin b => decide (b.length ≤ MAX_BINARY_SIZE)
  | .bits b n => decide (1 ≤ n ∧ n ≤ 8) && (!b.isEmpty || n == 8) && decide (b.length ≤ MAX_BINARY_SIZE)
  | .str s => decide (s.length ≤ MAX_BINARY_SIZE)
  | .list l => decide (l.length ≤ MAX_LIST_SIZE) && wfL l
  | .ilist l t => decide (l.length ≤ MAX_LIST_SIZE) && wfL l && wfT t
  | .map kvs => decide (kvs.length ≤ MAX_MAP_SIZE) && wfKV kvs
  | .tuple l => decide (l.length ≤ MAX_TUPLE_SIZE) && wfL l
  | .big _ d => decide (d.length < 4294967296)
  | .xfun m f a => validUtf8 m && validUtf8 f && decide (a ≤ 255)
  | .ifun a u i nf m oi ou p fr =>
    decide (a ≤ 255) && decide (u.length = 16) && decide (i < 4294967296) && decide (nf = fr.length) &&
      decide (nf < 4294967296) && validUtf8 m && decide (oi < 2147483648) && decide (ou < 2147483648) && wfPid p && wfL fr
  | .nil => true
def wfL : List Term → Bool
  | [] => true
  | t :: ts => wfT t && wfL ts
def wfKV : List (Term × Term) → Bool
  | [] => true
  | (k, v) :: r => wfT k && wfT v && wfKV r
end

mutual
/-- fuel that suffices to decode the encoding of a term -/
def tsz : Term → Nat
  | .list l => 2 + tszL l
  | .ilist l t => 1 + tszL l + tsz t
  | .map kvs => 1 + tszKV kvs
  | .tuple l => 1 + tszL l
  | .pid _ => 2
  | .port _ _ _ _ => 2
  | .ref _ _ _ _ => 2
  | .xfun _ _ _ => 2
  | .ifun _ _ _ _ _ _ _ _ fr => 3 + tszL fr
  | _ => 1
def tszL : List Term → Nat
  | [] => 0
  | t :: ts => 1 + tsz t + tszL ts
def tszKV : List (Term × Term) → Nat
  | [] => 0
  | (k, v) :: r => 1 + tsz k + tsz v + tszKV r
end

mutual
/-- nesting depth the decoder reaches below the term's own level -/
def dep : Term → Nat
  | .list l => 1 + depL l
  | .ilist l t => 1 + max (depL l) (dep t)
  | .map kvs => 1 + depKV kvs
  | .tuple l => 1 + depL l
  | .pid _ => 1
  | .port _ _ _ _ => 1
  | .ref _ _ _ _ => 1
  | .xfun _ _ _ => 1
  | .ifun _ _ _ _ _ _ _ _ fr => 2 + depL fr
  | _ => 0
def depL : List Term → Nat
  | [] => 0
  | t :: ts => max (dep t) (depL ts)
def depKV : List (Term × Term) → Nat
  | [] => 0
  | (k, v) :: r => max (max (dep k) (dep v)) (depKV r)
end

/-! ### leaves -/

theorem enc_atom_ok (a bs : Bytes) (h : encAtom [] a = .ok bs) :
    (a.length ≤ 255 ∧ bs = 119 :: be8 a.length ++ a) ∨ (255 < a.length ∧ a.length ≤ 65535 ∧ bs = 118 :: be16 a.length ++ a) := by
  unfold encAtom at h
  simp only [indexOf?] at h
  by_cases h1 : a.length > u16max
  · simp [h1] at h
  · by_cases h2 : a.length > 255
    · simp [h1, h2] at h
      exact Or.inr ⟨h2, by simpa [u16max] using h1, h.symm⟩
    · simp [h1, h2] at h
      exact Or.inl ⟨by omega, h.symm⟩

/-- an atom written by the encoder is read back, by either decoder, at any depth within the limit -/
theorem dec_atom (x : Ext) (cfg : DecCfg) (a bs r : Bytes) (fuel d : Nat) (hu : validUtf8 a = true)
    (h : encAtom [] a = .ok bs) (hd : d ≤ MAX_NESTING_DEPTH) :
    dec x cfg (fuel + 1) d (bs ++ r) = .ok (.atom a, r) := by
  have hd' : ¬ d > MAX_NESTING_DEPTH := by omega
  rcases enc_atom_ok a bs h with ⟨hl, rfl⟩ | ⟨hl, hl2, rfl⟩
  · simp only [List.cons_append, List.append_assoc]
    rw [dec.eq_3]
    have hm : ¬ a.length > MAX_ATOM_SIZE := by simp [MAX_ATOM_SIZE]; omega
    simp [hd', ownedOnlyTags, decAtomBody, rdU_be8 a.length (a ++ r) (by omega), hm, hu]
  · simp only [List.cons_append, List.append_assoc]
    rw [dec.eq_3]
    have hm : ¬ a.length > MAX_ATOM_SIZE := by simp [MAX_ATOM_SIZE]; omega
    simp [hd', ownedOnlyTags, decAtomBody, rdU_be16 a.length (a ++ r) (by omega), hm, hu]

end Edp

namespace Edp

theorem leN_length (k n : Nat) : (leN k n).length = k := by
  induction k generalizing n with
  | zero => simp [leN]
  | succ k ih => simp [leN, ih]

theorem dropWhile_length_le {α} (p : α → Bool) (l : List α) : (l.dropWhile p).length ≤ l.length := by
  induction l with
  | nil => simp
  | cons a l ih => simp only [List.dropWhile]; split <;> simp <;> omega

theorem sigLen_le (d : Bytes) (h : 1 ≤ d.length) : sigLen d ≤ d.length := by
  unfold sigLen
  split
  · exact h
  · rename_i r hr
    have := dropWhile_length_le (· == (0 : UInt8)) d.reverse
    simp at this
    simpa using this

theorem sigLen_pos (d : Bytes) : 1 ≤ sigLen d := by
  unfold sigLen
  split
  · exact Nat.le_refl 1
  · rename_i r hr
    cases h : List.dropWhile (fun x => x == (0 : UInt8)) d.reverse with
    | nil => exact absurd h hr
    | cons a b => simp

theorem dec_int (x : Ext) (cfg : DecCfg) (v : Int) (r : Bytes) (fuel d : Nat)
    (hv : -9223372036854775808 ≤ v ∧ v ≤ 9223372036854775807) (hd : d ≤ MAX_NESTING_DEPTH) :
    dec x cfg (fuel + 1) d (encInt v ++ r) = .ok (wire (.int v), r) := by
  have hd' : ¬ d > MAX_NESTING_DEPTH := by omega
  unfold encInt
  by_cases h1 : 0 ≤ v ∧ v ≤ 255
  · simp only [h1, and_self, ↓reduceIte, List.cons_append, List.nil_append]
    rw [dec.eq_3]
    have hw : wire (.int v) = .int v := by
      unfold wire; simp; omega
    have hn : v.toNat < 256 := by omega
    simp [hd', ownedOnlyTags, rdU_byte v.toNat r hn, hw]
    omega
  · by_cases h2 : -2147483648 ≤ v ∧ v ≤ 2147483647
    · simp only [h1, h2, and_self, ↓reduceIte, List.cons_append]
      rw [dec.eq_3]
      have hw : wire (.int v) = .int v := by
        unfold wire; simp [h2]
      have hlt : (v % 4294967296).toNat < 4294967296 := by omega
      simp [hd', ownedOnlyTags, rdU_be32 _ r hlt, hw, i32OfU32]
      split <;> omega
    · simp only [h1, h2, ↓reduceIte, List.cons_append]
      rw [dec.eq_3]
      have hlen : 1 ≤ (leN 8 v.natAbs).length := by simp [leN_length]
      have hs := sigLen_le (leN 8 v.natAbs) hlen
      have hs8 : sigLen (leN 8 v.natAbs) ≤ 8 := by simpa [leN_length] using hs
      have hn : sigLen (leN 8 v.natAbs) < 256 := by omega
      have htl : ((leN 8 v.natAbs).take (sigLen (leN 8 v.natAbs))).length = sigLen (leN 8 v.natAbs) := by
        simp [leN_length]; omega
      have hw : wire (.int v) = .big (decide (v < 0)) ((leN 8 v.natAbs).take (sigLen (leN 8 v.natAbs))) := by
        unfold wire; simp [h2]
      by_cases hneg : v ≥ 0
      · have e0 : rdU 1 ((0 : UInt8) :: ((leN 8 v.natAbs).take (sigLen (leN 8 v.natAbs)) ++ r)) = .ok (0, _) := rdU_byte 0 _ (by omega)
        have hnl : ¬ v < 0 := by omega
        simp [hd', ownedOnlyTags, decBig, rdU_byte _ _ hn, hneg, e0, takeE_of_length _ _ r htl, hw, hnl]
      · have e1 : rdU 1 ((1 : UInt8) :: ((leN 8 v.natAbs).take (sigLen (leN 8 v.natAbs)) ++ r)) = .ok (1, _) := rdU_byte 1 _ (by omega)
        have hnl : v < 0 := by omega
        simp [hd', ownedOnlyTags, decBig, rdU_byte _ _ hn, hneg, e1, takeE_of_length _ _ r htl, hw, hnl]

end Edp

namespace Edp

theorem dec_float (x : Ext) (cfg : DecCfg) (b : Nat) (r : Bytes) (fuel d : Nat)
    (hb : b < 18446744073709551616) (hd : d ≤ MAX_NESTING_DEPTH) :
    dec x cfg (fuel + 1) d (70 :: be64 b ++ r) = .ok (.float b, r) := by
  have hd' : ¬ d > MAX_NESTING_DEPTH := by omega
  rw [List.cons_append, dec.eq_3]
  simp [hd', ownedOnlyTags, rdU_be64 b r hb]

theorem dec_binary (x : Ext) (cfg : DecCfg) (b bs r : Bytes) (fuel d : Nat)
    (h : encBinary b = .ok bs) (hl : b.length ≤ MAX_BINARY_SIZE) (hd : d ≤ MAX_NESTING_DEPTH) :
    dec x cfg (fuel + 1) d (bs ++ r) = .ok (.bin b, r) := by
  have hd' : ¬ d > MAX_NESTING_DEPTH := by omega
  unfold encBinary at h
  have hm : ¬ b.length > u32max := by simp [u32max, MAX_BINARY_SIZE] at *; omega
  simp [hm] at h
  subst h
  simp only [List.cons_append, List.append_assoc]
  rw [dec.eq_3]
  have h32 : b.length < 4294967296 := by simp [MAX_BINARY_SIZE] at hl; omega
  have hm2 : ¬ b.length > MAX_BINARY_SIZE := by omega
  simp [hd', ownedOnlyTags, rdU_be32 b.length (b ++ r) h32, hm2]

theorem dec_bits (x : Ext) (cfg : DecCfg) (b bs r : Bytes) (n fuel d : Nat)
    (h : encBits b n = .ok bs) (hn : 1 ≤ n ∧ n ≤ 8) (he : b = [] → n = 8)
    (hl : b.length ≤ MAX_BINARY_SIZE) (hd : d ≤ MAX_NESTING_DEPTH) :
    dec x cfg (fuel + 1) d (bs ++ r) = .ok (.bits b n, r) := by
  have hd' : ¬ d > MAX_NESTING_DEPTH := by omega
  unfold encBits at h
  have hm : ¬ b.length > u32max := by simp [u32max, MAX_BINARY_SIZE] at *; omega
  simp [hm] at h
  subst h
  simp only [List.cons_append, List.append_assoc]
  rw [dec.eq_3]
  have h32 : b.length < 4294967296 := by simp [MAX_BINARY_SIZE] at hl; omega
  have hm2 : ¬ b.length > MAX_BINARY_SIZE := by omega
  have hn8 : n < 256 := by omega
  have hz : ¬ (n = 0 ∨ 8 < n) := by omega
  simp [hd', ownedOnlyTags, rdU_be32 b.length _ h32, hm2, rdU_byte n (b ++ r) hn8, hz]
  exact he

theorem decBig_ok (k : Nat) (neg : Bool) (dg r : Bytes) (hl : dg.length < 256 ^ k) :
    decBig k (beN k dg.length ++ (if neg then (1 : UInt8) else 0) :: (dg ++ r)) = .ok (.big neg dg, r) := by
  cases neg
  · have e0 : rdU 1 ((0 : UInt8) :: (dg ++ r)) = .ok (0, dg ++ r) := rdU_byte 0 _ (by omega)
    simp only [Bool.false_eq_true, ↓reduceIte]
    rw [decBig, rdU_beN k dg.length _ hl]
    simp only [e0, takeE_append]
    rfl
  · have e1 : rdU 1 ((1 : UInt8) :: (dg ++ r)) = .ok (1, dg ++ r) := rdU_byte 1 _ (by omega)
    simp only [↓reduceIte]
    rw [decBig, rdU_beN k dg.length _ hl]
    simp only [e1, takeE_append]
    rfl

theorem dec_big (x : Ext) (cfg : DecCfg) (neg : Bool) (dg r : Bytes) (fuel d : Nat)
    (hl : dg.length < 4294967296) (hd : d ≤ MAX_NESTING_DEPTH) :
    dec x cfg (fuel + 1) d (encBig neg dg ++ r) = .ok (.big neg dg, r) := by
  have hd' : ¬ d > MAX_NESTING_DEPTH := by omega
  have e111 : (111 : UInt8).toNat = 111 := by decide
  have e110 : (110 : UInt8).toNat = 110 := by decide
  unfold encBig
  by_cases h255 : dg.length ≤ 255
  · have h256 : dg.length < 256 ^ 1 := by omega
    simp only [h255, ↓reduceIte, List.cons_append, List.append_assoc]
    rw [dec.eq_3]
    simp only [hd', ↓reduceIte, e110]
    have hb : (cfg.borrowed && ownedOnlyTags.contains 110) = false := by simp [ownedOnlyTags]
    simp only [hb, Bool.false_eq_true, ↓reduceIte]
    exact decBig_ok 1 neg dg r h256
  · have h32 : dg.length < 256 ^ 4 := by simpa using hl
    simp only [h255, ↓reduceIte, List.cons_append, List.append_assoc]
    rw [dec.eq_3]
    simp only [hd', ↓reduceIte, e111]
    have hb : (cfg.borrowed && ownedOnlyTags.contains 111) = false := by simp [ownedOnlyTags]
    simp only [hb, Bool.false_eq_true, ↓reduceIte]
    exact decBig_ok 4 neg dg r h32

theorem dec_nil (x : Ext) (cfg : DecCfg) (r : Bytes) (fuel d : Nat) (hd : d ≤ MAX_NESTING_DEPTH) :
    dec x cfg (fuel + 1) d (106 :: r) = .ok (.nil, r) := by
  have hd' : ¬ d > MAX_NESTING_DEPTH := by omega
  rw [dec.eq_3]
  simp [hd', ownedOnlyTags]

end Edp
