import EdpVerif.Impl.Control
import EdpVerif.Generated.MiscC08
/-
Model of the constructor functions of `impl ControlMessage` (control.rs: `link`, `unlink`, `send`, `exit`, `exit2`,
`reg_send`, `group_leader`, `send_sender`, `monitor_p`, `demonitor_p`, `monitor_p_exit`, `payload_exit`,
`payload_exit2`, `payload_monitor_p_exit`): `pub fn name(params..) -> Self { ControlMessage::V { field: param, .. } }`.
The list itself is data, re-extracted from the source on every run (`Gen.CONTROL_CONSTRUCTORS`, tools/gen_misc.py).
-/
namespace Edp.Control

structure Ctor where
  name : String
  params : List String
  variant : String
  /-- `(field, parameter)`: the struct field and the parameter it is initialised with -/
  inits : List (String × String)
  deriving Repr, DecidableEq

def ctors : List Ctor := Gen.CONTROL_CONSTRUCTORS.map fun r => ⟨r.1, r.2.1, r.2.2.1, r.2.2.2⟩

/-- the argument passed for parameter `p` -/
def argOf (params : List String) (args : List Term) (p : String) : Option Term := args[params.idxOf p]?

def initFields (params : List String) (args : List Term) : List (String × String) → Option (List (String × FVal))
  | [] => some []
  | (f, p) :: r =>
    match argOf params args p, initFields params args r with
    | some t, some fs => some ((f, .term t) :: fs)
    | _, _ => none

/-- calling the constructor with `args` (`none`: wrong number of arguments / an initialiser that names no parameter —
neither compiles) -/
def construct (c : Ctor) (args : List Term) : Option Msg :=
  if args.length = c.params.length then (initFields c.params args c.inits).map (Msg.known c.variant) else none

end Edp.Control
