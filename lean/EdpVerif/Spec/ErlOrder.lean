import EdpVerif.Spec.Value
/-
Erlang's standard term order on values (the oracle for C11/C12), written from the Erlang reference
manual ("Term Comparisons"), not from the library:
  number < atom < reference < fun < port < pid < tuple < map < nil < list < bit-string
numbers by exact mathematical value; atoms by code points; tuples by size then elements; lists as cons
cells with the tail deciding; bit-strings bit by bit, a prefix being smaller; maps by size, then all keys
in key order, then the values in key order.  Inside the reference/fun/port/pid ranks Erlang's order is
node-internal; the spec fixes equality by identifying fields and takes the lexicographic order of those
fields (DESIGN §6 C12 (v)).
-/
namespace Edp.Erl
open Edp

def thenO (a b : Ordering) : Ordering := match a with | .eq => b | o => o
def rev : Ordering → Ordering | .lt => .gt | .gt => .lt | .eq => .eq

def rank : Value → Nat
  | .int _ | .float _ => 0
  | .atom _ => 1
  | .ref _ _ _ => 2
  | .xfun _ _ _ | .ifun _ _ _ _ _ _ _ _ _ => 3
  | .port _ _ _ => 4
  | .pid _ _ _ _ => 5
  | .tuple _ => 6
  | .map _ => 7
  | .nil => 8
  | .cons _ _ => 9
  | .bitstr _ _ => 10

def natsCmp : List Nat → List Nat → Ordering
  | [], [] => .eq
  | [], _ :: _ => .lt
  | _ :: _, [] => .gt
  | a :: as, b :: bs => thenO (compare a b) (natsCmp as bs)

/-- a finite double as an exact rational `(-1)^s * m * 2^e`; `none` for NaN/infinity -/
def dyadic (bits : Nat) : Option (Bool × Nat × Int) :=
  let s : Bool := bits / 2 ^ 63 % 2 == 1
  let ex : Nat := bits / 2 ^ 52 % 2048
  let fr : Nat := bits % 2 ^ 52
  if ex == 2047 then none
  else if ex == 0 then some (s, fr, -1074)
  else some (s, fr + 2 ^ 52, (ex : Int) - 1075)

/-- compare `a * 2^ea` with `b * 2^eb` (integers `a`, `b`) exactly, by scaling to a common exponent -/
def cmpScaled (a : Int) (ea : Int) (b : Int) (eb : Int) : Ordering :=
  let e := min ea eb
  compare (a * 2 ^ (ea - e).toNat) (b * 2 ^ (eb - e).toNat)

/-- a number as a scaled integer; non-finite floats have no value -/
def numVal : Value → Option (Int × Int)
  | .int i => some (i, 0)
  | .float b => (dyadic b).map fun (s, m, e) => (if s then -(m : Int) else m, e)
  | _ => none

def cmpNum (a b : Value) : Ordering :=
  match numVal a, numVal b with
  | some (x, ex), some (y, ey) => cmpScaled x ex y ey
  | _, _ => .eq

def bitsOfByte (b : UInt8) : List Bool := (List.range 8).map fun i => b.toNat / 2 ^ (7 - i) % 2 == 1

def bitsOf : Bytes → Nat → List Bool
  | [], _ => []
  | [b], n => (bitsOfByte b).take n
  | b :: r, n => bitsOfByte b ++ bitsOf r n

def boolsCmp : List Bool → List Bool → Ordering
  | [], [] => .eq
  | [], _ :: _ => .lt
  | _ :: _, [] => .gt
  | a :: as, b :: bs => thenO (compare a.toNat b.toNat) (boolsCmp as bs)

mutual
/-- `exact = true` is the order used for map keys: as `cmp`, but an integer sorts before a float of equal value -/
def cmpX (exact : Bool) (a b : Value) : Ordering :=
    if rank a ≠ rank b then compare (rank a) (rank b) else
    match a, b with
    | .int x, .int y => compare x y
    | .int x, .float y => thenO (cmpNum (.int x) (.float y)) (if exact then .lt else .eq)
    | .float x, .int y => thenO (cmpNum (.float x) (.int y)) (if exact then .gt else .eq)
    | .float x, .float y => cmpNum (.float x) (.float y)
    | .atom x, .atom y => natsCmp x y
    | .ref n c ids, .ref n2 c2 ids2 => thenO (natsCmp n n2) (thenO (compare c c2) (natsCmp ids ids2))
    | .xfun m f a, .xfun m2 f2 a2 => thenO (natsCmp m m2) (thenO (natsCmp f f2) (compare a a2))
    | .xfun _ _ _, .ifun _ _ _ _ _ _ _ _ _ => .lt
    | .ifun _ _ _ _ _ _ _ _ _, .xfun _ _ _ => .gt
    | .ifun _ u i _ m oi ou p fr, .ifun _ u2 i2 _ m2 oi2 ou2 p2 fr2 =>
      thenO (natsCmp m m2) (thenO (compare oi oi2) (thenO (compare ou ou2) (thenO (compare i i2)
        (thenO (natsCmp (u.map UInt8.toNat) (u2.map UInt8.toNat)) (thenO (cmpX exact p p2) (cmpZip exact fr fr2 .eq .lt .gt))))))
    | .port n i c, .port n2 i2 c2 => thenO (natsCmp n n2) (thenO (compare i i2) (compare c c2))
    | .pid n i s c, .pid n2 i2 s2 c2 => thenO (natsCmp n n2) (thenO (compare i i2) (thenO (compare s s2) (compare c c2)))
    | .tuple x, .tuple y => thenO (compare x.length y.length) (cmpZip exact x y .eq .eq .eq)
    | .map x, .map y => thenO (compare x.length y.length) (thenO (cmpKeys x y) (cmpVals exact x y))
    | .nil, .nil => .eq
    -- cons cells: when one chain ends, its tail (not a cons) meets a cons cell of the other: ranks decide
    | .cons x t, .cons y u => cmpZip exact x y (cmpX exact t u) (compare (rank t) 9) (compare 9 (rank u))
    | .bitstr x n, .bitstr y m => boolsCmp (bitsOf x n) (bitsOf y m)
    | _, _ => .eq
termination_by structural a
def cmpZip (exact : Bool) (xs ys : List Value) (both aOut bOut : Ordering) : Ordering :=
  match xs, ys with
  | [], [] => both
  | [], _ :: _ => aOut
  | _ :: _, [] => bOut
  | x :: xs, y :: ys => thenO (cmpX exact x y) (cmpZip exact xs ys both aOut bOut)
termination_by structural xs
/-- keys are always compared in key order (exact) -/
def cmpKeys (xs ys : List (Value × Value)) : Ordering :=
  match xs, ys with
  | (k, _) :: r, (k2, _) :: r2 => thenO (cmpX true k k2) (cmpKeys r r2)
  | _, _ => .eq
termination_by structural xs
def cmpVals (exact : Bool) (xs ys : List (Value × Value)) : Ordering :=
  match xs, ys with
  | (_, v) :: r, (_, v2) :: r2 => thenO (cmpX exact v v2) (cmpVals exact r r2)
  | _, _ => .eq
termination_by structural xs
end

/-- sort map entries into key order (insertion sort) so that maps can be compared entry by entry -/
def insertKV (e : Value × Value) : List (Value × Value) → List (Value × Value)
  | [] => [e]
  | f :: r => if cmpX true e.1 f.1 == .gt then f :: insertKV e r else e :: f :: r

mutual
def sortMaps : Value → Value
  | .tuple l => .tuple (sortMapsL l)
  | .cons l t => .cons (sortMapsL l) (sortMaps t)
  | .map kvs => .map ((sortMapsKV kvs).foldr insertKV [])
  | .ifun a u i nf m oi ou p fr => .ifun a u i nf m oi ou p (sortMapsL fr)
  | v => v
def sortMapsL : List Value → List Value
  | [] => []
  | v :: r => sortMaps v :: sortMapsL r
def sortMapsKV : List (Value × Value) → List (Value × Value)
  | [] => []
  | (k, v) :: r => (sortMaps k, sortMaps v) :: sortMapsKV r
end

/-- Erlang's `<`/`==`/`>` on two values -/
def cmp (a b : Value) : Ordering := cmpX false (sortMaps a) (sortMaps b)

end Edp.Erl
