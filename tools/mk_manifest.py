#!/usr/bin/env python3
"""Writes /verif/MANIFEST.json from tools/props.py (kept valid at all times)."""
import json
import os
import sys

ROOT = os.path.dirname(os.path.dirname(os.path.abspath(__file__)))
sys.path.insert(0, os.path.join(ROOT, "tools"))
from props import PROPS  # noqa: E402

ids = [json.loads(l)["id"] for l in open(os.path.join(ROOT, "properties.jsonl"))]
BASE_NOTE = ("Trusted: Lean 4.33 kernel (axioms propext, Classical.choice, Quot.sound only; no native_decide/bv_decide/sorry); "
             "the Spec modules as oracle; the hand-written Impl model, tied to /repo by the correspondence run "
             "(Rust harness vs compiled Lean driver on the same generated cases) and by tables regenerated from the source; "
             "tools/gen_tables.py; the harness and canonical text forms. ")
checks = []
for pid in ids:
    if pid not in PROPS:
        continue
    c = PROPS[pid]
    checks.append({
        "property_id": pid,
        "quick_cmd": f"python3 check.py {pid} quick",
        "thorough_cmd": f"python3 check.py {pid} thorough",
        "evidence_file": f"/verif/evidence/{pid}.json",
        "replay_cmd_template": f"python3 check.py {pid} --replay {{path}}",
        "engine": "lean4-proof+correspondence",
        "level_claimed": {
            "category": "proof",
            "text": c.get("level_text", "Theorems about a Lean 4 model of the code, accepted by the kernel, for all inputs; "
                                        "model tied to the current source by differential correspondence on every run."),
            "design_ref": c.get("design_ref", "DESIGN.md section 6 " + pid),
        },
        "level_note": BASE_NOTE + c.get("level_note", ""),
        "technique": c.get("technique", "Lean 4 machine-checked proof over a hand-written model + model/code correspondence check"),
    })
na = [{"property_id": pid, "reason": "machinery for this property is not built yet in this revision (see DESIGN.md section 12)"}
      for pid in ids if pid not in PROPS]
manifest = {
    "version": 1,
    "setup_cmd": "python3 tools/setup.py",
    "hooks": {
        "guard": "edp_rs_verif",
        "enable": "RUSTFLAGS='--cfg edp_rs_verif' (set in /verif/harness/.cargo/config.toml; the harness crate path-depends on /repo/crates/*)",
        "baseline_off_cmd": "cd /repo && cargo test --workspace --no-fail-fast --offline",
        "source_commits": json.load(open(os.path.join(ROOT, "tools", "hook_commits.json"))) if os.path.exists(os.path.join(ROOT, "tools", "hook_commits.json")) else [],
        "add_only": True,
    },
    "engines": [{
        "name": "lean4-proof+correspondence",
        "path": "/verif/check.py",
        "serves_properties": [c["property_id"] for c in checks],
        "kind_free_text": "Lean 4 theorems (lean/EdpVerif/Props) over Spec/Impl models; Rust harness (harness/) drives the real "
                          "implementation, the compiled Lean driver (edpdrv) runs the model on the same lines; check.py diffs and decides",
    }],
    "checks": checks,
    "not_applicable": na,
    "notes": "See DESIGN.md. Known findings: known_findings.json. Seeded changes used to test the checks: seeded/.",
}
with open(os.path.join(ROOT, "MANIFEST.json"), "w") as f:
    json.dump(manifest, f, indent=1)
print("MANIFEST.json:", len(checks), "checks,", len(na), "not applicable")
