import EdpVerif.Drv.Common
import EdpVerif.Impl.EncodeEntry
namespace Edp.Drv
open Edp

def run (r : Except String String) : String :=
  match r with
  | .ok s => s
  | .error e => "bad-op " ++ e

def handleEtf : List String → Option String
  | ["enc", t] => some <| run do
    let t ← getTerm t
    pure (showEnc (encode t))
  | ["dec", h, o] => some <| run do
    let b ← getHex h
    pure (showDec (decode (parseOracle o).ext b))
  | ["decb", h, o] => some <| run do
    let b ← getHex h
    pure (showDec (decodeBorrowed (parseOracle o).ext b))
  -- C01 oracle 1: the implementation's bytes are a valid encoding of the value the term denotes
  | ["c01valid", t, h] => some <| run do
    let t ← getTerm t
    let b ← getHex h
    match Spec.parseTop {} b with
    | some (v, []) =>
      if v == t.den then pure "ok" else pure ("FAIL spec=" ++ v.text ++ " den=" ++ t.den.text)
    | some (_, r) => pure ("FAIL spec-trailing " ++ toString r.length)
    | none => pure "FAIL spec-rejects"
  -- C01 oracle 2: the decoded term denotes the same value
  | ["c01same", t, d] => some <| run do
    let t ← getTerm t
    let d ← getTerm d
    if t.den == d.den then pure "ok" else pure ("FAIL den=" ++ t.den.text ++ " decoded=" ++ d.den.text)
  -- C01: `encode_to_writer` into a writer that already holds `w`; `acc` = 1 when the writer accepts the bytes
  | ["c01w", t, w, acc] => some <| run do
    let t ← getTerm t
    let w ← getHex w
    match encodeToWriter t w (acc == "1") with
    | .ok out => pure ("ok " ++ hexOf out)
    | .error (.enc _) => pure "err"
    | .error .io => pure "io"
  | _ => none

end Edp.Drv
