import EdpVerif.Impl.Behaviours
import EdpVerif.Spec.Behaviours
/-!
Refinement of `Spec/Behaviours.lean` by `Impl/Behaviours.lean`: the dispatch of the code recognises exactly the OTP shapes,
and per message the code sends exactly what the Spec says is owed.
-/
namespace Edp.Impl.Beh
open Edp Edp.Impl.Procs
open Edp.Spec.Beh (callOf fromOf isAtom owed ends handled expected survives geOwed shape geExpected Owed)

/-! ### translation of a history -/

def toSpecMsg : Msg → Spec.Beh.Msg
  | .regular f b => .regular f b
  | .control => .control
  | .exit r => .exit r
  | .other => .other

def toSpecAns : GsAns → Spec.Beh.Answer
  | .reply v => .reply v
  | .noReply => .noReply
  | .err => .failed

def reachB (env : Env) (p : PidF) : Bool := decide (env p = .live)

def toSpec (s : GsStep) : Spec.Beh.Step := ⟨toSpecMsg s.msg, toSpecAns s.ans, reachB s.env⟩

def toSpecEv (s : GeStep) : Spec.Beh.EvStep := ⟨toSpecMsg s.msg, reachB s.env⟩

/-! ### the shapes -/

theorem isAtom_iff (t : Term) (n : Bytes) : isAtom t n = true ↔ t = .atom n := by
  cases t <;> simp [isAtom]

theorem gs_call_tag : Gen.GS_CALL_TAG = Spec.Beh.tagGenCall := by decide

theorem isRef_iff (r : Term) : isRef r = true ↔ ∃ n c i l, r = .ref n c i l := by
  cases r <;> simp [isRef]

theorem dispatch_of_callOf (body : Term) (p : PidF) (r q : Term) (h : callOf body = some (p, r, q)) :
    gsDispatchB body = .call p r q := by
  unfold callOf at h
  split at h
  · split at h
    · rename_i tag p' n c i l req hat
      rw [isAtom_iff] at hat
      subst hat
      simp only [Option.some.injEq, Prod.mk.injEq] at h
      obtain ⟨rfl, rfl, rfl⟩ := h
      simp [gsDispatchB, isRef, gs_call_tag]
    · cases h
  · cases h

theorem callOf_of_dispatch (body : Term) (p : PidF) (r q : Term) (h : gsDispatchB body = .call p r q) :
    callOf body = some (p, r, q) := by
  unfold gsDispatchB at h
  split at h
  · rename_i tag e1 rest
    split at h
    · rename_i hc
      obtain ⟨rfl, hl⟩ := hc
      split at h
      · rename_i fp r' req
        split at h
        · rename_i hr
          rw [isRef_iff] at hr
          obtain ⟨n, c, i, l, rfl⟩ := hr
          simp only [GsAct.call.injEq] at h
          obtain ⟨rfl, rfl, rfl⟩ := h
          simp [callOf, isAtom, gs_call_tag]
        · cases h
      · cases h
    · split at h <;> cases h
  · cases h

theorem callOf_none_dispatch (body : Term) (h : callOf body = none) :
    (∃ q, gsDispatchB body = .cast q) ∨ (∃ b, gsDispatchB body = .info b) := by
  cases hd : gsDispatchB body with
  | call p r q => rw [callOf_of_dispatch body p r q hd] at h; cases h
  | cast q => exact Or.inl ⟨q, rfl⟩
  | info b => exact Or.inr ⟨b, rfl⟩

/-! ### gen_server: one message -/

theorem sendsOf_append (a b : List Out) : sendsOf (a ++ b) = sendsOf a ++ sendsOf b := by
  induction a with
  | nil => rfl
  | cons x t ih => cases x <;> simp [sendsOf, ih]

theorem cbsOf_append (a b : List Out) : cbsOf (a ++ b) = cbsOf a ++ cbsOf b := by
  induction a with
  | nil => rfl
  | cons x t ih => cases x <;> simp [cbsOf, ih]

theorem sendsOf_reply (env : Env) (p : PidF) (b : Term) :
    sendsOf (reply env p b) = if reachB env p then [(p, b)] else [] := by
  unfold reply reachB
  cases h : env p <;> simp [sendsOf]

theorem cbsOf_reply (env : Env) (p : PidF) (b : Term) : cbsOf (reply env p b) = [] := by
  unfold reply
  cases env p <;> rfl

theorem gsHandle_sends (s : GsStep) : sendsOf (gsHandle s).1 = (owed (toSpec s)).toList := by
  obtain ⟨msg, ans, env⟩ := s
  cases msg with
  | control => rfl
  | exit r => rfl
  | other => rfl
  | regular f body =>
    simp only [gsHandle, toSpec, toSpecMsg, owed]
    cases hc : callOf body with
    | none =>
      rcases callOf_none_dispatch body hc with ⟨q, hq⟩ | ⟨b, hb⟩
      · rw [hq]; rfl
      · rw [hb]; rfl
    | some v =>
      obtain ⟨p, r, q⟩ := v
      rw [dispatch_of_callOf body p r q hc]
      cases ans with
      | err => rfl
      | noReply => rfl
      | reply v =>
        simp only [handleGenCall, toSpecAns, sendsOf, sendsOf_reply]
        by_cases hr : reachB env p = true <;> simp [hr]

theorem gsHandle_ok (s : GsStep) : (gsHandle s).2 = !ends (toSpec s) := by
  obtain ⟨msg, ans, env⟩ := s
  cases msg with
  | control => cases ans <;> rfl
  | exit r => cases ans <;> rfl
  | other => cases ans <;> rfl
  | regular f body =>
    simp only [gsHandle, toSpec, toSpecMsg]
    cases hd : gsDispatchB body with
    | call p r q => cases ans <;> rfl
    | cast q => cases ans <;> rfl
    | info b => cases ans <;> rfl

/-! ### gen_server: histories -/

theorem gsRun_sends (steps : List GsStep) : sendsOf (gsRun steps).1 = expected (steps.map toSpec) := by
  induction steps with
  | nil => rfl
  | cons s rest ih =>
    have h1 := gsHandle_sends s
    have h2 := gsHandle_ok s
    unfold gsRun
    cases hh : gsHandle s with
    | mk o ok =>
      rw [hh] at h1 h2
      simp only at h1 h2
      cases ok with
      | true =>
        have he : ends (toSpec s) = false := by simpa using h2.symm
        simp only [List.map_cons, expected, handled, he, Bool.false_eq_true, if_false, List.filterMap_cons]
        rw [sendsOf_append, h1, ih]
        cases owed (toSpec s) <;> rfl
      | false =>
        have he : ends (toSpec s) = true := by simpa using h2.symm
        simp only [List.map_cons, expected, handled, he, if_true, List.filterMap_cons, List.filterMap_nil]
        rw [sendsOf_append, h1]
        cases owed (toSpec s) <;> rfl

theorem gsRun_alive (steps : List GsStep) : (gsRun steps).2 = survives (steps.map toSpec) := by
  induction steps with
  | nil => rfl
  | cons s rest ih =>
    have h2 := gsHandle_ok s
    unfold gsRun
    cases hh : gsHandle s with
    | mk o ok =>
      rw [hh] at h2
      simp only at h2
      cases ok with
      | true =>
        have he : ends (toSpec s) = false := by simpa using h2.symm
        simp only [ih, survives, List.map_cons, List.any_cons, he, Bool.false_or]
      | false =>
        have he : ends (toSpec s) = true := by simpa using h2.symm
        simp [survives, he]

/-- the callbacks of one message: exactly one for a `Regular` message (chosen by the shape), `terminate` for an `Exit` -/
theorem gsHandle_cbs (s : GsStep) :
    cbsOf (gsHandle s).1 =
      match s.msg with
      | .regular _ body =>
        (match callOf body with
         | some (p, _, q) => [Cb.gsCall q p]
         | none => match gsDispatchB body with
           | .cast q => [Cb.gsCast q]
           | _ => [Cb.gsInfo body])
      | .exit r => [Cb.gsTerminate r]
      | _ => [] := by
  obtain ⟨msg, ans, env⟩ := s
  cases msg with
  | control => rfl
  | exit r => rfl
  | other => rfl
  | regular f body =>
    simp only [gsHandle]
    cases hc : callOf body with
    | some v =>
      obtain ⟨p, r, q⟩ := v
      rw [dispatch_of_callOf body p r q hc]
      cases ans <;> simp [handleGenCall, cbsOf, cbsOf_reply]
    | none =>
      cases hd : gsDispatchB body with
      | call p r q => rw [callOf_of_dispatch body p r q hd] at hc; cases hc
      | cast q => rfl
      | info b =>
        have : b = body := by
          unfold gsDispatchB at hd
          repeat' split at hd
          all_goals first | (cases hd; rfl) | cases hd
        subst this
        rfl

/-! ### gen_event -/

theorem sendsOf_notifyPass (ω : Oracle) (ev : Term) (hs : List Entry) : sendsOf (notifyPass ω ev hs).2 = [] := by
  induction hs with
  | nil => rfl
  | cons e r ih =>
    simp only [notifyPass, sendsOf_append, ih, List.append_nil]
    unfold notifyOne
    simp only
    split
    · rfl
    · rfl
    · rfl
    · split <;> rfl

theorem sendsOf_sweep (l : List (Entry × Bool)) : sendsOf (sweep l).2 = [] := by
  induction l with
  | nil => rfl
  | cons x r ih =>
    obtain ⟨e, b⟩ := x
    cases b <;> simp [sweep, sendsOf, ih]

theorem sendsOf_notify (ω : Oracle) (st : GeSt) (ev : Term) : sendsOf (notify ω st ev).2 = [] := by
  simp [notify, sendsOf_append, sendsOf_notifyPass, sendsOf_sweep]

theorem sendsOf_callHandler (ω : Oracle) (st : GeSt) (k q : Term) : sendsOf (callHandler ω st k q).2.1 = [] := by
  unfold callHandler
  split
  · rfl
  · simp only
    split
    · rfl
    · rfl
    · rfl
    · split <;> rfl

theorem sendsOf_infoAll (b : Term) (hs : List Entry) : sendsOf (infoAll b hs).2 = [] := by
  induction hs with
  | nil => rfl
  | cons e r ih => simp [infoAll, sendsOf, ih]

theorem sendsOf_terminateAll (reason : Term) (hs : List Entry) : sendsOf (terminateAll reason hs) = [] := by
  induction hs with
  | nil => rfl
  | cons e r ih => simpa [terminateAll, sendsOf] using ih

theorem fromOf_eq (f : Term) :
    fromOf f = match f with
      | .tuple [.pid p, r] => if isRef r then some (p, r) else none
      | _ => none := by
  unfold fromOf
  split
  · simp [isRef]
  · rename_i h
    split
    · rename_i p r
      cases r <;> simp [isRef]
      exact absurd rfl (h _ _ _ _ _)
    · rfl

theorem from_match {α : Type} (b : Term) (k : PidF → Term → α) (d : α) :
    (match b with
      | .tuple [.pid fp, r] => if isRef r then k fp r else d
      | _ => d) =
    match fromOf b with
      | some (p, r) => k p r
      | none => d := by
  rw [fromOf_eq]
  split
  · split <;> simp_all
  · rfl

theorem shape_reply_tuple (env : Env) (p : PidF) (r v : Term) :
    (sendsOf (reply env p (.tuple [r, v]))).map shape = if reachB env p then [Owed.tagged p r] else [] := by
  rw [sendsOf_reply]
  by_cases h : reachB env p = true <;> simp [h, shape]

theorem shape_reply_ok (env : Env) (p : PidF) :
    (sendsOf (reply env p (atomB Gen.GE_ACK_ATOM))).map shape = if reachB env p then [Owed.ack p] else [] := by
  rw [sendsOf_reply]
  by_cases h : reachB env p = true <;> simp [h, shape, atomB, Gen.GE_ACK_ATOM, Spec.Beh.atomOk]

theorem geHandle_sends_regular (ω : Oracle) (st : GeSt) (env : Env) (frm : Option PidF) (body : Term) :
    (sendsOf (geHandle ω st ⟨.regular frm body, env⟩).2).map shape = (geOwed ⟨.regular frm body, reachB env⟩).toList := by
  cases body with
  | tuple l =>
    match l with
    | [] => simp [geHandle, geDispatchB, geOwed, sendsOf_infoAll]
    | [a] => simp [geHandle, geDispatchB, geOwed, sendsOf_infoAll]
    | [a, b] =>
      cases a with
      | atom tag =>
        by_cases h1 : tag = Gen.GE_NOTIFY_TAG
        · subst h1
          simp [geHandle, geDispatchB, geOwed, sendsOf_notify, isAtom, Gen.GE_NOTIFY_TAG, Spec.Beh.tagWhich, Spec.Beh.tagSyncNotify]
        · by_cases h2 : tag = Gen.GE_SYNC_NOTIFY_TAG
          · subst h2
            cases frm with
            | none =>
              simp [geHandle, geDispatchB, geOwed, sendsOf_notify, isAtom, Gen.GE_NOTIFY_TAG, Gen.GE_SYNC_NOTIFY_TAG, Spec.Beh.tagWhich, Spec.Beh.tagSyncNotify]
            | some p =>
              simp [geHandle, geDispatchB, geOwed, sendsOf_notify, isAtom, Gen.GE_NOTIFY_TAG, Gen.GE_SYNC_NOTIFY_TAG, Spec.Beh.tagWhich, Spec.Beh.tagSyncNotify, sendsOf_append, shape_reply_ok]
              by_cases hr : reachB env p = true <;> simp [hr]
          · by_cases h3 : tag = Gen.GE_WHICH_TAG
            · subst h3
              have hd : geDispatchB (.tuple [.atom Gen.GE_WHICH_TAG, b]) =
                  match fromOf b with
                  | some (p, r) => .which p r
                  | none => .info (.tuple [.atom Gen.GE_WHICH_TAG, b]) := by
                rw [← from_match]
                simp [geDispatchB, Gen.GE_WHICH_TAG, Gen.GE_NOTIFY_TAG, Gen.GE_SYNC_NOTIFY_TAG, Gen.GE_CALL_TAG]
                split <;> simp_all
              simp only [geHandle, hd]
              cases hf : fromOf b with
              | none => simp [geOwed, isAtom, Gen.GE_WHICH_TAG, Spec.Beh.tagWhich, hf, sendsOf_infoAll]
              | some v =>
                obtain ⟨p, r⟩ := v
                simp only [shape_reply_tuple]
                simp [geOwed, isAtom, Gen.GE_WHICH_TAG, Spec.Beh.tagWhich, hf]
                by_cases hr : reachB env p = true <;> simp [hr]
            · have hd : geDispatchB (.tuple [.atom tag, b]) = .info (.tuple [.atom tag, b]) := by
                simp [geDispatchB, h1, h2, h3]
              have ho : geOwed ⟨.regular frm (.tuple [.atom tag, b]), reachB env⟩ = none := by
                have e1 : Gen.GE_WHICH_TAG = Spec.Beh.tagWhich := by decide
                have e2 : Gen.GE_SYNC_NOTIFY_TAG = Spec.Beh.tagSyncNotify := by decide
                simp [geOwed, isAtom, ← e1, ← e2, h2, h3]
              simp [geHandle, hd, ho, sendsOf_infoAll]
      | _ => simp [geHandle, geDispatchB, geOwed, sendsOf_infoAll, isAtom]
    | [a, b, c] =>
      have hd : geDispatchB (.tuple [a, b, c]) = .info (.tuple [a, b, c]) := by
        cases a <;> simp [geDispatchB]
      simp [geHandle, hd, geOwed, sendsOf_infoAll]
    | [a, b, c, d] =>
      cases a with
      | atom tag =>
        by_cases h1 : tag = Gen.GE_CALL_TAG
        · subst h1
          have hd : geDispatchB (.tuple [.atom Gen.GE_CALL_TAG, b, c, d]) =
              match fromOf b with
              | some (p, r) => .call p r c d
              | none => .info (.tuple [.atom Gen.GE_CALL_TAG, b, c, d]) := by
            rw [← from_match]
            simp only [geDispatchB, List.length_cons, List.length_nil]
            simp only [Gen.GE_WHICH_TAG, Gen.GE_NOTIFY_TAG, Gen.GE_SYNC_NOTIFY_TAG, Gen.GE_CALL_TAG]
            simp
            split <;> simp_all
          simp only [geHandle, hd]
          cases hf : fromOf b with
          | none => simp [geOwed, isAtom, Gen.GE_CALL_TAG, Spec.Beh.tagGenCall, hf, sendsOf_infoAll]
          | some v =>
            obtain ⟨p, r⟩ := v
            simp only [sendsOf_append, sendsOf_callHandler, List.nil_append, shape_reply_tuple]
            simp [geOwed, isAtom, Gen.GE_CALL_TAG, Spec.Beh.tagGenCall, hf]
            by_cases hr : reachB env p = true <;> simp [hr]
        · have hd : geDispatchB (.tuple [.atom tag, b, c, d]) = .info (.tuple [.atom tag, b, c, d]) := by
            simp [geDispatchB, h1]
          have ho : geOwed ⟨.regular frm (.tuple [.atom tag, b, c, d]), reachB env⟩ = none := by
            have e1 : Gen.GE_CALL_TAG = Spec.Beh.tagGenCall := by decide
            simp [geOwed, isAtom, ← e1, h1]
          simp [geHandle, hd, ho, sendsOf_infoAll]
      | _ => simp [geHandle, geDispatchB, geOwed, sendsOf_infoAll, isAtom]
    | a :: b :: c :: d :: e :: r =>
      have hd : geDispatchB (.tuple (a :: b :: c :: d :: e :: r)) = .info (.tuple (a :: b :: c :: d :: e :: r)) := by
        cases a <;> simp [geDispatchB]
      simp [geHandle, hd, geOwed, sendsOf_infoAll]
  | _ => simp [geHandle, geDispatchB, geOwed, sendsOf_infoAll]

theorem geHandle_sends (ω : Oracle) (st : GeSt) (s : GeStep) :
    (sendsOf (geHandle ω st s).2).map shape = (geOwed (toSpecEv s)).toList := by
  obtain ⟨msg, env⟩ := s
  cases msg with
  | regular f b => exact geHandle_sends_regular ω st env f b
  | control => rfl
  | exit r => simp [geHandle, sendsOf_terminateAll, toSpecEv, toSpecMsg, geOwed]
  | other => rfl

theorem geRun_sends (ω : Oracle) : ∀ (steps : List GeStep) (st : GeSt),
    (sendsOf (geRun ω st steps).2).map shape = geExpected (steps.map toSpecEv) := by
  intro steps
  induction steps with
  | nil => intro st; rfl
  | cons s rest ih =>
    intro st
    simp only [geRun, sendsOf_append, List.map_append, List.map_cons, geExpected, List.filterMap_cons]
    rw [geHandle_sends, ih]
    cases geOwed (toSpecEv s) <;> rfl

/-! ### gen_event: who is called -/

def eventCbs : List Out → List (Nat × Term)
  | [] => []
  | .cb (.event u e) :: r => (u, e) :: eventCbs r
  | _ :: r => eventCbs r

def callCbs : List Out → List (Nat × Term)
  | [] => []
  | .cb (.call u q) :: r => (u, q) :: callCbs r
  | _ :: r => callCbs r

theorem eventCbs_append (a b : List Out) : eventCbs (a ++ b) = eventCbs a ++ eventCbs b := by
  induction a with
  | nil => rfl
  | cons x t ih =>
    cases x with
    | send p m => simpa [eventCbs] using ih
    | cb c => cases c <;> simp [eventCbs, ih]

theorem eventCbs_notifyOne (ω : Oracle) (e : Entry) (ev : Term) : eventCbs (notifyOne ω e ev).2.1 = [(e.uid, ev)] := by
  unfold notifyOne
  simp only
  split
  · rfl
  · rfl
  · rfl
  · split <;> rfl

theorem eventCbs_notifyPass (ω : Oracle) (ev : Term) (hs : List Entry) :
    eventCbs (notifyPass ω ev hs).2 = hs.map fun e => (e.uid, ev) := by
  induction hs with
  | nil => rfl
  | cons e r ih => simp [notifyPass, eventCbs_append, eventCbs_notifyOne, ih]

theorem eventCbs_sweep (l : List (Entry × Bool)) : eventCbs (sweep l).2 = [] := by
  induction l with
  | nil => rfl
  | cons x r ih =>
    obtain ⟨e, b⟩ := x
    cases b <;> simp [sweep, eventCbs, ih]

theorem eventCbs_notify (ω : Oracle) (st : GeSt) (ev : Term) :
    eventCbs (notify ω st ev).2 = st.hs.map fun e => (e.uid, ev) := by
  simp [notify, eventCbs_append, eventCbs_notifyPass, eventCbs_sweep]

theorem callCbs_callHandler (ω : Oracle) (st : GeSt) (key req : Term) :
    callCbs (callHandler ω st key req).2.1 =
      match findKey key st.hs with
      | some e => [(e.uid, req)]
      | none => [] := by
  unfold callHandler
  cases hf : findKey key st.hs with
  | none => rfl
  | some e =>
    simp only
    split
    · rfl
    · rfl
    · rfl
    · split <;> rfl

end Edp.Impl.Beh
