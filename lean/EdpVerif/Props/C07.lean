import EdpVerif.Lemmas.Send
import EdpVerif.Lemmas.SendSched
/-
C07 — each send operation emits exactly one well-formed frame with the right content.
Property theorems only; helper lemmas live in EdpVerif/Lemmas/Send.lean and SendSched.lean.

Reading guide.  `sendOp c order op` is the list of writes of one `Connection` operation (Impl/Send.lean);
`Spec.Wire.readFramesFrom mode cache bytes` is what an independent receiver with atom cache `cache` reads;
`itemFor op.den` is the control tuple the protocol assigns to the operation, followed by its payload;
`OpOk op` says the arguments are values of the Rust types (UTF-8 names, 32-bit fields, `u64` id) whose preserved
node-local bytes, if any, denote the same identifier; `Reads env b v` says the bytes `b` are an encoding of `v`.
Term-level conformance of the payload encoder is C01's subject: the one-frame theorems take it as the hypothesis
`hpay` (and `C07_basic_payload_reads` discharges it for integers, atoms, identifiers and tuples of these).
-/
namespace Edp.Props.C07
open Edp Edp.Send Edp.Spec Edp.Spec.Wire
open Edp.Impl.Handshake (ConnState)

/-! ### the gate -/

/-- an operation on a connection that is not connected fails with the state error and writes nothing -/
theorem C07_gate (c : Conn) (order : List Bytes) (op : Op) (h : c.state ≠ .connected) :
    sendOp c order op = .error .invalidState ∧ wireOf (sendOp c order op) = [] := by
  simp [sendOp, h, wireOf]

example : sendOp { state := .awaitingChallengeAck, neg := some 0, stream := true } [] (.link pA pB) = .error .invalidState :=
  (C07_gate _ _ _ (by decide)).1

/-- conversely, an operation that writes anything was issued on a connected connection with a stream -/
theorem C07_writes_only_when_connected (c : Conn) (order : List Bytes) (op : Op) (ws : List Bytes)
    (h : sendOp c order op = .ok ws) : c.state = .connected ∧ c.stream = true := by
  cases hpt : usePassThrough c with
  | true => exact ⟨(sendOp_pt_shape c order op ws h hpt).1, (sendOp_pt_shape c order op ws h hpt).2.1⟩
  | false => exact ⟨(sendOp_hdr_shape c order op ws h hpt).1, (sendOp_hdr_shape c order op ws h hpt).2.1⟩

example : sendOp ptConn [] (.link pA pB) = .ok [[0,0,0,42], [112],
    [131,104,3,97,1,88,119,3,97,64,104,0,0,0,1,0,0,0,2,0,0,0,3,88,119,3,98,64,104,255,255,255,255,0,0,0,0,0,0,0,7]] := by
  rfl

/-! ### operation ↦ control tuple -/

/-- what `ControlMessage::to_term` returns for the value each operation builds denotes the control tuple the
protocol assigns to that operation (SEND {2, Unused, To}; REG_SEND {6, From, Unused, ToName}; LINK {1, From, To};
UNLINK_ID {35, Id, From, To}; MONITOR_P {19, From, ToProc, Ref}; DEMONITOR_P {20, From, ToProc, Ref}) -/
theorem C07_control_term_is_protocol_tuple (op : Op) (hok : OpOk op) :
    ∃ ct, Control.toTerm Gen.controlTable op.control = some ct ∧ ct.den = controlFor op.den :=
  ⟨controlTerm op, toTerm_control op, controlTerm_den op hok⟩

example : (controlTerm (.unlink pA pB 18446744073709551615)).den =
    .tuple [.int 35, .int 18446744073709551615, pidDen pA, pidDen pB] :=
  controlTerm_den _ ⟨pA_ok, pB_ok, by decide⟩

/-- the Spec's tuple for each operation is the entry of the protocol table (tag, number of elements, payload) -/
theorem C07_controlFor_matches_table (sop : SOp) :
    ∃ e args, Spec.findOp sop.name = some e ∧ controlFor sop = .tuple (.int e.tag :: args) ∧
      args.length = e.fields.length ∧ (payloadFor sop).isSome = e.payload.isSome := by
  cases sop
  · exact ⟨{ tag := 2, name := "SEND", fields := ["Unused", "ToPid"], payload := some "Message" }, _, by simp only [SOp.name]; decide, rfl, rfl, rfl⟩
  · exact ⟨{ tag := 6, name := "REG_SEND", fields := ["FromPid", "Unused", "ToName"], payload := some "Message" }, _, by simp only [SOp.name]; decide, rfl, rfl, rfl⟩
  · exact ⟨{ tag := 1, name := "LINK", fields := ["FromPid", "ToPid"] }, _, by simp only [SOp.name]; decide, rfl, rfl, rfl⟩
  · exact ⟨{ tag := 35, name := "UNLINK_ID", fields := ["Id", "FromPid", "ToPid"] }, _, by simp only [SOp.name]; decide, rfl, rfl, rfl⟩
  · exact ⟨{ tag := 19, name := "MONITOR_P", fields := ["FromPid", "ToProc", "Ref"] }, _, by simp only [SOp.name]; decide, rfl, rfl, rfl⟩
  · exact ⟨{ tag := 20, name := "DEMONITOR_P", fields := ["FromPid", "ToProc", "Ref"] }, _, by simp only [SOp.name]; decide, rfl, rfl, rfl⟩

example : Spec.findOp (SOp.unlinkId 1 .nil .nil).name = some { tag := 35, name := "UNLINK_ID", fields := ["Id", "FromPid", "ToPid"] } := by
  decide

/-! ### shape of the writes -/

/-- pass-through mode: the writes are, in this order, the 4-byte length, the marker 112, the versioned control term
and (for operations with a payload) the versioned payload term; the length is the number of bytes that follow it -/
theorem C07_pass_through_writes (c : Conn) (order : List Bytes) (op : Op) (ws : List Bytes)
    (h : sendOp c order op = .ok ws) (hpt : usePassThrough c = true) :
    ∃ ce, encode (controlTerm op) = .ok ce ∧
      ((op.payload = none ∧ ws = [be32 (1 + ce.length), [112], ce] ∧ 1 + ce.length < 2 ^ 32) ∨
       (∃ m me, op.payload = some m ∧ encode m = .ok me ∧ ws = [be32 (1 + ce.length + me.length), [112], ce, me] ∧
          1 + ce.length + me.length < 2 ^ 32)) := by
  obtain ⟨_, _, cb, hcb, hsh⟩ := sendOp_pt_shape c order op ws h hpt
  refine ⟨131 :: cb, by simp [encode, hcb], ?_⟩
  rcases hsh with ⟨hp, hw, hsz⟩ | ⟨m, mb, hp, hmb, hw, hsz⟩
  · exact Or.inl ⟨hp, hw, by simp [u32max] at hsz ⊢; omega⟩
  · exact Or.inr ⟨m, 131 :: mb, hp, by simp [encode, hmb], hw, by simp [u32max] at hsz ⊢; omega⟩

/-- distribution-header mode: one write, the 4-byte length followed by `encode_with_dist_header(_multi)` of the
control term and the payload -/
theorem C07_header_single_write (c : Conn) (order : List Bytes) (op : Op) (ws : List Bytes)
    (h : sendOp c order op = .ok ws) (hpt : usePassThrough c = false) :
    ∃ hb, distHeader order (controlTerm op :: op.payload.toList) = .ok hb ∧ ws = [be32 hb.length ++ hb] ∧
      hb.length < 2 ^ 32 := by
  obtain ⟨_, _, hb, hd, hw, hsz⟩ := sendOp_hdr_shape c order op ws h hpt
  exact ⟨hb, hd, hw, by simp [u32max] at hsz ⊢; omega⟩

/-- in either mode the bytes of a successful operation are one length-prefixed body: the prefix is the exact
length of everything that follows, and it fits 32 bits -/
theorem C07_length_prefix_exact (c : Conn) (order : List Bytes) (op : Op) (ws : List Bytes)
    (h : sendOp c order op = .ok ws) :
    ∃ body, ws.flatten = be32 body.length ++ body ∧ body ≠ [] ∧ body.length < 2 ^ 32 := by
  cases hpt : usePassThrough c with
  | true =>
    obtain ⟨_, _, cb, _, hsh⟩ := sendOp_pt_shape c order op ws h hpt
    rcases hsh with ⟨_, rfl, hsz⟩ | ⟨m, mb, _, _, rfl, hsz⟩
    · exact ⟨112 :: 131 :: cb, by simp; congr 1; omega, by simp, by simp [u32max] at hsz ⊢; omega⟩
    · exact ⟨112 :: (131 :: cb ++ 131 :: mb), by simp; congr 1; omega, by simp, by simp [u32max] at hsz ⊢; omega⟩
  | false =>
    obtain ⟨_, _, hb, hd, rfl, hsz⟩ := sendOp_hdr_shape c order op ws h hpt
    refine ⟨hb, by simp, ?_, by simp [u32max] at hsz ⊢; omega⟩
    intro hc; subst hc
    unfold distHeader at hd
    simp only at hd
    split at hd
    · simp at hd
    · split at hd
      · split at hd <;> simp at hd
      · split at hd
        · simp at hd
        · split at hd
          · simp at hd
          · split at hd <;> simp at hd

/-- a frame that does not fit the 32-bit length prefix is refused before anything is written (pass-through mode,
operation with a payload; the other three sites have the same check) -/
theorem C07_oversized_frame_refused (c : Conn) (order : List Bytes) (op : Op) (m : Term) (ce me : Bytes)
    (hc : c.state = .connected) (hpt : usePassThrough c = true) (hp : op.payload = some m)
    (h1 : encode (controlTerm op) = .ok ce) (h2 : encode m = .ok me) (hbig : 1 + ce.length + me.length ≥ 2 ^ 32) :
    sendOp c order op = .error .tooLarge := by
  have : 1 + ce.length + me.length > u32max := by simp [u32max]; omega
  simp [sendOp, hc, sendControlMessage, toTerm_control, hpt, h1, hp, h2, this]

/-! ### one operation = one frame, read by an independent reader -/

/-- pass-through mode: the bytes of a successful operation, followed by any further bytes, are read as the frame the
protocol assigns to the operation and then whatever the further bytes are; in particular the operation's bytes
alone are exactly that one frame -/
theorem C07_one_frame_pass_through (c : Conn) (order : List Bytes) (op : Op) (ws : List Bytes)
    (h : sendOp c order op = .ok ws) (hpt : usePassThrough c = true) (hok : OpOk op)
    (hpay : ∀ m b, op.payload = some m → enc [] m = .ok b → Reads {} b m.den) (cache : Cache) (rest : Bytes) :
    readFramesFrom .passThrough cache (ws.flatten ++ rest) =
        (readFramesFrom .passThrough cache rest).map (itemFor op.den :: ·) ∧
      readFrames .passThrough ws.flatten = some [itemFor op.den] := by
  obtain ⟨body, hflat, hlen, hne, hrb⟩ := pt_frame c order op ws h hpt hok hpay
  constructor
  · rw [hflat]
    exact readFrames_cons .passThrough cache body rest hlen hne _ cache (hrb cache)
  · have := readFrames_cons .passThrough [] body [] hlen hne _ [] (hrb [])
    rw [readFrames_nil] at this
    rw [readFrames, hflat]
    simpa using this

/-- distribution-header mode: the same, for every order in which the encoder's hash set enumerated the atoms and
whatever the receiver's atom cache holds (every reference of the header is a new entry) -/
theorem C07_one_frame_dist_header (c : Conn) (order : List Bytes) (op : Op) (ws : List Bytes)
    (h : sendOp c order op = .ok ws) (hpt : usePassThrough c = false) (hok : OpOk op)
    (hatoms : ∀ m, op.payload = some m → ∀ a ∈ collectAtoms m, validUtf8 a = true)
    (hpay : ∀ env m b, EnvFor order env → op.payload = some m → enc order m = .ok b → Reads env b m.den)
    (cache : Cache) (rest : Bytes) :
    (∃ cache', readFramesFrom .distHeader cache (ws.flatten ++ rest) =
        (readFramesFrom .distHeader cache' rest).map (itemFor op.den :: ·)) ∧
      readFramesFrom .distHeader cache ws.flatten = some [itemFor op.den] := by
  obtain ⟨body, hflat, hlen, hne, hrb⟩ := hdr_frame c order op ws h hpt hok hatoms hpay
  obtain ⟨cache', hc'⟩ := hrb cache
  constructor
  · refine ⟨cache', ?_⟩
    rw [hflat]
    exact readFrames_cons .distHeader cache body rest hlen hne _ cache' hc'
  · have := readFrames_cons .distHeader cache body [] hlen hne _ cache' hc'
    rw [readFrames_nil] at this
    rw [hflat]
    simpa using this

/-- link, unlink, monitor and demonitor (no payload): exactly one frame with the protocol's control tuple, in
whichever mode was negotiated, with no hypothesis beyond the argument types -/
theorem C07_one_frame_control_only (c : Conn) (order : List Bytes) (op : Op) (ws : List Bytes)
    (h : sendOp c order op = .ok ws) (hok : OpOk op) (hp : op.payload = none) (cache : Cache) :
    readFramesFrom (if usePassThrough c then .passThrough else .distHeader) cache ws.flatten =
      some [.msg (controlFor op.den) none] := by
  have hit : itemFor op.den = .msg (controlFor op.den) none := by simp [itemFor, payloadFor_den, hp]
  cases hpt : usePassThrough c with
  | true =>
    have := (C07_one_frame_pass_through c order op ws h hpt hok (fun m b hm => by rw [hp] at hm; cases hm) cache []).1
    simp only [List.append_nil, readFrames_nil] at this
    simpa [hit] using this
  | false =>
    have := (C07_one_frame_dist_header c order op ws h hpt hok (fun m hm => by rw [hp] at hm; cases hm)
      (fun env m b _ hm => by rw [hp] at hm; cases hm) cache []).2
    simpa [hit] using this

example : readFrames .passThrough (wireOf (sendOp ptConn [] (.monitor pA pB rA))) =
    some [.msg (.tuple [.int 19, pidDen pA, pidDen pB, rA.term.den]) none] := by
  obtain ⟨ws, h⟩ : ∃ ws, sendOp ptConn [] (.monitor pA pB rA) = .ok ws := ⟨_, rfl⟩
  rw [h]
  exact C07_one_frame_control_only ptConn [] _ _ h ⟨pA_ok, pB_ok, rA_ok⟩ rfl []

/-- unlink ids over the whole 64-bit range reach the wire unchanged: the reader finds the integer `id` itself as the
second element of the UNLINK_ID tuple, below and above 2^63 alike -/
theorem C07_unlink_id_unchanged (c : Conn) (order : List Bytes) (frm to : PidF) (id : Nat) (ws : List Bytes)
    (h : sendOp c order (.unlink frm to id) = .ok ws) (hf : PidOk frm) (ht : PidOk to) (hid : id < 2 ^ 64) (cache : Cache) :
    readFramesFrom (if usePassThrough c then .passThrough else .distHeader) cache ws.flatten =
      some [.msg (.tuple [.int 35, .int id, pidDen frm, pidDen to]) none] :=
  C07_one_frame_control_only c order _ ws h ⟨hf, ht, hid⟩ rfl cache

example : ∃ ws, sendOp ptConn [] (.unlink pA pB 9223372036854775808) = .ok ws := ⟨_, rfl⟩

/-- identifiers in node-local form (LOCAL_EXT bytes preserved by the decoder): the operation writes the preserved
bytes verbatim, and when these are an 8-byte hash followed by the plain encoding of the same pid, the peer reads the
frame with that pid in it -/
theorem C07_node_local_pid_on_the_wire (c : Conn) (order : List Bytes) (frm to : PidF) (hash inner : Bytes) (ws : List Bytes)
    (h : sendOp c order (.link frm to) = .ok ws) (hf : PidOk frm)
    (hh : hash.length = 8) (hu : validUtf8 to.node = true)
    (h1 : to.id < 4294967296) (h2 : to.serial < 4294967296) (h3 : to.creation < 4294967296)
    (hi : encPid [] { to with loc := none } = .ok inner) (hl : to.loc = some (hash ++ inner)) (cache : Cache) :
    readFramesFrom (if usePassThrough c then .passThrough else .distHeader) cache ws.flatten =
      some [.msg (.tuple [.int 1, pidDen frm, pidDen to]) none] :=
  C07_one_frame_control_only c order _ ws h ⟨hf, pidOk_local to hash inner hh hu h1 h2 h3 hi hl⟩ rfl cache

example : ∃ ws, sendOp hdrConn [[98, 64, 104], [97, 64, 104]]
    (.link pA { pB with loc := some ([1,2,3,4,5,6,7,8] ++ [88,119,3,98,64,104,255,255,255,255,0,0,0,0,0,0,0,7]) }) = .ok ws :=
  ⟨_, rfl⟩

/-- the id a node chooses for a remote unlink (`reference_counter.fetch_add(1) as u64 + 1`) is one the protocol
allows: positive and below 2^64 -/
theorem C07_node_unlink_id_valid (counter : Nat) (h : counter < 2 ^ 32) (frm to : Value) :
    (SOp.unlinkId (nodeUnlinkId counter) frm to).valid = true := by
  simp [SOp.valid, nodeUnlinkId]; omega

example : nodeUnlinkId 0 = 1 := rfl

/-- the payload hypothesis of the one-frame theorems holds for integers, big integers, finite floats, atoms, binaries,
strings, pids, references, nil, and lists and tuples of these, with and without a distribution header (the general
statement is C01's) -/
theorem C07_basic_payload_reads (cache : List Bytes) (env : Env) (he : EnvFor cache env) (m : Term) (hm : Basic m)
    (b : Bytes) (h : enc cache m = .ok b) : Reads env b m.den :=
  reads_basic he m hm b h

example : Basic (.tuple [.int 1, .atom [111, 107], .pid pA, .list [.bin [1, 2], .big true [1, 2, 3]]]) :=
  .tuple _ (by decide) (by
    intro t ht
    simp only [List.mem_cons, List.not_mem_nil, or_false] at ht
    rcases ht with rfl | rfl | rfl | rfl
    · exact .int 1 (by omega)
    · exact .atom _ (by decide)
    · exact .pid _ pA_ok
    · refine .list _ ?_
      intro t ht
      simp only [List.mem_cons, List.not_mem_nil, or_false] at ht
      rcases ht with rfl | rfl
      · exact .bin _
      · exact .big _ _ (by decide))

/-- a send of such a payload is exactly one SEND frame followed by that payload, in pass-through mode -/
theorem C07_send_basic_payload (c : Conn) (order : List Bytes) (frm to : PidF) (m : Term) (ws : List Bytes)
    (h : sendOp c order (.send frm to m) = .ok ws) (hpt : usePassThrough c = true) (ht : PidOk to) (hm : Basic m) :
    readFrames .passThrough ws.flatten = some [.msg (.tuple [.int 2, .atom [], pidDen to]) (some m.den)] := by
  have := (C07_one_frame_pass_through c order _ ws h hpt (show OpOk (.send frm to m) from ht)
    (fun m' b hm' hb => by
      have : m' = m := by simp [Op.payload] at hm'; exact hm'.symm
      subst this
      exact reads_basic envFor_nil m' hm b hb) [] []).2
  simpa [itemFor, Op.den, controlFor, payloadFor, unused] using this

/-! ### concurrent senders through one connection -/

/-- mutual exclusion: under every schedule, a task that is between the first and the last write of an operation
holds the connection lock -/
theorem C07_mutual_exclusion (prog : Nat → List (List Bytes)) (σ : List Nat) (u : Nat)
    (h : ((run prog St.init σ).ts u).rem.isSome = true) : (run prog St.init σ).lock = some u :=
  (inv_run prog σ St.init (inv_init prog)).excl u h

/-- frames never interleave: under every schedule, whenever no operation is in progress the bytes on the wire are
the concatenation of the whole frames of the operations in the order in which the lock was acquired for them -/
theorem C07_wire_is_whole_frames_in_lock_order (prog : Nat → List (List Bytes)) (σ : List Nat)
    (h : (run prog St.init σ).lock = none) :
    (run prog St.init σ).wire = ((run prog St.init σ).acq.map (frameOf prog)).flatten :=
  (inv_run prog σ St.init (inv_init prog)).free h

/-- and at every instant: whole frames of all but the last acquisition, then a prefix of the frame of the operation
in progress (the writes its holder has performed so far) -/
theorem C07_only_the_holders_frame_is_partial (prog : Nat → List (List Bytes)) (σ : List Nat) (t : Nat)
    (h : (run prog St.init σ).lock = some t) :
    ∃ done op pre post, (run prog St.init σ).acq = done ++ [(t, op)] ∧
      frameOf prog (t, op) = pre ++ post ∧
      (run prog St.init σ).wire = (done.map (frameOf prog)).flatten ++ pre := by
  obtain ⟨acq', pre, rem, full, hacq, _, hfull, hsplit, hwire⟩ := (inv_run prog σ St.init (inv_init prog)).held t h
  refine ⟨acq', _, pre.flatten, rem.flatten, hacq, ?_, hwire⟩
  simp [frameOf, hfull, hsplit]

/-- each caller's operations reach the wire in the order it issued them: the operations of task `u` in the
acquisition order are its operations number 0, 1, 2, … without gaps or repetitions -/
theorem C07_each_task_in_issue_order (prog : Nat → List (List Bytes)) (σ : List Nat) (u : Nat) :
    (((run prog St.init σ).acq.filter (fun p => p.1 = u)).map (·.2)) = List.range (started (run prog St.init σ) u) :=
  (inv_run prog σ St.init (inv_init prog)).order u

/-- every frame on the wire belongs to an operation some task issued -/
theorem C07_acquired_operations_exist (prog : Nat → List (List Bytes)) (σ : List Nat) (p : Nat × Nat)
    (h : p ∈ (run prog St.init σ).acq) : ((prog p.1)[p.2]?).isSome = true :=
  (inv_run prog σ St.init (inv_init prog)).valid p h

example : (run (fun t => if t < 2 then [[[1], [2]], [[3]]] else []) St.init [0, 1, 0, 1, 0, 0, 1, 1, 1, 0, 1, 1, 0, 1, 1, 0, 0, 0]).wire = [1, 2, 1, 2, 3, 3]
    ∧ (run (fun t => if t < 2 then [[[1], [2]], [[3]]] else []) St.init [0, 1, 0, 1, 0, 0, 1, 1, 1, 0, 1, 1, 0, 1, 1, 0, 0, 0]).acq = [(0, 0), (1, 0), (1, 1), (0, 1)] := by
  decide

/-- k tasks issue operations through one node (pass-through framing, what `Node::connect` negotiates): for every
schedule, when no operation is in progress the peer reads exactly the frames the protocol assigns to the operations,
whole, in lock-acquisition order -/
theorem C07_concurrent_senders_read_whole_frames (c : Conn) (hpt : usePassThrough c = true) (ops : Nat → List Op)
    (hall : ∀ t op, op ∈ ops t → (∃ ws, sendOp c [] op = .ok ws) ∧ OpOk op ∧
      ∀ m b, op.payload = some m → enc [] m = .ok b → Reads {} b m.den)
    (σ : List Nat) :
    let prog := fun t => (ops t).map (fun op => writesOf (sendOp c [] op))
    let st := run prog St.init σ
    st.lock = none →
      readFrames .passThrough st.wire =
        some (st.acq.map (fun p => match (ops p.1)[p.2]? with | some op => itemFor op.den | none => .tick)) := by
  intro prog st hq
  have hinv := inv_run prog σ St.init (inv_init prog)
  rw [readFrames, hinv.free hq]
  apply readFrames_flat prog
  intro p hp
  have hv := hinv.valid p hp
  have hget : (prog p.1)[p.2]? = ((ops p.1)[p.2]?).map (fun op => writesOf (sendOp c [] op)) := by
    simp [prog]
  cases hop : (ops p.1)[p.2]? with
  | none => simp [hget, hop] at hv
  | some op =>
    have hmem : op ∈ ops p.1 := List.mem_of_getElem? hop
    obtain ⟨⟨ws, hws⟩, hok, hpay⟩ := hall p.1 op hmem
    obtain ⟨body, hflat, hlen, hne, hrb⟩ := pt_frame c [] op ws hws hpt hok hpay
    refine ⟨body, ?_, hlen, hne, ?_⟩
    · simp [frameOf, hget, hop, hws, writesOf, hflat]
    · intro cache; simpa using hrb cache

end Edp.Props.C07
