import EdpVerif.Drv.Etf
import EdpVerif.Spec.Handshake
import EdpVerif.Spec.Epmd
import EdpVerif.Impl.Epmd
import EdpVerif.Impl.Connect
import EdpVerif.Drv.C04
namespace Edp.Drv
open Edp

namespace C04Net
open Edp.Impl

/-- `rep<n>`: the byte 'n' repeated (long names), else hex -/
def getRep (s : String) : Except String Bytes :=
  if s.startsWith "rep" then
    match (s.drop 3).toNat? with
    | some n => .ok (List.replicate n 110)
    | none => .error "bad-rep"
  else getHex s

def getRepWith (b : UInt8) (s : String) : Except String Bytes :=
  if s.startsWith "rep" then
    match (s.drop 3).toNat? with
    | some n => .ok (List.replicate n b)
    | none => .error "bad-rep"
  else getHex s

def fnv (bs : Bytes) : Nat := bs.foldl (fun h b => ((h ^^^ b.toNat) * 16777619) % 4294967296) 2166136261

def reqText (bs : Bytes) : String :=
  if bs.length > 600 then s!"len{bs.length}fnv{fnv bs}" else (if bs.isEmpty then "-" else hexOf bs)

def hexArg (bs : Bytes) : String := if bs.isEmpty then "-" else hexOf bs

def epmdErr : Epmd.Err → String
  | .notFound => "notfound"
  | .badType b => s!"badtype-{b}"
  | .badProto b => s!"badproto-{b}"
  | .nameLong n => s!"namelong-{n}"
  | .badUtf8 => "badutf8"
  | .extraLong n => s!"extralong-{n}"
  | .badResp b => s!"badresp-{b}"
  | .regErr c => s!"regerr-{c}"
  | .eof => "eof"
  | .timeout => "timeout"
  | .noEpmd => "noepmd"

def infoText (i : Epmd.NodeInfo) : String :=
  s!"ok {i.port} {i.type} {i.proto} {i.hi} {i.lo} {hexArg i.name} {hexArg i.extra}"

def getStream (reply close : String) : Except String Epmd.Stream := do
  pure ⟨← getHex reply, close == "close"⟩

def getEv (s : String) : Except String Connect.PeerEv :=
  if s == "close" then .ok .close
  else if s == "silent" then .ok .silent
  else if s.startsWith "f" then do pure (.frame (← getHex (s.drop 1).toString))
  else .error "bad-ev"

def cerrText : Connect.CErr → String
  | .hs e => "err-" ++ C04.errName e
  | .nodeName => "err-e-nodename"
  | .epmd .eof => "err-io"            -- `Error::Io` whoever reported it
  | .epmd .timeout => "err-timeout"   -- `Error::Timeout`
  | .epmd e => "err-epmd-" ++ epmdErr e
  | .io => "err-io"
  | .timeout => "err-timeout"
  | .panic => "panic"
  | .unmodelled => "unmodelled"

end C04Net
open C04Net

/-- socket-level C04 oracles: what the scripted peer received, judged by the handshake Spec (layouts; the reply digest
recomputed with the MD5 implemented in Lean) -/
def handleC04Net : List String → Option String
  -- `c04netname <send_name bytes without the 2-byte length> <expected node name>`
  | ["c04netname", m, n] => some <| run do
    let m ← getHex m
    let n ← getHex n
    match Spec.Handshake.parseSendNameOld (be16 m.length ++ m) with
    | some (_, name) => pure (if name == n && 1 ≤ name.length && name.length ≤ 255 then "ok" else "FAIL name " ++ hexOf name)
    | none =>
      -- new format: 'N' flags:u64 creation:u32 nlen:u16 name
      match m with
      | 78 :: r =>
        if r.length ≥ 14 && r.drop 14 == n && (rdN 2 (r.drop 12)).map (·.1) == some n.length then pure "ok" else pure "FAIL new-format layout"
      | _ => pure "FAIL not a send_name"
  -- `c04netreply <reply bytes> <cookie> <peer challenge>`: 'r' challenge:u32 digest = MD5(cookie ++ decimal(peer challenge))
  | ["c04netreply", m, c, ch] => some <| run do
    let m ← getHex m
    let c ← getHex c
    match Spec.Handshake.parseReply (be16 m.length ++ m) with
    | some (_, d) => pure (if d == Spec.Handshake.digest c ch.toNat! then "ok" else "FAIL digest " ++ hexOf d)
    | none => pure "FAIL not a reply"
  -- `c04epmd_lookup <name> <reply> <close|open>`: the real `lookup_node` against a scripted EPMD
  | ["c04epmd_lookup", n, reply, cl] => some <| run do
    let name ← getRep n
    let st ← getStream reply cl
    match Impl.Epmd.lookupReq name with
    | .panic => pure "req=- panic"
    | .ok rq =>
      match (Impl.Epmd.lookupParse st).2 with
      | .ok i => pure s!"req={reqText rq} {infoText i}"
      | .error e => pure s!"req={reqText rq} err {epmdErr e}"
  | ["c04epmd_register", port, n, ty, hi, lo, extra, reply, cl] => some <| run do
    let name ← getRep n
    let ex ← getRepWith 5 extra
    let st ← getStream reply cl
    let rq := Impl.Epmd.registerReq port.toNat! ty.toNat! hi.toNat! lo.toNat! name ex
    match Impl.Epmd.registerParse st with
    | .ok c => pure s!"req={reqText rq} ok {c}"
    | .error e => pure s!"req={reqText rq} err {epmdErr e}"
  | ["c04epmd_absent"] => some ("err " ++ epmdErr .noEpmd)
  -- the Spec on the observed result of a lookup: `ok` only for a reply that starts with a well-formed PORT2_RESP whose
  -- fields are the reported ones (and within the client's documented limits); never a hang or a panic; a timeout only
  -- when EPMD stayed silent, an end-of-stream error only when it closed
  | ["c04p_epmd_lookup", reply, cl, res] => some <| run do
    let bs ← getHex reply
    let words := res.splitOn ","
    match words with
    | ["hang"] => pure "FAIL no result within the configured timeout"
    | ["panic"] => pure "FAIL panic"
    | "ok" :: rest =>
      match Spec.Epmd.readPort2Resp bs with
      | none => pure "FAIL accepted a reply that is not a PORT2_RESP"
      | some (i, _) =>
        let want := [toString i.port, toString i.type, toString i.proto, toString i.hi, toString i.lo, hexArg i.name, hexArg i.extra]
        if want != rest then pure ("FAIL fields " ++ " ".intercalate want)
        else if i.name.length > 255 then pure "FAIL a node name of more than 255 bytes accepted"
        else if ¬ Spec.Epmd.nodeTypes.contains i.type then pure "FAIL node type"
        else if i.proto != Spec.Epmd.protoTcp then pure "FAIL protocol"
        else pure "ok"
    | ["err", "timeout"] => pure (if cl == "open" then "ok" else "FAIL timeout although EPMD closed")
    | ["err", "eof"] => pure (if cl == "close" then "ok" else "FAIL eof although EPMD is silent")
    | ["err", _] =>
      -- a refusal of a complete, well-formed reply must have a reason the protocol or the documented limits give
      match Spec.Epmd.readPort2Resp bs with
      | some (i, _) =>
        if Spec.Epmd.nodeTypes.contains i.type && i.proto == Spec.Epmd.protoTcp && i.name.length ≤ 255 && i.extra.length ≤ 4096
            && validUtf8 i.name then pure "FAIL well-formed reply refused" else pure "ok"
      | none => pure "ok"
    | _ => pure "FAIL unknown result"
  -- `c04connect <local> <remote> <cookie> <flags> <epmd reply> <close|open> <listen|refuse> <status ev> <challenge ev> <ack ev> <our challenge> <creation>`
  | ["c04connect", l, r, c, f, reply, cl, tcp, e1, e2, e3, our, cr] => some <| run do
    let lb ← getHex l
    let cb ← getHex c
    let rb ← getHex r
    let es ← getStream reply cl
    let ev1 ← getEv e1
    let ev2 ← getEv e2
    let ev3 ← getEv e3
    let fl ← C04.getNat f
    let crn ← C04.getNat cr
    let ourn ← C04.getNat our
    let cfg : Impl.Handshake.Cfg := ⟨lb, cb, fl, crn⟩
    let env : Impl.Connect.Env := ⟨rb, true, es, (if tcp == "listen" then .ok else .refused), ev1, ev2, ev3, ourn, .ok, .ok, .ok⟩
    let (a, res) := Impl.Connect.connect cfg Spec.Handshake.digest Impl.Handshake.State.init env
    let rt := match res with
      | .ok _ => "ok"
      | .error e => cerrText e
    pure s!"{rt} {C04.stateName a.st.state} neg={C04.negText a.st.neg} w={hexArg a.w.flatten}"
  -- the property on one observed `connect`, by the Spec alone: connected iff the peer sent an accepting status, a well-formed
  -- challenge and the digest of (cookie, the challenge in this side's reply); the bytes written are the Spec layouts in the
  -- protocol's order; the negotiated set is the intersection; never a hang
  | ["c04p_connect", l, c, f, e1, e2, e3, our, res, state, rest, remote, envw] => some <| run do
    let rname ← getHex remote
    -- a remote node name as the protocol has it: name@host, 1..255 name bytes, a host
    let atPos := rname.findIdx (· == 64)
    let remoteValid := atPos < rname.length && 1 ≤ atPos && atPos ≤ 255 && atPos + 1 < rname.length
    let envOk := envw == "envok" && remoteValid
    let name ← getHex l
    let cookie ← getHex c
    let flags := f.toNat!
    let ev1 ← getEv e1
    let ev2 ← getEv e2
    let ev3 ← if e3 == "good" then pure Impl.Connect.PeerEv.silent else getEv e3
    let (negT, wT) := match rest.splitOn "," with
      | [a, b] => (a, b)
      | _ => ("-", "-")
    let w ← getHex wT
    if res == "hang" then pure "FAIL no result within the configured timeout" else
    if res == "panic" then pure "FAIL panic" else
    let st := match ev1 with
      | .frame b => (Spec.Handshake.parseStatus b).map (·.accepts) == some true
      | _ => false
    let ch := match ev2 with
      | .frame b => Spec.Handshake.parseChallenge b
      | _ => none
    let ak := e3 == "good" || match ev3 with
      | .frame b => Spec.Handshake.parseAck b == some (Spec.Handshake.digest cookie our.toNat!)
      | _ => false
    let should := st && ch.isSome && ak && name.length ≤ 255
    let is := state == "connected"
    if is != (res == "ok") then pure "FAIL result and state disagree" else
    if is && !should then pure "FAIL connected without proof" else
    if !is && should && envOk then pure "FAIL a conforming peer behind a conforming EPMD is rejected" else
    -- negotiated flags
    let negOk : Bool := match ch with
      | some m => if is then negT == toString (m.flags &&& flags) else true
      | none => true
    if !negOk then pure "FAIL negotiated flags are not the intersection" else
    -- what was written: a prefix of [send_name, complement, reply] in this order, each the Spec layout
    let nameMsg := Spec.Handshake.sendNameOld flags name
    let strip := fun (pre bs : Bytes) => if bs.take pre.length == pre then some (bs.drop pre.length) else none
    if w.isEmpty then pure "ok" else
    match strip nameMsg w with
    | none => pure "FAIL first message is not the send_name layout"
    | some r1 =>
      if r1.isEmpty then pure "ok" else
      if r1.take 3 != [0, 9, 99] || (r1.drop 3).take 4 != be32 (flags / 4294967296) then pure "FAIL complement layout" else
      let r2 := r1.drop 11
      if r2.isEmpty then pure "ok" else
      match ch with
      | none => pure "FAIL a reply without a challenge"
      | some m =>
        if r2 == Spec.Handshake.reply our.toNat! (Spec.Handshake.digest cookie m.challenge) then pure "ok"
        else pure "FAIL reply is not the digest of the cookie and the peer's challenge"
  | _ => none

end Edp.Drv
