import EdpVerif.Impl.CmpArms
import EdpVerif.Lemmas.CmpSwap
import EdpVerif.Lemmas.CmpArmsEq
/-!
The arm-by-arm model of `impl Ord for OwnedTerm` (`cmpO`, Impl/CmpArms.lean: lazily walked cons cells, loops with fuel, fast
path) computes `Term.cmp = cmpN ∘ norm` (Impl/Cmp.lean: list tails followed eagerly), the function all order laws and the
agreement with Erlang's order are proved about — for every pair of terms, given enough fuel.
-/
open Edp Edp.Term
namespace Edp

/-! ### skipping improper lists without elements -/

theorem norm_skipEmptyO (t : Term) : norm (skipEmptyO t) = norm t := by
  fun_induction skipEmptyO t with
  | case1 t ih => rw [ih]; simp [norm, normL]
  | case2 t h => rfl

theorem tsz_skipEmptyO (t : Term) : tsz (skipEmptyO t) ≤ tsz t := by
  fun_induction skipEmptyO t with
  | case1 t ih => simp only [tsz, tszL]; omega
  | case2 t h => exact Nat.le_refl _

/-- the result of the skip is not an improper list without elements -/
def notEmptyIl : Term → Bool
  | .ilist [] _ => false
  | _ => true

theorem notEmptyIl_skipEmptyO (t : Term) : notEmptyIl (skipEmptyO t) = true := by
  fun_induction skipEmptyO t with
  | case1 t ih => exact ih
  | case2 t h =>
    cases t <;> first | rfl | (rename_i l t'; cases l <;> first | rfl | exact absurd rfl (h _))

theorem rank_eq_rankO (t : Term) : rank t = rankO t := by cases t <;> rfl

theorem bitParts_eq_bitPartsO (t : Term) : bitParts t = bitPartsO t := by cases t <;> rfl

theorem normL_length : ∀ (l : List Term), (normL l).length = l.length
  | [] => rfl
  | _ :: r => by simp [normL, normL_length r]

theorem normKV_length : ∀ (l : List (Term × Term)), (normKV l).length = l.length
  | [] => rfl
  | (_, _) :: r => by simp [normKV, normKV_length r]

theorem normL_append : ∀ (a b : List Term), normL (a ++ b) = normL a ++ normL b
  | [], b => by simp [normL]
  | x :: a, b => by simp [normL, normL_append a b]

theorem normL_eq_nil : ∀ (l : List Term), normL l = [] ↔ l = []
  | [] => by simp [normL]
  | _ :: _ => by simp [normL]

theorem tszL_append : ∀ (a b : List Term), tszL (a ++ b) = tszL a + tszL b
  | [], b => by simp [tszL]
  | x :: a, b => by simp [tszL, tszL_append a b]; omega

/-! ### cons cells -/

/-- all cons cells of a term and its final tail (`none` = nil); a term that is not a list has no cell and is its own tail -/
def flat : Term → List Term × Option Term
  | .nil => ([], none)
  | .list l => (l, none)
  | .ilist l t => (l ++ (flat t).1, (flat t).2)
  | t => ([], some t)

/-- the cells a `ListCells` state still has to hand out, and the final tail -/
def flatSt (e : List Term) (t : Option Term) : List Term × Option Term :=
  match t with
  | none => (e, none)
  | some t => (e ++ (flat t).1, (flat t).2)

/-- the final tail is never a list -/
theorem flat_tail_nonlist (t : Term) : ∀ u, (flat t).2 = some u → isListLike u = false := by
  fun_induction flat t with
  | case1 => intro u h; simp at h
  | case2 l => intro u h; simp at h
  | case3 l t ih => intro u h; exact ih u h
  | case4 t h1 h2 h3 =>
    intro u h
    simp only [Option.some.injEq] at h
    subst h
    cases t <;> simp_all [isListLike]

def otsz : Option Term → Nat
  | none => 0
  | some t => tsz t

theorem flat_size (t : Term) : tszL (flat t).1 + otsz (flat t).2 ≤ tsz t := by
  fun_induction flat t with
  | case1 => simp [tszL, otsz]
  | case2 l => simp [otsz, tsz]
  | case3 l t ih => simp only [tszL_append, tsz]; omega
  | case4 t h1 h2 h3 => simp [tszL, otsz]

theorem flat_other (t : Term) (h1 : ∀ l, t ≠ .list l) (h2 : ∀ l u, t ≠ .ilist l u) (h3 : t ≠ .nil) :
    flat t = ([], some t) := by
  cases t <;> first | rfl | exact absurd rfl (h1 _) | exact absurd rfl (h2 _ _) | exact absurd rfl h3

theorem tailNextO_spec (t : Term) :
    (∀ x r, (flat t).1 = x :: r → ∃ e' t', tailNextO t = (some x, e', t') ∧ flatSt e' t' = (r, (flat t).2)) ∧
    ((flat t).1 = [] → ∃ e', tailNextO t = (none, e', (flat t).2)) := by
  fun_induction tailNextO t with
  | case1 x r =>
    refine ⟨?_, ?_⟩
    · intro x' r' h
      simp only [flat, List.cons.injEq] at h
      obtain ⟨rfl, rfl⟩ := h
      exact ⟨r, none, rfl, rfl⟩
    · intro h; simp [flat] at h
  | case2 => exact ⟨fun x r h => by simp [flat] at h, fun _ => ⟨[], rfl⟩⟩
  | case3 x r t =>
    refine ⟨?_, ?_⟩
    · intro x' r' h
      simp only [flat, List.cons_append, List.cons.injEq] at h
      obtain ⟨rfl, rfl⟩ := h
      exact ⟨r, some t, rfl, rfl⟩
    · intro h; simp [flat] at h
  | case4 t ih => simpa only [flat, List.nil_append] using ih
  | case5 => exact ⟨fun x r h => by simp [flat] at h, fun _ => ⟨[], rfl⟩⟩
  | case6 t h1 h2 h3 h4 h5 =>
    have hf : flat t = ([], some t) := by
      apply flat_other
      · intro l; cases l with
        | nil => exact h2
        | cons x r => exact h1 x r
      · intro l u; cases l with
        | nil => exact h4 u
        | cons x r => exact h3 x r u
      · exact h5
    rw [hf]
    exact ⟨fun x r h => by simp at h, fun _ => ⟨[], rfl⟩⟩

theorem nextO_spec (e : List Term) (t : Option Term) :
    (∀ x r, (flatSt e t).1 = x :: r → ∃ e' t', nextO e t = (some x, e', t') ∧ flatSt e' t' = (r, (flatSt e t).2)) ∧
    ((flatSt e t).1 = [] → ∃ e', nextO e t = (none, e', (flatSt e t).2)) := by
  cases e with
  | cons y r0 =>
    constructor
    · intro x r h
      cases t with
      | none =>
        simp only [flatSt, List.cons.injEq] at h
        obtain ⟨rfl, rfl⟩ := h
        exact ⟨r0, none, rfl, rfl⟩
      | some t =>
        simp only [flatSt, List.cons_append, List.cons.injEq] at h
        obtain ⟨rfl, rfl⟩ := h
        exact ⟨r0, some t, rfl, rfl⟩
    · intro h
      cases t <;> simp [flatSt] at h
  | nil =>
    cases t with
    | none => exact ⟨fun x r h => by simp [flatSt] at h, fun _ => ⟨[], rfl⟩⟩
    | some t => simpa only [flatSt, nextO, List.nil_append] using tailNextO_spec t

/-! ### `norm` in terms of the cells -/

/-- the normal form with the given cells and final tail -/
def mkN : List Term → Option Term → Term
  | [], none => .nil
  | x :: l, none => .list (x :: l)
  | [], some t => t
  | x :: l, some t => .ilist (x :: l) t

theorem norm_nonlist (t : Term) (h : isListLike t = false) : isListLike (norm t) = false := by
  cases t <;> simp_all [norm, isListLike]

theorem rank_norm_nonlist (t : Term) (h : isListLike t = false) : rank (norm t) = rank t := by
  cases t <;> simp_all [norm, isListLike, rank]

theorem norm_ilist_nonlist (x : Term) (l : List Term) : ∀ (u : Term), isListLike u = false →
    (match x :: l, u with
      | [], t' => t'
      | l', .nil => .list l'
      | l', .list l2 => .list (l' ++ l2)
      | l', .ilist l2 t2 => .ilist (l' ++ l2) t2
      | l', t' => .ilist l' t') = Term.ilist (x :: l) u := by
  intro u h
  cases u <;> simp [isListLike] at h ⊢

theorem norm_eq_mkN (t : Term) : norm t = mkN (normL (flat t).1) ((flat t).2.map norm) := by
  fun_induction flat t with
  | case1 => simp [norm, mkN, normL]
  | case2 l =>
    simp only [norm, Option.map_none]
    cases normL l <;> simp [mkN]
  | case3 l t ih =>
    have hnl := flat_tail_nonlist t
    rw [norm, ih, normL_append]
    cases hL : normL l with
    | nil => simp
    | cons x L =>
      cases hF : normL (flat t).1 with
      | nil =>
        cases hT : (flat t).2 with
        | none => simp [mkN]
        | some u =>
          have := norm_nonlist u (hnl u hT)
          simp only [Option.map_some, mkN, List.append_nil]
          exact norm_ilist_nonlist x L (norm u) this
      | cons y F =>
        cases hT : (flat t).2 with
        | none => simp [mkN]
        | some u => simp [mkN]
  | case4 t h1 h2 h3 => simp [mkN, normL]

/-! ### what `compare_list_terms` computes, on the cells -/

def tailBoth : Option Term → Option Term → Ordering
  | none, none => .eq
  | none, some t => compare listRank (rank t)
  | some t, none => compare (rank t) listRank
  | some x, some y => cmpN (norm x) (norm y)

def tailAOut : Option Term → Ordering
  | none => .lt
  | some t => compare (rank t) listRank

def tailBOut : Option Term → Ordering
  | none => .gt
  | some t => compare listRank (rank t)

def cellsSpec (fa : List Term) (ta : Option Term) (fb : List Term) (tb : Option Term) : Ordering :=
  cmpZip (normL fa) (normL fb) (tailBoth ta tb) (tailAOut ta) (tailBOut tb)

/-- on normal forms built from cells, `cmpN` is the cell-wise comparison -/
theorem cmpN_mkN (fa : List Term) (ta : Option Term) (fb : List Term) (tb : Option Term)
    (ha : fa = [] → ta = none) (hb : fb = [] → tb = none)
    (na : ∀ u, ta = some u → isListLike u = false) (nb : ∀ u, tb = some u → isListLike u = false) :
    cmpN (mkN (normL fa) (ta.map norm)) (mkN (normL fb) (tb.map norm)) = cellsSpec fa ta fb tb := by
  cases fa with
  | nil =>
    have := ha rfl; subst this
    cases fb with
    | nil => have := hb rfl; subst this; simp [mkN, normL, cellsSpec, cmpZip, tailBoth, cmpN]
    | cons y rb =>
      cases tb with
      | none => simp [mkN, normL, cellsSpec, cmpZip, tailAOut, cmpN]
      | some u => simp [mkN, normL, cellsSpec, cmpZip, tailAOut, cmpN]
  | cons x ra =>
    cases ta with
    | none =>
      cases fb with
      | nil => have := hb rfl; subst this; simp [mkN, normL, cellsSpec, cmpZip, tailBOut, cmpN]
      | cons y rb =>
        cases tb with
        | none => simp [mkN, normL, cellsSpec, tailBoth, tailAOut, tailBOut, cmpN]
        | some u =>
          have := rank_norm_nonlist u (nb u rfl)
          simp [mkN, normL, cellsSpec, tailBoth, tailAOut, tailBOut, cmpN, this]
    | some v =>
      have hv := rank_norm_nonlist v (na v rfl)
      cases fb with
      | nil => have := hb rfl; subst this; simp [mkN, normL, cellsSpec, cmpZip, tailBOut, cmpN]
      | cons y rb =>
        cases tb with
        | none => simp [mkN, normL, cellsSpec, tailBoth, tailAOut, tailBOut, cmpN, hv]
        | some u =>
          have := rank_norm_nonlist u (nb u rfl)
          simp [mkN, normL, cellsSpec, tailBoth, tailAOut, tailBOut, cmpN, this, hv]

/-! ### the refinement -/

theorem fastO_cmpN {a b : Term} {o : Ordering} (h : fastO a b = some o) : cmpN (norm a) (norm b) = o := by
  cases a <;> cases b <;> simp [fastO] at h <;> subst h <;> simp [norm, cmpN, bitParts]

theorem rank_norm_notEmptyIl (a : Term) (h : notEmptyIl a = true) : rank (norm a) = rankO a := by
  cases a with
  | list l => simp only [norm, rankO]; cases normL l <;> simp
  | ilist l t =>
    cases l with
    | nil => simp [notEmptyIl] at h
    | cons x r => simp only [norm, normL, rankO]; split <;> simp_all
  | _ => simp [norm, rankO]

theorem flat_listlike (a : Term) (hl : isListLike a = true) (hn : notEmptyIl a = true) :
    ((flat a).1 = [] → (flat a).2 = none) ∧ tszL (flat a).1 + otsz (flat a).2 + 2 ≤ tsz a := by
  cases a with
  | nil => simp [flat, tszL, otsz, tsz]
  | list l => simp [flat, otsz, tsz]; omega
  | ilist l t =>
    cases l with
    | nil => simp [notEmptyIl] at hn
    | cons x r =>
      have := flat_size t
      simp only [flat, List.cons_append, tszL, tszL_append, tsz]
      exact ⟨fun h => by simp at h, by omega⟩
  | _ => simp [isListLike] at hl

theorem compare_nat_self (n : Nat) : compare n n = .eq := Nat.compare_eq_eq.mpr rfl

/-- the six mutually recursive functions of the arm-by-arm model against the eager model, by induction on the fuel -/
theorem armsO_refine (f : Nat) :
    (∀ a b, tsz a + tsz b + 1 ≤ f → cmpO f a b = cmpN (norm a) (norm b)) ∧
    (∀ ea ta eb tb, tszL (flatSt ea ta).1 + otsz (flatSt ea ta).2 + tszL (flatSt eb tb).1 + otsz (flatSt eb tb).2 + 2 ≤ f →
      cellsLoopO f ea ta eb tb = cellsSpec (flatSt ea ta).1 (flatSt ea ta).2 (flatSt eb tb).1 (flatSt eb tb).2) ∧
    (∀ x y, tszL x + tszL y + 1 ≤ f → zipLoopO f x y = cmpZip (normL x) (normL y) .eq .eq .eq) ∧
    (∀ x y, tszL x + tszL y + 1 ≤ f → termListsO f x y = cmpZip (normL x) (normL y) .eq .lt .gt) ∧
    (∀ x y, tszKV x + tszKV y + 1 ≤ f → keysLoopO f x y = cmpKeys (normKV x) (normKV y)) ∧
    (∀ x y, tszKV x + tszKV y + 1 ≤ f → valsLoopO f x y = cmpVals (normKV x) (normKV y)) := by
  induction f with
  | zero => refine ⟨?_, ?_, ?_, ?_, ?_, ?_⟩ <;> intros <;> omega
  | succ f ih =>
    obtain ⟨hc, hcells, hzip, hlists, hkeys, hvals⟩ := ih
    have hcase : ∀ a b, isListLike a = true → isListLike b = true → notEmptyIl a = true → notEmptyIl b = true →
        tsz a + tsz b ≤ f → cellsLoopO f [] (some a) [] (some b) = cmpN (norm a) (norm b) := by
      intro a b la lb na nb hs
      obtain ⟨a1, a2⟩ := flat_listlike a la na
      obtain ⟨b1, b2⟩ := flat_listlike b lb nb
      rw [hcells [] (some a) [] (some b) (by simp only [flatSt, List.nil_append]; omega)]
      simp only [flatSt, List.nil_append]
      rw [norm_eq_mkN a, norm_eq_mkN b]
      exact (cmpN_mkN _ _ _ _ a1 b1 (flat_tail_nonlist a) (flat_tail_nonlist b)).symm
    refine ⟨?_, ?_, ?_, ?_, ?_, ?_⟩
    · intro a0 b0 hsz
      rw [cmpO]
      have ha1 := norm_skipEmptyO a0
      have ha2 := tsz_skipEmptyO a0
      have ha3 := notEmptyIl_skipEmptyO a0
      have hb1 := norm_skipEmptyO b0
      have hb2 := tsz_skipEmptyO b0
      have hb3 := notEmptyIl_skipEmptyO b0
      rw [← ha1, ← hb1]
      generalize skipEmptyO a0 = a at *
      generalize skipEmptyO b0 = b at *
      have hsz' : tsz a + tsz b ≤ f := by omega
      clear ha1 hb1 ha2 hb2 hsz
      cases hf : fastO a b with
      | some o => simp only; exact (fastO_cmpN hf).symm
      | none =>
        simp only
        by_cases hr : rankO a = rankO b
        · rw [Nat.compare_eq_eq.mpr hr]
          simp only
          cases a <;> cases b <;> (try (simp [rankO] at hr; done))
          case tuple.tuple x y =>
            simp only [tsz] at hsz'
            simp [norm, cmpN, normL_length, hzip x y (by omega)]
          case map.map x y =>
            simp only [tsz] at hsz'
            simp [norm, cmpN, normKV_length, hkeys x y (by omega), hvals x y (by omega)]
          case ifun.ifun a1 u1 i1 n1 m1 oi1 ou1 p1 fr1 a2 u2 i2 n2 m2 oi2 ou2 p2 fr2 =>
            simp only [tsz] at hsz'
            simp [norm, cmpN, hlists fr1 fr2 (by omega)]
          all_goals first
            | (simp [norm, cmpN, bitParts]; done)
            | (simp only [bitPartsO]; simp [norm, cmpN, bitParts]; done)
            | (simp only [bitPartsO]; exact hcase _ _ rfl rfl ha3 hb3 hsz')
        · have hra := rank_norm_notEmptyIl a ha3
          have hrb := rank_norm_notEmptyIl b hb3
          rw [cmpN_of_rank_ne _ _ (by rw [hra, hrb]; exact hr), hra, hrb]
          have : compare (rankO a) (rankO b) ≠ .eq := fun h => hr (Nat.compare_eq_eq.mp h)
          cases h : compare (rankO a) (rankO b) <;> simp_all
    · intro ea ta eb tb hsz
      rw [cellsLoopO]
      have sa := nextO_spec ea ta
      have sb := nextO_spec eb tb
      generalize flatSt ea ta = A at *
      generalize flatSt eb tb = B at *
      obtain ⟨fa, tla⟩ := A
      obtain ⟨fb, tlb⟩ := B
      simp only at sa sb hsz ⊢
      cases fa with
      | nil =>
        obtain ⟨ea', ha'⟩ := sa.2 rfl
        cases fb with
        | nil =>
          obtain ⟨eb', hb'⟩ := sb.2 rfl
          rw [ha', hb']
          cases tla with
          | none => cases tlb <;> simp [cellsSpec, normL, cmpZip, tailBoth, rank_eq_rankO, listTypeOrderO, listRank]
          | some u =>
            cases tlb with
            | none => simp [cellsSpec, normL, cmpZip, tailBoth, rank_eq_rankO, listTypeOrderO, listRank]
            | some v =>
              simp only [cellsSpec, normL, cmpZip, tailBoth]
              exact hc u v (by simp only [otsz, tszL] at hsz; omega)
        | cons y rb =>
          obtain ⟨eb', tb', hb', _⟩ := sb.1 y rb rfl
          rw [ha', hb']
          cases tla <;> simp [cellsSpec, normL, cmpZip, tailAOut, rank_eq_rankO, listTypeOrderO, listRank]
      | cons x ra =>
        obtain ⟨ea', ta', ha', ha''⟩ := sa.1 x ra rfl
        cases fb with
        | nil =>
          obtain ⟨eb', hb'⟩ := sb.2 rfl
          rw [ha', hb']
          cases tlb <;> simp [cellsSpec, normL, cmpZip, tailBOut, rank_eq_rankO, listTypeOrderO, listRank]
        | cons y rb =>
          obtain ⟨eb', tb', hb', hb''⟩ := sb.1 y rb rfl
          rw [ha', hb']
          simp only
          rw [hc x y (by simp only [tszL] at hsz; omega),
            hcells ea' ta' eb' tb' (by rw [ha'', hb'']; simp only [tszL] at hsz ⊢; omega)]
          rw [ha'', hb'']
          simp only [cellsSpec, normL, cmpZip, thenO]
          cases cmpN (norm x) (norm y) <;> rfl
    · intro x y hsz
      cases x with
      | nil => cases y <;> simp [zipLoopO, normL, cmpZip]
      | cons x xs =>
        cases y with
        | nil => simp [zipLoopO, normL, cmpZip]
        | cons y ys =>
          simp only [tszL] at hsz
          simp only [zipLoopO, normL, cmpZip, thenO]
          rw [hc x y (by omega), hzip xs ys (by omega)]
          cases cmpN (norm x) (norm y) <;> rfl
    · intro x y hsz
      cases x with
      | nil => cases y <;> simp [termListsO, normL, cmpZip, Nat.compare_eq_lt]
      | cons x xs =>
        cases y with
        | nil => simp [termListsO, normL, cmpZip, Nat.compare_eq_gt]
        | cons y ys =>
          simp only [tszL] at hsz
          simp only [termListsO, normL, cmpZip, thenO]
          rw [hc x y (by omega), hlists xs ys (by omega)]
          cases cmpN (norm x) (norm y) <;> rfl
    · intro x y hsz
      cases x with
      | nil => cases y <;> simp [keysLoopO, normKV, cmpKeys]
      | cons p xs =>
        obtain ⟨k, v⟩ := p
        cases y with
        | nil => simp [keysLoopO, normKV, cmpKeys]
        | cons q ys =>
          obtain ⟨k2, v2⟩ := q
          simp only [tszKV] at hsz
          simp only [keysLoopO, normKV, cmpKeys, thenO]
          rw [hc k k2 (by omega), hkeys xs ys (by omega)]
          cases cmpN (norm k) (norm k2) <;> rfl
    · intro x y hsz
      cases x with
      | nil => cases y <;> simp [valsLoopO, normKV, cmpVals]
      | cons p xs =>
        obtain ⟨k, v⟩ := p
        cases y with
        | nil => simp [valsLoopO, normKV, cmpVals]
        | cons q ys =>
          obtain ⟨k2, v2⟩ := q
          simp only [tszKV] at hsz
          simp only [valsLoopO, normKV, cmpVals, thenO]
          rw [hc v v2 (by omega), hvals xs ys (by omega)]
          cases cmpN (norm v) (norm v2) <;> rfl

/-- the arm-by-arm model of `OwnedTerm::cmp`, run with the fuel the driver gives it, is `Term.cmp` -/
theorem cmpOwned_eq_cmp (a b : Term) : cmpOwned a b = Term.cmp a b :=
  (armsO_refine (tsz a + tsz b + 1)).1 a b (Nat.le_refl _)

end Edp
